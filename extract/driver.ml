(* driver.ml — runs the extracted model on a corpus file.
   usage: modelrun <corpus.txt>   (prints "<query number>\t<observation>" per query)
   The corpus format is described in DESIGN.md, Appendix A. *)
open Model
type nonrec string = Stdlib.String.t   (* Model.string (Coq's) shadows the built-in name *)

(* ---------- conversions between OCaml values and the extracted inductives ---------- *)
let ascii_of_char (c : char) : ascii =
  let n = Char.code c in
  let b i = (n lsr i) land 1 = 1 in
  Ascii (b 0, b 1, b 2, b 3, b 4, b 5, b 6, b 7)
let char_of_ascii (Ascii (b0,b1,b2,b3,b4,b5,b6,b7)) =
  let v b i = if b then 1 lsl i else 0 in
  Char.chr (v b0 0 + v b1 1 + v b2 2 + v b3 3 + v b4 4 + v b5 5 + v b6 6 + v b7 7)
let str_of_string (s : string) : str = List.init (String.length s) (fun i -> ascii_of_char s.[i])
let string_of_str (l : str) : string =
  let b = Buffer.create 16 in List.iter (fun a -> Buffer.add_char b (char_of_ascii a)) l; Buffer.contents b

let rec nat_of_int n = if n <= 0 then O else S (nat_of_int (n - 1))
let rec int_of_nat = function O -> 0 | S n -> 1 + int_of_nat n

let rec pos_of_int n = if n = 1 then XH else if n land 1 = 1 then XI (pos_of_int (n lsr 1)) else XO (pos_of_int (n lsr 1))
let z_of_int n : z = if n = 0 then Z0 else if n > 0 then Zpos (pos_of_int n) else Zneg (pos_of_int (- n))
let z10 = z_of_int 10
let z_of_dec (s : string) : z =
  let neg = String.length s > 0 && s.[0] = '-' in
  let start = if neg || (String.length s > 0 && s.[0] = '+') then 1 else 0 in
  let acc = ref Z0 in
  for i = start to String.length s - 1 do
    let d = Char.code s.[i] - 48 in
    if d < 0 || d > 9 then failwith ("bad integer: " ^ s);
    acc := Z.add (Z.mul !acc z10) (z_of_int d)
  done;
  if neg then Z.opp !acc else !acc
let rec int_of_pos = function XH -> 1 | XO p -> 2 * int_of_pos p | XI p -> 2 * int_of_pos p + 1
let small_int_of_z = function Z0 -> 0 | Zpos p -> int_of_pos p | Zneg p -> - (int_of_pos p)
let dec_of_z (x : z) : string =
  match x with
  | Z0 -> "0"
  | _ ->
    let neg = (match x with Zneg _ -> true | _ -> false) in
    let x = if neg then Z.opp x else x in
    let digits = Buffer.create 20 in
    let cur = ref x in
    while !cur <> Z0 do
      let (q, r) = Z.div_eucl !cur z10 in
      Buffer.add_char digits (Char.chr (48 + small_int_of_z r));
      cur := q
    done;
    let s = Buffer.contents digits in
    let n = String.length s in
    (if neg then "-" else "") ^ String.init n (fun i -> s.[n - 1 - i])

let hexval c = match c with
  | '0'..'9' -> Char.code c - 48 | 'a'..'f' -> Char.code c - 87 | 'A'..'F' -> Char.code c - 55
  | _ -> failwith "bad hex"
(* atoms carrying bytes are written x<hex> *)
let bytes_of_atom (a : string) : string =
  if String.length a = 0 || a.[0] <> 'x' then failwith ("expected x<hex>, got " ^ a);
  let n = (String.length a - 1) / 2 in
  String.init n (fun i -> Char.chr (hexval a.[1 + 2*i] * 16 + hexval a.[2 + 2*i]))
let str_of_atom a : str = str_of_string (bytes_of_atom a)
let hex_of_string (s : string) : string =
  let b = Buffer.create (2 * String.length s + 1) in
  Buffer.add_char b 'x';
  String.iter (fun c -> Buffer.add_string b (Printf.sprintf "%02x" (Char.code c))) s;
  Buffer.contents b
let hex_of_str (l : str) = hex_of_string (string_of_str l)

(* ---------- s-expressions ---------- *)
type sexp = A of string | L of sexp list
let parse_sexp (s : string) : sexp =
  let n = String.length s in
  let pos = ref 0 in
  let rec skip () = if !pos < n && (s.[!pos] = ' ' || s.[!pos] = '\t') then (incr pos; skip ()) in
  let rec parse () =
    skip ();
    if !pos >= n then failwith "sexp: unexpected end";
    if s.[!pos] = '(' then begin
      incr pos;
      let items = ref [] in
      let rec loop () =
        skip ();
        if !pos >= n then failwith "sexp: missing )";
        if s.[!pos] = ')' then incr pos else (items := parse () :: !items; loop ())
      in loop (); L (List.rev !items)
    end else begin
      let st = !pos in
      while !pos < n && s.[!pos] <> ' ' && s.[!pos] <> '(' && s.[!pos] <> ')' && s.[!pos] <> '\t' do incr pos done;
      A (String.sub s st (!pos - st))
    end
  in parse ()

let fail_sexp what = failwith ("bad sexp for " ^ what)

let lit_of = function
  | L [A "s"; A x] -> LStr (str_of_atom x)
  | L [A "i"; A n] -> LInt (z_of_dec n)
  | L [A "b"; A b] -> LBool (b = "1")
  | A "other" -> LOther
  | _ -> fail_sexp "lit"

let vmeta_of = function
  | L [A "ser"; A x] -> MSerialize (str_of_atom x)
  | L [A "tos"; A x] -> MToString (str_of_atom x)
  | L [A "msg"; A x] -> MMessage (str_of_atom x)
  | L [A "det"; A x] -> MDetailed (str_of_atom x)
  | L [A "doc"; A x] -> MDoc (str_of_atom x)
  | A "transparent" -> MTransparent
  | A "disabled" -> MDisabled
  | A "default" -> MDefault
  | L [A "dw"; A x] -> MDefaultWith (str_of_atom x)
  | L [A "aci"; A b] -> MAci (b = "1")
  | L (A "props" :: kvs) ->
      MProps (List.map (function L [A k; v] -> (str_of_atom k, lit_of v) | _ -> fail_sexp "prop") kvs)
  | _ -> fail_sexp "vmeta"

let emeta_of = function
  | L [A "sall"; A x] -> ESerializeAll (str_of_atom x)
  | A "aci" -> EAci
  | L [A "crate"; A x] -> ECrate (str_of_atom x)
  | A "phf" -> EUsePhf
  | L [A "prefix"; A x] -> EPrefix (str_of_atom x)
  | L [A "pety"; A x] -> EParseErrTy (str_of_atom x)
  | L [A "pefn"; A x] -> EParseErrFn (str_of_atom x)
  | A "cis" -> EConstIntoStr
  | _ -> fail_sexp "emeta"

let vis_of = function
  | "inherited" -> VInherited | "pub" -> VPub | "pubcrate" -> VPubCrate | "pubsuper" -> VPubSuper
  | _ -> fail_sexp "vis"

let dmeta_of = function
  | L (A "derive" :: ps) -> DDerive (List.map (function A x -> str_of_atom x | _ -> fail_sexp "derive") ps)
  | L [A "name"; A x] -> DName (str_of_atom x)
  | L [A "vis"; A v] -> DVis (vis_of v)
  | L [A "doc"; A x] -> DDoc (str_of_atom x)
  | L [A "other"; A x] -> DOther (str_of_atom x)
  | _ -> fail_sexp "dmeta"

let field_of = function
  | L [A name; A ty; A isref; L dws] ->
      { f_name = str_of_atom name; f_ty = str_of_atom ty; f_is_ref = (isref = "1");
        f_dw = List.map (function A x -> str_of_atom x | _ -> fail_sexp "dw") dws }
  | _ -> fail_sexp "field"

let fields_of = function
  | A "unit" -> FUnit
  | L (A "tuple" :: fs) -> FTuple (List.map field_of fs)
  | L (A "named" :: fs) -> FNamed (List.map field_of fs)
  | _ -> fail_sexp "fields"

let variant_of = function
  | L [A "v"; A id; fs; L (A "metas" :: ms); L [A "discr"; A d]; L (A "dmetas" :: dms)] ->
      { v_ident = str_of_atom id; v_fields = fields_of fs; v_metas = List.map vmeta_of ms;
        v_discr = (if d = "none" then None else Some (z_of_dec d));
        v_dmetas = List.map vmeta_of dms }
  | _ -> fail_sexp "variant"

let repr_of = function
  | "u8" -> RU8 | "u16" -> RU16 | "u32" -> RU32 | "u64" -> RU64 | "usize" -> RUsize
  | "i8" -> RI8 | "i16" -> RI16 | "i32" -> RI32 | "i64" -> RI64 | "isize" -> RIsize
  | _ -> ROther

let item_of = function
  | L [A "item"; A kind; A id; A nl; A nt; A nc; A vis; L (A "metas" :: ms); L (A "dmetas" :: dms);
       L [A "repr"; A r]; L (A "variants" :: vs)] ->
      { i_kind = (match kind with "enum" -> KEnum | "struct" -> KStruct | "union" -> KUnion | _ -> fail_sexp "kind");
        i_ident = str_of_atom id;
        i_lifetimes = nat_of_int (int_of_string nl);
        i_tparams = nat_of_int (int_of_string nt);
        i_cparams = nat_of_int (int_of_string nc);
        i_vis = vis_of vis;
        i_metas = List.map emeta_of ms;
        i_dmetas = List.map dmeta_of dms;
        i_repr = (if r = "none" then None else Some (repr_of r));
        i_variants = List.map variant_of vs }
  | _ -> fail_sexp "item"

(* ---------- observation printing ---------- *)
let gerr_name = function
  | GNonEnum -> "nonenum" | GOccurrence a -> "occurrence:" ^ string_of_str a | GLifetime -> "lifetime"
  | GNonUnit -> "nonunit" | GNonSingleField -> "nonsinglefield" | GDefaultField -> "defaultfield"
  | GUnknownStyle -> "unknownstyle" | GMissingParseErr -> "missingparseerr" | GBadProp -> "badprop"
  | GUnitInterp -> "unitinterp" | GEmptyBrace -> "emptybrace" | GBracket -> "bracket"
  | GBadIdent -> "badident" | GEmptyTable -> "emptytable" | GBadPath -> "badpath"

let res_str (f : 'a -> string) (r : 'a res) : string =
  match r with Ok a -> f a | Err e -> "generr:" ^ gerr_name e | Panic -> "genpanic"

let defaults n = "(" ^ String.concat "," (List.init n (fun _ -> "d")) ^ ")"

(* ---------- query kinds ---------- *)
let repr_code_cache : (int, from_repr_code res) Hashtbl.t = Hashtbl.create 64

let q_repr (k : int) (it : item) (legacy : bool) (args : string list) : string =
  let code =
    match Hashtbl.find_opt repr_code_cache k with
    | Some c -> c
    | None -> let c = if legacy then gen_from_repr_legacy it else gen_from_repr it in
              Hashtbl.replace repr_code_cache k c; c in
  res_str (fun c ->
    let show_one x =
      match run_from_repr c x with
      | None -> "none"
      | Some (i, nf) -> Printf.sprintf "v%d%s" (int_of_nat i) (defaults (int_of_nat nf)) in
    match args with
    | ["val"; d] -> show_one (z_of_dec d)
    | ["sweep"] ->
        (* every value of an 8- or 16-bit discriminant type; only the Some entries are listed *)
        let (lo, hi) = repr_range c.fr_ty in
        let lo = small_int_of_z lo and hi = small_int_of_z hi in
        if hi - lo > 70000 then failwith "sweep on a wide type";
        let b = Buffer.create 256 in
        for d = lo to hi do
          match run_from_repr c (z_of_int d) with
          | None -> ()
          | Some (i, nf) -> Buffer.add_string b (Printf.sprintf "%d:v%d%s;" d (int_of_nat i) (defaults (int_of_nat nf)))
        done;
        "[" ^ Buffer.contents b ^ "]"
    | ["const"] -> if c.fr_const then "const" else "nonconst"
    | _ -> failwith "bad repr query") code

let q_discr (it : item) : string =
  "[" ^ String.concat ";" (List.map dec_of_z (rustc_discr it.i_variants)) ^ "]"

let legacy = ref false

let dispatch (k : int) (it : item) (kind : string) (args : string list) : string =
  match kind with
  | "repr" -> q_repr k it !legacy args
  | "discr" -> q_discr it
  | _ -> failwith ("unknown query kind " ^ kind)

let () =
  let file = ref "" in
  Array.iteri (fun i a -> if i > 0 then (if a = "--legacy" then legacy := true else file := a)) Sys.argv;
  let ic = open_in !file in
  let defs : (int, item) Hashtbl.t = Hashtbl.create 256 in
  (try
    while true do
      let line = input_line ic in
      if String.length line > 4 && String.sub line 0 4 = "def " then begin
        let rest = String.sub line 4 (String.length line - 4) in
        let sp = String.index rest ' ' in
        let k = int_of_string (String.sub rest 0 sp) in
        let sx = parse_sexp (String.sub rest (sp + 1) (String.length rest - sp - 1)) in
        Hashtbl.replace defs k (item_of sx)
      end else if String.length line > 2 && String.sub line 0 2 = "q " then begin
        match String.split_on_char ' ' line with
        | _ :: n :: k :: kind :: args ->
            let k = int_of_string k in
            let it = (try Hashtbl.find defs k with Not_found -> failwith ("query on unknown def " ^ string_of_int k)) in
            let obs = (try dispatch k it kind args with Failure m -> "MODEL-FAILURE:" ^ m) in
            print_string n; print_char '\t'; print_endline obs
        | _ -> failwith ("bad query line: " ^ line)
      end
    done
  with End_of_file -> ());
  close_in ic
