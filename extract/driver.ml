(* driver.ml — runs the extracted model on a corpus file.
   usage: modelrun <corpus.txt>   (prints "<query number>\t<observation>" per query)
   The corpus format is described in DESIGN.md, Appendix A. *)
open Model
type nonrec string = Stdlib.String.t   (* Model.string (Coq's) shadows the built-in name *)

(* ---------- conversions between OCaml values and the extracted inductives ---------- *)
let ascii_of_char (c : char) : ascii =
  let n = Char.code c in
  let b i = (n lsr i) land 1 = 1 in
  Ascii (b 0, b 1, b 2, b 3, b 4, b 5, b 6, b 7)
let char_of_ascii (Ascii (b0,b1,b2,b3,b4,b5,b6,b7)) =
  let v b i = if b then 1 lsl i else 0 in
  Char.chr (v b0 0 + v b1 1 + v b2 2 + v b3 3 + v b4 4 + v b5 5 + v b6 6 + v b7 7)
let str_of_string (s : string) : str = List.init (String.length s) (fun i -> ascii_of_char s.[i])
let string_of_str (l : str) : string =
  let b = Buffer.create 16 in List.iter (fun a -> Buffer.add_char b (char_of_ascii a)) l; Buffer.contents b

let rec nat_of_int n = if n <= 0 then O else S (nat_of_int (n - 1))
let rec int_of_nat = function O -> 0 | S n -> 1 + int_of_nat n

let rec pos_of_int n = if n = 1 then XH else if n land 1 = 1 then XI (pos_of_int (n lsr 1)) else XO (pos_of_int (n lsr 1))
let z_of_int n : z = if n = 0 then Z0 else if n > 0 then Zpos (pos_of_int n) else Zneg (pos_of_int (- n))
let z10 = z_of_int 10
let z_of_dec (s : string) : z =
  let neg = String.length s > 0 && s.[0] = '-' in
  let start = if neg || (String.length s > 0 && s.[0] = '+') then 1 else 0 in
  let acc = ref Z0 in
  for i = start to String.length s - 1 do
    let d = Char.code s.[i] - 48 in
    if d < 0 || d > 9 then failwith ("bad integer: " ^ s);
    acc := Z.add (Z.mul !acc z10) (z_of_int d)
  done;
  if neg then Z.opp !acc else !acc
let rec int_of_pos = function XH -> 1 | XO p -> 2 * int_of_pos p | XI p -> 2 * int_of_pos p + 1
let small_int_of_z = function Z0 -> 0 | Zpos p -> int_of_pos p | Zneg p -> - (int_of_pos p)
let dec_of_z (x : z) : string =
  match x with
  | Z0 -> "0"
  | _ ->
    let neg = (match x with Zneg _ -> true | _ -> false) in
    let x = if neg then Z.opp x else x in
    let digits = Buffer.create 20 in
    let cur = ref x in
    while !cur <> Z0 do
      let (q, r) = Z.div_eucl !cur z10 in
      Buffer.add_char digits (Char.chr (48 + small_int_of_z r));
      cur := q
    done;
    let s = Buffer.contents digits in
    let n = String.length s in
    (if neg then "-" else "") ^ String.init n (fun i -> s.[n - 1 - i])

let hexval c = match c with
  | '0'..'9' -> Char.code c - 48 | 'a'..'f' -> Char.code c - 87 | 'A'..'F' -> Char.code c - 55
  | _ -> failwith "bad hex"
(* atoms carrying bytes are written x<hex> *)
let bytes_of_atom (a : string) : string =
  if String.length a = 0 || a.[0] <> 'x' then failwith ("expected x<hex>, got " ^ a);
  let n = (String.length a - 1) / 2 in
  String.init n (fun i -> Char.chr (hexval a.[1 + 2*i] * 16 + hexval a.[2 + 2*i]))
let str_of_atom a : str = str_of_string (bytes_of_atom a)
let hex_of_string (s : string) : string =
  let b = Buffer.create (2 * String.length s + 1) in
  Buffer.add_char b 'x';
  String.iter (fun c -> Buffer.add_string b (Printf.sprintf "%02x" (Char.code c))) s;
  Buffer.contents b
let hex_of_str (l : str) = hex_of_string (string_of_str l)

(* ---------- s-expressions ---------- *)
type sexp = A of string | L of sexp list
let parse_sexp (s : string) : sexp =
  let n = String.length s in
  let pos = ref 0 in
  let rec skip () = if !pos < n && (s.[!pos] = ' ' || s.[!pos] = '\t') then (incr pos; skip ()) in
  let rec parse () =
    skip ();
    if !pos >= n then failwith "sexp: unexpected end";
    if s.[!pos] = '(' then begin
      incr pos;
      let items = ref [] in
      let rec loop () =
        skip ();
        if !pos >= n then failwith "sexp: missing )";
        if s.[!pos] = ')' then incr pos else (items := parse () :: !items; loop ())
      in loop (); L (List.rev !items)
    end else begin
      let st = !pos in
      while !pos < n && s.[!pos] <> ' ' && s.[!pos] <> '(' && s.[!pos] <> ')' && s.[!pos] <> '\t' do incr pos done;
      A (String.sub s st (!pos - st))
    end
  in parse ()

let fail_sexp what = failwith ("bad sexp for " ^ what)

let lit_of = function
  | L [A "s"; A x] -> LStr (str_of_atom x)
  | L [A "i"; A n] -> LInt (z_of_dec n)
  | L [A "b"; A b] -> LBool (b = "1")
  | A "other" -> LOther
  | _ -> fail_sexp "lit"

let vmeta_of = function
  | L [A "ser"; A x] -> MSerialize (str_of_atom x)
  | L [A "tos"; A x] -> MToString (str_of_atom x)
  | L [A "msg"; A x] -> MMessage (str_of_atom x)
  | L [A "det"; A x] -> MDetailed (str_of_atom x)
  | L [A "doc"; A x] -> MDoc (str_of_atom x)
  | A "transparent" -> MTransparent
  | A "disabled" -> MDisabled
  | A "default" -> MDefault
  | L [A "dw"; A x] -> MDefaultWith (str_of_atom x)
  | L [A "aci"; A b] -> MAci (b = "1")
  | L (A "props" :: kvs) ->
      MProps (List.map (function L [A k; v] -> (str_of_atom k, lit_of v) | _ -> fail_sexp "prop") kvs)
  | _ -> fail_sexp "vmeta"

let emeta_of = function
  | L [A "sall"; A x] -> ESerializeAll (str_of_atom x)
  | A "aci" -> EAci
  | L [A "crate"; A x] -> ECrate (str_of_atom x)
  | A "phf" -> EUsePhf
  | L [A "prefix"; A x] -> EPrefix (str_of_atom x)
  | L [A "pety"; A x] -> EParseErrTy (str_of_atom x)
  | L [A "pefn"; A x] -> EParseErrFn (str_of_atom x)
  | A "cis" -> EConstIntoStr
  | _ -> fail_sexp "emeta"

let vis_of = function
  | "inherited" -> VInherited | "pub" -> VPub | "pubcrate" -> VPubCrate | "pubsuper" -> VPubSuper
  | _ -> fail_sexp "vis"

let dmeta_of = function
  | L (A "derive" :: ps) -> DDerive (List.map (function A x -> str_of_atom x | _ -> fail_sexp "derive") ps)
  | L [A "name"; A x] -> DName (str_of_atom x)
  | L [A "vis"; A v] -> DVis (vis_of v)
  | L [A "doc"; A x] -> DDoc (str_of_atom x)
  | L [A "other"; A x] -> DOther (str_of_atom x)
  | L (A "strum" :: ms) -> DStrum (List.map emeta_of ms)
  | _ -> fail_sexp "dmeta"

let field_of = function
  | L [A name; A ty; A isref; L dws] ->
      { f_name = str_of_atom name; f_ty = str_of_atom ty; f_is_ref = (isref = "1");
        f_dw = List.map (function A x -> str_of_atom x | _ -> fail_sexp "dw") dws }
  | _ -> fail_sexp "field"

let fields_of = function
  | A "unit" -> FUnit
  | L (A "tuple" :: fs) -> FTuple (List.map field_of fs)
  | L (A "named" :: fs) -> FNamed (List.map field_of fs)
  | _ -> fail_sexp "fields"

let variant_of = function
  | L [A "v"; A id; fs; L (A "metas" :: ms); L [A "discr"; A d]; L (A "dmetas" :: dms)] ->
      { v_ident = str_of_atom id; v_fields = fields_of fs; v_metas = List.map vmeta_of ms;
        v_discr = (if d = "none" then None else Some (z_of_dec d));
        v_dmetas = List.map vmeta_of dms }
  | _ -> fail_sexp "variant"

let repr_of = function
  | "u8" -> RU8 | "u16" -> RU16 | "u32" -> RU32 | "u64" -> RU64 | "usize" -> RUsize
  | "i8" -> RI8 | "i16" -> RI16 | "i32" -> RI32 | "i64" -> RI64 | "isize" -> RIsize
  | _ -> ROther

let item_of = function
  | L [A "item"; A kind; A id; A nl; A nt; A nc; A vis; L (A "metas" :: ms); L (A "dmetas" :: dms);
       L [A "repr"; A r]; L (A "variants" :: vs)] ->
      { i_kind = (match kind with "enum" -> KEnum | "struct" -> KStruct | "union" -> KUnion | _ -> fail_sexp "kind");
        i_ident = str_of_atom id;
        i_lifetimes = nat_of_int (int_of_string nl);
        i_tparams = nat_of_int (int_of_string nt);
        i_cparams = nat_of_int (int_of_string nc);
        i_vis = vis_of vis;
        i_metas = List.map emeta_of ms;
        i_dmetas = List.map dmeta_of dms;
        i_repr = (if r = "none" then None else Some (repr_of r));
        i_variants = List.map variant_of vs }
  | _ -> fail_sexp "item"

(* ---------- observation printing ---------- *)
let gerr_name = function
  | GNonEnum -> "nonenum" | GOccurrence a -> "occurrence:" ^ string_of_str a | GLifetime -> "lifetime"
  | GNonUnit -> "nonunit" | GNonSingleField -> "nonsinglefield" | GDefaultField -> "defaultfield"
  | GUnknownStyle -> "unknownstyle" | GMissingParseErr -> "missingparseerr" | GBadProp -> "badprop"
  | GUnitInterp -> "unitinterp" | GEmptyBrace -> "emptybrace" | GBracket -> "bracket"
  | GBadIdent -> "badident" | GEmptyTable -> "emptytable" | GBadPath -> "badpath"

let res_str (f : 'a -> string) (r : 'a res) : string =
  match r with Ok a -> f a | Err e -> "generr:" ^ gerr_name e | Panic -> "genpanic"

let defaults n = "(" ^ String.concat "," (List.init n (fun _ -> "d")) ^ ")"

(* ---------- query kinds ---------- *)
let memo (tbl : (int, 'a) Hashtbl.t) (k : int) (f : unit -> 'a) : 'a =
  match Hashtbl.find_opt tbl k with Some c -> c | None -> let c = f () in Hashtbl.replace tbl k c; c

let legacy = ref false
let i_nat = int_of_nat
let hexl (l : str list) = "[" ^ String.concat ";" (List.map hex_of_str l) ^ "]"

(* ----- FromRepr ----- *)
let repr_code_cache : (int, from_repr_code res) Hashtbl.t = Hashtbl.create 64
let q_repr (k : int) (it : item) (args : string list) : string =
  let code = memo repr_code_cache k (fun () -> if !legacy then gen_from_repr_legacy it else gen_from_repr it) in
  res_str (fun c ->
    let show_one x =
      match run_from_repr c x with
      | None -> "none"
      | Some (i, nf) -> Printf.sprintf "v%d%s" (i_nat i) (defaults (i_nat nf)) in
    match args with
    | ["val"; d] -> show_one (z_of_dec d)
    | ["sweep"] ->
        let (lo, hi) = repr_range c.fr_ty in
        let lo = small_int_of_z lo and hi = small_int_of_z hi in
        if hi - lo > 70000 then failwith "sweep on a wide type";
        let b = Buffer.create 256 in
        for d = lo to hi do
          match run_from_repr c (z_of_int d) with
          | None -> ()
          | Some (i, nf) -> Buffer.add_string b (Printf.sprintf "%d:v%d%s;" d (i_nat i) (defaults (i_nat nf)))
        done;
        "[" ^ Buffer.contents b ^ "]"
    | ["const"] -> if c.fr_const then "const" else "nonconst"
    | ["scan"; form] ->
        (* the #[repr] scan of from_repr.rs on the attribute AS WRITTEN: attributes separated by '|', hints by ',' *)
        let hint h = match String.trim h with
          | "u8" -> HInt RU8 | "u16" -> HInt RU16 | "u32" -> HInt RU32 | "u64" -> HInt RU64 | "usize" -> HInt RUsize
          | "i8" -> HInt RI8 | "i16" -> HInt RI16 | "i32" -> HInt RI32 | "i64" -> HInt RI64 | "isize" -> HInt RIsize
          | _ -> HOtherHint in
        let attrs = if form = "-" then [] else List.map (fun a -> List.map hint (String.split_on_char ',' a)) (String.split_on_char '|' form) in
        (match scan_repr attrs with
          | RU8 -> "u8" | RU16 -> "u16" | RU32 -> "u32" | RU64 -> "u64" | RUsize -> "usize"
          | RI8 -> "i8" | RI16 -> "i16" | RI32 -> "i32" | RI64 -> "i64" | RIsize -> "isize" | ROther -> "other")
    | ["prog"] ->
        (* the emitted body as the deep-embedded program of Model/ReprProg.v, in the format harness/genprobe `structfr` prints
           for the REAL expansion; `compiles` is the model's constant evaluation in the discriminant type *)
        let tyname = function
          | RU8 -> "u8" | RU16 -> "u16" | RU32 -> "u32" | RU64 -> "u64" | RUsize -> "usize"
          | RI8 -> "i8" | RI16 -> "i16" | RI32 -> "i32" | RI64 -> "i64" | RIsize -> "isize" | ROther -> "other" in
        (match gen_repr_prog it with
         | Ok p ->
           (match eval_chain p.rp_ty None p.rp_consts with
            | None -> "prog-does-not-compile"
            | Some _ ->
              Printf.sprintf "ty=%s|constfn=%d|consts=[%s]|arms=[%s]|wild=none" (tyname p.rp_ty) (if p.rp_const_fn then 1 else 0)
                (String.concat ";" (List.map (function CZero -> "zero" | CPrevPlus1 -> "prev" | COwn _ -> "own") p.rp_consts))
                (String.concat ";" (List.map (fun a -> Printf.sprintf "c%d:v%d:%d" (i_nat a.pa_const) (i_nat a.pa_variant) (i_nat a.pa_nfields)) p.rp_arms)))
         | _ -> "prog-generr")
    | _ -> failwith "bad repr query") code

let q_discr (it : item) : string =
  "[" ^ String.concat ";" (List.map dec_of_z (rustc_discr it.i_variants)) ^ "]"

(* ----- EnumString ----- *)
let param_str = function PDefault -> "d" | PWith f -> "w:" ^ string_of_str f
let params_str = function
  | PUnit -> "()"
  | PTuple l -> "(" ^ String.concat "," (List.map param_str l) ^ ")"
  | PNamed l -> "(" ^ String.concat "," (List.map (fun (_, p) -> param_str p) l) ^ ")"
let fs_cache : (int, from_str_code res) Hashtbl.t = Hashtbl.create 64
let q_fromstr (k : int) (it : item) (args : string list) : string =
  let code = memo fs_cache k (fun () -> gen_from_str it) in
  res_str (fun c ->
    match args with
    | [inp] ->
      let s = str_of_atom inp in
      let show = function
        | OVariant (v, ps) -> Printf.sprintf "v%d%s" (i_nat v) (params_str ps)
        | OCapture (v, _, _) -> Printf.sprintf "v%d(in)" (i_nat v)
        | ONotFound -> "err:notfound"
        | OCustom (f, a) -> "err:custom:" ^ string_of_str f ^ ":" ^ hex_of_str a in
      let a = show (run_from_str c s) and b = show (run_try_from c s) in
      "fs=" ^ a ^ "|tf=" ^ b ^ "|errty=" ^ (if c.fs_custom_err then "custom" else "strum")
    | _ -> failwith "bad fromstr query") code

let q_spell (it : item) : string =
  match tprops_of it, all_vprops it with
  | Ok tp, Ok ps ->
    "nonoverlap=" ^ (if non_overlap_b it then "1" else "0") ^ "|" ^
    String.concat "|" (List.mapi (fun i p ->
      Printf.sprintf "%d:%s%s%s%s:%s:%s" i (if p.vp_disabled then "d" else "e") (if p.vp_default then "D" else "")
        (if vci tp p then "c" else "") (if p.vp_transparent then "t" else "")
        (hexl (vspell tp p)) (hex_of_str (preferred_name tp.tp_style tp.tp_prefix p))) ps)
  | Err e, _ | _, Err e -> "generr:" ^ gerr_name e
  | _ -> "genpanic"

let iter_cache : (int, iter_code res) Hashtbl.t = Hashtbl.create 64
let ctor_str (c : ctor) = Printf.sprintf "v%d%s" (i_nat c.ct_variant) (defaults (i_nat c.ct_nfields))
(* structural summary of the model's from_str_code, in the format harness/genprobe prints for the REAL tokens *)
let q_struct (k : int) (it : item) (args : string list) : string =
  match args with
  | ["EnumString"] ->
    res_str (fun c ->
      let tgt (v, ps) = Printf.sprintf "v%d%s" (i_nat v) (params_str ps) in
      let phf = List.map (fun (key, t) -> hex_of_str key ^ ":" ^ tgt t) c.fs_phf in
      let arms = List.map (function
        | ArmExact (l, v, ps) -> "E:" ^ hex_of_str l ^ ":" ^ tgt (v, ps)
        | ArmGuard (l, v, ps) -> "G:" ^ hex_of_str l ^ ":" ^ tgt (v, ps)) c.fs_arms in
      let fall = (match c.fs_fall with
        | FNotFound -> "notfound"
        | FCustom f -> "custom:" ^ string_of_str f
        | FDefault (v, None) -> Printf.sprintf "default:v%d" (i_nat v)
        | FDefault (v, Some n) -> Printf.sprintf "default:v%d:%s" (i_nat v) (string_of_str n)) in
      Printf.sprintf "phf=[%s]|arms=[%s]|fall=%s|errty=%s|tryfrom=delegates" (String.concat ";" phf) (String.concat ";" arms) fall
        (if c.fs_custom_err then "custom" else "strum")) (memo fs_cache k (fun () -> gen_from_str it))
  | ["EnumIter"] ->
    res_str (fun c ->
      let cnt = iter_count c in
      let rec ocaml_of_coq (x : Model.string) : string =
        (match x with EmptyString -> "" | String (a, r) -> String.make 1 (char_of_ascii a) ^ ocaml_of_coq r) in
      Printf.sprintf "nth=%s|next_back=%s|size_hint=%s|next=nth0|len=hint0|table=[%s]"
        (ocaml_of_coq (show_stmt cnt prog_nth)) (ocaml_of_coq (show_stmt cnt prog_next_back))
        (ocaml_of_coq (show_stmt cnt prog_size_hint)) (String.concat ";" (List.map ctor_str (ic_table c))))
      (memo iter_cache k (fun () -> gen_iter it))
  | ["Display"] ->
    res_str (fun c ->
      let single = function
        | SingleTuple r -> "field0:" ^ (if r then "v" else "r")
        | SingleNamed (n, r) -> string_of_str n ^ ":" ^ (if r then "v" else "r") in
      let arm (i, b) = Printf.sprintf "v%d:%s" (i_nat i) (match b with
        | DStr l -> "S:" ^ hex_of_str l
        | DInner sg -> "I:" ^ single sg
        | DArgsNamed (l, names) -> "AN:" ^ hex_of_str l ^ ":" ^ String.concat "," (List.map string_of_str names)
        | DArgsPos (l, n) -> "AP:" ^ hex_of_str l ^ ":" ^ string_of_int (i_nat n)) in
      "[" ^ String.concat ";" (List.map arm c.mc_arms @ (if c.mc_wild_panic then ["W"] else [])) ^ "]") (gen_display it)
  | ["AsRefStr"] ->
    res_str (fun c ->
      let single = function
        | SingleTuple r -> "field0:" ^ (if r then "v" else "r")
        | SingleNamed (n, r) -> string_of_str n ^ ":" ^ (if r then "v" else "r") in
      let arm (i, b) = Printf.sprintf "v%d:%s" (i_nat i) (match b with AStr l -> "S:" ^ hex_of_str l | AInner sg -> "I:" ^ single sg) in
      "[" ^ String.concat ";" (List.map arm c.mc_arms @ (if c.mc_wild_panic then ["W"] else [])) ^ "]") (gen_as_ref it)
  | ["EnumIs"] ->
    res_str (fun ms -> "[" ^ String.concat ";" (List.map (fun m -> Printf.sprintf "%s:v%d" (string_of_str m.im_name) (i_nat m.im_variant)) ms) ^ "]") (gen_is it)
  | ["EnumTryAs"] ->
    res_str (fun ms -> "[" ^ String.concat ";" (List.concat_map (fun m ->
        let b = string_of_str m.tm_base and v = i_nat m.tm_variant and n = i_nat m.tm_nfields in
        [Printf.sprintf "%s:val:v%d:%d" b v n; Printf.sprintf "%s_ref:ref:v%d:%d" b v n; Printf.sprintf "%s_mut:mut:v%d:%d" b v n]) ms) ^ "]") (gen_try_as it)
  | ["EnumMessage"] ->
    res_str (fun c ->
      let tbl arms wild = "[" ^ String.concat ";" (List.map (fun (i, l) -> Printf.sprintf "v%d:%s" (i_nat i) (hex_of_str l)) arms @ (if wild then ["W"] else [])) ^ "]" in
      Printf.sprintf "msg=%s|det=%s|doc=%s|ser=[%s]" (tbl c.mg_msg c.mg_msg_wild) (tbl c.mg_det c.mg_det_wild) (tbl c.mg_doc c.mg_doc_wild)
        (String.concat ";" (List.map (fun (i, ls) -> Printf.sprintf "v%d:[%s]" (i_nat i) (String.concat "," (List.map hex_of_str ls))) c.mg_ser)))
      (gen_message it)
  | ["EnumProperty"] ->
    res_str (fun c ->
      let tbl show sel =
        "[" ^ String.concat ";" (List.map (fun (i, a) ->
                Printf.sprintf "v%d{%s}" (i_nat i) (String.concat "," (List.map (fun (k, v) -> hex_of_str k ^ "=" ^ show v) (sel a)))) c.pc_arms
              @ (if c.pc_wild then ["W"] else [])) ^ "]" in
      Printf.sprintf "str=%s|int=%s|bool=%s" (tbl hex_of_str (fun a -> a.pa_str)) (tbl dec_of_z (fun a -> a.pa_int))
        (tbl (fun b -> if b then "true" else "false") (fun a -> a.pa_bool))) (gen_props it)
  | _ -> failwith "no structural summary for this derive"

(* ----- Display & co ----- *)
let parse_spec (args : string list) : fspec =
  match args with
  | [fill; al; w; p] ->
    { sp_fill = (if fill = "-" then str_of_string " " else str_of_atom fill);
      sp_align = (match al with "-" -> None | "<" -> Some ALeft | ">" -> Some ARight | "^" -> Some ACenter | _ -> failwith "align");
      sp_width = (if w = "-" then None else Some (nat_of_int (int_of_string w)));
      sp_prec = (if p = "-" then None else Some (nat_of_int (int_of_string p))) }
  | [] -> { sp_fill = str_of_string " "; sp_align = None; sp_width = None; sp_prec = None }
  | _ -> failwith "bad spec"
let disp_cache : (int, dbody match_code res) Hashtbl.t = Hashtbl.create 64
let q_display (k : int) (it : item) (args : string list) : string =
  let code = memo disp_cache k (fun () -> gen_display it) in
  res_str (fun c ->
    match args with
    | _j :: i :: spec ->
      (match run_display c (nat_of_int (int_of_string i)) (parse_spec spec) with
       | OutStr s -> "str:" ^ hex_of_str s
       | OutInner _ -> "inner"
       | OutArgsNamed (lit, names) -> "argsn:" ^ hex_of_str lit ^ ":" ^ String.concat "," (List.map string_of_str names)
       | OutArgsPos (lit, n) -> "argsp:" ^ hex_of_str lit ^ ":" ^ string_of_int (i_nat n)
       | OutPanic -> "panic"
       | OutNoArm -> "noarm")
    | _ -> failwith "bad display query") code

let asref_cache : (int, abody match_code res) Hashtbl.t = Hashtbl.create 64
let q_asref (k : int) (it : item) (args : string list) : string =
  let code = memo asref_cache k (fun () -> gen_as_ref it) in
  res_str (fun c ->
    match args with
    | _j :: i :: _ ->
      (match run_as_ref c (nat_of_int (int_of_string i)) with
       | AOutStr s -> "str:" ^ hex_of_str s
       | AOutInner _ -> "inner"
       | AOutPanic -> "panic"
       | AOutNoArm -> "noarm")
    | _ -> failwith "bad asref query") code

let intostatic_cache : (int, into_static_code res) Hashtbl.t = Hashtbl.create 64
let q_intostatic (k : int) (it : item) (args : string list) : string =
  let code = memo intostatic_cache k (fun () -> gen_into_static it) in
  res_str (fun c ->
    match args with
    | _j :: i :: _ ->
      (match run_as_ref c.is_arms (nat_of_int (int_of_string i)) with
       | AOutStr s -> "str:" ^ hex_of_str s
       | AOutInner _ -> "inner"
       | AOutPanic -> "panic"
       | AOutNoArm -> "noarm") ^ (if c.is_const then "|const" else "|nonconst")
    | _ -> failwith "bad intostatic query") code

let tostring_cache : (int, tbody match_code res) Hashtbl.t = Hashtbl.create 64
let q_tostring (k : int) (it : item) (args : string list) : string =
  let code = memo tostring_cache k (fun () -> gen_to_string it) in
  res_str (fun c ->
    match args with
    | _j :: i :: _ ->
      (match run_match c (nat_of_int (int_of_string i)) with
       | MArm (TStr s) -> "str:" ^ hex_of_str s
       | MArm TInnerString -> "inner"
       | MPanic -> "panic"
       | MNoArm -> "noarm")
    | _ -> failwith "bad tostring query") code

let msg_cache : (int, msg_code res) Hashtbl.t = Hashtbl.create 64
(* C02: parse what the printing derives print (composition inside the model) *)
let q_roundtrip (k : int) (it : item) (args : string list) : string =
  match args with
  | _j :: i :: derives ->
    let vi = nat_of_int (int_of_string i) in
    let fsc = memo fs_cache k (fun () -> gen_from_str it) in
    let show_fs c s =
      (match run_from_str c s with
       | OVariant (v, ps) -> Printf.sprintf "v%d%s" (i_nat v) (params_str ps)
       | OCapture (v, _, _) -> Printf.sprintf "v%d(in)" (i_nat v)
       | ONotFound -> "err:notfound"
       | OCustom (f, a) -> "err:custom:" ^ string_of_str f ^ ":" ^ hex_of_str a) in
    res_str (fun c ->
      let nospec = parse_spec [] in
      let parts = List.filter_map (fun d ->
        match d with
        | "disp" -> Some ("disp=" ^ (match memo disp_cache k (fun () -> gen_display it) with
                      | Ok dc -> (match run_display dc vi nospec with OutStr s -> show_fs c s | OutPanic -> "panic" | _ -> "nonfixed")
                      | _ -> "generr"))
        | "tostr" -> Some ("tostr=" ^ (match memo tostring_cache k (fun () -> gen_to_string it) with
                      | Ok tc -> (match run_match tc vi with MArm (TStr s) -> show_fs c s | MPanic -> "panic" | _ -> "nonfixed")
                      | _ -> "generr"))
        | "asref" -> Some ("asref=" ^ (match memo asref_cache k (fun () -> gen_as_ref it) with
                      | Ok ac -> (match run_as_ref ac vi with AOutStr s -> show_fs c s | AOutPanic -> "panic" | _ -> "nonfixed")
                      | _ -> "generr"))
        | "into" -> Some ("into=" ^ (match memo intostatic_cache k (fun () -> gen_into_static it) with
                      | Ok ic -> (match run_as_ref ic.is_arms vi with AOutStr s -> show_fs c s | AOutPanic -> "panic" | _ -> "nonfixed")
                      | _ -> "generr"))
        | "sers" -> Some ("sers=" ^ (match memo msg_cache k (fun () -> gen_message it) with
                      | Ok mc -> (match run_serializations mc vi with
                                  | Some l -> "[" ^ String.concat ";" (List.map (show_fs c) l) ^ "]" | None -> "noarm")
                      | _ -> "generr"))
        | _ -> None) derives in
      String.concat "|" parts) fsc
  | _ -> failwith "bad roundtrip query"

(* C11: E::from_str(s)?.to_string() inside the model *)
let q_caprt (k : int) (it : item) (args : string list) : string =
  match args with
  | [inp] ->
    let s = str_of_atom inp in
    res_str (fun c ->
      match memo disp_cache k (fun () -> gen_display it) with
      | Ok dc ->
        let show vi captured =
          (match run_display dc vi (parse_spec []) with
           | OutStr x -> "str:" ^ hex_of_str x
           | OutInner _ -> (match captured with Some x -> "str:" ^ hex_of_str x | None -> "inner-default")
           | OutPanic -> "panic" | _ -> "other") in
        (match run_from_str c s with
         | OVariant (v, _) -> show v None
         | OCapture (v, _, x) -> show v (Some x)
         | ONotFound -> "err:notfound"
         | OCustom (f, a) -> "err:custom")
      | Err e -> "generr:" ^ gerr_name e
      | Panic -> "genpanic") (memo fs_cache k (fun () -> gen_from_str it))
  | _ -> failwith "bad caprt query"

let q_names (it : item) : string = res_str hexl (gen_variant_names it)

(* ----- EnumIter / EnumCount / VariantArray ----- *)
let q_iter (k : int) (it : item) : string =
  res_str (fun c -> "[" ^ String.concat ";" (List.map ctor_str (ic_table c)) ^ "]") (memo iter_cache k (fun () -> gen_iter it))
let q_count (it : item) : string = res_str (fun n -> string_of_int (i_nat n)) (gen_count it)
let q_array (it : item) : string =
  res_str (fun l -> "[" ^ String.concat ";" (List.map (fun n -> "v" ^ string_of_int (i_nat n)) l) ^ "]") (gen_variant_array it)

let w64 = z_of_dec "18446744073709551616"
let parse_hop (tok : string) : hop =
  (* "<slot>:<op>" or "c<slot>";  op: n | b | t<k> | u<k> | l | h *)
  if tok.[0] = 'c' then HClone (nat_of_int (int_of_string (String.sub tok 1 (String.length tok - 1))))
  else
    let ci = String.index tok ':' in
    let slot = nat_of_int (int_of_string (String.sub tok 0 ci)) in
    let op = String.sub tok (ci + 1) (String.length tok - ci - 1) in
    let arg () = z_of_dec (String.sub op 1 (String.length op - 1)) in
    HOp (slot, (match op.[0] with
      | 'n' -> OpNext | 'b' -> OpNextBack | 't' -> OpNth (arg ()) | 'u' -> OpNthBack (arg ())
      | 'l' -> OpLen | 'h' -> OpSizeHint | _ -> failwith ("bad iterator op " ^ tok)))
(* std methods a generator could override (count, last, fold, rfold) and the consuming adapters, applied to a CLONE of a slot after
   any history: each is the list semantics of the remaining items, expressed as calls on a fresh clone (which takes the next slot
   number on both sides):  K count = len;  Z last = next_back;  G / D collect / fold = cnt+1 x next;  R / E rev-collect / rfold =
   cnt+1 x next_back *)
let expand_hops (cnt : int) (args : string list) : hop list =
  (* logical slot (the index the corpus uses, = index in the implementation's vector of iterators) -> physical slot of the model.
     `F<a>><b>` is `its[b].clone_from(&its[a])`: the model clones a into a fresh physical slot and lets logical b name it *)
  let phys = ref [| 0 |] in
  let nphys = ref 1 in
  let push_logical p = phys := Array.append !phys [| p |] in
  let fresh () = let m = !nphys in incr nphys; m in
  List.concat_map (fun tok ->
    if tok.[0] = 'c' then begin
      let j = int_of_string (String.sub tok 1 (String.length tok - 1)) in
      let m = fresh () in
      let h = HClone (nat_of_int (!phys).(j)) in
      push_logical m; [h]
    end else if tok.[0] = 'F' then begin
      let gt = String.index tok '>' in
      let a = int_of_string (String.sub tok 1 (gt - 1)) and b = int_of_string (String.sub tok (gt + 1) (String.length tok - gt - 1)) in
      let m = fresh () in
      let h = HClone (nat_of_int (!phys).(a)) in
      (!phys).(b) <- m; [h]
    end else
      let ci = String.index tok ':' in
      let slot = int_of_string (String.sub tok 0 ci) in
      let op = tok.[ci + 1] in
      if String.contains "KZGDRE" op then begin
        let m = fresh () in
        let h = HClone (nat_of_int (!phys).(slot)) in
        push_logical m;
        let on o = HOp (nat_of_int m, o) in
        h ::
        (match op with
         | 'K' -> [on OpLen]
         | 'Z' -> [on OpNextBack]
         | 'G' | 'D' -> List.init (cnt + 1) (fun _ -> on OpNext)
         | _ -> List.init (cnt + 1) (fun _ -> on OpNextBack))
      end else
        (match parse_hop tok with
         | HOp (_, o) -> [HOp (nat_of_int (!phys).(slot), o)]
         | h -> [h])) args
let q_iterops (k : int) (it : item) (args : string list) : string =
  res_str (fun c ->
    let cnt = iter_count c in
    let hs = expand_hops (small_int_of_z cnt) args in
    let show mode =
      let step = if !legacy then it_step_legacy w64 mode cnt else it_step w64 mode cnt in
      let obs = run_hist step [ist0] hs in
      String.concat ";" (List.filter_map (fun o ->
        match o with
        | None -> None
        | Some (ObsItem None) -> Some "none"
        | Some (ObsItem (Some kz)) ->
            (match iter_get c kz with Some ct -> Some ("v" ^ string_of_int (i_nat ct.ct_variant)) | None -> Some "none")
        | Some (ObsLen n) -> Some ("len=" ^ dec_of_z n)
        | Some (ObsHint (a, b)) -> Some ("hint=" ^ dec_of_z a ^ "," ^ dec_of_z b)
        | Some ObsPanic -> Some "panic") obs) in
    "debug=" ^ show Debug ^ "|release=" ^ show Release) (memo iter_cache k (fun () -> gen_iter it))

(* std's adapters, expressed as call sequences on the modelled iterator (modelled std behaviour:
   Skip::next = nth(n) once then next; StepBy::next = next once then nth(step-1); Rev = next_back;
   Skip::next_back = next_back while len() > n; Cycle restarts from a clone; count/last/take = next) *)
exception Model_panic
let q_adapt (k : int) (it : item) (args : string list) : string =
  res_str (fun c ->
    let cnt = iter_count c in
    let run mode =
      let st = ref ist0 in
      let step op = let (s', o) = it_step w64 mode cnt !st op in st := s'; o in
      let item op = (match step op with
        | ObsItem None -> None
        | ObsItem (Some kz) -> (match iter_get c kz with Some ct -> Some (i_nat ct.ct_variant) | None -> None)
        | ObsPanic -> raise Model_panic | _ -> failwith "adapt: unexpected observation") in
      let len () = (match step OpLen with ObsLen n -> small_int_of_z n | ObsPanic -> raise Model_panic | _ -> failwith "adapt") in
      let drain first op =
        let out = ref [] in
        let fuel = ref (small_int_of_z cnt + 2) in
        let cur = ref first in
        while !cur <> None && !fuel > 0 do
          (match !cur with Some v -> out := v :: !out | None -> ());
          decr fuel; cur := item op
        done; List.rev !out in
      let name, n = (match String.index_opt (List.hd args) ':' with
        | Some ci -> let a = List.hd args in (String.sub a 0 ci, String.sub a (ci + 1) (String.length a - ci - 1))
        | None -> (List.hd args, "0")) in
      let nz = z_of_dec n in
      let ni = (try int_of_string n with _ -> max_int) in
      let vs l = "[" ^ String.concat ";" (List.map (fun v -> "v" ^ string_of_int v) l) ^ "]" in
      try
        (match name with
         | "skip" -> if ni > 0 then vs (drain (item (OpNth nz)) OpNext) else vs (drain (item OpNext) OpNext)
         | "stepby" -> if ni = 0 then "panic" else vs (drain (item OpNext) (OpNth (Z.sub nz (z_of_int 1))))
         | "rev" -> vs (drain (item OpNextBack) OpNextBack)
         | "skiprev" ->
             let out = ref [] in
             let continue = ref true in
             while !continue do
               if len () - ni > 0 then (match item OpNextBack with Some v -> out := v :: !out | None -> continue := false)
               else continue := false
             done; vs (List.rev !out)
         | "cycle" ->
             let out = ref [] in
             let left = ref ni in
             let stop = ref false in
             while !left > 0 && not !stop do
               (match item OpNext with
                | Some v -> out := v :: !out; decr left
                | None -> st := ist0; (match item OpNext with Some v -> out := v :: !out; decr left | None -> stop := true))
             done; vs (List.rev !out)
         | "count" -> "[" ^ string_of_int (List.length (drain (item OpNext) OpNext)) ^ "]"
         | "last" -> (match List.rev (drain (item OpNext) OpNext) with v :: _ -> "[v" ^ string_of_int v ^ "]" | [] -> "[none]")
         | "take" ->
             let out = ref [] in
             let left = ref ni in
             let stop = ref false in
             while !left > 0 && not !stop do
               decr left; (match item OpNext with Some v -> out := v :: !out | None -> stop := true)
             done; vs (List.rev !out)
         | _ -> failwith "bad adapter")
      with Model_panic -> "panic" in
    "debug=" ^ run Debug ^ "|release=" ^ run Release) (memo iter_cache k (fun () -> gen_iter it))

(* ----- EnumTable ----- *)
let table_cache : (int, table_code res) Hashtbl.t = Hashtbl.create 64
let split_on c s = String.split_on_char c s
let q_table (k : int) (it : item) (args : string list) : string =
  res_str (fun c ->
    let nslots = List.length c.tb_slots in
    let show_t (t : int list) = "[" ^ String.concat "," (List.map string_of_int t) ^ "]" in
    match args with
    | "slots" :: [] ->
        "[" ^ String.concat ";" (List.map (fun (v, n) -> Printf.sprintf "v%d:%s" (i_nat v) (string_of_str n)) c.tb_slots) ^ "]"
        ^ "|disabled=[" ^ String.concat ";" (List.map (fun v -> "v" ^ string_of_int (i_nat v)) c.tb_disabled) ^ "]"
    | ctor :: ops ->
      let t0 : int list =
        (match split_on ':' ctor with
         | ["new"; vals] -> tb_new (List.map int_of_string (split_on ',' vals))
         | ["filled"; x] -> tb_filled c (int_of_string x)
         | ["closure"] -> tb_from_closure c (fun v -> 10 * i_nat v + 1)
         | _ -> failwith "bad table ctor") in
      if List.length t0 <> nslots then failwith "table arity";
      let t = ref t0 in
      let out = List.map (fun op ->
        match op.[0] with
        | 'r' -> (match tb_index c !t (nat_of_int (int_of_string (String.sub op 1 (String.length op - 1)))) with
                  | TOk x -> string_of_int x | TPanic -> "panic" | TNoArm -> "noarm")
        | 'w' -> (match split_on '=' (String.sub op 1 (String.length op - 1)) with
                  | [v; x] -> (match tb_set c !t (nat_of_int (int_of_string v)) (int_of_string x) with
                               | TOk t' -> t := t'; "ok" | TPanic -> "panic" | TNoArm -> "noarm")
                  | _ -> failwith "bad write")
        | 'T' -> t := tb_transform c (fun v x -> x * 100 + i_nat v) !t; "t"
        | 'D' -> show_t !t
        | 'A' -> (* all(): slots listed in the mask (bit per slot position) are None *)
            let mask = int_of_string (String.sub op 1 (String.length op - 1)) in
            let opt = List.mapi (fun p x -> if (mask lsr p) land 1 = 1 then None else Some x) !t in
            (match tb_all opt with Some l -> "some" ^ show_t l | None -> "none")
        | 'O' -> (* all_ok(): slots in the mask are Err(position) *)
            let mask = int_of_string (String.sub op 1 (String.length op - 1)) in
            let rs = List.mapi (fun p x -> if (mask lsr p) land 1 = 1 then Inr p else Inl x) !t in
            (match tb_all_ok rs with Inl l -> "ok" ^ show_t l | Inr e -> "err" ^ string_of_int e)
        | _ -> failwith ("bad table op " ^ op)) ops in
      String.concat ";" out
    | _ -> failwith "bad table query") (memo table_cache k (fun () -> gen_table it))

(* ----- EnumIs / EnumTryAs ----- *)
let q_is (it : item) (args : string list) : string =
  res_str (fun ms ->
    match args with
    | ["names"] -> "[" ^ String.concat ";" (List.map (fun m -> string_of_str m.im_name) ms) ^ "]"
    | ["allnames"] ->
        (* the snake-cased name of EVERY declared variant (used to probe that no method exists for a disabled one) *)
        "[" ^ String.concat ";" (List.map (fun v -> string_of_str (snakify v.v_ident)) it.i_variants) ^ "]"
    | _j :: i :: _ ->
      let vi = nat_of_int (int_of_string i) in
      "[" ^ String.concat ";" (List.map (fun m -> string_of_str m.im_name ^ "=" ^ (if run_is m vi then "1" else "0")) ms) ^ "]"
    | _ -> failwith "bad is query") (gen_is it)
let q_tryas (it : item) (args : string list) : string =
  res_str (fun ms ->
    match args with
    | ["names"] -> "[" ^ String.concat ";" (List.map (fun m -> string_of_str m.tm_base) ms) ^ "]"
    | _j :: i :: _ ->
      let vi = nat_of_int (int_of_string i) in
      "[" ^ String.concat ";" (List.map (fun m ->
        string_of_str m.tm_base ^ "=" ^
        (match run_try_as m vi with
         | None -> "none"
         | Some l -> "some(" ^ String.concat "," (List.map (fun p -> "f" ^ string_of_int (i_nat p)) l) ^ ")")) ms) ^ "]"
    | _ -> failwith "bad tryas query") (gen_try_as it)

(* ----- EnumMessage / EnumProperty ----- *)
let oo_str = function
  | None -> "noarm" | Some None -> "none" | Some (Some s) -> "some:" ^ hex_of_str s
let q_msg (k : int) (it : item) (args : string list) : string =
  res_str (fun c ->
    match args with
    | _j :: i :: _ ->
      let vi = nat_of_int (int_of_string i) in
      "m=" ^ oo_str (run_message c vi) ^ "|d=" ^ oo_str (run_detailed c vi) ^ "|doc=" ^ oo_str (run_documentation c vi)
      ^ "|ser=" ^ (match run_serializations c vi with Some l -> hexl l | None -> "noarm")
    | _ -> failwith "bad msg query") (memo msg_cache k (fun () -> gen_message it))
let props_cache : (int, props_code res) Hashtbl.t = Hashtbl.create 64
let q_prop (k : int) (it : item) (args : string list) : string =
  res_str (fun c ->
    match args with
    | _j :: i :: key :: _ ->
      let vi = nat_of_int (int_of_string i) and key = str_of_atom key in
      let sh f = function None -> "noarm" | Some None -> "none" | Some (Some x) -> "some:" ^ f x in
      "s=" ^ sh hex_of_str (run_get_str c vi key) ^ "|i=" ^ sh dec_of_z (run_get_int c vi key)
      ^ "|b=" ^ sh (fun b -> if b then "1" else "0") (run_get_bool c vi key)
    | _ -> failwith "bad prop query") (memo props_cache k (fun () -> gen_props it))

(* ----- EnumDiscriminants ----- *)
let disc_cache : (int, discr_code res) Hashtbl.t = Hashtbl.create 64
let vis_name = function VInherited -> "inherited" | VPub -> "pub" | VPubCrate -> "pubcrate" | VPubSuper -> "pubsuper"
let repr_name = function
  | RU8 -> "u8" | RU16 -> "u16" | RU32 -> "u32" | RU64 -> "u64" | RUsize -> "usize"
  | RI8 -> "i8" | RI16 -> "i16" | RI32 -> "i32" | RI64 -> "i64" | RIsize -> "isize" | ROther -> "other"
let q_disc (k : int) (it : item) (args : string list) : string =
  res_str (fun c ->
    match args with
    | ["item"] ->
      let d = c.dc_item in
      Printf.sprintf "name=%s|vis=%s|repr=%s|derives=%s|variants=%s|discr=[%s]|intodisc=%d"
        (string_of_str d.i_ident) (vis_name d.i_vis)
        (match d.i_repr with None -> "none" | Some r -> repr_name r)
        (String.concat "," (List.map string_of_str c.dc_derives))
        (String.concat "," (List.map (fun v -> string_of_str v.v_ident) d.i_variants))
        (String.concat ";" (List.map dec_of_z (rustc_discr d.i_variants)))
        (if c.dc_into_discriminant then 1 else 0)
    | _j :: i :: _ ->
      (match run_discr_from c (nat_of_int (int_of_string i)) with
       | Some v -> "v" ^ string_of_int (i_nat v) | None -> "noarm")
    | _ -> failwith "bad disc query") (memo disc_cache k (fun () -> gen_discriminants it))

(* the generated discriminant enum as an item: queries of the other kinds can be run ON it *)
let disc_item (k : int) (it : item) : item =
  match memo disc_cache k (fun () -> gen_discriminants it) with
  | Ok c -> c.dc_item
  | _ -> failwith "EnumDiscriminants generator failed"

(* ----- casing ----- *)
let n_of_int k : n = if k = 0 then N0 else Npos (pos_of_int k)
let rec int_of_pos = function XH -> 1 | XO p -> 2 * int_of_pos p | XI p -> 2 * int_of_pos p + 1
let int_of_n = function N0 -> 0 | Npos p -> int_of_pos p
let cps_of_utf8 (s : string) : int list =
  let n = String.length s in
  let rec go i acc =
    if i >= n then List.rev acc else
    let b = Char.code s.[i] in
    let cont k = Char.code s.[i + k] land 0x3f in
    if b < 0x80 then go (i + 1) (b :: acc)
    else if b < 0xe0 then go (i + 2) ((((b land 0x1f) lsl 6) lor cont 1) :: acc)
    else if b < 0xf0 then go (i + 3) ((((b land 0x0f) lsl 12) lor (cont 1 lsl 6) lor cont 2) :: acc)
    else go (i + 4) ((((b land 0x07) lsl 18) lor (cont 1 lsl 12) lor (cont 2 lsl 6) lor cont 3) :: acc) in
  go 0 []
let utf8_of_cps (l : int list) : string =
  let b = Buffer.create 16 in
  List.iter (fun c ->
    if c < 0x80 then Buffer.add_char b (Char.chr c)
    else if c < 0x800 then (Buffer.add_char b (Char.chr (0xc0 lor (c lsr 6))); Buffer.add_char b (Char.chr (0x80 lor (c land 0x3f))))
    else if c < 0x10000 then (Buffer.add_char b (Char.chr (0xe0 lor (c lsr 12))); Buffer.add_char b (Char.chr (0x80 lor ((c lsr 6) land 0x3f)));
                              Buffer.add_char b (Char.chr (0x80 lor (c land 0x3f))))
    else (Buffer.add_char b (Char.chr (0xf0 lor (c lsr 18))); Buffer.add_char b (Char.chr (0x80 lor ((c lsr 12) land 0x3f)));
          Buffer.add_char b (Char.chr (0x80 lor ((c lsr 6) land 0x3f))); Buffer.add_char b (Char.chr (0x80 lor (c land 0x3f))))) l;
  Buffer.contents b
(* cp,<lower><upper><alnum>,lo.lo,up.up;... *)
let parse_table (t : string) : uentry list =
  let cpl x = if x = "" then [] else List.map (fun y -> n_of_int (int_of_string y)) (String.split_on_char '.' x) in
  List.map (fun e ->
    match String.split_on_char ',' e with
    | [cp; fl; lo; up] when String.length fl = 3 ->
        { e_cp = n_of_int (int_of_string cp); e_lower = (fl.[0] = '1'); e_upper = (fl.[1] = '1'); e_alnum = (fl.[2] = '1'); e_lo = cpl lo; e_up = cpl up }
    | _ -> failwith ("bad table entry " ^ e)) (List.filter (fun e -> e <> "") (String.split_on_char ';' t))
let with_table (id : string) (tab : string) (f : ucd -> n list -> n list) : string =
  let raw = bytes_of_atom id in
  (* Ident::unraw: `r#type` names `type` *)
  let raw = if String.length raw > 2 && String.sub raw 0 2 = "r#" then String.sub raw 2 (String.length raw - 2) else raw in
  let cps = List.map n_of_int (cps_of_utf8 raw) in
  let t = parse_table tab in
  if not (sigma_free cps) then "outside-model-domain"
  else if not (table_closed t cps) then "table-not-closed"
  else if not (table_disjoint t) then "table-not-disjoint"
  else hex_of_string (utf8_of_cps (List.map int_of_n (f (ucd_of_table t) cps)))

let q_casing (args : string list) : string =
  match args with
  | ["style"; s] -> (match style_of_string (str_of_atom s) with Some _ -> "ok" | None -> "unknown")
  | ["convert"; st; id] ->
      let st = if st = "-" then None else (match style_of_string (str_of_atom st) with Some x -> Some x | None -> failwith "unknown style") in
      hex_of_str (convert_case st (str_of_atom id))
  | ["snakify"; id] -> hex_of_str (snakify (str_of_atom id))
  (* identifiers in all of Unicode: Model/HeckU.v instantiated with the character table the probe printed from Rust's `char`
     methods (closed under the case mappings, Lowercase / Uppercase disjoint: both tested here); U+03A3 is outside the model's
     domain (context-dependent final sigma); without a table the query is left to the Rust reference *)
  | ["convertu"; st; id; tab] ->
      let st = if st = "-" then None else (match style_of_string (str_of_atom st) with Some x -> Some x | None -> failwith "unknown style") in
      with_table id tab (fun u cps -> uconvert_case u st cps)
  | ["snakifyu"; id; tab] -> with_table id tab (fun u cps -> usnakify u cps)
  | "convertu" :: _ | "snakifyu" :: _ -> "outside-model-domain"
  | ["stylename"; s] ->
      (match style_of_string (str_of_atom s) with
       | None -> "unknown"
       | Some st -> (match st with
           | CamelCase -> "CamelCase" | KebabCase -> "KebabCase" | MixedCase -> "MixedCase"
           | ShoutySnakeCase -> "ShoutySnakeCase" | SnakeCase -> "SnakeCase" | TitleCase -> "TitleCase"
           | UpperCase -> "UpperCase" | LowerCase -> "LowerCase" | ScreamingKebabCase -> "ScreamingKebabCase"
           | PascalCase -> "PascalCase" | TrainCase -> "TrainCase"))
  | ["sweep"; alpha; maxlen; st] ->
      (* every valid identifier over the alphabet up to maxlen, odometer order; FNV-1a digest per 4096 *)
      let alpha = bytes_of_atom alpha in
      let na = String.length alpha in
      let maxlen = int_of_string maxlen in
      let conv : str -> str =
        if st = "snakify" then snakify
        else if st = "-" then convert_case None
        else (match style_of_string (str_of_atom st) with Some x -> convert_case (Some x) | None -> failwith "unknown style") in
      let prime = 0x100000001b3L in
      let h = ref 0xcbf29ce484222325L in
      let feed (s : string) =
        String.iter (fun c -> h := Int64.mul (Int64.logxor !h (Int64.of_int (Char.code c))) prime) s;
        h := Int64.mul (Int64.logxor !h 10L) prime in
      let digests = ref [] in
      let inblock = ref 0 and total = ref 0 in
      for len = 1 to maxlen do
        let idx = Array.make len 0 in
        let fin = ref false in
        while not !fin do
          let s = String.init len (fun i -> alpha.[idx.(i)]) in
          if not (s.[0] >= '0' && s.[0] <= '9') && s <> "_" then begin
            feed (string_of_str (conv (str_of_string s)));
            incr inblock; incr total;
            if !inblock = 4096 then (digests := Printf.sprintf "%016Lx" !h :: !digests; h := 0xcbf29ce484222325L; inblock := 0)
          end;
          let p = ref (len - 1) in
          let carry = ref true in
          while !carry do
            if !p < 0 then (fin := true; carry := false)
            else begin
              idx.(!p) <- idx.(!p) + 1;
              if idx.(!p) < na then carry := false else (idx.(!p) <- 0; decr p)
            end
          done
        done
      done;
      if !inblock > 0 then digests := Printf.sprintf "%016Lx" !h :: !digests;
      string_of_int !total ^ ":" ^ String.concat "," (List.rev !digests)
  | _ -> failwith "bad casing query"

(* ----- outcome classes ----- *)
let derive_of = function
  | "EnumString" -> DvEnumString | "Display" -> DvDisplay | "AsRefStr" -> DvAsRefStr
  | "IntoStaticStr" -> DvIntoStaticStr | "VariantNames" -> DvVariantNames | "VariantArray" -> DvVariantArray
  | "EnumIter" -> DvEnumIter | "EnumCount" -> DvEnumCount | "FromRepr" -> DvFromRepr | "EnumTable" -> DvEnumTable
  | "EnumIs" -> DvEnumIs | "EnumTryAs" -> DvEnumTryAs | "EnumMessage" -> DvEnumMessage
  | "EnumProperty" -> DvEnumProperty | "EnumDiscriminants" -> DvEnumDiscriminants
  | "ToString" -> DvToString | "AsStaticStr" -> DvAsStaticStr
  | d -> failwith ("unknown derive " ^ d)
let rule_name = function
  | RNonEnum -> "nonenum" | RNonUnit -> "nonunit" | RLifetime -> "lifetime" | RDupVariantAttr -> "dupvariantattr"
  | RDupEnumAttr -> "dupenumattr" | RTwoDefaults -> "twodefaults" | RDefaultArity -> "defaultarity"
  | RTransparentArity -> "transparentarity" | RUnitPlaceholder -> "unitplaceholder" | RUnknownStyle -> "unknownstyle"
  | ROneParseErr -> "oneparseerr" | RBadPropLiteral -> "badpropliteral"
let q_outcome (it : item) (args : string list) : string =
  match args with
  | [d] ->
    let dv = derive_of d in
    let rules = List.filter (fun r -> rule_applies r dv it) all_rules in
    res_str (fun () -> "ok") (outcome dv it) ^ "|rules=" ^ String.concat "," (List.map rule_name rules)
  | _ -> failwith "bad outcome query"

(* ----- C19: the proved checker on references extracted from the real generated tokens ----- *)
let pref_of (t : string) : pref =
  let abs = String.length t >= 2 && String.sub t 0 2 = "::" in
  let body = if abs then String.sub t 2 (String.length t - 2) else t in
  let segs = List.filter (fun x -> x <> "") (String.split_on_char ':' body) in
  { p_abs = abs; p_segs = List.map str_of_string segs }
let q_refsok (args : string list) : string =
  match args with
  | strum :: binders :: user :: refs ->
    let csv s = List.filter (fun x -> x <> "") (String.split_on_char ',' s) in
    let strip2 s = String.sub s 2 (String.length s - 2) in
    let c = { c_strum = pref_of strum; c_binders = List.map str_of_string (csv (strip2 binders));
              c_user = List.map pref_of (csv (strip2 user)) } in
    let gref_of t = (match t.[0] with
      | 'P' -> GPath (pref_of (String.sub t 1 (String.length t - 1)))
      | 'M' -> GMacro (pref_of (String.sub t 1 (String.length t - 1)))
      | 'U' -> GUse (pref_of (String.sub t 1 (String.length t - 1)))
      | _ -> failwith "bad ref") in
    let bad = List.filter (fun t -> not (ref_ok c (gref_of t))) refs in
    let all_ok = refs_ok c (List.map gref_of refs) in
    if all_ok && bad = [] then "ok" else "bad:" ^ String.concat ";" bad
  | _ -> failwith "bad refsok query"

let rec dispatch (k : int) (it : item) (kind : string) (args : string list) : string =
  match kind with
  | "repr" -> q_repr k it args
  | "discr" -> q_discr it
  | "fromstr" -> q_fromstr k it args
  | "spell" -> q_spell it
  | "struct" -> q_struct k it args
  | "display" -> q_display k it args
  | "asref" -> q_asref k it args
  | "intostatic" | "asstatic" -> q_intostatic k it args
  | "tostring" -> q_tostring k it args
  | "names" -> q_names it
  | "roundtrip" -> q_roundtrip k it args
  | "caprt" -> q_caprt k it args
  | "iter" -> q_iter k it
  | "count" -> q_count it
  | "array" -> q_array it
  | "iterops" -> q_iterops k it args
  | "adapt" -> q_adapt k it args
  | "table" -> q_table k it args
  | "is" -> q_is it args
  | "tryas" -> q_tryas it args
  | "msg" -> q_msg k it args
  | "prop" -> q_prop k it args
  | "disc" -> q_disc k it args
  | "ondisc" ->
      (* a query of another kind evaluated on the generated discriminant enum *)
      (match args with
       | kind2 :: rest -> dispatch (k + 1000000) (disc_item k it) kind2 rest
       | [] -> failwith "bad ondisc query")
  | "ctor" -> "harness-decided"      (* how many payload values a call constructs: decided by the harness from the definition *)
  | "casing" -> q_casing args
  | "outcome" -> q_outcome it args
  | "refsok" -> q_refsok args
  | _ -> failwith ("unknown query kind " ^ kind)

let () =
  let file = ref "" in
  Array.iteri (fun i a -> if i > 0 then (if a = "--legacy" then legacy := true else file := a)) Sys.argv;
  let ic = open_in !file in
  let defs : (int, item) Hashtbl.t = Hashtbl.create 256 in
  let dummy = lazy (item_of (parse_sexp "(item enum x45 0 0 0 pub (metas) (dmetas) (repr none) (variants))")) in
  (try
    while true do
      let line = input_line ic in
      if String.length line > 4 && String.sub line 0 4 = "def " then begin
        let rest = String.sub line 4 (String.length line - 4) in
        let sp = String.index rest ' ' in
        let k = int_of_string (String.sub rest 0 sp) in
        let sx = parse_sexp (String.sub rest (sp + 1) (String.length rest - sp - 1)) in
        Hashtbl.replace defs k (item_of sx)
      end else if String.length line > 2 && String.sub line 0 2 = "q " then begin
        match String.split_on_char ' ' line with
        | _ :: n :: k :: kind :: args ->
            let k = int_of_string k in
            let it = if k < 0 then Lazy.force dummy else
              (try Hashtbl.find defs k with Not_found -> failwith ("query on unknown def " ^ string_of_int k)) in
            let obs = (try dispatch k it kind args with Failure m -> "MODEL-FAILURE:" ^ m | Not_found -> "MODEL-FAILURE:not_found"
                                                       | Invalid_argument m -> "MODEL-FAILURE:" ^ m) in
            print_string n; print_char '\t'; print_endline obs
        | _ -> failwith ("bad query line: " ^ line)
      end
    done
  with End_of_file -> ());
  close_in ic
