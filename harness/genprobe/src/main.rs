//! genprobe — the REAL strum_macros generator sources compiled as a library (outside a proc-macro
//! context, on proc-macro2's fallback implementation) and driven line by line.
//!   usage: genprobe <commands file>     answers `<n>\t<observation>` per command line
#![allow(dead_code, unused_imports, clippy::all)]
#[path = "/repo/strum_macros/src/helpers/mod.rs"]
mod helpers;
#[path = "/repo/strum_macros/src/macros/mod.rs"]
mod macros;

use helpers::case_style::{CaseStyle, CaseStyleHelpers};
use std::collections::BTreeSet;
use std::str::FromStr;
use syn::visit::Visit;
use syn::DeriveInput;

fn unhex(s: &str) -> String {
    let b = s.as_bytes();
    assert!(!b.is_empty() && b[0] == b'x', "expected x<hex>: {}", s);
    let h = |c: u8| -> u8 { match c { b'0'..=b'9' => c - b'0', b'a'..=b'f' => c - b'a' + 10, _ => panic!("bad hex") } };
    let mut out = Vec::new();
    let mut i = 1;
    while i + 1 < b.len() { out.push(h(b[i]) * 16 + h(b[i + 1])); i += 2; }
    String::from_utf8(out).unwrap()
}
fn hex(s: &str) -> String { let mut o = String::from("x"); for b in s.bytes() { o.push_str(&format!("{:02x}", b)); } o }

fn expand(derive: &str, ast: &DeriveInput) -> syn::Result<proc_macro2::TokenStream> {
    use macros::as_ref_str::GenerateTraitVariant;
    match derive {
        "EnumString" => macros::from_string::from_string_inner(ast),
        "Display" => macros::display::display_inner(ast),
        "AsRefStr" => macros::as_ref_str::as_ref_str_inner(ast),
        "IntoStaticStr" => macros::as_ref_str::as_static_str_inner(ast, &GenerateTraitVariant::From),
        "AsStaticStr" => macros::as_ref_str::as_static_str_inner(ast, &GenerateTraitVariant::AsStaticStr),
        "ToString" => macros::to_string::to_string_inner(ast),
        "VariantNames" => macros::enum_variant_names::enum_variant_names_inner(ast),
        "VariantArray" => macros::enum_variant_array::static_variants_array_inner(ast),
        "EnumIter" => macros::enum_iter::enum_iter_inner(ast),
        "EnumCount" => macros::enum_count::enum_count_inner(ast),
        "FromRepr" => macros::from_repr::from_repr_inner(ast),
        "EnumTable" => macros::enum_table::enum_table_inner(ast),
        "EnumIs" => macros::enum_is::enum_is_inner(ast),
        "EnumTryAs" => macros::enum_try_as::enum_try_as_inner(ast),
        "EnumMessage" => macros::enum_messages::enum_message_inner(ast),
        "EnumProperty" => macros::enum_properties::enum_properties_inner(ast),
        "EnumDiscriminants" => macros::enum_discriminants::enum_discriminants_inner(ast),
        _ => panic!("genprobe: unknown derive {}", derive),
    }
}

fn path_str(p: &syn::Path) -> String {
    let mut s = String::new();
    if p.leading_colon.is_some() { s.push_str("::"); }
    let segs: Vec<String> = p.segments.iter().map(|x| x.ident.to_string()).collect();
    s.push_str(&segs.join("::"));
    s
}

/// every path / macro / use in a token stream, and every name the code itself binds
#[derive(Default)]
struct Refs { paths: BTreeSet<String>, macros: BTreeSet<String>, uses: BTreeSet<String>, binders: BTreeSet<String> }
impl<'ast> Visit<'ast> for Refs {
    // built-in attributes (doc, allow, inline, must_use, repr, ..) are not name-resolved paths; the arguments of
    // #[derive(..)] are (derive macro names)
    fn visit_attribute(&mut self, a: &'ast syn::Attribute) {
        if a.path().is_ident("derive") {
            if let Ok(ps) = a.parse_args_with(syn::punctuated::Punctuated::<syn::Path, syn::Token![,]>::parse_terminated) {
                for p in ps.iter() { self.paths.insert(path_str(p)); }
            }
        }
    }
    fn visit_path(&mut self, p: &'ast syn::Path) { self.paths.insert(path_str(p)); syn::visit::visit_path(self, p); }
    fn visit_macro(&mut self, m: &'ast syn::Macro) {
        self.macros.insert(path_str(&m.path));
        // look inside the macro arguments: expressions separated by commas (format_args!, panic!, concat!, phf_map!)
        let toks = m.tokens.clone();
        if let Ok(args) = syn::parse::Parser::parse2(syn::punctuated::Punctuated::<syn::Expr, syn::Token![,]>::parse_terminated, toks.clone()) {
            for a in args.iter() { self.visit_expr(a); }
        } else if let Ok(arms) = syn::parse::Parser::parse2(|input: syn::parse::ParseStream| {
            let mut v = Vec::new();
            while !input.is_empty() { let _k: syn::Expr = input.parse()?; input.parse::<syn::Token![=>]>()?; let e: syn::Expr = input.parse()?; v.push(e); let _ = input.parse::<syn::Token![,]>(); }
            Ok(v) }, toks) {
            for a in arms.iter() { self.visit_expr(a); }
        }
    }
    fn visit_item_use(&mut self, u: &'ast syn::ItemUse) {
        fn walk(t: &syn::UseTree, prefix: String, out: &mut Refs) {
            match t {
                syn::UseTree::Path(p) => walk(&p.tree, format!("{}{}::", prefix, p.ident), out),
                syn::UseTree::Name(n) => { out.uses.insert(format!("{}{}", prefix, n.ident)); out.binders.insert(n.ident.to_string()); }
                syn::UseTree::Rename(r) => { out.uses.insert(format!("{}{}", prefix, r.ident)); out.binders.insert(r.rename.to_string()); }
                syn::UseTree::Glob(_) => { out.uses.insert(format!("{}*", prefix)); }
                syn::UseTree::Group(g) => for x in g.items.iter() { walk(x, prefix.clone(), out) },
            }
        }
        walk(&u.tree, if u.leading_colon.is_some() { "::".to_string() } else { String::new() }, self);
    }
    fn visit_pat_ident(&mut self, p: &'ast syn::PatIdent) { self.binders.insert(p.ident.to_string()); syn::visit::visit_pat_ident(self, p); }
    fn visit_item_struct(&mut self, i: &'ast syn::ItemStruct) { self.binders.insert(i.ident.to_string()); syn::visit::visit_item_struct(self, i); }
    fn visit_item_enum(&mut self, i: &'ast syn::ItemEnum) { self.binders.insert(i.ident.to_string()); syn::visit::visit_item_enum(self, i); }
    fn visit_item_const(&mut self, i: &'ast syn::ItemConst) { self.binders.insert(i.ident.to_string()); syn::visit::visit_item_const(self, i); }
    fn visit_item_static(&mut self, i: &'ast syn::ItemStatic) { self.binders.insert(i.ident.to_string()); syn::visit::visit_item_static(self, i); }
    fn visit_item_fn(&mut self, i: &'ast syn::ItemFn) { self.binders.insert(i.sig.ident.to_string()); syn::visit::visit_item_fn(self, i); }
    fn visit_impl_item_fn(&mut self, i: &'ast syn::ImplItemFn) { self.binders.insert(i.sig.ident.to_string()); syn::visit::visit_impl_item_fn(self, i); }
    fn visit_generic_param(&mut self, g: &'ast syn::GenericParam) {
        match g { syn::GenericParam::Type(t) => { self.binders.insert(t.ident.to_string()); }
                  syn::GenericParam::Const(c) => { self.binders.insert(c.ident.to_string()); } _ => {} }
        syn::visit::visit_generic_param(self, g);
    }
    fn visit_impl_item_type(&mut self, i: &'ast syn::ImplItemType) { self.binders.insert(i.ident.to_string()); syn::visit::visit_impl_item_type(self, i); }
    fn visit_impl_item_const(&mut self, i: &'ast syn::ImplItemConst) { self.binders.insert(i.ident.to_string()); syn::visit::visit_impl_item_const(self, i); }
}

fn refs_of_file(ts: proc_macro2::TokenStream) -> Result<Refs, String> {
    let f: syn::File = syn::parse2(ts).map_err(|e| format!("generated tokens do not parse as items: {}", e))?;
    let mut r = Refs::default();
    r.visit_file(&f);
    Ok(r)
}
/// paths written by the USER in the derive input (types, discriminant expressions, attribute arguments)
fn user_refs(ast: &DeriveInput) -> Refs {
    let mut r = Refs::default();
    r.visit_derive_input(ast);
    // attribute arguments that strum re-emits as paths / tokens
    fn scan_attrs(attrs: &[syn::Attribute], r: &mut Refs) {
        for a in attrs {
            if let Ok(list) = a.meta.require_list() {
                for tt in list.tokens.clone() { scan_tt(tt, r); }
            }
        }
    }
    fn scan_tt(tt: proc_macro2::TokenTree, r: &mut Refs) {
        match tt {
            proc_macro2::TokenTree::Group(g) => {
                if let Ok(p) = syn::parse2::<syn::Path>(g.stream()) { r.paths.insert(path_str(&p)); }
                let mut acc: Vec<proc_macro2::TokenTree> = Vec::new();
                for x in g.stream() {
                    let is_comma = matches!(&x, proc_macro2::TokenTree::Punct(p) if p.as_char() == ',' );
                    if is_comma { if let Ok(p) = syn::parse2::<syn::Path>(acc.drain(..).collect()) { r.paths.insert(path_str(&p)); } }
                    else { acc.push(x.clone()); }
                    scan_tt(x, r);
                }
                if let Ok(p) = syn::parse2::<syn::Path>(acc.drain(..).collect()) { r.paths.insert(path_str(&p)); }
            }
            proc_macro2::TokenTree::Literal(l) => {
                let s = l.to_string();
                if s.starts_with('"') {
                    if let Ok(ls) = syn::parse_str::<syn::LitStr>(&s) {
                        if let Ok(p) = ls.parse::<syn::Path>() { r.paths.insert(path_str(&p)); }
                    }
                }
            }
            proc_macro2::TokenTree::Ident(i) => { r.paths.insert(i.to_string()); }
            _ => {}
        }
    }
    scan_attrs(&ast.attrs, &mut r);
    if let syn::Data::Enum(e) = &ast.data {
        for v in e.variants.iter() {
            scan_attrs(&v.attrs, &mut r);
            for f in v.fields.iter() { scan_attrs(&f.attrs, &mut r); }
        }
    }
    r
}

fn fnv(h: &mut u64, s: &str) { for b in s.bytes() { *h ^= b as u64; *h = h.wrapping_mul(0x100000001b3); } *h ^= 10; *h = h.wrapping_mul(0x100000001b3); }

fn valid_ident(s: &str) -> bool {
    let b = s.as_bytes();
    !b.is_empty() && !(b[0] >= b'0' && b[0] <= b'9') && s != "_"
}

fn main() {
    std::panic::set_hook(Box::new(|_| {}));
    let path = std::env::args().nth(1).expect("commands file");
    let text = std::fs::read_to_string(&path).expect("read commands");
    let mut out = String::new();
    for line in text.lines() {
        let parts: Vec<&str> = line.split(' ').collect();
        if parts.len() < 2 { continue; }
        let n = parts[1];
        let obs: String = match parts[0] {
            "case" => {
                // case <n> <style hex | -> <ident hex>
                let style = if parts[2] == "-" { None } else { Some(CaseStyle::from_str(&unhex(parts[2])).expect("known style")) };
                let id = unhex(parts[3]);
                match std::panic::catch_unwind(|| { let ident = syn::Ident::new(&id, proc_macro2::Span::call_site()); ident.convert_case(style) }) {
                    Ok(s) => hex(&s), Err(_) => "panic".to_string() }
            }
            "style" => match CaseStyle::from_str(&unhex(parts[2])) { Ok(s) => format!("{:?}", s), Err(_) => "unknown".to_string() },
            "snakify" => hex(&helpers::snakify(&unhex(parts[2]))),
            "sweep" => {
                // sweep <n> <alphabet hex> <maxlen> <style hex | snakify>: one FNV-1a digest per block of 4096 valid identifiers
                let alpha: Vec<char> = unhex(parts[2]).chars().collect();
                let maxlen: usize = parts[3].parse().unwrap();
                let snak = parts[4] == "snakify";
                let style = if snak || parts[4] == "-" { None } else { Some(CaseStyle::from_str(&unhex(parts[4])).expect("known style")) };
                let mut digests: Vec<String> = Vec::new();
                let mut h: u64 = 0xcbf29ce484222325; let mut inblock = 0usize; let mut total = 0usize;
                for len in 1..=maxlen {
                    let mut idx = vec![0usize; len];
                    loop {
                        let s: String = idx.iter().map(|&i| alpha[i]).collect();
                        if valid_ident(&s) {
                            let r = if snak { helpers::snakify(&s) } else { syn::Ident::new(&s, proc_macro2::Span::call_site()).convert_case(style) };
                            fnv(&mut h, &r); inblock += 1; total += 1;
                            if inblock == 4096 { digests.push(format!("{:016x}", h)); h = 0xcbf29ce484222325; inblock = 0; }
                        }
                        let mut p = len;
                        loop { if p == 0 { break; } p -= 1; idx[p] += 1; if idx[p] < alpha.len() { break; } idx[p] = 0; if p == 0 { p = usize::MAX; break; } }
                        if p == usize::MAX { break; }
                    }
                }
                if inblock > 0 { digests.push(format!("{:016x}", h)); }
                format!("{}:{}", total, digests.join(","))
            }
            "expand" | "refs" => {
                // expand <n> <derive> <item source hex>
                let src = unhex(parts[3]);
                match syn::parse_str::<DeriveInput>(&src) {
                    Err(e) => format!("HARNESS-ITEM-DOES-NOT-PARSE:{}", hex(&e.to_string())),
                    Ok(ast) => {
                        let derive = parts[2].to_string();
                        let r = std::panic::catch_unwind(std::panic::AssertUnwindSafe(|| expand(&derive, &ast)));
                        match r {
                            Err(p) => { let m = p.downcast_ref::<String>().cloned().or_else(|| p.downcast_ref::<&str>().map(|s| s.to_string())).unwrap_or_default(); format!("panic:{}", hex(&m)) }
                            Ok(Err(e)) => { let st = e.span().start(); format!("err:{}:{}:{}", hex(&e.to_string()), st.line, st.column) }
                            Ok(Ok(ts)) => {
                                if parts[0] == "expand" { "ok".to_string() } else {
                                    match refs_of_file(ts) {
                                        Err(m) => format!("HARNESS-TOKENS:{}", hex(&m)),
                                        Ok(r) => {
                                            let u = user_refs(&ast);
                                            let mut binders = r.binders.clone();
                                            binders.insert(ast.ident.to_string());
                                            for g in ast.generics.params.iter() { match g { syn::GenericParam::Type(t) => { binders.insert(t.ident.to_string()); } syn::GenericParam::Const(c) => { binders.insert(c.ident.to_string()); } _ => {} } }
                                            let j = |s: &BTreeSet<String>| s.iter().cloned().collect::<Vec<_>>().join(",");
                                            format!("ok|paths={}|macros={}|uses={}|binders={}|user={}", j(&r.paths), j(&r.macros), j(&r.uses), j(&binders), j(&u.paths))
                                        }
                                    }
                                }
                            }
                        }
                    }
                }
            }
            _ => "HARNESS-UNKNOWN-COMMAND".to_string(),
        };
        out.push_str(n); out.push('\t'); out.push_str(&obs); out.push('\n');
    }
    print!("{}", out);
}
