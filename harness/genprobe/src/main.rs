//! genprobe — the REAL strum_macros generator sources compiled as a library (outside a proc-macro
//! context, on proc-macro2's fallback implementation) and driven line by line.
//!   usage: genprobe <commands file>     answers `<n>\t<observation>` per command line
#![allow(dead_code, unused_imports, clippy::all)]
#[path = "/repo/strum_macros/src/helpers/mod.rs"]
mod helpers;
#[path = "/repo/strum_macros/src/macros/mod.rs"]
mod macros;


/// A REFERENCE for identifiers outside the Coq model's domain (non-ASCII identifiers: the model is stated over ASCII bytes).
/// It is written against heck 0.5.0 directly from the documentation of `serialize_all` and shares no code with strum_macros:
/// a Rust-vs-Rust differential, labelled as such in the evidence.
mod reference {
    use heck::{ToKebabCase, ToLowerCamelCase, ToShoutySnakeCase, ToSnakeCase, ToTitleCase, ToTrainCase, ToUpperCamelCase};
    pub fn convert(style: Option<&str>, ident: &str) -> Option<String> {
        let style = match style { None => return Some(ident.to_string()), Some(s) => s };
        Some(match style {
            "PascalCase" | "camel_case" => ident.to_upper_camel_case(),
            "kebab-case" | "kebab_case" => ident.to_kebab_case(),
            "mixed_case" => ident.to_lower_camel_case(),
            "SCREAMING_SNAKE_CASE" | "shouty_snake_case" | "shouty_snek_case" => ident.to_shouty_snake_case(),
            "snake_case" | "snek_case" => ident.to_snake_case(),
            "title_case" => ident.to_title_case(),
            "UPPERCASE" => ident.to_uppercase(),
            "lowercase" => ident.to_lowercase(),
            "SCREAMING-KEBAB-CASE" => ident.to_kebab_case().to_uppercase(),
            "Train-Case" => ident.to_train_case(),
            // camelCase: PascalCase with its first CHARACTER lower-cased (by the Unicode mapping, whatever its width)
            "camelCase" => {
                let p = ident.to_upper_camel_case();
                let mut cs = p.chars();
                match cs.next() { None => String::new(), Some(c) => c.to_lowercase().chain(cs).collect() }
            }
            _ => return None,
        })
    }
    /// snake_case, and additionally every run of ASCII digits that follows a non-digit starts a new word
    pub fn snakify(ident: &str) -> String {
        let mut out = String::new();
        let mut prev: Option<char> = None;
        for c in ident.to_snake_case().chars() {
            if c.is_ascii_digit() { if let Some(p) = prev { if !p.is_ascii_digit() { out.push('_'); } } }
            out.push(c);
            prev = Some(c);
        }
        out
    }
}

/// the five `char` methods heck and strum call, for every scalar value in play (the identifier, the separators, and the
/// images under the case mappings, closed): `cp,<lower><upper><alnum>,lo.lo,up.up;...` — the database Model/HeckU.v is
/// instantiated with
fn chartab(id: &str) -> String {
    let mut set: BTreeSet<char> = id.chars().chain("_- ".chars()).collect();
    loop {
        let mut more: BTreeSet<char> = BTreeSet::new();
        for c in &set { for d in c.to_lowercase().chain(c.to_uppercase()) { if !set.contains(&d) { more.insert(d); } } }
        if more.is_empty() { break; }
        set.extend(more);
    }
    set.iter().map(|c| format!("{},{}{}{},{},{}", *c as u32, c.is_lowercase() as u8, c.is_uppercase() as u8, c.is_alphanumeric() as u8,
        c.to_lowercase().map(|d| (d as u32).to_string()).collect::<Vec<_>>().join("."),
        c.to_uppercase().map(|d| (d as u32).to_string()).collect::<Vec<_>>().join("."))).collect::<Vec<_>>().join(";")
}

use helpers::case_style::{CaseStyle, CaseStyleHelpers};
use std::collections::BTreeSet;
use std::str::FromStr;
use syn::visit::Visit;
use quote::ToTokens;
use syn::DeriveInput;

fn unhex(s: &str) -> String {
    let b = s.as_bytes();
    assert!(!b.is_empty() && b[0] == b'x', "expected x<hex>: {}", s);
    let h = |c: u8| -> u8 { match c { b'0'..=b'9' => c - b'0', b'a'..=b'f' => c - b'a' + 10, _ => panic!("bad hex") } };
    let mut out = Vec::new();
    let mut i = 1;
    while i + 1 < b.len() { out.push(h(b[i]) * 16 + h(b[i + 1])); i += 2; }
    String::from_utf8(out).unwrap()
}
fn hex(s: &str) -> String { let mut o = String::from("x"); for b in s.bytes() { o.push_str(&format!("{:02x}", b)); } o }

fn expand(derive: &str, ast: &DeriveInput) -> syn::Result<proc_macro2::TokenStream> {
    use macros::as_ref_str::GenerateTraitVariant;
    match derive {
        "EnumString" => macros::from_string::from_string_inner(ast),
        "Display" => macros::display::display_inner(ast),
        "AsRefStr" => macros::as_ref_str::as_ref_str_inner(ast),
        "IntoStaticStr" => macros::as_ref_str::as_static_str_inner(ast, &GenerateTraitVariant::From),
        "AsStaticStr" => macros::as_ref_str::as_static_str_inner(ast, &GenerateTraitVariant::AsStaticStr),
        "ToString" => macros::to_string::to_string_inner(ast),
        "VariantNames" => macros::enum_variant_names::enum_variant_names_inner(ast),
        "VariantArray" => macros::enum_variant_array::static_variants_array_inner(ast),
        "EnumIter" => macros::enum_iter::enum_iter_inner(ast),
        "EnumCount" => macros::enum_count::enum_count_inner(ast),
        "FromRepr" => macros::from_repr::from_repr_inner(ast),
        "EnumTable" => macros::enum_table::enum_table_inner(ast),
        "EnumIs" => macros::enum_is::enum_is_inner(ast),
        "EnumTryAs" => macros::enum_try_as::enum_try_as_inner(ast),
        "EnumMessage" => macros::enum_messages::enum_message_inner(ast),
        "EnumProperty" => macros::enum_properties::enum_properties_inner(ast),
        "EnumDiscriminants" => macros::enum_discriminants::enum_discriminants_inner(ast),
        _ => panic!("genprobe: unknown derive {}", derive),
    }
}

fn path_str(p: &syn::Path) -> String {
    let mut s = String::new();
    if p.leading_colon.is_some() { s.push_str("::"); }
    let segs: Vec<String> = p.segments.iter().map(|x| x.ident.to_string()).collect();
    s.push_str(&segs.join("::"));
    s
}

/// every path / macro / use in a token stream, and every name the code itself binds
#[derive(Default)]
struct Refs { paths: BTreeSet<String>, macros: BTreeSet<String>, uses: BTreeSet<String>, binders: BTreeSet<String> }
impl<'ast> Visit<'ast> for Refs {
    // built-in attributes (doc, allow, inline, must_use, repr, ..) are not name-resolved paths; the arguments of
    // #[derive(..)] are (derive macro names)
    fn visit_attribute(&mut self, a: &'ast syn::Attribute) {
        if a.path().is_ident("derive") {
            if let Ok(ps) = a.parse_args_with(syn::punctuated::Punctuated::<syn::Path, syn::Token![,]>::parse_terminated) {
                for p in ps.iter() { self.paths.insert(path_str(p)); }
            }
        }
    }
    fn visit_path(&mut self, p: &'ast syn::Path) { self.paths.insert(path_str(p)); syn::visit::visit_path(self, p); }
    fn visit_macro(&mut self, m: &'ast syn::Macro) {
        self.macros.insert(path_str(&m.path));
        // look inside the macro arguments: expressions separated by commas (format_args!, panic!, concat!, phf_map!)
        let toks = m.tokens.clone();
        if let Ok(args) = syn::parse::Parser::parse2(syn::punctuated::Punctuated::<syn::Expr, syn::Token![,]>::parse_terminated, toks.clone()) {
            for a in args.iter() { self.visit_expr(a); }
        } else if let Ok(arms) = syn::parse::Parser::parse2(|input: syn::parse::ParseStream| {
            let mut v = Vec::new();
            while !input.is_empty() { let _k: syn::Expr = input.parse()?; input.parse::<syn::Token![=>]>()?; let e: syn::Expr = input.parse()?; v.push(e); let _ = input.parse::<syn::Token![,]>(); }
            Ok(v) }, toks) {
            for a in arms.iter() { self.visit_expr(a); }
        }
    }
    fn visit_item_use(&mut self, u: &'ast syn::ItemUse) {
        fn walk(t: &syn::UseTree, prefix: String, out: &mut Refs) {
            match t {
                syn::UseTree::Path(p) => walk(&p.tree, format!("{}{}::", prefix, p.ident), out),
                syn::UseTree::Name(n) => { out.uses.insert(format!("{}{}", prefix, n.ident)); out.binders.insert(n.ident.to_string()); }
                syn::UseTree::Rename(r) => { out.uses.insert(format!("{}{}", prefix, r.ident)); out.binders.insert(r.rename.to_string()); }
                syn::UseTree::Glob(_) => { out.uses.insert(format!("{}*", prefix)); }
                syn::UseTree::Group(g) => for x in g.items.iter() { walk(x, prefix.clone(), out) },
            }
        }
        walk(&u.tree, if u.leading_colon.is_some() { "::".to_string() } else { String::new() }, self);
    }
    fn visit_pat_ident(&mut self, p: &'ast syn::PatIdent) { self.binders.insert(p.ident.to_string()); syn::visit::visit_pat_ident(self, p); }
    fn visit_item_struct(&mut self, i: &'ast syn::ItemStruct) { self.binders.insert(i.ident.to_string()); syn::visit::visit_item_struct(self, i); }
    fn visit_item_enum(&mut self, i: &'ast syn::ItemEnum) { self.binders.insert(i.ident.to_string()); syn::visit::visit_item_enum(self, i); }
    fn visit_item_const(&mut self, i: &'ast syn::ItemConst) { self.binders.insert(i.ident.to_string()); syn::visit::visit_item_const(self, i); }
    fn visit_item_static(&mut self, i: &'ast syn::ItemStatic) { self.binders.insert(i.ident.to_string()); syn::visit::visit_item_static(self, i); }
    fn visit_item_fn(&mut self, i: &'ast syn::ItemFn) { self.binders.insert(i.sig.ident.to_string()); syn::visit::visit_item_fn(self, i); }
    fn visit_impl_item_fn(&mut self, i: &'ast syn::ImplItemFn) { self.binders.insert(i.sig.ident.to_string()); syn::visit::visit_impl_item_fn(self, i); }
    fn visit_generic_param(&mut self, g: &'ast syn::GenericParam) {
        match g { syn::GenericParam::Type(t) => { self.binders.insert(t.ident.to_string()); }
                  syn::GenericParam::Const(c) => { self.binders.insert(c.ident.to_string()); } _ => {} }
        syn::visit::visit_generic_param(self, g);
    }
    fn visit_impl_item_type(&mut self, i: &'ast syn::ImplItemType) { self.binders.insert(i.ident.to_string()); syn::visit::visit_impl_item_type(self, i); }
    fn visit_impl_item_const(&mut self, i: &'ast syn::ImplItemConst) { self.binders.insert(i.ident.to_string()); syn::visit::visit_impl_item_const(self, i); }
}

fn refs_of_file(ts: proc_macro2::TokenStream) -> Result<Refs, String> {
    let f: syn::File = syn::parse2(ts).map_err(|e| format!("generated tokens do not parse as items: {}", e))?;
    let mut r = Refs::default();
    r.visit_file(&f);
    Ok(r)
}
/// paths written by the USER in the derive input (types, discriminant expressions, attribute arguments)
fn user_refs(ast: &DeriveInput) -> Refs {
    let mut r = Refs::default();
    r.visit_derive_input(ast);
    // attribute arguments that strum re-emits as paths / tokens
    fn scan_attrs(attrs: &[syn::Attribute], r: &mut Refs) {
        for a in attrs {
            if let Ok(list) = a.meta.require_list() {
                for tt in list.tokens.clone() { scan_tt(tt, r); }
            }
        }
    }
    fn scan_tt(tt: proc_macro2::TokenTree, r: &mut Refs) {
        match tt {
            proc_macro2::TokenTree::Group(g) => {
                if let Ok(p) = syn::parse2::<syn::Path>(g.stream()) { r.paths.insert(path_str(&p)); }
                let mut acc: Vec<proc_macro2::TokenTree> = Vec::new();
                for x in g.stream() {
                    let is_comma = matches!(&x, proc_macro2::TokenTree::Punct(p) if p.as_char() == ',' );
                    if is_comma { if let Ok(p) = syn::parse2::<syn::Path>(acc.drain(..).collect()) { r.paths.insert(path_str(&p)); } }
                    else { acc.push(x.clone()); }
                    scan_tt(x, r);
                }
                if let Ok(p) = syn::parse2::<syn::Path>(acc.drain(..).collect()) { r.paths.insert(path_str(&p)); }
            }
            proc_macro2::TokenTree::Literal(l) => {
                let s = l.to_string();
                if s.starts_with('"') {
                    if let Ok(ls) = syn::parse_str::<syn::LitStr>(&s) {
                        if let Ok(p) = ls.parse::<syn::Path>() { r.paths.insert(path_str(&p)); }
                    }
                }
            }
            proc_macro2::TokenTree::Ident(i) => { r.paths.insert(i.to_string()); }
            _ => {}
        }
    }
    scan_attrs(&ast.attrs, &mut r);
    if let syn::Data::Enum(e) = &ast.data {
        for v in e.variants.iter() {
            scan_attrs(&v.attrs, &mut r);
            for f in v.fields.iter() { scan_attrs(&f.attrs, &mut r); }
        }
    }
    r
}


// ---------------------------------------------------------------------------------------------------
// structural summary of the generated EnumString code (translation of the real tokens into the shape of
// the model's `from_str_code`): phf entries, match arms in order, fall-through, error type
// ---------------------------------------------------------------------------------------------------
fn variant_index(ast: &DeriveInput, id: &syn::Ident) -> Option<usize> {
    if let syn::Data::Enum(e) = &ast.data { e.variants.iter().position(|v| &v.ident == id) } else { None }
}
fn param_of(e: &syn::Expr) -> Result<String, String> {
    // Default::default()  |  some::path()
    if let syn::Expr::Call(c) = e {
        if !c.args.is_empty() { return Err("parameter call with arguments".into()); }
        if let syn::Expr::Path(p) = &*c.func {
            let s = path_str(&p.path);
            return Ok(if s == "Default::default" || s == "::core::default::Default::default" { "d".to_string() } else { format!("w:{}", s) });
        }
    }
    Err("unrecognised parameter expression".into())
}
fn target_of(ast: &DeriveInput, e: &syn::Expr) -> Result<String, String> {
    match e {
        syn::Expr::Path(p) => { let id = &p.path.segments.last().ok_or("empty path")?.ident; Ok(format!("v{}()", variant_index(ast, id).ok_or("unknown variant")?)) }
        syn::Expr::Call(c) => {
            let id = match &*c.func { syn::Expr::Path(p) => p.path.segments.last().ok_or("empty path")?.ident.clone(), _ => return Err("call of a non-path".into()) };
            let ps: Result<Vec<String>, String> = c.args.iter().map(param_of).collect();
            Ok(format!("v{}({})", variant_index(ast, &id).ok_or("unknown variant")?, ps?.join(",")))
        }
        syn::Expr::Struct(st) => {
            let id = &st.path.segments.last().ok_or("empty path")?.ident;
            let ps: Result<Vec<String>, String> = st.fields.iter().map(|f| param_of(&f.expr)).collect();
            Ok(format!("v{}({})", variant_index(ast, id).ok_or("unknown variant")?, ps?.join(",")))
        }
        _ => Err("unrecognised arm body".into()),
    }
}
fn lit_str_of(e: &syn::Expr) -> Option<String> {
    if let syn::Expr::Lit(l) = e { if let syn::Lit::Str(s) = &l.lit { return Some(s.value()); } }
    None
}
fn strip_result(e: &syn::Expr, which: &str) -> Option<syn::Expr> {
    // ::core::result::Result::Ok(x) / Err(x)
    if let syn::Expr::Call(c) = e {
        if let syn::Expr::Path(p) = &*c.func {
            if p.path.segments.last().map(|s| s.ident == which).unwrap_or(false) && c.args.len() == 1 { return Some(c.args[0].clone()); }
        }
    }
    None
}
fn fall_of(ast: &DeriveInput, e: &syn::Expr) -> Result<String, String> {
    if let Some(x) = strip_result(e, "Err") {
        return match &x {
            syn::Expr::Path(p) if p.path.segments.last().map(|s| s.ident == "VariantNotFound").unwrap_or(false) => Ok("notfound".to_string()),
            syn::Expr::Call(c) => {
                let ok_arg = c.args.len() == 1 && matches!(&c.args[0], syn::Expr::Path(p) if p.path.is_ident("s"));
                if let (true, syn::Expr::Path(p)) = (ok_arg, &*c.func) { Ok(format!("custom:{}", path_str(&p.path))) } else { Err("unrecognised error expression".into()) }
            }
            _ => Err("unrecognised error expression".into()),
        };
    }
    if let Some(x) = strip_result(e, "Ok") {
        let is_s_into = |a: &syn::Expr| matches!(a, syn::Expr::MethodCall(m) if m.method == "into" && matches!(&*m.receiver, syn::Expr::Path(p) if p.path.is_ident("s")));
        return match &x {
            syn::Expr::Call(c) if c.args.len() == 1 && is_s_into(&c.args[0]) => {
                if let syn::Expr::Path(p) = &*c.func { let id = &p.path.segments.last().ok_or("empty")?.ident; Ok(format!("default:v{}", variant_index(ast, id).ok_or("unknown variant")?)) } else { Err("bad default".into()) }
            }
            syn::Expr::Struct(st) if st.fields.len() == 1 && is_s_into(&st.fields[0].expr) => {
                let id = &st.path.segments.last().ok_or("empty")?.ident;
                let fname = match &st.fields[0].member { syn::Member::Named(n) => n.to_string(), syn::Member::Unnamed(i) => i.index.to_string() };
                Ok(format!("default:v{}:{}", variant_index(ast, id).ok_or("unknown variant")?, fname))
            }
            _ => Err("unrecognised default expression".into()),
        };
    }
    Err("unrecognised fall-through".into())
}
fn struct_from_str(ast: &DeriveInput, ts: proc_macro2::TokenStream) -> Result<String, String> {
    let f: syn::File = syn::parse2(ts).map_err(|e| format!("tokens do not parse: {}", e))?;
    let mut fromstr: Option<&syn::ItemImpl> = None;
    let mut tryfrom_ok = false;
    for it in &f.items {
        if let syn::Item::Impl(im) = it {
            if let Some((_, p, _)) = &im.trait_ {
                let last = p.segments.last().map(|s| s.ident.to_string()).unwrap_or_default();
                if last == "FromStr" { fromstr = Some(im); }
                if last == "TryFrom" {
                    // fn try_from(s: &str) -> .. { ::core::str::FromStr::from_str(s) }
                    for ii in &im.items { if let syn::ImplItem::Fn(m) = ii { if m.sig.ident == "try_from" && m.block.stmts.len() == 1 {
                        if let syn::Stmt::Expr(syn::Expr::Call(c), None) = &m.block.stmts[0] {
                            if let syn::Expr::Path(p) = &*c.func { if path_str(&p.path).ends_with("FromStr::from_str") && c.args.len() == 1 { tryfrom_ok = true; } }
                        } } } }
                }
            }
        }
    }
    let im = fromstr.ok_or("no FromStr impl")?;
    let mut errty = String::new();
    let mut body: Option<&syn::Block> = None;
    for ii in &im.items {
        match ii {
            syn::ImplItem::Type(t) if t.ident == "Err" => { if let syn::Type::Path(p) = &t.ty { errty = path_str(&p.path); } }
            syn::ImplItem::Fn(m) if m.sig.ident == "from_str" => body = Some(&m.block),
            _ => {}
        }
    }
    let body = body.ok_or("no from_str")?;
    let mut phf: Vec<String> = Vec::new();
    let n = body.stmts.len();
    if n == 0 { return Err("empty body".into()); }
    for st in &body.stmts[..n - 1] {
        match st {
            syn::Stmt::Item(syn::Item::Static(s)) => {
                if let syn::Expr::Macro(m) = &*s.expr {
                    let arms = syn::parse::Parser::parse2(|input: syn::parse::ParseStream| {
                        let mut v = Vec::new();
                        while !input.is_empty() { let k: syn::LitStr = input.parse()?; input.parse::<syn::Token![=>]>()?; let e: syn::Expr = input.parse()?; let _ = input.parse::<syn::Token![,]>(); v.push((k, e)); }
                        Ok(v) }, m.mac.tokens.clone()).map_err(|e| format!("phf_map! arguments: {}", e))?;
                    for (k, e) in arms { phf.push(format!("{}:{}", hex(&k.value()), target_of(ast, &e)?)); }
                } else { return Err("static without phf_map!".into()); }
            }
            syn::Stmt::Item(syn::Item::Use(_)) => {}
            syn::Stmt::Expr(syn::Expr::If(_), _) => {}       // if let Some(value) = PHF.get(s).cloned() { return Ok(value); }
            _ => return Err("unrecognised statement before the match".into()),
        }
    }
    let last = match &body.stmts[n - 1] { syn::Stmt::Expr(e, None) => e, _ => return Err("no tail expression".into()) };
    let mut arms: Vec<String> = Vec::new();
    let fall: String;
    let inner = strip_result(last, "Ok");
    if let Some(syn::Expr::Match(m)) = inner.as_ref() {
        let mut f2: Option<String> = None;
        for a in &m.arms {
            match (&a.pat, &a.guard) {
                (syn::Pat::Lit(l), None) => { let lit = lit_str_of(&syn::Expr::Lit(l.clone())).ok_or("non-string literal pattern")?; arms.push(format!("E:{}:{}", hex(&lit), target_of(ast, &a.body)?)); }
                (syn::Pat::Ident(_), Some((_, g))) => {
                    if let syn::Expr::MethodCall(mc) = &**g {
                        if mc.method == "eq_ignore_ascii_case" && mc.args.len() == 1 {
                            let lit = lit_str_of(&mc.args[0]).ok_or("guard argument is not a literal")?;
                            arms.push(format!("G:{}:{}", hex(&lit), target_of(ast, &a.body)?));
                            continue;
                        }
                    }
                    return Err("unrecognised guard".into());
                }
                (syn::Pat::Wild(_), None) => {
                    if let syn::Expr::Return(r) = &*a.body { f2 = Some(fall_of(ast, r.expr.as_ref().ok_or("bare return")?)?); } else { return Err("wildcard arm is not a return".into()); }
                }
                _ => return Err("unrecognised arm pattern".into()),
            }
        }
        fall = f2.ok_or("match without wildcard")?;
    } else {
        fall = fall_of(ast, last)?;
    }
    let ety = if errty.ends_with("ParseError") && errty != "PErr" { "strum" } else { "custom" };
    Ok(format!("phf=[{}]|arms=[{}]|fall={}|errty={}|tryfrom={}", phf.join(";"), arms.join(";"), fall, ety, if tryfrom_ok { "delegates" } else { "other" }))
}

// ---------------------------------------------------------------------------------------------------
// structural summary of the generated EnumIter code: the method bodies translated token by token into the
// deep-embedded language of coq/Model/IterProg.v, and the constructor table of `get`
// ---------------------------------------------------------------------------------------------------
fn ix(e: &syn::Expr) -> Result<String, String> {
    match e {
        syn::Expr::Paren(p) => ix(&p.expr),
        syn::Expr::Field(f) => {
            if !matches!(&*f.base, syn::Expr::Path(p) if p.path.is_ident("self")) { return Err("field of something other than self".into()); }
            match &f.member { syn::Member::Named(n) if n == "idx" => Ok("idx".into()), syn::Member::Named(n) if n == "back_idx" => Ok("back".into()), _ => Err("unknown field".into()) }
        }
        syn::Expr::Path(p) => p.path.get_ident().map(|i| format!("${}", i)).ok_or_else(|| "non-local path in arithmetic".to_string()),
        syn::Expr::Lit(l) => match &l.lit { syn::Lit::Int(i) => Ok(i.base10_digits().to_string()), _ => Err("non-integer literal".into()) },
        syn::Expr::Binary(b) => {
            let op = match b.op { syn::BinOp::Add(_) => "add", syn::BinOp::Sub(_) => "sub", _ => return Err("unsupported arithmetic operator".into()) };
            Ok(format!("({} {} {})", op, ix(&b.left)?, ix(&b.right)?))
        }
        syn::Expr::MethodCall(m) if m.method == "saturating_add" && m.args.len() == 1 => Ok(format!("(sat {} {})", ix(&m.receiver)?, ix(&m.args[0])?)),
        _ => Err("unsupported arithmetic expression".into()),
    }
}
fn icond(e: &syn::Expr) -> Result<String, String> {
    match e {
        syn::Expr::Paren(p) => icond(&p.expr),
        syn::Expr::Binary(b) => {
            let op = match b.op { syn::BinOp::Gt(_) => "gt", syn::BinOp::Ge(_) => "ge", _ => return Err("unsupported comparison".into()) };
            Ok(format!("({} {} {})", op, ix(&b.left)?, ix(&b.right)?))
        }
        _ => Err("unsupported condition".into()),
    }
}
fn is_none_expr(e: &syn::Expr) -> bool { matches!(e, syn::Expr::Path(p) if p.path.segments.last().map(|s| s.ident == "None").unwrap_or(false)) }
fn istmts(stmts: &[syn::Stmt]) -> Result<String, String> {
    let (first, rest) = stmts.split_first().ok_or("empty block")?;
    match first {
        syn::Stmt::Local(l) => {
            let name = match &l.pat { syn::Pat::Ident(p) => p.ident.to_string(), _ => return Err("let with a pattern".into()) };
            let init = &l.init.as_ref().ok_or("let without initialiser")?.expr;
            // `let t = if c { a } else { b }; (t, Some(t))`  is read as  (if c (hint a) (hint b))
            if let syn::Expr::If(i) = &**init {
                if rest.len() == 1 {
                    if let syn::Stmt::Expr(syn::Expr::Tuple(t), None) = &rest[0] {
                        let fst_ok = t.elems.len() == 2 && matches!(&t.elems[0], syn::Expr::Path(p) if p.path.is_ident(&name));
                        let snd_ok = t.elems.len() == 2 && matches!(&t.elems[1], syn::Expr::Call(c) if c.args.len() == 1 && matches!(&c.args[0], syn::Expr::Path(p) if p.path.is_ident(&name))
                                                                      && matches!(&*c.func, syn::Expr::Path(p) if p.path.segments.last().map(|s| s.ident == "Some").unwrap_or(false)));
                        if fst_ok && snd_ok {
                            let tail = |b: &syn::Block| -> Result<String, String> { match b.stmts.as_slice() { [syn::Stmt::Expr(e, None)] => Ok(format!("(hint {})", ix(e)?)), _ => Err("if-expression branch is not a single expression".into()) } };
                            let els = match &i.else_branch { Some((_, e)) => match &**e { syn::Expr::Block(b) => tail(&b.block)?, _ => return Err("else is not a block".into()) }, None => return Err("if without else".into()) };
                            return Ok(format!("(if {} {} {})", icond(&i.cond)?, tail(&i.then_branch)?, els));
                        }
                    }
                }
                return Err("let bound to an if-expression in an unsupported position".into());
            }
            Ok(format!("(let {} {} {})", name, ix(init)?, istmts(rest)?))
        }
        syn::Stmt::Expr(syn::Expr::Assign(a), Some(_)) => {
            let tgt = ix(&a.left)?;
            let kw = if tgt == "idx" { "setidx" } else if tgt == "back" { "setback" } else { return Err("assignment to something other than a cursor".into()) };
            Ok(format!("({} {} {})", kw, ix(&a.right)?, istmts(rest)?))
        }
        syn::Stmt::Expr(e, None) if rest.is_empty() => match e {
            syn::Expr::If(i) => {
                let els = match &i.else_branch { Some((_, e)) => match &**e { syn::Expr::Block(b) => istmts(&b.block.stmts)?, _ => return Err("else is not a block".into()) }, None => return Err("if without else".into()) };
                Ok(format!("(if {} {} {})", icond(&i.cond)?, istmts(&i.then_branch.stmts)?, els))
            }
            x if is_none_expr(x) => Ok("none".to_string()),
            syn::Expr::Call(c) if c.args.len() == 2 && matches!(&*c.func, syn::Expr::Path(p) if p.path.segments.last().map(|s| s.ident == "get").unwrap_or(false))
                                  && matches!(&c.args[0], syn::Expr::Path(p) if p.path.is_ident("self")) => Ok(format!("(get {})", ix(&c.args[1])?)),
            _ => Err("unsupported tail expression".into()),
        },
        _ => Err("unsupported statement".into()),
    }
}
fn struct_iter(ast: &DeriveInput, ts: proc_macro2::TokenStream) -> Result<String, String> {
    let f: syn::File = syn::parse2(ts).map_err(|e| format!("tokens do not parse: {}", e))?;
    let mut out: std::collections::BTreeMap<&'static str, String> = std::collections::BTreeMap::new();
    for it in &f.items {
        if let syn::Item::Impl(im) = it {
            for ii in &im.items {
                if let syn::ImplItem::Fn(m) = ii {
                    let name = m.sig.ident.to_string();
                    match name.as_str() {
                        "nth" => { out.insert("nth", istmts(&m.block.stmts)?); }
                        "next_back" => { out.insert("next_back", istmts(&m.block.stmts)?); }
                        "size_hint" => { out.insert("size_hint", istmts(&m.block.stmts)?); }
                        "next" => {
                            let ok = matches!(m.block.stmts.as_slice(), [syn::Stmt::Expr(syn::Expr::MethodCall(c), None)] if c.method == "nth" && c.args.len() == 1
                                && matches!(&*c.receiver, syn::Expr::Path(p) if p.path.is_ident("self")) && matches!(&c.args[0], syn::Expr::Lit(l) if matches!(&l.lit, syn::Lit::Int(i) if i.base10_digits() == "0")));
                            out.insert("next", if ok { "nth0".to_string() } else { return Err("next is not self.nth(0)".into()) });
                        }
                        "len" => {
                            let ok = matches!(m.block.stmts.as_slice(), [syn::Stmt::Expr(syn::Expr::Field(fl), None)] if matches!(&fl.member, syn::Member::Unnamed(i) if i.index == 0)
                                && matches!(&*fl.base, syn::Expr::MethodCall(c) if c.method == "size_hint" && c.args.is_empty()));
                            out.insert("len", if ok { "hint0".to_string() } else { return Err("len is not self.size_hint().0".into()) });
                        }
                        "get" => {
                            let arms = match m.block.stmts.as_slice() { [syn::Stmt::Expr(syn::Expr::Match(mm), None)] => &mm.arms, _ => return Err("get is not a single match".into()) };
                            let mut tbl: Vec<String> = Vec::new();
                            let mut expect = 0usize;
                            for a in arms {
                                match &a.pat {
                                    syn::Pat::Lit(l) => {
                                        let k: usize = match &l.lit { syn::Lit::Int(i) => i.base10_parse().map_err(|_| "bad index literal")?, _ => return Err("non-integer index".into()) };
                                        if k != expect { return Err(format!("get arms are not numbered densely (found {} where {} was expected)", k, expect)); }
                                        expect += 1;
                                        let inner = strip_result(&a.body, "Some").ok_or("get arm is not Some(..)")?;
                                        tbl.push(target_of(ast, &inner)?);
                                    }
                                    syn::Pat::Wild(_) => { if !is_none_expr(&a.body) { return Err("wildcard arm of get is not None".into()); } }
                                    _ => return Err("unsupported get arm".into()),
                                }
                            }
                            out.insert("table", format!("[{}]", tbl.join(";")));
                        }
                        _ => {}
                    }
                }
            }
        }
    }
    let g = |k: &str| out.get(k).cloned().unwrap_or_else(|| "missing".to_string());
    Ok(format!("nth={}|next_back={}|size_hint={}|next={}|len={}|table={}", g("nth"), g("next_back"), g("size_hint"), g("next"), g("len"), g("table")))
}

// ---------------------------------------------------------------------------------------------------
// structural summary of the generated Display / AsRefStr code: one entry per match arm, in order
// ---------------------------------------------------------------------------------------------------
fn pat_variant(ast: &DeriveInput, p: &syn::Pat) -> Result<(usize, Vec<(String, bool)>), String> {
    // -> (variant index, [(binder, bound with `ref`)])
    let binder = |q: &syn::Pat| -> Option<(String, bool)> { if let syn::Pat::Ident(i) = q { Some((i.ident.to_string(), i.by_ref.is_some())) } else { None } };
    match p {
        syn::Pat::Path(pp) => Ok((variant_index(ast, &pp.path.segments.last().ok_or("empty")?.ident).ok_or("unknown variant")?, vec![])),
        syn::Pat::Ident(pi) => Ok((variant_index(ast, &pi.ident).ok_or("unknown variant")?, vec![])),
        syn::Pat::TupleStruct(ts) => Ok((variant_index(ast, &ts.path.segments.last().ok_or("empty")?.ident).ok_or("unknown variant")?,
                                        ts.elems.iter().filter_map(binder).collect())),
        syn::Pat::Struct(st) => Ok((variant_index(ast, &st.path.segments.last().ok_or("empty")?.ident).ok_or("unknown variant")?,
                                   st.fields.iter().filter_map(|f| binder(&f.pat)).collect())),
        _ => Err("unsupported arm pattern".into()),
    }
}
fn struct_match_arms(ast: &DeriveInput, ts: proc_macro2::TokenStream, trait_name: &str, fn_name: &str) -> Result<String, String> {
    let f: syn::File = syn::parse2(ts).map_err(|e| format!("tokens do not parse: {}", e))?;
    for it in &f.items {
        if let syn::Item::Impl(im) = it {
            let ok = im.trait_.as_ref().map(|(_, p, _)| p.segments.last().map(|s| s.ident == trait_name).unwrap_or(false)).unwrap_or(false);
            if !ok { continue; }
            for ii in &im.items {
                if let syn::ImplItem::Fn(m) = ii {
                    if m.sig.ident != fn_name { continue; }
                    let mm = match m.block.stmts.as_slice() { [syn::Stmt::Expr(syn::Expr::Match(mm), None)] => mm, _ => return Err("body is not a single match".into()) };
                    let mut out: Vec<String> = Vec::new();
                    for a in &mm.arms {
                        if let syn::Pat::Wild(_) = &a.pat {
                            out.push(if matches!(&*a.body, syn::Expr::Macro(mc) if mc.mac.path.is_ident("panic")) { "W".to_string() } else { return Err("wildcard arm is not a panic".into()) });
                            continue;
                        }
                        let (vi, binders) = pat_variant(ast, &a.pat)?;
                        // body: a string literal | Display::fmt(x, f) | AsRef::<str>::as_ref(x)
                        let arg = match &*a.body {
                            syn::Expr::Lit(_) => a.body.as_ref().clone(),
                            syn::Expr::Call(c) if !c.args.is_empty() => {
                                // only `::core::fmt::Display::fmt(x, f)` / `::core::convert::AsRef::<str>::as_ref(x)` forward to x the way the model says
                                let segs: Vec<String> = match &*c.func { syn::Expr::Path(p) => p.path.segments.iter().map(|s| s.ident.to_string()).collect(), _ => vec![] };
                                let tail: Vec<&str> = segs.iter().rev().take(2).map(|s| s.as_str()).collect();
                                let ok = (trait_name == "Display" && tail == ["fmt", "Display"] && c.args.len() == 2 && matches!(&c.args[1], syn::Expr::Path(p) if p.path.get_ident().is_some()))
                                    || (trait_name == "AsRef" && tail == ["as_ref", "AsRef"] && c.args.len() == 1);
                                if !ok { return Err(format!("arm body calls {} (not Display::fmt / AsRef::as_ref)", segs.join("::"))); }
                                c.args[0].clone()
                            }
                            _ => return Err("unsupported arm body".into()),
                        };
                        let entry = match &arg {
                            e if lit_str_of(e).is_some() => format!("S:{}", hex(&lit_str_of(e).unwrap())),
                            syn::Expr::Path(p) => {
                                let name = p.path.get_ident().ok_or("inner value is not a local")?.to_string();
                                let by_ref = binders.iter().find(|(b, _)| *b == name).map(|(_, r)| *r).ok_or("inner value is not bound by the pattern")?;
                                format!("I:{}:{}", name, if by_ref { "r" } else { "v" })
                            }
                            syn::Expr::Reference(r) => match &*r.expr {
                                syn::Expr::Macro(mc) if mc.mac.path.is_ident("format_args") => {
                                    let args = syn::parse::Parser::parse2(syn::punctuated::Punctuated::<syn::Expr, syn::Token![,]>::parse_terminated, mc.mac.tokens.clone())
                                        .map_err(|e| format!("format_args! arguments: {}", e))?;
                                    let mut itx = args.iter();
                                    let lit = itx.next().and_then(lit_str_of).ok_or("format_args! without a literal")?;
                                    let rest: Vec<&syn::Expr> = itx.collect();
                                    if rest.iter().all(|e| matches!(e, syn::Expr::Assign(_))) && !rest.is_empty() {
                                        let names: Result<Vec<String>, String> = rest.iter().map(|e| match e {
                                            syn::Expr::Assign(asg) => match (&*asg.left, &*asg.right) {
                                                (syn::Expr::Path(l), syn::Expr::Path(r2)) if l.path.get_ident().is_some() && l.path.get_ident() == r2.path.get_ident() => Ok(l.path.get_ident().unwrap().to_string()),
                                                _ => Err("named argument is not `x = x`".to_string()) },
                                            _ => Err("?".to_string()) }).collect();
                                        format!("AN:{}:{}", hex(&lit), names?.join(","))
                                    } else {
                                        let ok = rest.iter().enumerate().all(|(i, e)| matches!(e, syn::Expr::Path(p) if p.path.is_ident(&format!("field{}", i))));
                                        if !ok { return Err("positional arguments are not field0, field1, ..".into()); }
                                        format!("AP:{}:{}", hex(&lit), rest.len())
                                    }
                                }
                                _ => return Err("unsupported reference in arm body".into()),
                            },
                            _ => return Err("unsupported arm body argument".into()),
                        };
                        out.push(format!("v{}:{}", vi, entry));
                    }
                    return Ok(format!("[{}]", out.join(";")));
                }
            }
        }
    }
    Err("impl not found".into())
}


// ---------------------------------------------------------------------------------------------------
// FromRepr: `from_repr_inner` parses a proc_macro::TokenStream and cannot run outside a real expansion, so the tokens come from
// the REAL expansion of the corpus crate (`rustc -Zunpretty=expanded`): the impl block is cut out by the harness and read here
// into the shape of Model/ReprProg.v: the constant chain (zero | prev | own) and the guarded arms.
// ---------------------------------------------------------------------------------------------------
fn norm_tokens(e: &syn::Expr) -> String {
    let mut e = e;
    loop { match e { syn::Expr::Paren(p) => e = &p.expr, syn::Expr::Group(g) => e = &g.expr, _ => break } }
    e.to_token_stream().to_string().replace(' ', "")
}
fn struct_from_repr(ast: &DeriveInput, imp: &syn::ItemImpl) -> Result<String, String> {
    let variants: Vec<&syn::Variant> = match &ast.data { syn::Data::Enum(e) => e.variants.iter().collect(), _ => return Err("not an enum".into()) };
    let f = imp.items.iter().find_map(|i| if let syn::ImplItem::Fn(f) = i { if f.sig.ident == "from_repr" { Some(f) } else { None } } else { None })
        .ok_or("no fn from_repr in the impl block")?;
    if f.sig.inputs.len() != 1 { return Err("from_repr does not take exactly one parameter".into()); }
    let (param, ty) = match f.sig.inputs.first() {
        Some(syn::FnArg::Typed(pt)) => (match &*pt.pat { syn::Pat::Ident(i) => i.ident.to_string(), _ => return Err("parameter pattern".into()) },
                                        pt.ty.to_token_stream().to_string().replace(' ', "")),
        _ => return Err("receiver parameter".into()) };
    let mut names: Vec<String> = Vec::new();
    let mut consts: Vec<String> = Vec::new();
    let mut the_match: Option<&syn::ExprMatch> = None;
    for st in &f.block.stmts {
        match st {
            syn::Stmt::Item(syn::Item::Const(c)) => {
                if the_match.is_some() { return Err("a constant after the match".into()); }
                let cty = c.ty.to_token_stream().to_string().replace(' ', "");
                if cty != ty { return Err(format!("constant {} has type {} (parameter: {})", c.ident, cty, ty)); }
                let i = names.len();
                let own = variants.get(i).and_then(|v| v.discriminant.as_ref());
                let kind = match (&*c.expr, own) {
                    (e, Some((_, own))) => if norm_tokens(own) == norm_tokens(e) { "own".to_string() } else { format!("?{}", hex(&norm_tokens(e))) },
                    (syn::Expr::Lit(l), None) if l.to_token_stream().to_string() == "0" => "zero".to_string(),
                    (syn::Expr::Binary(b), None) if matches!(b.op, syn::BinOp::Add(_))
                        && matches!(&*b.left, syn::Expr::Path(p) if i > 0 && p.path.is_ident(&names[i - 1]))
                        && matches!(&*b.right, syn::Expr::Lit(l) if l.to_token_stream().to_string() == "1") => "prev".to_string(),
                    (e, None) => format!("?{}", hex(&norm_tokens(e))),
                };
                // the constant is named after the variant at the same position
                let want = variants.get(i).map(|v| format!("{}_DISCRIMINANT", v.ident));
                if want.as_deref() != Some(&c.ident.to_string()) { return Err(format!("constant {} at position {} is not named after that variant", c.ident, i)); }
                names.push(c.ident.to_string());
                consts.push(kind);
            }
            syn::Stmt::Expr(syn::Expr::Match(m), None) => { if the_match.is_some() { return Err("two matches".into()); } the_match = Some(m); }
            _ => return Err("a statement that is neither a constant nor the final match".into()),
        }
    }
    let m = the_match.ok_or("no match expression")?;
    if !matches!(&*m.expr, syn::Expr::Path(p) if p.path.is_ident(&param)) { return Err("the match does not scrutinise the parameter".into()); }
    let mut arms: Vec<String> = Vec::new();
    let mut wild: Option<String> = None;
    for arm in &m.arms {
        if wild.is_some() { return Err("an arm after the wildcard".into()); }
        match &arm.pat {
            syn::Pat::Wild(_) => {
                if arm.guard.is_some() { return Err("guarded wildcard".into()); }
                wild = Some(if is_none_expr(&arm.body) { "none".to_string() } else { format!("?{}", hex(&norm_tokens(&arm.body))) });
            }
            syn::Pat::Ident(pi) if pi.subpat.is_none() => {
                let g = arm.guard.as_ref().ok_or("binding arm without a guard")?;
                // `v == CONST` or `CONST == v` (integer equality is symmetric)
                let ci = match &*g.1 {
                    syn::Expr::Binary(b) if matches!(b.op, syn::BinOp::Eq(_)) => {
                        let is_binder = |e: &syn::Expr| matches!(e, syn::Expr::Path(p) if p.path.is_ident(&pi.ident));
                        let other = if is_binder(&b.left) { &*b.right } else if is_binder(&b.right) { &*b.left } else { return Err("guard does not compare the binder".into()) };
                        match other { syn::Expr::Path(p) => { let id = p.path.get_ident().ok_or("guard compares with a path")?.to_string();
                                                              names.iter().position(|n| *n == id).ok_or("guard names an unknown constant")? }
                                      _ => return Err("guard does not compare with a constant".into()) }
                    }
                    _ => return Err("unrecognised guard".into()),
                };
                let inner = strip_result(&arm.body, "Some").ok_or("arm body is not Some(..)")?;
                let (vid, n) = match &inner {
                    syn::Expr::Path(p) => (p.path.segments.last().ok_or("empty path")?.ident.clone(), 0),
                    syn::Expr::Call(c) => {
                        let id = match &*c.func { syn::Expr::Path(p) => p.path.segments.last().ok_or("empty path")?.ident.clone(), _ => return Err("call of a non-path".into()) };
                        for a in c.args.iter() { if param_of(a)? != "d" { return Err("a payload that is not Default::default()".into()); } }
                        (id, c.args.len())
                    }
                    syn::Expr::Struct(stx) => {
                        for fv in stx.fields.iter() { if param_of(&fv.expr)? != "d" { return Err("a payload that is not Default::default()".into()); } }
                        (stx.path.segments.last().ok_or("empty path")?.ident.clone(), stx.fields.len())
                    }
                    _ => return Err("unrecognised arm body".into()),
                };
                arms.push(format!("c{}:v{}:{}", ci, variant_index(ast, &vid).ok_or("unknown variant")?, n));
            }
            _ => return Err("unrecognised arm pattern".into()),
        }
    }
    Ok(format!("ty={}|constfn={}|consts=[{}]|arms=[{}]|wild={}", ty, if f.sig.constness.is_some() { 1 } else { 0 },
               consts.join(";"), arms.join(";"), wild.unwrap_or_else(|| "missing".to_string())))
}


// ---------------------------------------------------------------------------------------------------
// EnumProperty: the three getters as tables  variant -> [(key literal, value literal)]  + wildcards, the shape of the model's props_code
// ---------------------------------------------------------------------------------------------------
fn struct_props(ast: &DeriveInput, ts: proc_macro2::TokenStream) -> Result<String, String> {
    let f: syn::File = syn::parse2(ts).map_err(|e| format!("tokens do not parse: {}", e))?;
    let im = f.items.iter().find_map(|it| match it { syn::Item::Impl(im) if im.trait_.as_ref().map(|(_, p, _)| p.segments.last().map(|s| s.ident == "EnumProperty").unwrap_or(false)).unwrap_or(false) => Some(im), _ => None })
        .ok_or("impl EnumProperty not found")?;
    let mut parts: Vec<String> = Vec::new();
    for (fname, tag) in [("get_str", "str"), ("get_int", "int"), ("get_bool", "bool")] {
        let m = im.items.iter().find_map(|ii| match ii { syn::ImplItem::Fn(m) if m.sig.ident == fname => Some(m), _ => None }).ok_or(format!("no fn {}", fname))?;
        let key_param = match m.sig.inputs.iter().nth(1) { Some(syn::FnArg::Typed(pt)) => match &*pt.pat { syn::Pat::Ident(i) => i.ident.to_string(), _ => return Err("key parameter pattern".into()) }, _ => return Err("no key parameter".into()) };
        let mm = match m.block.stmts.as_slice() { [syn::Stmt::Expr(syn::Expr::Match(mm), None)] => mm, _ => return Err("body is not a single match".into()) };
        if !matches!(&*mm.expr, syn::Expr::Path(p) if p.path.is_ident("self")) { return Err("outer match does not scrutinise self".into()); }
        let mut out: Vec<String> = Vec::new();
        let mut seen_wild = false;
        for a in &mm.arms {
            if seen_wild { return Err("an arm after the wildcard".into()); }
            if a.guard.is_some() { return Err("guarded arm".into()); }
            if let syn::Pat::Wild(_) = &a.pat {
                if !is_none_expr(&a.body) { return Err("outer wildcard is not None".into()); }
                out.push("W".to_string()); seen_wild = true; continue;
            }
            let mut p = &a.pat;
            while let syn::Pat::Reference(r) = p { p = &r.pat; }
            let (vi, _) = pat_variant(ast, p)?;
            let mut body = &*a.body;
            loop { match body { syn::Expr::Block(b) if b.block.stmts.len() == 1 => match &b.block.stmts[0] { syn::Stmt::Expr(e, None) => body = e, _ => return Err("arm block".into()) }, _ => break } }
            let inner = match body { syn::Expr::Match(im2) => im2, _ => return Err("arm body is not a match on the key".into()) };
            if !matches!(&*inner.expr, syn::Expr::Path(p) if p.path.is_ident(&key_param)) { return Err("inner match does not scrutinise the key".into()); }
            let mut kv: Vec<String> = Vec::new();
            let mut inner_wild = false;
            for ia in &inner.arms {
                if inner_wild { return Err("a key arm after the inner wildcard".into()); }
                if ia.guard.is_some() { return Err("guarded key arm".into()); }
                match &ia.pat {
                    syn::Pat::Wild(_) => { if !is_none_expr(&ia.body) { return Err("inner wildcard is not None".into()); } inner_wild = true; }
                    syn::Pat::Lit(pl) => {
                        let key = match &pl.lit { syn::Lit::Str(sx) => sx.value(), _ => return Err("key pattern is not a string literal".into()) };
                        let val = strip_result(&ia.body, "Some").ok_or("key arm body is not Some(..)")?;
                        let shown = match (&val, tag) {
                            (syn::Expr::Lit(l), "str") => match &l.lit { syn::Lit::Str(sx) => hex(&sx.value()), _ => return Err("get_str value is not a string literal".into()) },
                            (syn::Expr::Lit(l), "int") => match &l.lit { syn::Lit::Int(n) => n.base10_parse::<i128>().map_err(|e| format!("integer literal: {}", e))?.to_string(), _ => return Err("get_int value is not an integer literal".into()) },
                            (syn::Expr::Unary(u), "int") if matches!(u.op, syn::UnOp::Neg(_)) => match &*u.expr { syn::Expr::Lit(l) => match &l.lit { syn::Lit::Int(n) => (-n.base10_parse::<i128>().map_err(|e| format!("integer literal: {}", e))?).to_string(), _ => return Err("negated non-integer".into()) }, _ => return Err("negated non-literal".into()) },
                            (syn::Expr::Lit(l), "bool") => match &l.lit { syn::Lit::Bool(b) => (if b.value { "true" } else { "false" }).to_string(), _ => return Err("get_bool value is not a boolean literal".into()) },
                            _ => return Err("value is not a literal of the getter's type".into()),
                        };
                        kv.push(format!("{}={}", hex(&key), shown));
                    }
                    _ => return Err("unrecognised key pattern".into()),
                }
            }
            if !inner_wild { return Err("inner match without wildcard".into()); }
            out.push(format!("v{}{{{}}}", vi, kv.join(",")));
        }
        parts.push(format!("{}=[{}]", tag, out.join(";")));
    }
    Ok(parts.join("|"))
}


// ---------------------------------------------------------------------------------------------------
// EnumMessage: the four getters as tables  variant -> literal(s)  + wildcards, the shape of the model's msg_code
// ---------------------------------------------------------------------------------------------------
fn const_str_of(e: &syn::Expr) -> Result<String, String> {
    // a string literal | concat!(a, b, ..) of such (the documentation of several lines is concat!(concat!(line, "\n"), ..))
    match e {
        syn::Expr::Lit(l) => match &l.lit { syn::Lit::Str(sx) => Ok(sx.value()), _ => Err("not a string literal".into()) },
        syn::Expr::Macro(mc) if mc.mac.path.is_ident("concat") => {
            let args = syn::parse::Parser::parse2(syn::punctuated::Punctuated::<syn::Expr, syn::Token![,]>::parse_terminated, mc.mac.tokens.clone())
                .map_err(|e| format!("concat! arguments: {}", e))?;
            let mut out = String::new();
            for a in args.iter() { out.push_str(&const_str_of(a)?); }
            Ok(out)
        }
        syn::Expr::Group(g) => const_str_of(&g.expr),
        syn::Expr::Paren(g) => const_str_of(&g.expr),
        _ => Err("not a constant string".into()),
    }
}
fn struct_messages(ast: &DeriveInput, ts: proc_macro2::TokenStream) -> Result<String, String> {
    let f: syn::File = syn::parse2(ts).map_err(|e| format!("tokens do not parse: {}", e))?;
    let im = f.items.iter().find_map(|it| match it { syn::Item::Impl(im) if im.trait_.as_ref().map(|(_, p, _)| p.segments.last().map(|s| s.ident == "EnumMessage").unwrap_or(false)).unwrap_or(false) => Some(im), _ => None })
        .ok_or("impl EnumMessage not found")?;
    let mut parts: Vec<String> = Vec::new();
    for (fname, tag) in [("get_message", "msg"), ("get_detailed_message", "det"), ("get_documentation", "doc"), ("get_serializations", "ser")] {
        let m = im.items.iter().find_map(|ii| match ii { syn::ImplItem::Fn(m) if m.sig.ident == fname => Some(m), _ => None }).ok_or(format!("no fn {}", fname))?;
        let mm = match m.block.stmts.as_slice() { [syn::Stmt::Expr(syn::Expr::Match(mm), None)] => mm, _ => return Err("body is not a single match".into()) };
        if !matches!(&*mm.expr, syn::Expr::Path(p) if p.path.is_ident("self")) { return Err("the match does not scrutinise self".into()); }
        let mut out: Vec<String> = Vec::new();
        let mut seen_wild = false;
        for a in &mm.arms {
            if seen_wild { return Err("an arm after the wildcard".into()); }
            if a.guard.is_some() { return Err("guarded arm".into()); }
            if let syn::Pat::Wild(_) = &a.pat {
                if tag == "ser" || !is_none_expr(&a.body) { return Err("unexpected wildcard".into()); }
                out.push("W".to_string()); seen_wild = true; continue;
            }
            let mut p = &a.pat;
            while let syn::Pat::Reference(r) = p { p = &r.pat; }
            let (vi, _) = pat_variant(ast, p)?;
            if tag != "ser" {
                let val = strip_result(&a.body, "Some").ok_or("arm body is not Some(..)")?;
                out.push(format!("v{}:{}", vi, hex(&const_str_of(&val)?)));
            } else {
                // { static ARR: [&'static str; N] = [..]; &ARR }
                let blk = match &*a.body { syn::Expr::Block(b) => &b.block, _ => return Err("serializations arm is not a block".into()) };
                let (st, tail) = match blk.stmts.as_slice() { [syn::Stmt::Item(syn::Item::Static(st)), syn::Stmt::Expr(t, None)] => (st, t), _ => return Err("serializations block shape".into()) };
                let ok_tail = matches!(tail, syn::Expr::Reference(r) if matches!(&*r.expr, syn::Expr::Path(p) if p.path.is_ident(&st.ident)));
                if !ok_tail { return Err("serializations arm does not return its static".into()); }
                let elems = match &*st.expr { syn::Expr::Array(ar) => ar.elems.iter().map(const_str_of).collect::<Result<Vec<_>, _>>()?, _ => return Err("static is not an array".into()) };
                let declared = match &*st.ty { syn::Type::Array(t) => norm_tokens(&t.len), _ => return Err("static type".into()) };
                if declared.trim_end_matches("usize") != elems.len().to_string() { return Err("declared array length differs from the element count".into()); }
                out.push(format!("v{}:[{}]", vi, elems.iter().map(|e| hex(e)).collect::<Vec<_>>().join(",")));
            }
        }
        parts.push(format!("{}=[{}]", tag, out.join(";")));
    }
    Ok(parts.join("|"))
}


// ---------------------------------------------------------------------------------------------------
// EnumIs / EnumTryAs: every generated method as  name -> the one variant whose arm answers true / Some((all binders, in order))
// ---------------------------------------------------------------------------------------------------
fn inherent_methods(ts: proc_macro2::TokenStream) -> Result<Vec<syn::ImplItemFn>, String> {
    let f: syn::File = syn::parse2(ts).map_err(|e| format!("tokens do not parse: {}", e))?;
    let mut out = Vec::new();
    for it in f.items { if let syn::Item::Impl(im) = it { if im.trait_.is_none() { for ii in im.items { if let syn::ImplItem::Fn(m) = ii { out.push(m); } } } } }
    Ok(out)
}
fn two_arm_match<'a>(m: &'a syn::ImplItemFn) -> Result<(&'a syn::Arm, &'a syn::Arm), String> {
    let mm = match m.block.stmts.as_slice() { [syn::Stmt::Expr(syn::Expr::Match(mm), None)] => mm, _ => return Err("body is not a single match".into()) };
    let on_self = match &*mm.expr { syn::Expr::Path(p) => p.path.is_ident("self"), syn::Expr::Unary(u) => matches!(u.op, syn::UnOp::Deref(_)) && matches!(&*u.expr, syn::Expr::Path(p) if p.path.is_ident("self")), _ => false };
    if !on_self { return Err("the match does not scrutinise self".into()); }
    if mm.arms.len() != 2 || mm.arms.iter().any(|a| a.guard.is_some()) { return Err("not exactly two unguarded arms".into()); }
    if !matches!(&mm.arms[1].pat, syn::Pat::Wild(_)) { return Err("second arm is not the wildcard".into()); }
    Ok((&mm.arms[0], &mm.arms[1]))
}
fn struct_is(ast: &DeriveInput, ts: proc_macro2::TokenStream) -> Result<String, String> {
    let mut out = Vec::new();
    for m in inherent_methods(ts)? {
        let (a, w) = two_arm_match(&m)?;
        let lit_bool = |e: &syn::Expr, want: bool| matches!(e, syn::Expr::Lit(l) if matches!(&l.lit, syn::Lit::Bool(b) if b.value == want));
        if !lit_bool(&a.body, true) || !lit_bool(&w.body, false) { return Err("arms are not `=> true` / `_ => false`".into()); }
        let mut p = &a.pat;
        while let syn::Pat::Reference(r) = p { p = &r.pat; }
        let (vi, _) = pat_variant(ast, p)?;
        out.push(format!("{}:v{}", m.sig.ident, vi));
    }
    Ok(format!("[{}]", out.join(";")))
}
fn struct_try_as(ast: &DeriveInput, ts: proc_macro2::TokenStream) -> Result<String, String> {
    let mut out = Vec::new();
    for m in inherent_methods(ts)? {
        let (a, w) = two_arm_match(&m)?;
        if !is_none_expr(&w.body) { return Err("wildcard arm is not None".into()); }
        let mut p = &a.pat;
        while let syn::Pat::Reference(r) = p { p = &r.pat; }
        let (vi, binders) = pat_variant(ast, p)?;
        let npat = match p { syn::Pat::TupleStruct(t) => t.elems.len(), _ => return Err("first arm is not a tuple-variant pattern".into()) };
        if binders.len() != npat { return Err("a field is not bound".into()); }
        let inner = strip_result(&a.body, "Some").ok_or("arm body is not Some(..)")?;
        let returned: Vec<String> = match &inner {
            syn::Expr::Tuple(t) => t.elems.iter().map(|e| match e { syn::Expr::Path(p) => p.path.get_ident().map(|i| i.to_string()).ok_or("returned element is not a binder".to_string()), _ => Err("returned element is not a binder".to_string()) }).collect::<Result<_, _>>()?,
            syn::Expr::Paren(pe) => match &*pe.expr { syn::Expr::Path(p) => vec![p.path.get_ident().map(|i| i.to_string()).ok_or("returned element is not a binder")?], _ => return Err("returned element is not a binder".into()) },
            syn::Expr::Path(p) => vec![p.path.get_ident().map(|i| i.to_string()).ok_or("returned element is not a binder")?],
            _ => return Err("unrecognised returned value".into()),
        };
        let bound: Vec<String> = binders.iter().map(|(b, _)| b.clone()).collect();
        if returned != bound { return Err("the returned tuple is not the bound fields in order".into()); }
        let recv = match m.sig.inputs.first() { Some(syn::FnArg::Receiver(r)) => if r.reference.is_none() { "val" } else if r.mutability.is_some() { "mut" } else { "ref" }, _ => return Err("no receiver".into()) };
        out.push(format!("{}:{}:v{}:{}", m.sig.ident, recv, vi, npat));
    }
    Ok(format!("[{}]", out.join(";")))
}

fn fnv(h: &mut u64, s: &str) { for b in s.bytes() { *h ^= b as u64; *h = h.wrapping_mul(0x100000001b3); } *h ^= 10; *h = h.wrapping_mul(0x100000001b3); }

fn valid_ident(s: &str) -> bool {
    let b = s.as_bytes();
    !b.is_empty() && !(b[0] >= b'0' && b[0] <= b'9') && s != "_"
}

fn main() {
    std::panic::set_hook(Box::new(|_| {}));
    let path = std::env::args().nth(1).expect("commands file");
    let text = std::fs::read_to_string(&path).expect("read commands");
    let mut out = String::new();
    for line in text.lines() {
        let parts: Vec<&str> = line.split(' ').collect();
        if parts.len() < 2 { continue; }
        let n = parts[1];
        let obs: String = match parts[0] {
            "case" => {
                // case <n> <style hex | -> <ident hex>
                let style = if parts[2] == "-" { None } else { Some(CaseStyle::from_str(&unhex(parts[2])).expect("known style")) };
                let id = unhex(parts[3]);
                match std::panic::catch_unwind(|| { let ident = syn::Ident::new(&id, proc_macro2::Span::call_site()); ident.convert_case(style) }) {
                    Ok(s) => hex(&s), Err(_) => "panic".to_string() }
            }
            "caseu" => {
                // caseu <n> <style hex | -> <ident hex>: the real convert_case next to the reference, for identifiers outside the model's domain
                let stname = if parts[2] == "-" { None } else { Some(unhex(parts[2])) };
                let id = unhex(parts[3]);
                let real = match std::panic::catch_unwind(|| {
                    let style = stname.as_ref().map(|s| CaseStyle::from_str(s).expect("known style"));
                    let ident = if let Some(r) = id.strip_prefix("r#") { syn::Ident::new_raw(r, proc_macro2::Span::call_site()) } else { syn::Ident::new(&id, proc_macro2::Span::call_site()) };
                    ident.convert_case(style) }) { Ok(s) => hex(&s), Err(_) => "panic".to_string() };
                let want = reference::convert(stname.as_deref(), id.strip_prefix("r#").unwrap_or(&id)).map(|s| hex(&s)).unwrap_or("unknown-style".to_string());
                format!("real={}|ref={}|tab={}", real, want, chartab(id.strip_prefix("r#").unwrap_or(&id)))
            }
            "chartab" => chartab(&unhex(parts[2])),
            "snakifyu" => {
                let id = unhex(parts[2]);
                let real = match std::panic::catch_unwind(|| helpers::snakify(&id)) { Ok(s) => hex(&s), Err(_) => "panic".to_string() };
                format!("real={}|ref={}|tab={}", real, hex(&reference::snakify(&id)), chartab(&id))
            }
            "style" => match CaseStyle::from_str(&unhex(parts[2])) { Ok(s) => format!("{:?}", s), Err(_) => "unknown".to_string() },
            "snakify" => hex(&helpers::snakify(&unhex(parts[2]))),
            "sweep" => {
                // sweep <n> <alphabet hex> <maxlen> <style hex | snakify>: one FNV-1a digest per block of 4096 valid identifiers
                let alpha: Vec<char> = unhex(parts[2]).chars().collect();
                let maxlen: usize = parts[3].parse().unwrap();
                let snak = parts[4] == "snakify";
                let style = if snak || parts[4] == "-" { None } else { Some(CaseStyle::from_str(&unhex(parts[4])).expect("known style")) };
                let mut digests: Vec<String> = Vec::new();
                let mut h: u64 = 0xcbf29ce484222325; let mut inblock = 0usize; let mut total = 0usize;
                for len in 1..=maxlen {
                    let mut idx = vec![0usize; len];
                    loop {
                        let s: String = idx.iter().map(|&i| alpha[i]).collect();
                        if valid_ident(&s) {
                            let r = if snak { helpers::snakify(&s) } else { syn::Ident::new(&s, proc_macro2::Span::call_site()).convert_case(style) };
                            fnv(&mut h, &r); inblock += 1; total += 1;
                            if inblock == 4096 { digests.push(format!("{:016x}", h)); h = 0xcbf29ce484222325; inblock = 0; }
                        }
                        let mut p = len;
                        loop { if p == 0 { break; } p -= 1; idx[p] += 1; if idx[p] < alpha.len() { break; } idx[p] = 0; if p == 0 { p = usize::MAX; break; } }
                        if p == usize::MAX { break; }
                    }
                }
                if inblock > 0 { digests.push(format!("{:016x}", h)); }
                format!("{}:{}", total, digests.join(","))
            }
            "struct" => {
                // struct <n> <derive> <item source hex>: structural summary of the generated code
                let src = unhex(parts[3]);
                match syn::parse_str::<DeriveInput>(&src) {
                    Err(e) => format!("HARNESS-ITEM-DOES-NOT-PARSE:{}", hex(&e.to_string())),
                    Ok(ast) => {
                        let derive = parts[2].to_string();
                        match std::panic::catch_unwind(std::panic::AssertUnwindSafe(|| expand(&derive, &ast))) {
                            Err(_) => "panic".to_string(),
                            Ok(Err(e)) => format!("err:{}", hex(&e.to_string())),
                            Ok(Ok(ts)) => match derive.as_str() {
                                "EnumString" => match std::panic::catch_unwind(std::panic::AssertUnwindSafe(|| struct_from_str(&ast, ts))) {
                                    Ok(Ok(s)) => s, Ok(Err(m)) => format!("unparsed:{}", m), Err(_) => "unparsed:panic in the token reader".to_string() },
                                "Display" | "AsRefStr" => {
                                    let (tr, fnn) = if derive == "Display" { ("Display", "fmt") } else { ("AsRef", "as_ref") };
                                    match std::panic::catch_unwind(std::panic::AssertUnwindSafe(|| struct_match_arms(&ast, ts, tr, fnn))) {
                                        Ok(Ok(s)) => s, Ok(Err(m)) => format!("unparsed:{}", m), Err(_) => "unparsed:panic in the token reader".to_string() }
                                }
                                "EnumIter" => match std::panic::catch_unwind(std::panic::AssertUnwindSafe(|| struct_iter(&ast, ts))) {
                                    Ok(Ok(s)) => s, Ok(Err(m)) => format!("unparsed:{}", m), Err(_) => "unparsed:panic in the token reader".to_string() },
                                "EnumProperty" => match std::panic::catch_unwind(std::panic::AssertUnwindSafe(|| struct_props(&ast, ts))) {
                                    Ok(Ok(s)) => s, Ok(Err(m)) => format!("unparsed:{}", m), Err(_) => "unparsed:panic in the token reader".to_string() },
                                "EnumMessage" => match std::panic::catch_unwind(std::panic::AssertUnwindSafe(|| struct_messages(&ast, ts))) {
                                    Ok(Ok(s)) => s, Ok(Err(m)) => format!("unparsed:{}", m), Err(_) => "unparsed:panic in the token reader".to_string() },
                                "EnumIs" => match std::panic::catch_unwind(std::panic::AssertUnwindSafe(|| struct_is(&ast, ts))) {
                                    Ok(Ok(s)) => s, Ok(Err(m)) => format!("unparsed:{}", m), Err(_) => "unparsed:panic in the token reader".to_string() },
                                "EnumTryAs" => match std::panic::catch_unwind(std::panic::AssertUnwindSafe(|| struct_try_as(&ast, ts))) {
                                    Ok(Ok(s)) => s, Ok(Err(m)) => format!("unparsed:{}", m), Err(_) => "unparsed:panic in the token reader".to_string() },
                                _ => "unparsed:no structural reader for this derive".to_string(),
                            },
                        }
                    }
                }
            }
            "structfr" => {
                // structfr <n> <item source hex> <impl block source hex, cut out of the real expansion>
                let src = unhex(parts[2]);
                let imp = unhex(parts[3]);
                match (syn::parse_str::<DeriveInput>(&src), syn::parse_str::<syn::ItemImpl>(&imp)) {
                    (Err(e), _) => format!("HARNESS-ITEM-DOES-NOT-PARSE:{}", hex(&e.to_string())),
                    (_, Err(e)) => format!("unparsed:impl block does not parse: {}", e),
                    (Ok(ast), Ok(imp)) => match std::panic::catch_unwind(std::panic::AssertUnwindSafe(|| struct_from_repr(&ast, &imp))) {
                        Ok(Ok(s)) => s, Ok(Err(m)) => format!("unparsed:{}", m), Err(_) => "unparsed:panic in the token reader".to_string() },
                }
            }
            "expand" | "refs" => {
                // expand <n> <derive> <item source hex>
                let src = unhex(parts[3]);
                match syn::parse_str::<DeriveInput>(&src) {
                    Err(e) => format!("HARNESS-ITEM-DOES-NOT-PARSE:{}", hex(&e.to_string())),
                    Ok(ast) => {
                        let derive = parts[2].to_string();
                        let r = std::panic::catch_unwind(std::panic::AssertUnwindSafe(|| expand(&derive, &ast)));
                        match r {
                            Err(p) => { let m = p.downcast_ref::<String>().cloned().or_else(|| p.downcast_ref::<&str>().map(|s| s.to_string())).unwrap_or_default(); format!("panic:{}", hex(&m)) }
                            Ok(Err(e)) => { let st = e.span().start(); format!("err:{}:{}:{}", hex(&e.to_string()), st.line, st.column) }
                            Ok(Ok(ts)) => {
                                if parts[0] == "expand" { "ok".to_string() } else {
                                    match refs_of_file(ts) {
                                        Err(m) => format!("HARNESS-TOKENS:{}", hex(&m)),
                                        Ok(r) => {
                                            let u = user_refs(&ast);
                                            let mut binders = r.binders.clone();
                                            binders.insert(ast.ident.to_string());
                                            for g in ast.generics.params.iter() { match g { syn::GenericParam::Type(t) => { binders.insert(t.ident.to_string()); } syn::GenericParam::Const(c) => { binders.insert(c.ident.to_string()); } _ => {} } }
                                            let j = |s: &BTreeSet<String>| s.iter().cloned().collect::<Vec<_>>().join(",");
                                            format!("ok|paths={}|macros={}|uses={}|binders={}|user={}", j(&r.paths), j(&r.macros), j(&r.uses), j(&binders), j(&u.paths))
                                        }
                                    }
                                }
                            }
                        }
                    }
                }
            }
            _ => "HARNESS-UNKNOWN-COMMAND".to_string(),
        };
        out.push_str(n); out.push('\t'); out.push_str(&obs); out.push('\n');
    }
    print!("{}", out);
}
