#!/bin/bash
# harmless_check.sh [hN...]: the false-alarm test.  Each harmless/<hN>/patch.diff is a behaviour-preserving refactor of
# strum_macros written by an independent sub-agent (notes.md argues the preservation edit by edit).  Each is applied to a
# scratch worktree of /repo HEAD (never to /repo) and ALL quick checks are run against it; any rc != 0 is a false alarm.
cd /verif
NAMES=${@:-$(ls harmless)}
BAD=0
for H in $NAMES; do
  WT=/tmp/wt_harmless_$H
  git -C /repo worktree remove --force $WT 2>/dev/null
  git -C /repo worktree add -q --detach $WT HEAD || exit 2
  git -C $WT apply /verif/harmless/$H/patch.diff || { echo "$H: patch does not apply"; BAD=1; }
  tools/tree_check.sh $WT $H | tee /tmp/harmless_$H.log
  grep -v "rc=0 0 violation" /tmp/harmless_$H.log | grep -q . && BAD=1
  git -C /repo worktree remove --force $WT; rm -rf /tmp/vwork_$H
done
echo "false alarms: $BAD"
exit $BAD
