#!/bin/bash
# every seeded change x every quick check, four scratch worktrees in parallel; result: seeded/matrix.tsv
cd /verif
ALL=($(ls -d seeded/C*/ | xargs -n1 basename))
N=${#ALL[@]}
for i in 0 1 2 3; do
  PART=()
  for ((j=i; j<N; j+=4)); do PART+=(${ALL[$j]}); done
  bash tools/seed_matrix.sh p$i "${PART[@]}" > /tmp/seed_matrix_p$i.log 2>&1 &
done
wait
echo -e "seed\tcaught_by" > seeded/matrix.tsv
cat seeded/matrix.p?.tsv | sort >> seeded/matrix.tsv
rm -f seeded/matrix.p?.tsv
