#!/bin/bash
# seed_collect.sh <round> <Cxx>...: take a sub-agent's delivery from /tmp/seed<round>_<Cxx>, file it under seeded/, drop its worktree, try it
cd /verif
R=$1; shift
# (round number: deliveries are in /tmp/seed<round>_<Cxx>, worktrees in /tmp/wt<round>_<Cxx>)
for P in "$@"; do
  D=/tmp/seed${R}_$P
  [ -f $D/patch.diff ] || { echo "$P: no delivery"; continue; }
  mkdir -p seeded/${P}_r$R
  cp $D/patch.diff $D/seeded_demo.rs $D/notes.md seeded/${P}_r$R/ 2>/dev/null
  for extra in $D/*; do case "$(basename $extra)" in patch.diff|seeded_demo.rs|notes.md) ;; *) cp -r $extra seeded/${P}_r$R/ ;; esac; done
  git -C /repo worktree remove --force /tmp/wt${R}_$P 2>/dev/null
  rm -rf $D
  tools/seed_try.sh ${P}_r$R 2>&1 | grep "rc=\|apply"
done
