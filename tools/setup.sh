#!/bin/bash
# builds the framework from files on disk only (offline): the Rocq development, the extracted model
# driver, and warms the shared cargo target directory with /repo's strum + strum_macros.
set -e
cd "$(dirname "$0")/.."
export CARGO_NET_OFFLINE=true
( cd coq && coq_makefile -f _CoqProject -o Makefile >/dev/null && timeout 3000 make -j16 >build.log 2>&1 || { tail -40 build.log; exit 1; } )
( cd extract && make >/dev/null )
if [ -d harness/genprobe ]; then
  ( cd harness/genprobe && cp /repo/Cargo.lock . 2>/dev/null; CARGO_TARGET_DIR=../../work/target cargo build --offline --release -q 2>&1 | tail -5 )
fi
echo "setup ok"
