#!/bin/bash
# seed_intake.sh <pid> <round>: takes a sub-agent's deliverables from /tmp/r<round>/<pid>/ into seeded/<pid>_r<round>/, re-verifies them on a scratch
# worktree (demo passes without / fails with the change, suite passes with it) and runs the property's quick check against the change
cd /verif
P=$1; RD=$2; S=${P}_r${RD}
mkdir -p seeded/$S
cp /tmp/r$RD/$P/patch.diff /tmp/r$RD/$P/seeded_demo.rs /tmp/r$RD/$P/notes.md seeded/$S/ || exit 2
WT=/tmp/wt_verify_$S
git -C /repo worktree remove --force $WT 2>/dev/null
git -C /repo worktree add -q --detach $WT HEAD || exit 2
( cd $WT
  FEAT=""; grep -q "test_phf" /verif/seeded/$S/seeded_demo.rs && FEAT="--features test_phf"
  cp /verif/seeded/$S/seeded_demo.rs strum_tests/tests/seeded_demo.rs
  cargo test -p strum_tests --offline $FEAT --test seeded_demo > /tmp/si_${S}_clean.log 2>&1; CLEAN=$?
  rm -f strum_tests/tests/seeded_demo.rs
  git apply /verif/seeded/$S/patch.diff || { echo "$S: patch does not apply"; exit 3; }
  cargo test --workspace --offline > /tmp/si_${S}_suite.log 2>&1; SUITE=$?
  cargo test -p strum_tests --offline --features test_phf > /tmp/si_${S}_suite_phf.log 2>&1; S2=$?; [ $S2 -ne 0 ] && SUITE=$S2
  cp /verif/seeded/$S/seeded_demo.rs strum_tests/tests/seeded_demo.rs
  cargo test -p strum_tests --offline $FEAT --test seeded_demo > /tmp/si_${S}_mut.log 2>&1; MUT=$?
  rm -f strum_tests/tests/seeded_demo.rs
  echo "$CLEAN $SUITE $MUT" > /verif/seeded/$S/.verify
  echo "$S: demo-without-change rc=$CLEAN (want 0); suite-with-change rc=$SUITE (want 0); demo-with-change rc=$MUT (want !=0)"
  # the quick check(s) against the changed tree
  cd /verif; shift 2
  tools/tree_check.sh $WT try_$S ${@:-$P}
  for p in ${@:-$P}; do grep -m2 -B3 VIOLATION /tmp/vwork_try_$S/$p.log | cut -c1-400; done
)
git -C /repo worktree remove --force $WT; rm -rf /tmp/vwork_try_$S
