#!/bin/bash
# re-verifies every seeded change against the CURRENT /repo HEAD in one scratch worktree (never touches /repo's working tree):
# demo passes without the change, existing suite passes with it, demo fails with it.  Writes seeded/<id>/.verify
WT=/tmp/wt_verify
git -C /repo worktree remove --force $WT 2>/dev/null
git -C /repo worktree add -q --detach $WT HEAD || exit 2
cd $WT
for d in /verif/seeded/*/; do
  ID=$(basename $d)
  [ -n "$1" ] && [ "$1" != "$ID" ] && continue
  git checkout -q -- . ; git clean -qfd -e target
  FEAT=""; grep -q "test_phf" $d/seeded_demo.rs 2>/dev/null && FEAT="--features test_phf"
  for sub in $d/*/; do [ -d "$sub" ] && cp -r "$sub" $WT/; done
  cp $d/seeded_demo.rs strum_tests/tests/seeded_demo.rs
  # (a seed that needs another build configuration — release profile, another feature set, an extra crate — brings its own demo.sh)
  DEMO="cargo test -p strum_tests --offline $FEAT --test seeded_demo"
  # (the agents' demo.sh files name their own scratch worktree; what matters is the profile they ask for)
  [ -f $d/demo.sh ] && grep -q "cargo test.*--release" $d/demo.sh && DEMO="cargo test --release -p strum_tests --offline $FEAT --test seeded_demo"
  $DEMO > /tmp/sv_${ID}_clean.log 2>&1; CLEAN=$?
  rm -f strum_tests/tests/seeded_demo.rs
  git apply $d/patch.diff || { echo "$ID: patch does not apply"; continue; }
  cargo test --workspace --offline > /tmp/sv_${ID}_suite.log 2>&1; SUITE=$?
  if [ -n "$FEAT" ]; then cargo test -p strum_tests --offline $FEAT > /tmp/sv_${ID}_suite_phf.log 2>&1; S2=$?; [ $S2 -ne 0 ] && SUITE=$S2; fi
  cp $d/seeded_demo.rs strum_tests/tests/seeded_demo.rs
  $DEMO > /tmp/sv_${ID}_mut.log 2>&1; MUT=$?
  echo "$CLEAN $SUITE $MUT" > $d/.verify
  echo "$ID: demo-without-change rc=$CLEAN (want 0); suite-with-change rc=$SUITE (want 0); demo-with-change rc=$MUT (want !=0)"
done
cd /; git -C /repo worktree remove --force $WT
