#!/bin/bash
# seed_targeted.sh [jobs]: every seeded change against the check(s) tools/seed_meta.py names for it (TARGETED), each on its own
# scratch worktree (never /repo's working tree).  Writes seeded/targeted.tsv: <seed> <check> <rc>; rc=1 is a detection.
cd /verif
J=${1:-4}
python3 - <<'PY' > /tmp/seed_targeted.list
import re, ast, os
src = open('/verif/tools/seed_meta.py').read()
m = re.search(r'TARGETED = (\{.*?\n\})', src, re.S)
T = ast.literal_eval(m.group(1))
for name in sorted(os.listdir('/verif/seeded')):
    if name.startswith('C') and os.path.isdir('/verif/seeded/' + name):
        t = T.get(name, [name.split('_')[0]])
        if t:          # (an empty list: a kept seed that does not break the property as stated — DESIGN.md §11)
            print(name, " ".join(t))
PY
: > /tmp/seed_targeted.out
xargs -P $J -L 1 bash -c 'tools/seed_try.sh "$@" 2>&1 | grep "^try_" >> /tmp/seed_targeted.out' _ < /tmp/seed_targeted.list
sort /tmp/seed_targeted.out | sed 's/^try_//' | awk '{print $1"\t"$2"\t"$3}' > seeded/targeted.tsv
echo "seeds: $(cut -f1 seeded/targeted.tsv | sort -u | wc -l); not detected:"; awk -F'\t' '$3!="rc=1"' seeded/targeted.tsv
