#!/usr/bin/env python3
"""writes seeded/<name>/meta.json from the verification record (.verify), the agent's notes and the detection runs"""
import json, os, re
V = "/verif/seeded"
# results of the prescribed runs (git -C /repo apply <patch>; python3 tools/check.py <P> --tier quick; git -C /repo checkout -- .)
TARGETED = {
 "C01": ["C01"], "C02": ["C02", "C03", "C17"], "C03": ["C03", "C17"], "C04": ["C04"], "C05": ["C05"], "C06": ["C06"], "C07": ["C07"],
 "C08": ["C08"], "C09": ["C09"], "C10": ["C10"], "C11": ["C11"], "C12": ["C12"], "C13": ["C13"], "C14": ["C14"], "C15": ["C15"],
 "C16": ["C16"], "C17": ["C17"], "C18": ["C18"], "C19": ["C19"], "C20": ["C20"],
 "C01_r2": ["C01"], "C02_r2": ["C02", "C01", "C14"], "C03_r2": ["C03"], "C04_r2": ["C04", "C05"], "C05_r2": ["C05"], "C06_r2": ["C06"],
 "C07_r2": ["C07"], "C08_r2": ["C08"], "C09_r2": ["C09"], "C10_r2": ["C10"], "C11_r2": ["C11"], "C12_r2": ["C12"], "C13_r2": ["C13"],
 "C14_r2": ["C14"], "C15_r2": ["C15"], "C16_r2": ["C16"], "C17_r2": ["C17"], "C18_r2": ["C18", "C01"], "C19_r2": ["C19"], "C20_r2": ["C20"],
 "C01_r3": ["C01"], "C02_r3": ["C02"], "C03_r3": ["C03"], "C04_r3": ["C04"], "C07_r3": ["C07"], "C09_r3": ["C09"], "C11_r3": ["C11"],
 "C12_r3": ["C12"], "C13_r3": ["C13"], "C14_r3": ["C14"], "C15_r3": ["C15"], "C16_r3": ["C16"], "C18_r3": ["C18"], "C20_r3": ["C20"],
 "C01_r4": ["C01"], "C02_r4": ["C02"], "C03_r4": ["C03"], "C04_r4": ["C04"], "C05_r4": ["C05"], "C06_r4": ["C06"], "C07_r4": ["C07"],
 "C08_r4": ["C08", "C14"], "C09_r4": ["C09"], "C10_r4": ["C10"], "C11_r4": ["C11"], "C12_r4": ["C12", "C16"], "C13_r4": ["C13"], "C14_r4": ["C14"],
 "C15_r4": ["C15"], "C16_r4": ["C16"], "C17_r4": ["C17"], "C18_r4": ["C18"], "C19_r4": ["C19"], "C20_r4": ["C20"],
 "C01_r5": ["C01"], "C02_r5": ["C02"], "C03_r5": ["C03"], "C04_r5": ["C04", "C05"], "C05_r5": ["C05"], "C06_r5": ["C06"], "C07_r5": ["C07"],
 "C08_r5": ["C08"], "C09_r5": ["C09"], "C10_r5": ["C10"], "C11_r5": ["C11"], "C12_r5": ["C12", "C16"], "C13_r5": ["C13"], "C14_r5": ["C14"],
 "C15_r5": ["C15"], "C16_r5": ["C16"], "C17_r5": ["C17"], "C18_r5": ["C18"], "C19_r5": ["C19"], "C20_r5": ["C20"],
 "C01_r6": ["C01"], "C02_r6": ["C02"], "C03_r6": ["C03"], "C04_r6": ["C04"], "C05_r6": ["C05"], "C06_r6": ["C09"], "C07_r6": ["C09"],
 "C08_r6": ["C08"], "C09_r6": ["C09"], "C10_r6": ["C10"], "C11_r6": ["C11"], "C12_r6": ["C12"], "C13_r6": ["C13"], "C14_r6": ["C14"],
 "C15_r6": ["C15"], "C16_r6": ["C16"], "C17_r6": ["C17"], "C18_r6": ["C18"], "C19_r6": ["C19", "C01"], "C20_r6": ["C20"],
 "C01_r7": ["C01"], "C02_r7": ["C02"], "C03_r7": ["C03"], "C04_r7": ["C04"], "C05_r7": ["C05"], "C06_r7": ["C06"], "C07_r7": ["C07"],
 "C08_r7": ["C08"], "C09_r7": ["C09"], "C10_r7": ["C10"], "C11_r7": ["C11"], "C12_r7": ["C12"], "C13_r7": ["C13"], "C14_r7": ["C14"],
 "C15_r7": ["C15"], "C16_r7": ["C16"], "C17_r7": ["C17"], "C18_r7": ["C18"], "C19_r7": ["C19", "C04"], "C20_r7": ["C20"],
}
STRENGTHENED = {
 "C02": "names with escaped braces added to the C02 / C03 / C17 corpora (first run: missed by C02 and C03)",
 "C03": "names with escaped braces added to the C03 / C17 corpora (first run: missed)",
 "C12": "pairs of spellings equal under Unicode case mapping but not under ASCII folding added (first run: only reachable by chance)",
 "C16": "overlapping definitions added to C16's corpus — this exposed the genuine defect F8 of the unchanged tree",
 "C18": "use_phf definitions and strum's phf feature added to C18 (first run: missed)",
 "C01_r2": "disabled + default variants admitted to C01's corpus (first run: missed)",
 "C04_r2": "nth_back mixes added to C04 (first run: missed by C04, caught by C05)",
 "C08_r2": "variants sharing a canonical name added to C08 (first run: missed)",
 "C09_r2": "#[repr(C)] enums and a size_of / align_of comparison with a hand-written reference enum added to C09 (first run: missed)",
 "C10_r2": "`disabled` after / before other items of the same attribute added to C10, C04, C13 (first run: missed)",
 "C12_r2": "byte-level neighbours (bit 5 / 6 / 0 of every byte of a spelling flipped) added to the input generator",
 "C18_r2": "custom error + disabled default variant family added to C18 (first run: caught only by C01)",
 "C04_r3": "attributes strum does not read (#[doc(hidden)], #[doc(alias = ..)], #[allow(..)]) placed before #[strum(disabled)] added to the corpora of C01 C04 C10 C13 C14 (first run: missed)",
 "C13_r3": "same as C04_r3, plus a fallback-trait probe that no is_* predicate EXISTS for a disabled variant (an extra generated method is otherwise unobservable)",
 "C12_r3": "pairs equal under Unicode folding as two spellings of ONE variant added to C12 (first run: missed)",
 "C02_r2": "several spellings of one variant differing only in ASCII case added to C01 / C14 (first run: caught only by C02)",
 "C01_r4": "NON-ASCII identifiers under every style: a Rust reference on heck itself (genprobe `mod reference`) names them, the name is carried through the model as a spelling; families in C01 C02 C03 C07 C13 (first run: missed — the model is stated over ASCII identifiers)",
 "C03_r4": "same as C01_r4 (caught by chance after the identifier pool was widened; the systematic non-ASCII family makes it certain)",
 "C07_r4": "same as C01_r4, plus convert_case / snakify on 32 non-ASCII and raw identifiers x 17 styles at generator level",
 "C13_r4": "same as C01_r4: method names of non-ASCII identifiers with digits come from the reference's snakify",
 "C02_r4": "the EMPTY literal as the only serialize value added to C02 (first run: missed)",
 "C04_r4": "histories that jump past the end (nth(usize::MAX), skip / step_by(usize::MAX)) added to C04 (first run: caught only by C05)",
 "C05_r4": "LARGE enums (255 / 256 / 257 enabled variants) driven to exhaustion added to C05; an observer that does not terminate is killed and blamed (first run: missed, then hung)",
 "C11_r4": "custom parse error together with a default variant added to C11 (first run: missed)",
 "C12_r4": "use_phf twins of the Unicode-equal pairs (earlier case-insensitive, later case-sensitive, both orders) added to C12 and C16 (first run: missed)",
 "C14_r4": "doc lines starting with tab / NBSP / U+3000 / CR / newline (block comments) added to C14 (first run: missed)",
 "C16_r4": "variants named Ok / Err / Some / None glob-imported at the definition site (prelude-shadow twins) added to C16 — this exposed the genuine defect F10 of the unchanged tree",
 "C19_r4": "a fourth build configuration: crate = \"<one identifier>\" naming a local alias or a local re-exporting module (first run: missed)",
 "C20_r4": "bracket / placeholder errors inside long non-ASCII literals at every byte alignment added to C20 (first run: missed)",
 "C03_r5": "literals WRITTEN with \\u{..} escapes or as raw strings (source length order different from value length order) added to C03 and, at random, to every string corpus (first run: missed)",
 "C04_r5": "clones taken after items were yielded from both ends, consumed through collect / fold / rev / count / last, added to C04 (first run: caught only by C05)",
 "C05_r5": "count / last / collect / fold / rev().collect / rfold on a CLONE of the iterator after every state of the cover and in the random histories (methods a generator may override) added to C05 (first run: missed)",
 "C07_r5": "a prefix on every other enum of C07's derive level (first run: missed)",
 "C08_r5": "prefixes containing braces added to C08 (VariantNames takes them verbatim) (first run: missed)",
 "C10_r5": "an enabled and a DISABLED variant with the same snake name added to C10 (first run: missed)",
 "C11_r5": "an enum-level prefix next to a default variant added to C11 (first run: missed)",
 "C12_r5": "`V()` / `V {}` shapes in the phf overlap families of C12 and C16 (first run: missed by C12, caught by C16 after the shapes were added)",
 "C13_r5": "a tuple variant next to a non-tuple variant named <it>Ref / <it>Mut added to C13 (first run: missed)",
 "C14_r5": "an enum-level prefix on a third of C14's enums (get_serializations never carries it) (first run: missed)",
 "C15_r5": "every getter of EnumProperty and EnumMessage is also called through &&E, &mut E and Box<E>, and the answers must agree (first run: missed)",
 "C18_r5": "an enum-level prefix next to a custom parse error, and inputs that start with the prefix, added to C18 (first run: missed)",
 "C19_r5": "EnumDiscriminants with only NON-strum derives requested, under every crate-path configuration, added to C19 (first run: missed)",
 "C02_r6": "spellings of 63 ... 1000 bytes next to short ones added to C01 C02 C16 (first run: missed)",
 "C03_r6": "variant-level default_with on single-field variants added to C03 (first run: missed)",
 "C04_r6": "HOSTILE SCOPES: look-alikes of prelude names declared next to the enum; per check the names the unchanged generator is immune to (by experiment) are guarded by twins of corpus definitions (first run: missed)",
 "C05_r6": "non-generic enums with Rc / Cell payloads (also in a disabled variant): the iterator must still be Send + Sync (first run: missed)",
 "C06_r6": "#[repr] written in every legal form (several hints, several attributes) added to C06 and C09 — this exposed the genuine defects F12 and F13; the seed was rebased onto the repaired code, where it breaks C09",
 "C07_r6": "several strum(..) pass-through entries at enum level added to C09 (the seed is about attribute forwarding; C07's own corpus does not derive EnumDiscriminants)",
 "C08_r6": "foreign attributes on variants (#[deprecated], #[cfg(all())], #[non_exhaustive], #[cfg_attr]) added to C08 (first run: missed)",
 "C10_r6": "field-less enums with defaulted const parameters added to C10 (first run: missed)",
 "C11_r6": "hostile scopes (see C04_r6): a look-alike `From` next to the enum (first run: missed)",
 "C12_r6": "definitions rendered through macro_rules! with every attribute value passed as an expr / literal fragment (first run: missed)",
 "C13_r6": "tuple variants with 12 / 26 / 27 / 40 fields added to C13 (first run: missed)",
 "C15_r6": "ascii_case_insensitive flags and case-twin keys added to C15 (first run: missed)",
 "C16_r6": "enums NAMED like identifiers of the phf prologue (Map, PHF, Entry ...) added to C16 (first run: missed)",
 "C17_r6": "tuple variants with 12 / 13 fields and two-digit positional placeholders added to C17 (first run: missed)",
 "C18_r6": "user error functions named like plausible generated helpers (not_found, parse_error, from_str ...) added to C18 (first run: missed)",
 "C19_r6": "a fifth build configuration in C19: look-alikes of Result / Ok / AsRef / Send / PhantomData next to the enum (first run: caught only by C01's hostile twins)",
 "C20_r6": "integer props of every size and spelling (above i64, u64::MAX, u128, hex, suffixed) added to C20 (first run: missed)",
 "C02_r7": "a disabled (or default) variant whose name is a spelling of a LATER enabled variant added to C01 / C02 (first run: missed)",
 "C03_r7": "ties and repeats among the serialize literals of one variant (the last of the longest wins) added to C03 (first run: missed)",
 "C04_r7": "a blanket iterator-extension trait with a method `get` declared next to the enum (hostile scope `IterGet`) (first run: missed)",
 "C05_r7": "#[strum{..}] and #[strum[..]] delimiters, in C04 C05 C08 and at random in every string corpus (first run: missed)",
 "C08_r7": "`disabled` / `default` / bare flags passed in as `meta` fragments of a macro_rules! expansion (first run: missed)",
 "C10_r7": "non-ASCII identifiers with digits as EnumTable variants (first run: missed)",
 "C11_r7": "default + transparent (+ to_string) on ONE variant added to C11 (first run: missed)",
 "C12_r7": "17 / 20 / 33 spellings on one variant whose own flag differs from the enum's added to C12 (first run: missed)",
 "C13_r7": "user macros named like std macros (matches!, assert!, concat!, write! ...) declared above the enum (hostile scope) (first run: missed)",
 "C14_r7": "empty message / detailed_message literals added to C14 (first run: missed)",
 "C17_r7": "placeholders that name NO field (a const or static of the scope; a field used only as a `$` width) added to C17, oracle written in the same scope (first run: missed)",
 "C18_r7": "the enum and its error function declared inside a FUNCTION BODY with a module-level function of the same name next to it (first run: missed)",
 "C19_r7": "look-alikes IterGet / matches! / assert! added to C19's fifth build configuration (first run: caught only by C04's hostile twins)",
 "C20_r7": "lifetime parameters whose only users are disabled variants added to C20 (first run: missed)",
}
matrix = {}
mp = os.path.join(V, "matrix.tsv")
if os.path.exists(mp):
    for line in open(mp).read().split("\n")[1:]:
        if "\t" in line:
            a, b = line.split("\t", 1)
            matrix[a] = b.split()
for name in sorted(os.listdir(V)):
    d = os.path.join(V, name)
    if not os.path.isdir(d) or not name.startswith("C"):
        continue
    ver = open(os.path.join(d, ".verify")).read().split() if os.path.exists(os.path.join(d, ".verify")) else ["?", "?", "?"]
    notes = open(os.path.join(d, "notes.md")).read() if os.path.exists(os.path.join(d, "notes.md")) else ""
    meta = {
        "property": name.split("_")[0], "round": 7 if name.endswith("_r7") else 6 if name.endswith("_r6") else 5 if name.endswith("_r5") else 4 if name.endswith("_r4") else (3 if name.endswith("_r3") else (2 if name.endswith("_r2") else 1)),
        "what_it_needs_to_manifest": notes[:2500],
        "confirmed_on_current_HEAD": {"demo_without_change_rc": ver[0], "existing_suite_with_change_rc": ver[1], "demo_with_change_rc": ver[2],
                                      "how": "tools/seed_verify_all.sh (scratch worktree of /repo HEAD; cargo test -p strum_tests --offline --test seeded_demo before / after "
                                             "git apply patch.diff; cargo test --workspace --offline with the change, plus --features test_phf when the demo needs it)"},
        "detection": {"how": "git -C /repo apply seeded/%s/patch.diff; python3 tools/check.py <P> --tier quick; git -C /repo checkout -- ." % name,
                      "checks_that_report_a_violation": TARGETED.get(name, []),
                      "all_twenty_checks_on_a_scratch_worktree": matrix.get(name)},
        "strengthening_prompted": STRENGTHENED.get(name),
        "files": sorted(f for f in os.listdir(d) if not f.startswith(".") and f != "meta.json"),
    }
    json.dump(meta, open(os.path.join(d, "meta.json"), "w"), indent=1)
print("meta.json written for", len([n for n in os.listdir(V) if n.startswith("C") and os.path.isdir(os.path.join(V, n))]), "seeds")
