#!/usr/bin/env python3
"""check.py <property id> [--tier quick|thorough] | --replay <file>

One run = (1) build the Rocq development for the property and audit its theorems' assumptions,
(2) generate the corpus, (3) compile the REAL derives of /repo's working tree on it, run them,
(4) run the extracted model on the same corpus, (5) compare every observable the property
constrains, (6) write evidence / replays.  Exit 0: property held on everything explored; exit 1 with
`VIOLATION property=<id> replay=<path>` otherwise; exit 2: the check itself is broken."""
import argparse
import importlib
import json
import os
import random
import sys
import time
import traceback

sys.path.insert(0, os.path.dirname(os.path.abspath(__file__)))
from vlib import run as R            # noqa: E402
from vlib import gen as G            # noqa: E402


def load_prop(pid: str):
    mod = importlib.import_module("props.%s" % pid.lower())
    if not hasattr(mod, "THEOREMS"):
        import mkprops
        mod.THEOREMS = list(mkprops.TABLE[pid][2]) + [pid + "_nonvacuous"]
    return mod


def known_match(finding, prop, replay):
    if finding.get("property") != prop or finding.get("status") != "known":
        return False
    m = finding.get("match", {})
    src = replay.get("rust_source", "") or ""
    q = replay.get("query", "") or ""
    return all(s in src for s in m.get("source_contains", [])) and all(s in q for s in m.get("query_contains", []))


def run_check(pid: str, tier: str, seed: int, only_defs=None, replay_mode=False):
    mod = load_prop(pid)
    rng = random.Random(seed * 1000003 + sum(map(ord, pid)))
    violations = []       # replay payloads
    if not replay_mode and os.path.isdir(R.REPLAYS):
        for f in os.listdir(R.REPLAYS):
            if f.startswith(pid + "-"):
                os.remove(os.path.join(R.REPLAYS, f))
    notes = []

    # ---- 1. proofs
    if os.environ.get("VERIF_DEV_SKIP_COQ", "0") not in ("", "0"):      # development aid only: the evidence then shows 0 obligations
        coq = {"ok": True, "problems": [], "obligations": 0, "discharged": 0, "assumptions": {}, "dep_files": []}
    else:
        coq = R.coq_build(mod.PROP_FILE, mod.THEOREMS)
    if tier == "thorough" and coq["ok"] and not os.environ.get("VERIF_NO_COQCHK"):
        chk = R.coqchk(mod.PROP_FILE)
        coq["coqchk"] = chk
        if not chk["ok"]:
            coq["ok"] = False
            coq["problems"].append("coqchk: %s" % chk)
    R.log("coq: ok=%s obligations=%s" % (coq["ok"], coq.get("obligations")))
    proof_broken = not coq["ok"]

    # ---- 2. corpus
    probe_broken = None
    try:
        corpus = mod.build_corpus(tier, rng)
    except G.ProbeUnavailable as e:
        # corpus construction wanted the probe (names of non-ASCII identifiers, literals of the real code): build it again without
        probe_broken = str(e)
        G.NO_PROBE = True
        rng = random.Random(seed * 1000003 + sum(map(ord, pid)))
        corpus = mod.build_corpus(tier, rng)
    if getattr(mod, "HOSTILE_OK", None):
        # look-alikes of prelude names the UNCHANGED generator is immune to for this check's derives (established by experiment,
        # DESIGN.md 9.5): guards against a generated path that stops being absolute
        extra_h = [x for x in os.environ.get("VERIF_EXTRA_HOSTILE", "").split(",") if x]      # (development aid: trying a new look-alike on every check)
        corpus.add_hostile_twins(list(mod.HOSTILE_OK) + extra_h, per_name=(6 if tier == "thorough" else 2))
    if not getattr(mod, "NO_CONVENTIONAL_NAMES", False):
        # generic definitions once more under the parameter names everybody writes ('a, T, COUNT ..): see Corpus.add_conventional_name_twins
        corpus.add_conventional_name_twins(limit=(12 if tier == "thorough" else 6))
    if not getattr(mod, "NO_SILENT_DERIVES", False):
        # a few definitions once more with every further derive the model accepts on the same enum: see Corpus.add_silent_derive_twins
        corpus.add_silent_derive_twins(limit=(10 if tier == "thorough" else 5))
    if only_defs is not None:
        keep = set(only_defs)
        corpus.queries = [q for q in corpus.queries if q[1] in keep]
    R.log("corpus: %d definitions, %d queries" % (len(corpus.defs), len(corpus.queries)))

    def rendered(k_, cfg_):
        body = mod.render_def(k_, corpus.defs[k_], corpus.meta[k_], cfg_)
        return R.conventional_names(body) if getattr(corpus.defs[k_], "conventional_names", False) else body

    # ---- 3. implementation side
    configs = mod.crate_configs(tier) if hasattr(mod, "crate_configs") else [{"name": pid.lower()}]
    impl = {}             # config name -> {n: obs}
    build_failures = {}   # (config, k) -> rustc message
    fatal = None
    crates = []
    probe_cfgs = [c for c in configs if c.get("kind") == "genprobe"]
    configs = [c for c in configs if c.get("kind") != "genprobe"]
    if not any(c.get("release") for c in configs) and not getattr(mod, "NO_RELEASE_TWIN", False):
        # every corpus is built and run in BOTH profiles: a release build compiles strum_macros itself (a proc macro) without debug
        # assertions and the generated code without overflow checks — what the derives do must not depend on the profile
        configs = configs + [dict(c, name=c["name"] + "rel", release=True) for c in configs]
    for cfg in configs:
        cc = R.CorpusCrate(cfg["name"], features=cfg.get("features", ("derive",)), nshards=cfg.get("nshards", 8),
                           extra_deps=cfg.get("extra_deps", ""), crate_attrs=cfg.get("crate_attrs", ""),
                           profile_release=cfg.get("release", False), strum_dep=cfg.get("strum_dep"))
        flt = cfg.get("filter")
        for k, it in corpus.defs.items():
            if flt and not flt(k, corpus.meta[k]):
                continue
            cc.add(k, rendered(k, cfg))
        crates.append((cfg, cc))

    def build_one(pair):
        cfg, cc = pair
        ok = cc.build()
        return cfg, cc, ok
    # crates share one target dir: cargo serialises on its lock, so build sequentially
    for pair in crates:
        cfg, cc, ok = build_one(pair)
        if not ok:
            fatal = "corpus crate %s does not build: %s" % (cfg["name"], "\n".join(getattr(cc, "unattributed", ["?"]))[:3000])
            break
        for k, msg in cc.failed.items():
            build_failures[(cfg["name"], k)] = msg
    corpus_path = corpus.write()
    if not fatal:
        for cfg, cc in list(crates):
            obs, died = cc.run(corpus_path)
            impl[cfg["name"]] = obs
            for (b, rc, err) in died:
                notes.append("corpus binary %s exited with %s: %s" % (os.path.basename(b), rc, err[-300:]))

    for cfg in probe_cfgs:
        if fatal:
            break
        binp, err = R.build_genprobe()
        if binp is None:
            # the generator sources no longer fit the probe (an internal signature changed, say): the behavioural correspondence below does
            # not need the probe; what the probe alone decides is then undecided (see the end of this function)
            probe_broken = "genprobe (the generator sources of /repo compiled as a library) does not build: " + (err or "")[-1500:]
            break
        lines = []
        for (n, k, kind, args, note) in corpus.queries:
            cmd = mod.probe_command(corpus, n, k, kind, args)
            if cmd is not None:
                lines.append(cmd)
        obs, died = R.run_genprobe(binp, lines, os.path.join(R.WORK, pid))
        impl[cfg["name"]] = obs
        for (b, rc_, err) in died:
            notes.append("genprobe shard %s exited with %s: %s" % (os.path.basename(b), rc_, err[-300:]))
        crates.append((cfg, None))

    # ---- 4. model side
    model = R.run_model(corpus_path, mod.MODEL_ARGS if hasattr(mod, "MODEL_ARGS") else ())

    # ---- 5. compare
    evaluations = 0
    nontrivial = set()
    samples = []
    hist = {}
    checked_traces = 0
    blamed = set()
    unevaluated_after_stall = 0
    unevaluated_probe_queries = 0
    if not fatal:
        expected_fail = getattr(mod, "expected_build_failure", None)
        for (cfgname, k), msg in sorted(build_failures.items()):
            if expected_fail and expected_fail(k, corpus.meta[k], cfgname, msg):
                continue
            violations.append({"kind": "build-failure", "config": cfgname, "definition": k,
                               "rust_source": rendered(k, {"name": cfgname}),
                               "model_item": corpus.defs[k].sexp(), "query": "cargo build",
                               "observed": msg[:3000],
                               "expected": "the derive(s) compile on this in-domain definition",
                               "family": corpus.meta[k].get("family")})
        if probe_broken:
            for cfg in probe_cfgs:
                if not any(c_[0] is cfg for c_ in crates):
                    unevaluated_probe_queries += sum(1 for q in corpus.queries if mod.probe_command(corpus, q[0], q[1], q[2], q[3]) is not None)
        for cfg, cc in crates:
            cfgname = cfg["name"]
            flt = cfg.get("filter")
            is_probe = cfg.get("kind") == "genprobe"
            for (n, k, kind, args, note) in corpus.queries:
                if flt and not flt(k, corpus.meta[k]):
                    continue
                if (cfgname, k) in build_failures:
                    continue
                if hasattr(mod, "query_in_config") and not mod.query_in_config(cfg, kind, args):
                    continue
                if is_probe and mod.probe_command(corpus, n, k, kind, args) is None:
                    continue
                mobs = model.get(n)
                iobs = impl[cfgname].get(n)
                evaluations += 1
                if mobs is None or mobs.startswith("MODEL-FAILURE"):
                    raise RuntimeError("model gave no answer to query %d (%s %s): %s" % (n, kind, args, mobs))
                if iobs is None and cc is not None and cc.shard_of(k) in cc.stalled:
                    # the shard was killed because an observer did not terminate: the FIRST unanswered query is the one
                    if (cfgname, cc.shard_of(k)) in blamed:
                        unevaluated_after_stall += 1
                        evaluations -= 1
                        continue
                    blamed.add((cfgname, cc.shard_of(k)))
                    violations.append({"kind": "no-termination", "config": cfgname, "definition": k,
                                       "rust_source": rendered(k, cfg),
                                       "model_item": corpus.defs[k].sexp(),
                                       "query": "%s %s" % (kind, " ".join(args)), "observed": "<the implementation did not answer within the stall limit: killed>",
                                       "expected": mobs, "family": corpus.meta[k].get("family")})
                    continue
                if iobs is None:
                    violations.append({"kind": "no-answer", "config": cfgname, "definition": k,
                                       "rust_source": rendered(k, cfg),
                                       "model_item": corpus.defs[k].sexp(),
                                       "query": "%s %s" % (kind, " ".join(args)), "observed": "<corpus binary died>",
                                       "expected": mobs, "family": corpus.meta[k].get("family")})
                    continue
                ok, nt, detail = mod.compare(corpus, k, kind, args, note, iobs, mobs, cfg)
                checked_traces += 1
                fam = "%s/%s" % (corpus.meta[k].get("family", "?"), kind)
                hist[fam] = hist.get(fam, 0) + 1
                if nt:
                    nontrivial.add((k, kind, tuple(args), cfgname))
                if len(samples) < 12 and (nt or len(samples) < 3) and (n % max(1, len(corpus.queries) // 12) == 0):
                    samples.append({"definition": rendered(k, cfg).split("pub fn ")[0][-600:].strip(),
                                    "query": "%s %s" % (kind, " ".join(args)), "implementation": iobs[:200], "model": mobs[:200]})
                if not ok:
                    violations.append({"kind": "disagreement", "config": cfgname, "definition": k,
                                       "rust_source": rendered(k, cfg),
                                       "model_item": corpus.defs[k].sexp(),
                                       "query": "%s %s" % (kind, " ".join(args)), "note": note,
                                       "observed": iobs[:2000], "expected": mobs[:2000], "detail": detail,
                                       "family": corpus.meta[k].get("family")})

    extra_info = {}
    if not fatal and hasattr(mod, "extra_checks"):
        ev, nev, extra_info = mod.extra_checks(corpus, tier, model, impl)
        violations.extend(ev)
        evaluations += nev

    # ---- 6. report
    known = R.load_known_findings()
    rc = 0
    reported = 0
    seen_defs = set()
    for v in violations:
        v.update({"property": pid, "seed": seed, "tier": tier,
                  "replay_hint": "python3 tools/check.py --replay <this file>"})
        kf = [f for f in known if known_match(f, pid, v)]
        if kf:
            print("KNOWN-FINDING: property=%s %s" % (pid, kf[0].get("what", "")))
            continue
        key = (v.get("config"), v.get("definition"))
        if key in seen_defs and reported >= 1:
            continue      # one replay per definition
        seen_defs.add(key)
        if reported < 5:
            path = R.write_replay(pid, v)
            print("VIOLATION property=%s replay=%s" % (pid, path))
            R.log("  %s | %s | observed=%s expected=%s %s" % (v.get("family"), v.get("query"), str(v.get("observed"))[:160],
                                                              str(v.get("expected"))[:160], v.get("detail") or ""))
        reported += 1
        rc = 1
    if probe_broken:
        notes.append(probe_broken[:600])
        if getattr(mod, "PROBE_REQUIRED", False) and rc == 0:
            # this check decides part of its property on the generator itself (through the probe): that part is no longer shown to hold
            path = R.write_replay(pid, {"property": pid, "kind": "correspondence-broken", "what": probe_broken,
                                        "step": "harness/genprobe built against /repo's working tree"})
            print("VIOLATION property=%s replay=%s no-failing-input-found" % (pid, path))
            rc = 1
    if fatal and rc == 0:
        path = R.write_replay(pid, {"property": pid, "kind": "build-broken", "what": fatal,
                                    "step": "cargo build of the corpus crate against /repo's working tree"})
        print("VIOLATION property=%s replay=%s no-failing-input-found" % (pid, path))
        rc = 1
    if proof_broken and rc == 0:
        path = R.write_replay(pid, {"property": pid, "kind": "proof-broken", "theorems": mod.THEOREMS,
                                    "file": mod.PROP_FILE, "problems": coq["problems"]})
        print("VIOLATION property=%s replay=%s no-failing-input-found" % (pid, path))
        rc = 1
    elif proof_broken:
        R.log("proof obligations broken as well: %s" % coq["problems"])

    if not replay_mode:
        programs = sum(len(cc.mods) - len(cc.failed) for _, cc in crates if cc is not None)
        if probe_cfgs:
            programs += len(corpus.defs) or 1
        cov = {
            "obligations": coq.get("obligations", 0), "discharged": coq.get("discharged", 0),
            "checker_cmd": "make -C coq %s (coqc 8.16.1) + Print Assumptions on %s" % (mod.PROP_FILE[:-2] + ".vo", ", ".join(mod.THEOREMS)),
            "trusted_base": R.TRUSTED_BASE + list(getattr(mod, "TRUSTED", [])),
            "theorems": coq.get("assumptions", {}),
            "coqchk": coq.get("coqchk", "quick tier: not run (thorough tier re-checks the compiled files with coqchk -o)"),
            "proof_files": coq.get("dep_files", []),
            "programs": programs, "evaluations": evaluations, "distinct_nontrivial": len(nontrivial),
            "traces_validated_against_impl": checked_traces,
            "rule": mod.RULE, "samples": samples or [{"note": "no sample recorded"}],
            "histogram": hist, "build_failures_expected": len(build_failures) - sum(1 for v in violations if v["kind"] == "build-failure"),
            "configs": [c["name"] for c in configs], "notes": notes,
        }
        cov.update(extra_info)
        if unevaluated_after_stall:
            cov["unevaluated_after_a_non_terminating_observer"] = unevaluated_after_stall
        if probe_broken:
            cov["generator_probe"] = {"status": "unavailable", "why": probe_broken[:400], "queries_not_evaluated": unevaluated_probe_queries}
        if any(G.NAME_STATS.values()):
            # variants with non-ASCII identifiers: who named them (Model/HeckU.v on the probe's character table | the Rust reference)
            cov["non_ascii_variant_names"] = dict(G.NAME_STATS)
        if hasattr(mod, "extra_coverage"):
            cov.update(mod.extra_coverage(corpus, tier))
        R.write_evidence(pid, tier, seed, cov, list(getattr(mod, "ASSUMPTIONS", [])), reported)
    R.log("done: %d evaluations, %d nontrivial, %d violations, rc=%d" % (evaluations, len(nontrivial), reported, rc))
    return rc


def main():
    ap = argparse.ArgumentParser()
    ap.add_argument("prop", nargs="?")
    ap.add_argument("--tier", default=os.environ.get("VERIF_TIER", "quick"))
    ap.add_argument("--replay")
    a = ap.parse_args()
    seed = int(os.environ.get("VERIF_SEED", "0") or 0)
    try:
        if a.replay:
            rp = json.load(open(a.replay))
            pid = rp["property"]
            if rp.get("kind") in ("proof-broken", "build-broken"):
                rc = run_check(pid, rp.get("tier", "quick"), rp.get("seed", 0), replay_mode=True)
            else:
                rc = run_check(pid, rp.get("tier", "quick"), rp.get("seed", 0), only_defs=[rp["definition"]], replay_mode=True)
            print("replay: %s" % ("still fails" if rc else "no longer fails"))
            sys.exit(rc)
        if not a.prop:
            ap.error("property id required")
        tier = a.tier if a.tier in ("quick", "thorough") else "quick"
        sys.exit(run_check(a.prop.upper(), tier, seed))
    except SystemExit:
        raise
    except Exception:
        traceback.print_exc()
        sys.exit(2)


if __name__ == "__main__":
    main()
