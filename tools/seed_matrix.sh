#!/bin/bash
# seed_matrix.sh <tag> <seed>...: the given seeded changes x every quick check, on a scratch worktree (never touches /repo's working
# tree).  Appends to seeded/matrix.<tag>.tsv; tools/seed_matrix_all.sh runs four of these in parallel and merges them into matrix.tsv.
cd /verif
TAG=$1; shift
OUT=seeded/matrix.$TAG.tsv
: > $OUT
WT=/tmp/wt_matrix_$TAG
export VERIF_REPO=$WT VERIF_WORK=/tmp/vwork_matrix_$TAG VERIF_EVIDENCE=/tmp/vwork_matrix_$TAG/evidence VERIF_REPLAYS=/tmp/vwork_matrix_$TAG/replays
git -C /repo worktree remove --force $WT 2>/dev/null
git -C /repo worktree add -q --detach $WT HEAD || exit 2
for S in "$@"; do
  git -C $WT checkout -q -- .
  git -C $WT apply /verif/seeded/$S/patch.diff || { echo -e "$S\tpatch-does-not-apply" >> $OUT; continue; }
  HIT=""
  for P in C01 C02 C03 C04 C05 C06 C07 C08 C09 C10 C11 C12 C13 C14 C15 C16 C17 C18 C19 C20; do
    VERIF_DEV_SKIP_COQ=1 python3 tools/check.py $P --tier quick > $VERIF_WORK.$P.log 2>&1
    RC=$?
    [ $RC -eq 1 ] && HIT="$HIT $P"
    [ $RC -ge 2 ] && HIT="$HIT $P(rc$RC)"
  done
  echo -e "$S\t$HIT" >> $OUT
done
git -C /repo worktree remove --force $WT
rm -rf /tmp/vwork_matrix_$TAG /tmp/vwork_matrix_$TAG.*.log
