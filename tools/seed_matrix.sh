#!/bin/bash
# seed_matrix.sh: every seeded change x every quick check, on scratch worktrees (never touches /repo's working tree).
# Writes seeded/matrix.tsv.  Correspondence only when SKIP_COQ=1.
cd /verif
OUT=seeded/matrix.tsv
echo -e "seed\tcaught_by" > $OUT
WT=/tmp/wt_matrix
export VERIF_REPO=$WT VERIF_WORK=/tmp/vwork_matrix VERIF_EVIDENCE=/tmp/vwork_matrix/evidence VERIF_REPLAYS=/tmp/vwork_matrix/replays
git -C /repo worktree remove --force $WT 2>/dev/null
git -C /repo worktree add -q --detach $WT HEAD || exit 2
for d in seeded/C*/; do
  S=$(basename $d)
  git -C $WT checkout -q -- .
  git -C $WT apply /verif/seeded/$S/patch.diff || { echo "$S: patch does not apply"; continue; }
  HIT=""
  for P in C01 C02 C03 C04 C05 C06 C07 C08 C09 C10 C11 C12 C13 C14 C15 C16 C17 C18 C19 C20; do
    VERIF_DEV_SKIP_COQ=${SKIP_COQ:-0} python3 tools/check.py $P --tier quick > /tmp/matrix_${S}_$P.log 2>&1
    RC=$?
    [ $RC -eq 1 ] && HIT="$HIT $P"
    [ $RC -ge 2 ] && HIT="$HIT $P(rc$RC)"
  done
  echo -e "$S\t$HIT" >> $OUT
  echo "$S:$HIT"
done
git -C /repo worktree remove --force $WT
rm -rf /tmp/vwork_matrix
