#!/bin/bash
# tree_check.sh <tree> <tag> [props...]: run the quick checks against another checkout of strum (a scratch worktree),
# never touching /repo.  Used for the harmless-refactor test: every alarm printed here is a FALSE alarm to be fixed.
cd /verif
T=$1; TAG=$2; shift 2
PROPS=${@:-C01 C02 C03 C04 C05 C06 C07 C08 C09 C10 C11 C12 C13 C14 C15 C16 C17 C18 C19 C20}
export VERIF_REPO=$T VERIF_WORK=/tmp/vwork_$TAG VERIF_EVIDENCE=/tmp/vwork_$TAG/evidence VERIF_REPLAYS=/tmp/vwork_$TAG/replays
mkdir -p $VERIF_WORK
for P in $PROPS; do
  VERIF_DEV_SKIP_COQ=${SKIP_COQ:-1} python3 tools/check.py $P --tier quick > $VERIF_WORK/$P.log 2>&1
  RC=$?
  echo "$TAG $P rc=$RC $(grep -c VIOLATION $VERIF_WORK/$P.log) violation lines"
done
