"""C16 — use_phf is a pure optimisation of EnumString."""
import copy
from vlib.defs import Item, Variant, Field, EM, ser, tos, aci, DISABLED, DEFAULT
from vlib.run import Corpus
from vlib import gen as G
from vlib import strings as S
from props import c01

ID = "C16"
PROP_FILE = "Props/C16.v"
RULE = ("every definition is rendered twice in one crate built with strum's `phf` feature: as written and with #[strum(use_phf)] "
        "added. Definitions: field-less enums (optionally one #[strum(default)] Other(String) variant) with spellings that are "
        "mixed-case, all-lower, all-upper, caseless (digits, punctuation, non-ASCII) and empty, case-insensitive at enum or variant "
        "level or not, disabled variants, serialize_all, custom errors; NonOverlap by the model's predicate. The full C01/C12 input "
        "set (spellings, all case flips, edits, look-alikes) is fed to both parsers: each must equal its own model, the two "
        "implementations must agree with each other, and the phf twin must compile. non-trivial = distinct (pair, input)")
ASSUMPTIONS = ["phf_map! rejects duplicate keys and phf::Map::get is exact-key lookup (modelled as an association list with distinct keys)"]

PLAIN = {}


def crate_configs(tier):
    return [{"name": "c16", "features": ("derive", "phf")}, {"name": "c16probe", "kind": "genprobe"}]


def query_in_config(cfg, kind, args):
    return (kind == "struct") == (cfg.get("kind") == "genprobe")


probe_command = S.struct_probe_command


def regression():
    return [
        # the defect repaired by 81b01f2: all-lower / all-upper / caseless case-insensitive spellings collided in phf_map!
        Item("E", [Variant("Blue", "unit", [], [aci(True, explicit=False), ser("blue")])]),
        Item("E", [Variant("A", "unit", [], [ser("UP"), ser("42"), ser("")]), Variant("B", "unit", [], [ser("é"), ser("x-y")])], metas=[EM("aci")]),
        Item("E", [Variant("A", "unit", [], [ser("ab"), ser("AB"), ser("Ab")]), Variant("Other", "tuple", [Field("String")], [DEFAULT]),
                   Variant("Off", "unit", [], [DISABLED, ser("off")])], metas=[EM("aci")]),
        Item("E", []),
        Item("E", [Variant("Only", "tuple", [Field("String")], [DEFAULT])]),
        # `V()` and `V {}` carry no data either: accepted without use_phf, so accepted with it
        Item("E", [Variant("Unit", "unit"), Variant("Tuple", "tuple", []), Variant("Struct", "named", [], [ser("st"), aci(True, explicit=False)])]),
        Item("E", [Variant("Tuple", "tuple", [], [ser("t"), ser("T2")]), Variant("Other", "named", [Field("String", "rest")], [DEFAULT]),
                   Variant("Struct", "named", [])], metas=[EM("aci"), EM("sall", "kebab-case")]),
    ]


def overlapping():
    """definitions whose spellings OVERLAP (one input matches two variants): the property quantifies over every field-less
    enum, so the phf parser must still agree with the plain one (declaration order decides)"""
    out = []
    # (two-letter spellings; ONE-letter spellings and one letter next to a non-letter: a "lower + upper key cover every form" shortcut, seed C16_r14)
    for sp in (["ab", "Ab", "aB", "AB"], ["x", "X"], ["x1", "X1"], ["-q", "-Q"]):
        for x in sp:
            for y in sp:
                for a in (False, True):
                    for b in (False, True):
                        va = Variant("First", "unit", [], [ser(x)] + ([aci(True, explicit=False)] if a else []))
                        vb = Variant("Second", "unit", [], [ser(y)] + ([aci(True, explicit=True)] if b else []))
                        out.append(Item("E", [va, vb]))
                        # the same with `V()` / `V {}` shapes (no data, so use_phf accepts them): the shape must not change the bookkeeping
                        for ka, kb in (("tuple", "unit"), ("unit", "named"), ("named", "tuple")):
                            if (sp.index(x) + sp.index(y)) % 3 == ("tuple", "unit", "named").index(ka):
                                va2, vb2 = copy.deepcopy(va), copy.deepcopy(vb)
                                va2.kind, vb2.kind = ka, kb
                                out.append(Item("E", [va2, vb2]))
    # spellings equal under UNICODE case mapping only (not under ASCII folding) are distinct keys and distinct guard arms
    for a, b in (("k", "\u212a"), ("é", "É"), ("ss", "ß"), ("s", "\u017f"), ("i", "\u0131"), ("ä-x", "Ä-X")):
        for x, y in ((a, b), (b, a)):
            for fa in (False, True):
                for fb in (False, True):
                    out.append(Item("E", [Variant("First", "unit", [], [ser(x)] + ([aci(True, explicit=False)] if fa else [])),
                                          Variant("Second", "unit", [], [ser(y)] + ([aci(True, explicit=True)] if fb else []))]))
    for x, y, z in (("ab", "AB", "aB"), ("Ab", "ab", "ab"), ("x", "X", "x")):
        for mask in range(8):
            vs = [Variant(n, "unit", [], [ser(l), ser(l + "2")] + ([aci(True, explicit=False)] if mask >> i & 1 else []))
                  for i, (n, l) in enumerate((("P", x), ("Q", y), ("R", z)))]
            out.append(Item("E", vs + [Variant("Other", "tuple", [Field("String")], [DEFAULT])]))
    return out


SIBLINGS = {}


def shadowing():
    """variants named like prelude items, glob-imported at the definition site: `every enum accepted without use_phf still
    compiles with it` includes these (the generated code must not rely on an unqualified Ok / Err / Some / None)"""
    out = []
    for names in (["Ok", "Err"], ["Some", "None", "Ok"], ["None", "Other"], ["Result", "Option", "Err", "Some"]):
        for flag in (False, True):
            vs = [Variant(n, "unit", [], [aci(True, explicit=False)] if flag and i % 2 == 0 else []) for i, n in enumerate(names)]
            out.append(Item("E", vs))
            out.append(Item("E", vs + [Variant("Rest", "tuple", [Field("String")], [DEFAULT])]))
    return out


def build_corpus(tier, rng):
    c = Corpus(ID)
    thorough = tier == "thorough"
    PLAIN.clear()
    cands = [("regression", it) for it in regression()] + [("overlap", it) for it in overlapping()] + [("prelude-shadow", it) for it in shadowing()] + [("long-spelling", it) for it in c01.long_spellings() if not any(m.kind == "phf" for m in it.metas)]
    # the enum's OWN NAME coincides with names the phf prologue brings into scope or declares (Map, PHF, ..)
    for nm in ("Map", "PHF", "Entry", "Value", "Set"):
        cands.append(("own-name", Item(nm, [Variant("Dust", "unit"), Variant("Inferno", "unit", [], [aci(True, explicit=False), ser("inf")]),
                                            Variant("Rest", "tuple", [Field("String")], [DEFAULT])])))
        cands.append(("own-name", Item(nm, [Variant("Map", "unit"), Variant("PHF", "unit", [], [ser("p")])])))
    # two enums in ONE module whose names snake-case alike (Rgb / RGB, HttpCode / HTTPCode): both accepted without use_phf, so both with it
    for a_, b_ in (("Rgb", "RGB"), ("HttpCode", "HTTPCode"), ("E", "e")):
        cands.append(("snake-equal-sibling", Item(a_, [Variant("Red", "unit"), Variant("Green", "unit", [], [aci(True, explicit=False), ser("g")])])))
        SIBLINGS[a_] = b_
    # declared where there is NO prelude at all (#![no_implicit_prelude]): accepted without use_phf, so accepted with it (the generated code
    # may not rely on a prelude trait being in scope for a method call)
    for j, vs in enumerate(([Variant("Fast", "unit"), Variant("Slow", "unit", [], [aci(True, explicit=False), ser("s")])],
                            [Variant("A", "unit", [], [ser("a"), ser("A")]), Variant("B", "unit"), Variant("Off", "unit", [], [DISABLED])])):
        nip = Item("E", vs, metas=[EM("aci")] if j else [])
        nip.hostile = ["no_implicit_prelude"]
        cands.append(("no-prelude", nip))
    for nm_ in ("c_binders", "Clone", "Some", "Ok"):
        hs = Item("E", [Variant("Fast", "unit"), Variant("Slow", "unit", [], [aci(True, explicit=False), ser("s")]), Variant("Plain", "unit", [], [ser("p")])])
        hs.hostile = [nm_]
        cands.append(("hostile-scope/" + nm_, hs))
    # a LIFETIME parameter (used by a disabled variant only: the enabled ones carry no data) is no obstacle to use_phf
    for j in range(3):
        vs = [Variant("Plain", "unit"), Variant("Other", "tuple", [Field("&'l0 str")], [DISABLED] + ([ser("o")] if j else [])), Variant("Dark", "unit", [], [ser("d"), aci(True, explicit=False)]),
              Variant("Ref", "named", [Field("&'l0 str", "text")], [DISABLED])][: 4 - (j % 2)]
        lt = Item("E", vs, lifetimes=1, metas=[EM("sall", "kebab-case")] if j == 2 else [])
        cands.append(("lifetime", lt))
    for it in c01.declaration_order():
        if not any(m.kind == "phf" for m in it.metas):
            cands.append(("overlap", it))
    for it in c01.systematic(rng):
        for v in it.variants:
            if not v.has("default"):
                v.kind, v.fields = "unit", []
        cands.append(("systematic", it))
    for _ in range(700 if thorough else 90):
        it = G.string_enum(rng, allow_fields=False, allow_dw=False, generics=False)
        cands.append(("random", it))
    infos = G.classify(ID, [it for _, it in cands])
    twins = []
    for _, it in cands:
        tw = copy.deepcopy(it)
        tw.metas.append(EM("phf"))
        tw.groups = None
        twins.append(tw)
    reals = G.real_structure(ID, [it for _, it in cands] + twins)
    # the model's description of the same code: where the two differ, a search for a distinguishing input follows (S.mismatch_search)
    mstructs = [r[0] for r in G.model_query(ID, [it for _, it in cands] + twins, [("struct", ["EnumString"])])] if any(reals) else [None] * (2 * len(cands))
    rejected = 0
    for ci, ((fam, it), info) in enumerate(zip(cands, infos)):
        if fam == "overlap":
            if info is None:
                continue
        elif not c01.admit(it, info):
            rejected += 1
            continue
        sh = fam == "prelude-shadow"
        sib = sib2 = None
        if fam == "snake-equal-sibling":
            sib = copy.deepcopy(it)
            sib.ident = SIBLINGS[it.ident]
            sib2 = copy.deepcopy(twins[ci])
            sib2.ident = SIBLINGS[it.ident]
        k = c.add_def(it, family=fam, derives=["EnumString"], info=info, twin=None, shadow_prelude=sh, sibling=sib)
        twin = twins[ci]
        k2 = c.add_def(twin, family=fam, derives=["EnumString"], info=info, twin=k, shadow_prelude=sh, sibling=sib2)
        seen = set()
        for s, note in G.fromstr_inputs(it, info, rng, flipcap=(256 if thorough else 16), nrandom=(30 if thorough else 6)):
            c.add_q(k, "fromstr", [S.hx(s)], note=note)
            c.add_q(k2, "fromstr", [S.hx(s)], note=note)
            seen.add(s)
        # guided search: the literals of BOTH real expansions go to both twins
        for lit in G.literals_of_structure(reals[ci]) + G.literals_of_structure(reals[len(cands) + ci]):
            for s_ in (lit, lit.lower(), lit.upper(), lit.swapcase()):
                if s_ not in seen:
                    seen.add(s_)
                    c.add_q(k, "fromstr", [S.hx(s_)], note="near-real-literal")
                    c.add_q(k2, "fromstr", [S.hx(s_)], note="near-real-literal")
        for j_ in (ci, len(cands) + ci):
            for s_ in S.mismatch_search(reals[j_], mstructs[j_]):
                if s_ not in seen:
                    seen.add(s_)
                    c.add_q(k, "fromstr", [S.hx(s_)], note="search-after-structural-mismatch")
                    c.add_q(k2, "fromstr", [S.hx(s_)], note="search-after-structural-mismatch")
        c.add_q(k, "struct", ["EnumString"], note="structure")
        c.add_q(k2, "struct", ["EnumString"], note="structure")
    c.rejected = rejected
    return c


render_def = c01.render_def


def compare(corpus, k, kind, args, note, iobs, mobs, cfg):
    ok, nt, detail = S.compare_strings(corpus, k, kind, args, note, iobs, mobs, cfg)
    if kind == "struct":
        return ok, nt, detail
    twin = corpus.meta[k].get("twin")
    if twin is None:
        PLAIN[(k, args[0])] = (iobs, mobs)
    else:
        pi = PLAIN.get((twin, args[0]))
        if pi is None:
            # the plain twin failed to build or answer: reported there
            return ok, nt, detail
        if pi[0] != iobs:
            return False, nt, "use_phf changes the result: plain=%s phf=%s" % (pi[0], iobs)
        if pi[1] != mobs:
            return False, nt, "model: use_phf changes the result: plain=%s phf=%s" % (pi[1], mobs)
    return ok, nt and twin is not None, detail


extra_coverage = c01.extra_coverage
