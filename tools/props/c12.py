"""C12 — ascii_case_insensitive folds ASCII letters only, only for the variants it covers."""
import copy
from vlib.defs import Item, Variant, Field, EM, ser, tos, aci, DISABLED
from vlib.run import Corpus
from vlib import gen as G
from vlib import strings as S
from props import c01

ID = "C12"
# look-alikes of prelude names (vlib/defs.py HOSTILE) this check's derives are immune to on the unchanged tree
HOSTILE_OK = ['Default', 'From', 'Into', 'Result', 'Option', 'Some', 'Ok', 'Iterator', 'Clone', 'AsRef', 'Send', 'PhantomData', 'IterGet', 'm_matches', 'm_assert', 'm_fmt', 'c_binders', 'no_implicit_prelude', 'ByValue']
PROP_FILE = "Props/C12.v"
RULE = ("definitions: enum flag on/off x variant flag {absent, bare keyword, = true, = false} x spellings with ASCII letters, "
        "non-ASCII letters (é/É, ß, Kelvin sign, long s, dotless i, ligatures), digits, caseless and empty spellings, NonOverlap by "
        "the model's predicate; inputs: ALL 2^k ASCII case flips of every spelling (k <= 8 quick / 12 thorough, sampled beyond), each "
        "letter replaced by its Unicode case-mapping look-alike, one-edit neighbours, every flip also reaches the case-sensitive "
        "variants of the same enum. non-trivial = distinct (definition, input) that is a flip / look-alike / edit of a spelling, or "
        "a match")
ASSUMPTIONS = ["strings are compared as UTF-8 bytes, which is what str::eq_ignore_ascii_case and == do"]

WORDS = ["kelvin", "Kiss", "straSSe", "İstanbul"[1:], "sIlk", "naïve", "ÉCOLE", "école", "mIxEd", "x1y2", "42", "-", "", "ß", "fi",
         "ſ", "K", "Zürich", "ab", "Ab-Cd_Ef", "q"]


def systematic():
    items = []
    n = 0
    for eflag in (False, True):
        for chunk in range(0, len(WORDS), 7):
            vs = []
            for w in WORDS[chunk:chunk + 7]:
                for vf in (None, "bare", True, False):
                    n += 1
                    ms = [ser("%s%d" % (w, n)), ser("%d%s" % (n, w.upper() if n % 2 else w))]
                    if vf == "bare":
                        ms.append(aci(True, explicit=False))
                    elif vf is not None:
                        ms.append(aci(vf, explicit=True))
                    vs.append(Variant("V%d" % n, "unit", [], ms))
            items.append(Item("E", vs, metas=[EM("aci")] if eflag else []))
    # pairs of spellings that are EQUAL under Unicode case mapping but DIFFERENT under ASCII folding must stay two variants
    pairs = [("é", "É"), ("k", "\u212a"), ("s", "\u017f"), ("ss", "ß"), ("i", "\u0131"), ("I", "\u0130"), ("ǆ", "Ǆ"), ("σ", "ς"), ("ä-x", "Ä-X"),
             # ASCII bytes that differ in bit 5 only but are NOT letters: folding must not merge them
             ("|", "\\"), ("~", "^"), ("`", "@"), ("user-name", "user\rname"), ("[x]", "{x}"), ("a_b", "a\x7fb"), ("1", "\x11"),
             # different words whose 32-bit FNV-1a hashes coincide (a hash is not a key)
             ("costarring", "liquid"), ("altarage", "zinke"), ("declinate", "macallums")]
    for eflag in (False, True):
        vs = []
        for j, (a, b) in enumerate(pairs):
            fl = [] if eflag else [aci(True, explicit=(j % 2 == 0))]
            vs.append(Variant("P%da" % j, "unit", [], [ser(a + str(j))] + fl))
            vs.append(Variant("P%db" % j, "unit", [], [ser(b + str(j))] + fl))
        items.append(Item("E", vs, metas=[EM("aci")] if eflag else []))
    # ... and the same pairs as two spellings of ONE variant (variant-level flag, enum-level flag, no flag)
    for mode in ("variant", "enum", "none", "variant-false"):
        vs = []
        for j, (a, b) in enumerate(pairs):
            fl = {"variant": [aci(True, explicit=(j % 2 == 0))], "enum": [], "none": [], "variant-false": [aci(False)]}[mode]
            vs.append(Variant("Q%d" % j, "unit", [], [ser(a + "q%d" % j), ser(b + "q%d" % j)] + fl))
        items.append(Item("E", vs, metas=[EM("aci")] if mode == "enum" else []))
    # the phf-backed parser folds ASCII only as well: an EARLIER case-insensitive spelling and a LATER spelling equal to it under
    # Unicode case mapping (but not under ASCII folding) are two different keys — in every flag combination and both orders
    for a_first in (True, False):
        for fa in (True, False):
            for fb in (True, False):
                vs = []
                for j, (a, b) in enumerate(pairs):
                    x, y = (a, b) if a_first else (b, a)
                    vs.append(Variant("U%da" % j, "unit", [], [ser(x + "u%d" % j)] + ([aci(True, explicit=False)] if fa else [])))
                    vs.append(Variant("U%db" % j, "unit", [], [ser(y + "u%d" % j)] + ([aci(True, explicit=True)] if fb else [])))
                items.append(Item("E", vs, metas=[EM("phf")]))
                items.append(Item("E", [copy.deepcopy(v) for v in vs]))
                # ... and with `V()` / `V {}` shapes in between (accepted by use_phf: they carry no data)
                vs2 = [copy.deepcopy(v) for v in vs]
                for j, v in enumerate(vs2):
                    v.kind = ["unit", "tuple", "named"][(j + (1 if a_first else 0)) % 3]
                items.append(Item("E", vs2, metas=[EM("phf")]))
    # ASCII-case-equal spellings across variants of different SHAPES under use_phf: the earlier case-insensitive one wins
    for shapes in (("tuple", "unit"), ("named", "unit"), ("unit", "tuple"), ("tuple", "named")):
        for x, y in (("Ab", "aB"), ("stop", "STOP"), ("x1", "X1")):
            for fa, fb in ((True, False), (True, True), (False, True)):
                ov = Item("E", [Variant("First", shapes[0], [], [ser(x)] + ([aci(True, explicit=False)] if fa else [])),
                                Variant("Second", shapes[1], [], [ser(y)] + ([aci(True, explicit=True)] if fb else []))], metas=[EM("phf")])
                ov.overlap_family = True       # spellings overlap on purpose: declaration order decides, with and without the map
                items.append(ov)
    # serialize_all next to the flags: the RENAMED identifier is what is compared, exactly or ignoring ASCII case — also when the style only
    # changes the case (lowercase / UPPERCASE), and also for identifiers with non-ASCII letters (which ASCII folding leaves alone)
    for st in ("lowercase", "UPPERCASE", "snake_case", "SCREAMING-KEBAB-CASE", "camelCase", "Train-Case"):
        for eflag in (False, True):
            vs = [Variant("High", "unit"), Variant("DarkBlack", "unit", [], [aci(False)]), Variant("Ärger", "unit", [], [aci(True, explicit=False)]),
                  Variant("Café", "unit", [], [aci(True, explicit=True)] if not eflag else []), Variant("ÉlanVital", "unit", [], [aci(False)] if eflag else []),
                  Variant("MidGray", "unit", [], [aci(True, explicit=False)]), Variant("Low2Go", "unit", [], [ser("low-2"), aci(not eflag, explicit=True)])]
            items.append(Item("E", vs, metas=[EM("sall", st)] + ([EM("aci")] if eflag else [])))
            items.append(Item("E", copy.deepcopy(vs), metas=([EM("aci")] if eflag else []) + [EM("sall", st), EM("phf")]))
    # options meant for OTHER derives (const_into_str, prefix) on the enum do not make anything case-insensitive
    for extra in ([EM("cis")], [EM("prefix", "p/")], [EM("cis"), EM("sall", "snake_case")]):
        vs = [Variant("Red", "unit"), Variant("DarkGreen", "unit", [], [aci(True, explicit=False)]), Variant("Blue", "unit", [], [ser("blue"), aci(False)]),
              Variant("Mixed", "unit", [], [ser("MiXed"), ser("other")])]
        items.append(Item("E", vs, metas=list(extra)))
    # MANY spellings on one variant (17, 20, 33): the variant's own flag decides, whatever the enum says
    for eflag in (False, True):
        for nsp in (17, 20, 33):
            vs = []
            for j, vf in enumerate((None, True, False, "bare")):
                ms = [ser("Alias%d-%02d" % (j, q)) for q in range(nsp)]
                if vf == "bare":
                    ms.insert(3, aci(True, explicit=False))
                elif vf is not None:
                    ms.insert(5, aci(vf, explicit=True))
                vs.append(Variant("Many%d" % j, "unit", [], ms))
            items.append(Item("E", vs, metas=[EM("aci")] if eflag else []))
    # identifiers as spellings, with serialize_all
    for eflag in (False, True):
        for sty in ("snake_case", "SCREAMING-KEBAB-CASE", None):
            vs = [Variant(i, "unit", [], [aci(b, explicit=True)] if b is not None else [])
                  for i, b in zip(["HTTPServer", "GreenApple", "Id", "Utf8String", "QRCode"], [None, True, False, None, True])]
            metas = ([EM("aci")] if eflag else []) + ([EM("sall", sty)] if sty else [])
            items.append(Item("E", vs, metas=metas))
    return items


def crate_configs(tier):
    return [{"name": ID.lower(), "features": ("derive", "phf")}, {"name": ID.lower() + "probe", "kind": "genprobe"}]


def query_in_config(cfg, kind, args):
    return (kind == "struct") == (cfg.get("kind") == "genprobe")


probe_command = S.struct_probe_command


def build_corpus(tier, rng):
    c = Corpus(ID)
    thorough = tier == "thorough"
    cands = [("systematic", it) for it in systematic()] + c01.namesake_items(unit_only=True)[:2] + [("phf-overlap", it) for it in c01.declaration_order() if any(m.kind == "phf" for m in it.metas)]
    # the same definitions coming out of a macro_rules! expansion, every attribute VALUE (`= false`, `= "x"`) passed in as an `expr` /
    # `literal` fragment: `ascii_case_insensitive = false` stays false
    for j, (fam, it) in enumerate(list(cands)):
        if j % 3 == 0 and not getattr(it, "overlap_family", False):
            tw = copy.deepcopy(it)
            tw.via_macro = True
            cands.append(("via-macro", tw))
    for _ in range(600 if thorough else 60):
        cands.append(("random", G.string_enum(rng, allow_default=False, allow_dw=False, allow_fields=False, custom_err=False)))
    infos = G.classify(ID, [it for _, it in cands])
    reals = G.real_structure(ID, [it for _, it in cands])
    # the model's description of the same code: where the two differ, a search for a distinguishing input follows (S.mismatch_search)
    mstructs = [r[0] for r in G.model_query(ID, [it for _, it in cands], [("struct", ["EnumString"])])] if any(reals) else [None] * len(cands)
    rejected = 0
    for (fam, it), info, real, mstruct in zip(cands, infos, reals, mstructs):
        if getattr(it, "overlap_family", False):
            if info is None:
                continue
            fam = "phf-overlap"
        elif not c01.admit(it, info):
            rejected += 1
            continue
        k = c.add_def(it, family=fam, derives=["EnumString"], info=info)
        seen = set()
        for s, note in G.fromstr_inputs(it, info, rng, flipcap=(4096 if thorough else 256), nrandom=4):
            c.add_q(k, "fromstr", [S.hx(s)], note=note)
            seen.add(s)
        S.add_real_literal_inputs(c, k, it, real, seen, model_summary=mstruct)
    c.rejected = rejected
    return c


render_def = c01.render_def
compare = c01.compare
extra_coverage = c01.extra_coverage
