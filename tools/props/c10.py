"""C10 — EnumTable is a total map from enabled variants to values."""
import itertools
from vlib.defs import Item, Variant, Field, DISABLED, ser, msg, props, tos, raw, doc
from vlib.run import Corpus
from vlib import structs as T
from vlib import gen as G

ID = "C10"
# look-alikes of prelude names (vlib/defs.py HOSTILE) this check's derives are immune to on the unchanged tree
HOSTILE_OK = ['Default', 'From', 'Into', 'Result', 'Option', 'Some', 'Ok', 'Iterator', 'AsRef', 'Send', 'PhantomData', 'IterGet', 'm_matches', 'm_assert', 'm_fmt', 'c_binders', 'ByValue']
PROP_FILE = "Props/C10.v"
RULE = ("field-less enums with 1-8 enabled variants and every placement of disabled ones for up to 5 variants (identifiers with "
        "acronyms / digits / underscores so that the snake-cased field names are exercised). Histories per definition: all "
        "write/read sequences up to length 3 (quick) / 4 (thorough) over all keys with values {1,2,3} followed by a dump of every "
        "slot; seeded random sequences of length <= 60; the constructors new (pairwise distinct values per slot), filled, "
        "from_closure, transform (value depends on key and old value); all() with every mask of None slots and all_ok() with "
        "every mask of Err slots (for up to 5 slots); reads and writes of disabled keys under catch_unwind. non-trivial = distinct "
        "(definition, history)")
ASSUMPTIONS = ["slot values are i64 (the table is generic in T; the harness instantiates T = i64, Option<i64>, Result<i64, usize>)"]

NAMES = ["Red", "GreenApple", "HTTPServer", "Utf8String", "X", "Abc_def", "A1b2", "Blue2Go", "Id", "IOError", "Yellow", "V10"]


def build_corpus(tier, rng):
    c = Corpus(ID)
    thorough = tier == "thorough"
    items = []
    for n in range(1, 6):
        for mask in range(2 ** n - 1):          # at least one enabled variant
            vs = [Variant(NAMES[(i + mask) % len(NAMES)] + "V%d" % i, "unit", [], [DISABLED] if mask >> i & 1 else []) for i in range(n)]
            items.append(("mask", Item("E", vs)))
    for n in (6, 7, 8, 10):
        vs = [Variant(NAMES[i] , "unit", [], [DISABLED] if i in (1, 4) else []) for i in range(n)]
        items.append(("wide", Item("E", vs, vis=("pubcrate" if n == 7 else "pub"))))
    # `disabled` after / before other items of the same #[strum(..)] attribute, or in an attribute of its own
    noise = [[ser("teal"), DISABLED], [DISABLED, ser("teal")], [props([("k", ("s", "v"))]), DISABLED], [msg("m"), DISABLED, tos("t")], [DISABLED],
             [raw("doc(hidden)"), DISABLED], [raw('doc(alias = "x")'), doc(" docs"), DISABLED], [raw("allow(dead_code)"), DISABLED]]
    for j, ms in enumerate(noise):
        for split in (None, [1]):
            vs = [Variant("Red", "unit"), Variant("Teal", "unit", [], list(ms), groups=split), Variant("Blue", "unit", [], [ser("b")]),
                  Variant("Last%d" % j, "unit", [], list(reversed(ms)), groups=split)]
            items.append(("noise", Item("E", vs)))
    # an enabled and a DISABLED variant whose snake names coincide: the disabled one owns no slot, so nothing clashes
    for a, b in (("Kb", "KB"), ("Rev1", "Rev_1"), ("HttpServer", "HTTPServer"), ("r#type", "Type")):
        for order in (0, 1):
            en_v, dis_v = Variant(a, "unit"), Variant(b, "unit", [], [DISABLED])
            vs = [Variant("First", "unit")] + ([en_v, dis_v] if order == 0 else [dis_v, en_v]) + [Variant("Last", "unit", [], [ser("l")])]
            items.append(("snake-twin", Item("E", vs)))
    # every option of the other derives around `disabled` (before / after it, one list / several)
    for it in G.foreign_option_items(rng, 30 if thorough else 8, unit_only=True, allow_default=False, tag="U"):
        if any(not v.has("disabled") for v in it.variants):
            items.append(("foreign-options", it))
    # a RAW identifier and an enabled sibling named like it without `r#`: two variants, two slots (the slot of `r#fn` is not the slot of `Fn`)
    for names in (["r#fn", "Fn"], ["Type", "r#type", "Other"], ["r#match", "Plain", "Match", "r#loop"], ["r#Self_", "Self_"]):
        if names[0] == "r#Self_":
            names = ["r#async", "Async", "r#dyn"]
        items.append(("raw-sibling", Item("E", [Variant(n_, "unit") for n_ in names])))
    # the ENUM is named by a raw identifier: the table type is named after the un-rawed name
    items.append(("raw-enum-name", Item("r#type", [Variant("Alpha", "unit"), Variant("Beta", "unit", [], [DISABLED]), Variant("Gamma", "unit")])))
    items.append(("raw-enum-name", Item("r#dyn", [Variant("r#fn", "unit"), Variant("Beta", "unit")])))
    # non-ASCII identifiers (with digits after the non-ASCII letter): the slot names are derived from them
    items.append(("non-ascii", Item("E", [Variant("Größe42", "unit"), Variant("É1", "unit", [], [DISABLED]), Variant("变7x", "unit"), Variant("Plain", "unit"), Variant("Öl2", "unit")])))
    # the enum comes out of a macro_rules! expansion, the VARIANT NAMES handed in as `ident` fragments (other hygiene context than the derive)
    for j in range(2):
        mm = Item("E", [Variant("Left", "unit"), Variant("Spare", "unit", [], [DISABLED]), Variant("Middle", "unit", [], [ser("m")]), Variant("Right", "unit")][: 4 - j])
        mm.via_macro = "idents"
        items.append(("macro-idents", mm))
    # a field-less enum may still have (defaulted) const parameters: the table is generic over them
    for nc in (1, 2):
        it = Item("E", [Variant("Left", "unit"), Variant("Spare", "unit", [], [DISABLED]), Variant("Middle", "unit"), Variant("Right", "unit", [], [ser("r")])], cparams=nc)
        it.cparam_default = "3"        # the value the harness instantiates const parameters with
        items.append(("const-default", it))
    for fam, it in items:
        en = [i for i, v in enumerate(it.variants) if not v.has("disabled")]
        dis = [i for i, v in enumerate(it.variants) if v.has("disabled") and v.kind == "unit"]
        k = c.add_def(it, family=fam, derives=["EnumTable"], enabled=en, std_derives=["Debug", "Clone", "PartialEq"])
        ns = len(en)
        newc = "new:" + ",".join(str(100 + 7 * p) for p in range(ns))
        ctors = [newc, "filled:9", "closure"]
        c.add_q(k, "table", ["slots"], note="slots")
        if not it.cparams:
            c.add_q(k, "ctor", ["default"], note="default")
        for ct in ctors:
            c.add_q(k, "table", [ct, "D"] + ["r%d" % i for i in en + dis] + ["T", "D"], note="ctor")
        keys = en + dis
        L = 4 if thorough else 3
        ops1 = ["w%d=%d" % (i, x) for i in keys for x in (1, 2, 3)] + ["r%d" % i for i in keys]
        if len(ops1) ** 2 <= (40000 if thorough else 2500):
            for ln in range(1, L + 1):
                if len(ops1) ** ln > (60000 if thorough else 4000):
                    break
                for seq in itertools.product(ops1, repeat=ln):
                    c.add_q(k, "table", [newc] + list(seq) + ["D"], note="short")
        else:
            for a in ops1:
                for b in ops1[:: max(1, len(ops1) // 12)]:
                    c.add_q(k, "table", [newc, a, b, "D"], note="short")
        for _ in range(300 if thorough else 25):
            seq = []
            for _ in range(rng.randint(1, 60)):
                r = rng.random()
                i = rng.choice(keys)
                seq.append("w%d=%d" % (i, rng.randint(-50, 50)) if r < 0.5 else ("r%d" % i if r < 0.9 else ("T" if r < 0.95 else "D")))
            c.add_q(k, "table", [rng.choice(ctors)] + seq + ["D"], note="random")
        if ns <= 5:
            for mask in range(2 ** ns):
                c.add_q(k, "table", [newc, "A%d" % mask], note="all")
                c.add_q(k, "table", [newc, "O%d" % mask], note="all_ok")
        else:
            for mask in [0, 1, 2 ** (ns - 1), 2 ** ns - 1, 0b101, 0b110]:
                c.add_q(k, "table", [newc, "A%d" % mask, "O%d" % mask], note="all")
    return c


def render_def(k, it, meta, cfg):
    return T.render_structs(k, it, meta, cfg)


def compare(corpus, k, kind, args, note, iobs, mobs, cfg):
    if kind == "ctor":
        n = len(corpus.meta[k]["enabled"])
        want = "rc=[%s]|atomic=[%s]" % (";".join(["1"] * n), ";".join(["0"] * n))
        return iobs == want, True, "expected %s" % want
    if args[0] == "slots":
        # field names are private; the model's slot list is checked against the harness's reading of the definition
        en = corpus.meta[k]["enabled"]
        got = [int(x.split(":")[0][1:]) for x in mobs.split("|")[0].strip("[]").split(";") if x]
        return got == en, True, "model slots %s, enabled variants %s" % (got, en)
    return iobs == mobs, True, None


def query_in_config(cfg, kind, args):
    return True
