"""C02 — printing a variant and parsing the result returns the same variant."""
from vlib.defs import Item, Variant, Field, EM, ser, tos, aci, dw, DISABLED, DEFAULT
from vlib.run import Corpus
from vlib import gen as G
from vlib import strings as S
from vlib import render as RR
from props import c01

ID = "C02"
# look-alikes of prelude names (vlib/defs.py HOSTILE) this check's derives are immune to on the unchanged tree
HOSTILE_OK = ['Result', 'Some', 'Ok', 'Iterator', 'Clone', 'AsRef', 'Send', 'PhantomData', 'IterGet', 'm_matches', 'm_assert', 'm_fmt', 'c_binders', 'ByValue']
PROP_FILE = "Props/C02.v"
RULE = ("definitions: C01's regression + systematic + seeded random enums without prefix, NonOverlap by the model's predicate, "
        "deriving EnumString together with Display (or the deprecated ToString), AsRefStr, IntoStaticStr and EnumMessage, under all "
        "16 accepted serialize_all strings; for every enabled, non-default, non-transparent variant two values (default payload and "
        "non-default payload) are printed by each derive and the result parsed back; every get_serializations() entry is parsed "
        "too. non-trivial = distinct (definition, value): each is a full print->parse round trip through up to five printers")
ASSUMPTIONS = ["names with {placeholders} are outside the property and not generated here"]


def crate_configs(tier):
    return [{"name": "c02", "features": ("derive", "phf")}]


def build_corpus(tier, rng):
    c = Corpus(ID)
    thorough = tier == "thorough"
    cands = c01.generic_shapes() + c01.namesake_items() + [("regression", it) for it in c01.regression()] + [("systematic", it) for it in c01.systematic(rng)] + [("non-ascii-ident", it) for it in c01.nonascii()] + [("long-spelling", it) for it in c01.long_spellings() if not any(m.kind == "phf" for m in it.metas)]
    # names with ESCAPED braces only ({{ }}): no placeholder, so they are in the property's domain and printed verbatim
    cands.append(("escaped", Item("E", [Variant("U", "unit", [], [tos("{{open")]), Variant("T", "tuple", [Field("u8")], [tos("close}}"), ser("c")]),
                                        Variant("N", "named", [Field("u8", "x")], [ser("{{both}}")]), Variant("P", "unit")])))
    cands.append(("escaped-deprecated", Item("E", [Variant("U", "unit", [], [tos("{{open")]), Variant("T", "tuple", [Field("u8")], [tos("close}}")])])))
    # the EMPTY literal is a spelling like any other (the longest of [""] is "", not the identifier)
    for st in (None, "snake_case", "UPPERCASE"):
        cands.append(("empty-literal", Item("E", [Variant("NotSet", "unit", [], [ser("")]), Variant("Other", "tuple", [Field("u8")], [ser("o")]),
                                                  Variant("Plain", "unit")], metas=[EM("sall", st)] if st else [])))
        cands.append(("empty-literal", Item("E", [Variant("Plain", "unit"), Variant("Twice", "named", [Field("u8", "x")], [ser(""), ser("")])],
                                            metas=[EM("sall", st)] if st else [])))
        cands.append(("empty-literal", Item("E", [Variant("Tos", "unit", [], [tos(""), ser("t")]), Variant("Plain", "unit")],
                                            metas=[EM("sall", st)] if st else [])))
    for st in G.STYLES:
        for rep in range(3 if thorough else 1):
            it = G.string_enum(rng, nvariants=rng.randint(4, 8), allow_style=False, custom_err=False)
            it.metas.append(EM("sall", st))
            cands.append(("styles", it))
    for _ in range(1200 if thorough else 90):
        cands.append(("random", G.string_enum(rng)))
    # the phf-backed parser: everything a field-less enum prints parses back through FromStr AND through TryFrom<&str>
    for it in c01.long_spellings():
        if any(m.kind == "phf" for m in it.metas):
            cands.append(("use-phf", it))
    for _ in range(300 if thorough else 30):
        cands.append(("use-phf", G.string_enum(rng, allow_fields=False, allow_dw=False, generics=False, custom_err=False, phf=True)))
    infos = G.classify(ID, [it for _, it in cands])
    rejected = 0
    n = 0
    for (fam, it), info in zip(cands, infos):
        if not c01.admit(it, info):
            rejected += 1
            continue
        n += 1
        named_default = any(v.has("default") and (v.kind == "named" or v.fields[0].ty != "String") for v in it.variants)
        deprecated = ((n % 4 == 0) and not named_default and fam != "escaped") or fam == "escaped-deprecated"     # the deprecated ToString only supports tuple default variants
        derives = ["EnumString", ("ToString" if deprecated else "Display"), "AsRefStr", "IntoStaticStr"]
        if it.variants:
            derives.append("EnumMessage")    # EnumMessage does not compile on a zero-variant enum (no value exists to query)
        k = c.add_def(it, family=fam, derives=derives, info=info, roundtrip=True)
        vals = RR.sample_values(it)
        c.meta[k]["vals"] = vals
        tags = ["tostr" if deprecated else "disp", "asref", "into", "sers"]
        for j, (i, _, tag) in enumerate(vals):
            vi = info["variants"][i]
            if vi["disabled"] or vi["default"] or vi["transparent"]:
                continue
            c.add_q(k, "roundtrip", [j, i] + tags, note=tag)
    c.rejected = rejected
    return c


def render_def(k, it, meta, cfg):
    return S.render_strings(k, it, meta, cfg)


def compare(corpus, k, kind, args, note, iobs, mobs, cfg):
    it = corpus.defs[k]
    mobs_c = RR.concretize(mobs, it)
    ok = iobs == mobs_c
    # the property's own statement: every printer's output parses back to variant i
    i = int(args[1])
    detail = None
    for part in mobs.split("|"):
        tag, _, val = part.partition("=")
        vals = val.strip("[]").split(";") if tag == "sers" else [val]
        for v in vals:
            if not v.startswith("v%d(" % i):
                ok = False
                detail = "model: %s does not lead back to variant %d" % (part, i)
    return ok, True, detail


def extra_coverage(corpus, tier):
    return {"candidates_rejected_by_domain_predicate": corpus.rejected}
