"""C13 — EnumIs predicates partition the variants; EnumTryAs returns payloads unchanged."""
from vlib.defs import Item, Variant, Field, DISABLED, ser, msg, raw, doc
from vlib.run import Corpus
from vlib import structs as T
from vlib import gen as G
from vlib import strings as S
from vlib import render as RR

ID = "C13"
# look-alikes of prelude names (vlib/defs.py HOSTILE) this check's derives are immune to on the unchanged tree
HOSTILE_OK = ['Default', 'From', 'Into', 'Result', 'Ok', 'Iterator', 'Clone', 'AsRef', 'Send', 'PhantomData', 'IterGet', 'm_matches', 'm_assert', 'm_fmt', 'c_binders', 'ByValue']
PROP_FILE = "Props/C13.v"
RULE = ("enums with 0-8 variants x kinds x 0-3 tuple fields of pairwise distinct types x generics / lifetimes x identifiers with "
        "digits, acronyms and underscores (the generated method NAMES are taken from the model and called: a naming difference is a "
        "compile error) x disabled placement. Every sample value (default and non-default payloads) is run against EVERY generated "
        "is_* predicate and EVERY try_as_* / _ref / _mut method (quadratic); _mut writes a new first field through the reference "
        "and the whole value is re-read. non-trivial = distinct (definition, value)")
ASSUMPTIONS = ["method names are pairwise distinct (the corpus avoids identifiers that snake-case to the same name)"]

IDS = ["Red", "GreenApple", "HTTPServer", "Utf8String", "X", "Abc_def", "A1b2", "XMLHttpRequest2", "Id", "IOError", "Blue2Go", "V10",
       "Http2_Proxy", "Z9", "QRCode", "Wi5Fi77", "r#type", "r#Match", "r#loop_Forever2",
       # non-ASCII identifiers: the method names come from Model/HeckU.v (usnakify) on the probe's character table
       "Öl2", "Über9Mensch", "Café3", "ÉlanVital", "straßeName7x",
       # numeric characters that are NOT ASCII digits (Nd / Nl): no new word in front of them
       "Page٣", "BandⅧ", "Ｘ３y", "Row〇",
       # leading / trailing / doubled underscores around all-lower-case words (heck drops and collapses them)
       "Type_", "_reserved", "Two__words", "__x", "abc_"]
TYSETS = [[], ["u8"], ["String"], ["i32", "bool"], ["String", "u8", "usize"], ["bool", "i32"], ["Option<u8>"]]


def build_corpus(tier, rng):
    c = Corpus(ID)
    thorough = tier == "thorough"
    items = []
    for n in range(0, 9):
        for rep in range(12 if thorough else 3):
            ids = rng.sample(IDS, n)
            # (two variants whose names snake-case to one method name — `r#type` and `Type_` — are outside the derive's domain: keep the first)
            seen_keys = set()
            ids = [x for x in ids if not ((lambda k_: k_ in seen_keys or seen_keys.add(k_))(x.replace("r#", "").replace("_", "").lower()))]
            vs = []
            for i, ident in enumerate(ids):
                r = (i + rep + n) % 5
                if r == 0:
                    v = Variant(ident, "unit")
                elif r == 4:
                    v = Variant(ident, "named", [Field("u8", "a"), Field("String", "b")])
                else:
                    v = Variant(ident, "tuple", [Field(t) for t in TYSETS[(i * 3 + rep + n) % len(TYSETS)]])
                if (i + rep) % 4 == 3:
                    v.metas = [[DISABLED], [ser("s%d" % i), DISABLED], [DISABLED, msg("m")], [raw("doc(hidden)"), DISABLED],
                               [raw('doc(alias = "a")'), doc(" d"), DISABLED]][(i + n + rep) % 5]
                elif (i + rep) % 4 == 1:
                    v.metas = [raw("doc(hidden)"), ser("vis%d" % i)]
                vs.append(v)
            items.append(("shape", Item("E", vs)))
    for mask in range(16):
        vs = [Variant("A1", "tuple", [Field("G0"), Field("bool")], [DISABLED] if mask & 1 else []),
              Variant("BTwo", "unit", [], [DISABLED] if mask & 2 else []),
              Variant("CCC3d", "tuple", [Field("String")], [DISABLED] if mask & 4 else []),
              Variant("Dee", "named", [Field("u8", "x")], [DISABLED] if mask & 8 else [])]
        items.append(("generic", Item("E", vs, tparams=1)))
    # a tuple variant next to a NON-tuple variant named <it>Ref / <it>Mut: the non-tuple one gets no try_as methods, so nothing clashes
    for order in (0, 1):
        vs = [Variant("Index", "tuple", [Field("usize")]), Variant("IndexMut", "unit"), Variant("IndexRef", "named", [Field("u8", "a"), Field("String", "b")]),
              Variant("Other", "tuple", [Field("String"), Field("u8")]), Variant("OtherRef", "unit", [], [DISABLED])]
        items.append(("affix", Item("E", vs if order == 0 else list(reversed(vs)))))
    # WIDE tuple variants: try_as_* carries all of the fields, however many (binding names must not run out at 26 letters)
    wide_tys = ["u8", "i32", "bool", "String", "usize"]
    for nf in (12, 26, 27, 40):
        items.append(("wide", Item("E", [Variant("Wide%d" % nf, "tuple", [Field(wide_tys[q % 5]) for q in range(nf)]), Variant("Narrow", "tuple", [Field("u8")]),
                                        Variant("Unit", "unit")])))
    # the same payloads however the source is PUNCTUATED: a one-field tuple variant written `One(u32,)` still yields the field, not a 1-tuple
    for nv in (3, 5):
        tc = Item("E", [Variant(n_, "tuple", [Field(t_) for t_ in tys_]) for n_, tys_ in
                        (("One", ["u8"]), ("Two", ["String", "u8"]), ("Zero", []), ("OneS", ["String"]), ("Three", ["bool", "i32", "usize"]))[:nv]]
                  + [Variant("Named", "named", [Field("u8", "a")]), Variant("Unit", "unit")])
        tc.trailing_commas = True
        items.append(("trailing-commas", tc))
    # lifetimes (EnumIs / EnumTryAs accept them)
    items.append(("lifetime", Item("E", [Variant("Borrowed", "tuple", [Field("&'l0 str"), Field("u8")]), Variant("Owned", "tuple", [Field("String")]),
                                        Variant("Nothing", "unit")], lifetimes=1)))
    # every option of the other derives around `disabled` (before / after it, one list / several): predicates and accessors follow `disabled` only
    for it_ in G.foreign_option_items(rng, 60 if thorough else 14, tag="M"):
        items.append(("foreign-options", it_))
    if G.NO_PROBE:       # nobody can name the methods of non-ASCII identifiers without the probe
        for _, it_ in items:
            it_.variants = [v for v in it_.variants if v.ident.isascii()]
    names = G.model_query(ID, [it for _, it in items], [("is", ["names"]), ("tryas", ["names"]), ("is", ["allnames"])])
    # non-ASCII identifiers: their snake names come from the Unicode-parametric model
    uni = sorted({v.ident for _, it in items for v in it.variants if not v.ident.isascii()})
    ref_snake = {}
    if uni:
        # Model/HeckU.v on the probe's character table (the Rust reference only for identifiers with U+03A3)
        for u, nm in zip(uni, G.unicode_names(ID, [("snakifyu", None, u) for u in uni])):
            ref_snake[u] = nm

    def fix(namelist, it, only):
        """replace the model's (ASCII) snake name of the selected variants by the reference one"""
        sel = [v for v in it.variants if only(v)]
        out = []
        for name, v in zip(namelist, sel):
            if not v.ident.isascii():
                pre = "is_" if name.startswith("is_") else ("try_as_" if name.startswith("try_as_") else "")
                name = pre + ref_snake[v.ident]
            out.append(name)
        return out
    for (fam, it), (isn, tan, alln) in zip(items, names):
        if isn.startswith("generr") or tan.startswith("generr"):
            continue
        is_names = [x for x in isn.strip("[]").split(";") if x]
        ta = [x for x in tan.strip("[]").split(";") if x]
        is0, ta0 = is_names, ta
        is_names = fix(is_names, it, lambda v: not v.has("disabled"))
        ta = fix(ta, it, lambda v: v.kind == "tuple" and not v.has("disabled"))
        rename = {a: b for a, b in list(zip(is0, is_names)) + list(zip(ta0, ta)) if a != b}
        if len(set(is_names)) != len(is_names):
            continue
        tuple_vs = [i for i, v in enumerate(it.variants) if v.kind == "tuple" and not v.has("disabled")]
        if len(ta) != len(tuple_vs):
            raise RuntimeError("model try_as methods do not line up with the enabled tuple variants")
        vals = []
        for i, v in enumerate(it.variants):
            if not v.fields:
                vals.append((i, [], "unit"))
            else:
                d = ["Default::default()" if f.ty != "&'l0 str" else '""' for f in v.fields]
                s = [RR.SAMPLE[f.ty][0] for f in v.fields]
                vals.append((i, d, "default"))
                vals.append((i, s, "sample"))
                vals.append((i, [s[0]] + d[1:], "mut-of-default"))
        snakes = fix([x for x in alln.strip("[]").split(";")], it, lambda v: True)
        absent_is = ["is_" + snakes[i] for i, v in enumerate(it.variants) if v.has("disabled") and "is_" + snakes[i] not in is_names]
        absent_tryas = ["try_as_" + snakes[i] for i, v in enumerate(it.variants)
                        if (v.has("disabled") or v.kind != "tuple") and "try_as_" + snakes[i] not in ta]
        k = c.add_def(it, family=fam, derives=["EnumIs", "EnumTryAs"], is_names=is_names, tryas_names=list(zip(ta, tuple_vs)), absent_is=absent_is,
                      absent_tryas=absent_tryas, rename=rename,
                      vals=vals, std_derives=["Debug", "Clone", "PartialEq"], bounds="Default + Clone + PartialEq + core::fmt::Debug" if it.tparams else "")
        for j, (i, _, tag) in enumerate(vals):
            c.add_q(k, "is", [j, i], note=tag)
            jm = j
            if tag == "default":
                jm = j + 2
            c.add_q(k, "tryas", [j, i, jm], note=tag)
        c.add_q(k, "struct", ["EnumIs"], note="structure")
        c.add_q(k, "struct", ["EnumTryAs"], note="structure")
    return c


def crate_configs(tier):
    return [{"name": "c13"}, {"name": "c13probe", "kind": "genprobe"}]


def query_in_config(cfg, kind, args):
    return (kind == "struct") == (cfg.get("kind") == "genprobe")


probe_command = S.struct_probe_command


def extra_coverage(corpus, tier):
    d = S.struct_coverage()
    d["structural_tie"]["what"] += ("; EnumIs: every generated predicate as name -> the one variant whose arm answers true (the wildcard false); EnumTryAs: every "
                                    "accessor as name, receiver kind (by value / & / &mut), variant, and that Some((..)) returns ALL bound fields in order; method names "
                                    "of non-ASCII identifiers are renamed as in the behavioural comparison (Unicode model / reference)")
    return d


def render_def(k, it, meta, cfg):
    return T.render_structs(k, it, meta, cfg)


def fields_of(vobs):
    return vobs[vobs.index("(") + 1:-1]


def compare(corpus, k, kind, args, note, iobs, mobs, cfg):
    if kind == "struct":
        rn = corpus.meta[k].get("rename")
        if rn and mobs.startswith("["):
            # method names of non-ASCII identifiers: the model's (ASCII) name is replaced by the one the Unicode model / reference gives (as below)
            ents = []
            for e in [x for x in mobs.strip("[]").split(";") if x]:
                f_ = e.split(":")
                name, suffix = f_[0], ""
                if len(f_) == 4 and f_[1] in ("ref", "mut") and name.endswith("_" + f_[1]):
                    name, suffix = name[:-4], "_" + f_[1]
                ents.append(":".join([rn.get(name, name) + suffix] + f_[1:]))
            mobs = "[" + ";".join(ents) + "]"
        return S.compare_struct(corpus, k, iobs, mobs)
    it = corpus.defs[k]
    meta = corpus.meta[k]
    i = int(args[1])
    if meta.get("rename"):
        # method names of non-ASCII identifiers: the model's (ASCII) name is replaced by the reference's
        ents = [x.split("=", 1) for x in mobs.strip("[]").split(";") if x]
        mobs = "[" + ";".join("%s=%s" % (meta["rename"].get(a, a), b) for a, b in ents) + "]"
    if kind == "is":
        # no predicate may exist for a disabled variant: the harness's fallback trait must have answered every probe
        absent = meta.get("absent_is", [])
        if absent:
            iobs, _, ab = iobs.partition("|absent=")
            if ab != "%d/%d" % (len(absent), len(absent)):
                return False, True, "a predicate exists for a disabled variant (fallback used %s times)" % ab
        ok = iobs == mobs
        # the property on the model's answer: exactly the predicate named after an enabled variant is true
        trues = [x for x in mobs.strip("[]").split(";") if x.endswith("=1")]
        en = not it.variants[i].has("disabled")
        if len(trues) != (1 if en else 0):
            return False, True, "model: %d predicates true for variant %d" % (len(trues), i)
        return ok, True, None
    parts = [x for x in iobs.strip("[]").split(";") if x]
    ab = [x for x in parts if x.startswith("absent=")]
    parts = [x for x in parts if not x.startswith("absent=")]
    na = len(meta.get("absent_tryas", []))
    if na and ab != ["absent=%d/%d" % (na, na)]:
        return False, True, "a try_as_*_ref method exists for a disabled or non-tuple variant (%s)" % ab
    if len(parts) <= 2 and not meta["tryas_names"]:
        return mobs == "[]", True, None
    selfobs = parts[0][len("self="):]
    mutobs = parts[1][len("mut="):]
    want = []
    mp = dict(x.split("=", 1) for x in mobs.strip("[]").split(";") if x)
    ok = True
    detail = None
    got = dict(x.split("=", 1) for x in parts[2:])
    for base, vi in meta["tryas_names"]:
        m = mp.get(base)
        if m is None:
            return False, True, "model has no method " + base
        if m == "none":
            exp = "none/none/none/" + selfobs
            if vi == i:
                return False, True, "model: %s returns None on its own variant" % base
        else:
            some = "some(" + fields_of(selfobs) + ")"
            exp = "%s/%s/%s/%s" % (some, some, some, mutobs if it.variants[vi].fields else selfobs)
            nf = len(it.variants[vi].fields)
            if m != "some(" + ",".join("f%d" % q for q in range(nf)) + ")" or vi != i:
                return False, True, "model: %s = %s on variant %d" % (base, m, i)
        if got.get(base) != exp:
            ok = False
            detail = "%s: got %s expected %s" % (base, got.get(base), exp)
    return ok, True, detail
