"""C04 — EnumIter yields every enabled variant exactly once, in declaration order."""
from vlib.defs import Item, Variant, Field, DISABLED, ser, msg, props, raw, doc
from vlib.run import Corpus
from vlib import structs as T
from vlib import gen as G
from vlib import strings as S
from vlib import render as RR

ID = "C04"
# look-alikes of prelude names (vlib/defs.py HOSTILE) this check's derives are immune to on the unchanged tree
HOSTILE_OK = ['Default', 'From', 'Into', 'Result', 'Ok', 'AsRef', 'Send', 'PhantomData', 'IterGet', 'm_matches', 'm_assert', 'm_fmt', 'c_binders', 'ByValue']
PROP_FILE = "Props/C04.v"
RULE = ("enums with 0-10 variants, each variant independently unit / tuple (1-3 fields) / named (1-3 fields) and enabled / "
        "disabled: EVERY placement of disabled variants for up to 6 variants (all 2^n masks; quick: up to 5), seeded random beyond; "
        "type and const generics. Observed: iter().collect() with every payload field (must be Default), iter().rev().collect(), "
        "next()/next_back() drains through the call-sequence interface, COUNT and iter().count(). non-trivial = distinct "
        "(definition, observable)")
ASSUMPTIONS = ["payload types are the harness's (u8, i32, bool, String, usize, Option<u8>): Default::default() is theirs"]

KINDS = ["unit", "tuple1", "named1", "tuple3", "named2"]


def mkv(name, kind, dis, gen=False):
    if kind == "unit":
        v = Variant(name, "unit")
    elif kind == "tuple1":
        v = Variant(name, "tuple", [Field("G0" if gen else "u8")])
    elif kind == "tuple3":
        v = Variant(name, "tuple", [Field("String"), Field("i32"), Field("Option<u8>")])
    elif kind == "named1":
        v = Variant(name, "named", [Field("bool", "flag")])
    else:
        v = Variant(name, "named", [Field("usize", "a"), Field("String", "b")])
    if dis:
        # `disabled` alone, after / before other items of the same attribute, or in an attribute of its own
        # also behind attributes strum does not read: #[doc(hidden)], #[doc(alias = ..)], #[allow(..)], a doc comment
        k = sum(map(ord, name)) % 8
        v.metas = [[DISABLED], [ser("x-" + name), DISABLED], [DISABLED, msg("m")], [props([("k", ("i", 1))]), DISABLED, ser("y-" + name)],
                   [raw("doc(hidden)"), DISABLED], [raw('doc(alias = "al")'), ser("z-" + name), DISABLED], [raw("allow(dead_code)"), doc(" text"), DISABLED],
                   [DISABLED, raw("doc(hidden)")]][k]
        if k == 3:
            v.groups = [1, 1]
    return v


def crate_configs(tier):
    return [{"name": "c04"}, {"name": "c04probe", "kind": "genprobe"}]


def query_in_config(cfg, kind, args):
    return (kind == "struct") == (cfg.get("kind") == "genprobe")


probe_command = S.struct_probe_command


def extra_coverage(corpus, tier):
    return S.struct_coverage()


def build_corpus(tier, rng):
    c = Corpus(ID)
    thorough = tier == "thorough"
    items = []
    nmax = 6 if thorough else 5
    for n in range(0, nmax + 1):
        for mask in range(2 ** n):
            vs = [mkv("V%d" % i, KINDS[(i + mask) % len(KINDS)], bool(mask >> i & 1)) for i in range(n)]
            items.append(("mask", Item("E", vs)))
    for _ in range(500 if thorough else 40):
        n = rng.randint(7, 10)
        vs = [mkv("W%d" % i, rng.choice(KINDS), rng.random() < 0.35) for i in range(n)]
        items.append(("random", Item("E", vs)))
    for mask in range(8):
        vs = [mkv("A", "tuple1", bool(mask & 1), gen=True), mkv("B", "unit", bool(mask & 2)), mkv("C", "named2", bool(mask & 4))]
        items.append(("generic", Item("E", vs, tparams=1, cparams=mask % 2)))
    for j, form in enumerate(("braces", "brackets", "mixed", "macro", "macro")):
        vs = [mkv("F%d" % i, KINDS[(i + j) % len(KINDS)], i % 2 == 1) for i in range(5)]
        it = Item("E", vs)
        if form == "macro":
            it.via_macro = True
        else:
            it.attr_delims = {"braces": [1], "brackets": [2], "mixed": [0, 1, 2]}[form]
        items.append(("attr-forms", it))
    # `disabled` as a props KEY (or inside a literal) is not the option `disabled`: the variant stays enabled
    for bf in G.bound_free_items():
        items.append(("bound-free-parameter", bf))
    items.append(("option-lookalikes", Item("E", [Variant("Open", "unit"), Variant("Save", "tuple", [Field("u8")], [props([("disabled", ("s", "true")), ("default", ("b", True))])]),
                                                  Variant("Quit", "unit", [], [ser("disabled"), msg("disabled")]), Variant("Gone", "unit", [], [props([("x", ("i", 1))]), DISABLED]),
                                                  Variant("Help", "named", [Field("u8", "f")], [props([("transparent", ("i", 0))])])])))
    # a payload whose Default PANICS (hp.rs `Boom`): every variant in front of it (from either end) is still yielded; a DISABLED variant with
    # such a payload does not matter at all
    items.append(("panicking-default", Item("E", [Variant("Open", "unit"), Variant("Close", "named", [Field("u8", "id")]), Variant("Gone", "tuple", [Field("Boom")], [DISABLED]),
                                                  Variant("Bad", "tuple", [Field("u8"), Field("Boom")]), Variant("Pair", "tuple", [Field("String")]), Variant("Last", "unit")])))
    items.append(("panicking-default", Item("E", [Variant("A", "unit"), Variant("Gone", "named", [Field("Boom", "b")], [DISABLED]), Variant("B", "tuple", [Field("u8")])])))
    # every option of the OTHER derives next to `disabled` (before / after it, same list / own list): only `disabled` matters here
    for it in G.foreign_option_items(rng, 120 if thorough else 36):
        items.append(("foreign-options", it))
    for fam, it in items:
        k = c.add_def(it, family=fam, derives=["EnumIter", "EnumCount"])
        n = len(it.variants)
        if fam == "panicking-default":
            c.add_q(k, "ctor", ["front"], note="ctor")
            c.add_q(k, "ctor", ["back"], note="ctor")
            continue

        c.add_q(k, "iter", [], note="collect")
        c.add_q(k, "struct", ["EnumIter"], note="structure")
        c.add_q(k, "count", [], note="count")
        c.add_q(k, "adapt", ["rev"], note="rev")
        c.add_q(k, "adapt", ["count"], note="itercount")
        c.add_q(k, "iterops", ["0:n"] * (n + 2), note="drain-front")
        c.add_q(k, "iterops", ["0:b"] * (n + 2), note="drain-back")
        c.add_q(k, "iterops", ["0:n", "0:u0", "0:u1", "0:b", "0:u0", "0:n", "0:u2", "0:l"], note="mixed-back")
        c.add_q(k, "iterops", ["0:b", "0:u1", "0:u0", "0:n", "0:l", "0:u0", "0:u0"], note="mixed-back")
        # a CLONE taken after items were yielded from both ends continues from there (nothing comes back), whatever std method consumes it
        c.add_q(k, "iterops", ["0:n", "0:b", "c0", "1:l", "1:G", "1:b", "1:n", "0:R", "0:K", "0:Z"], note="clone")
        c.add_q(k, "iterops", ["0:b", "0:b", "c0", "1:n", "1:b", "1:l", "c1", "2:D", "0:E", "0:l"], note="clone")
        # "each exactly once" also after a jump past the end: nothing is yielded again, from either end (C05 covers the contract in depth)
        M = 2 ** 64 - 1
        c.add_q(k, "iterops", ["0:n", "0:t%d" % M, "0:l", "0:n", "0:b", "0:l"], note="past-the-end")
        c.add_q(k, "iterops", ["0:b", "0:t%d" % (M - 1), "0:l", "0:n", "0:b", "0:t0", "0:l"], note="past-the-end")
        c.add_q(k, "iterops", ["0:u%d" % M, "0:l", "0:n", "0:b"], note="past-the-end")
        c.add_q(k, "adapt", ["skip:%d" % M], note="past-the-end")
        c.add_q(k, "adapt", ["stepby:%d" % M], note="past-the-end")
    return c


def render_def(k, it, meta, cfg):
    return T.render_structs(k, it, meta, cfg)


def compare(corpus, k, kind, args, note, iobs, mobs, cfg):
    if kind == "struct":
        return S.compare_struct(corpus, k, iobs, mobs)
    it = corpus.defs[k]
    if kind == "ctor":
        en = [(i, v) for i, v in enumerate(it.variants) if not v.has("disabled")]
        if args[0] != "front":
            en = list(reversed(en))
        want = []
        for i, v in en:
            if any(f.ty == "Boom" for f in v.fields):
                want.append("panic")
                break
            want.append("v%d" % i)
        else:
            want.append("none")
        return iobs == ";".join(want), True, "expected %s" % ";".join(want)
    if kind in ("iterops", "adapt"):
        mobs = dict(p.split("=", 1) for p in mobs.split("|"))["debug"]
    if kind == "iter":
        mobs = RR.concretize(mobs, it)
    ok = iobs == mobs
    # the property's own statement, evaluated by the harness on the definition
    enabled = [i for i, v in enumerate(it.variants) if not v.has("disabled")]
    detail = None
    if kind == "count" and mobs != str(len(enabled)):
        ok, detail = False, "model COUNT %s, enabled variants %d" % (mobs, len(enabled))
    if kind == "adapt" and args[0] == "rev" and mobs != "[" + ";".join("v%d" % i for i in reversed(enabled)) + "]":
        ok, detail = False, "model rev() is not the reverse of the enabled variants"
    return ok, True, detail
