"""C20 — unsupported input gets a compile error, never a macro panic or silent acceptance."""
import copy
import json
import os
import re
import shutil
from vlib.defs import (Item, Variant, Field, EM, DM, VM, ser, tos, msg, det, aci, dw, props, DISABLED, DEFAULT, TRANSPARENT,
                       render_item)
from vlib.run import Corpus
from vlib import run as R
from vlib import strings as S

ID = "C20"
PROBE_REQUIRED = True      # part of this property is decided on the generator itself, through harness/genprobe
PROP_FILE = "Props/C20.v"
RULE = ("items: every rejection rule of the property (non-enum item, data-carrying variant, lifetime parameter, repeated single-use "
        "attribute at enum / variant / field level within one attribute and across attributes, two default variants, default / "
        "transparent on a variant without exactly one field, placeholders and bracket errors, unknown serialize_all style, only one "
        "of parse_err_ty / parse_err_fn, unsupported property literal, default_with that is not a path) x variant kinds x position "
        "(first / middle / last, mixed with valid variants), plus well-formed controls; EVERY item is expanded with EVERY one of the "
        "17 derive entry points through genprobe (the real generator of /repo's working tree, under catch_unwind): outcome class "
        "(implementation emitted / syn::Error with message class / panic) must equal the model's, and whenever a rule of the "
        "property applies the outcome must be an error. Diagnostics: a sample (quick) / all (thorough) of the malformed (item, "
        "derive) pairs is compiled with the real proc macro; each must produce an error-level rustc diagnostic whose primary span "
        "lies inside the item, none mentioning a panic, and every well-formed control must produce none. non-trivial = distinct "
        "(item, derive) pairs whose expected outcome is an error")
ASSUMPTIONS = ["diagnostic level and span are observed from rustc's JSON output, not modelled",
               "genprobe runs the generator on proc-macro2's fallback implementation (same tokens, fallback spans)"]

DERIVES = ["EnumString", "Display", "AsRefStr", "IntoStaticStr", "VariantNames", "VariantArray", "EnumIter", "EnumCount", "FromRepr",
           "EnumTable", "EnumIs", "EnumTryAs", "EnumMessage", "EnumProperty", "EnumDiscriminants", "ToString", "AsStaticStr"]

MSG_CLASS = [
    ("This macro only supports enums.", "nonenum"),
    ("Found multiple occurrences of strum(", "occurrence"),
    ("support enums with lifetimes", "lifetime"),
    ("strictly unit variants", "nonunit"), ("with non-unit variants", "nonunit"),
    ("only supports enum variants with a single field", "nonsinglefield"),
    ("Default only works on newtype structs", "defaultfield"),
    ("Unexpected case style", "unknownstyle"),
    ("attributes are both required", "missingparseerr"),
    ("only supports string, integer and boolean literals", "badprop"),
    ("Unit variants do not support interpolation", "unitinterp"),
    ("Empty {} is not allowed", "emptybrace"),
    ("Bracket opened without", "bracket"), ("Bracket closed without", "bracket"),
    ("Invalid identifier inside format string bracket", "badident"),
    ("requires at least one non-disabled variant", "emptytable"),
]


CLASS_STATS = {"compared": 0, "same": 0, "different": []}


def classify_msg(m):
    for pat, cl in MSG_CLASS:
        if pat in m:
            if cl == "occurrence":
                return "occurrence:" + m.split("strum(")[1].split(")")[0]
            return cl
    return "badpath"      # syn's own parse errors for a default_with literal that is not a path


def crate_configs(tier):
    return [{"name": "c20probe", "kind": "genprobe"}]


def base_variants():
    return [Variant("Red", "unit"), Variant("GreenApple", "unit", [], [ser("green"), ser("g")]), Variant("Blue", "unit", [], [tos("blue")])]


def items_all():
    out = []

    def add(fam, it):
        out.append((fam, it))
    # controls
    add("ok", Item("E", base_variants()))
    add("ok", Item("E", base_variants() + [Variant("T", "tuple", [Field("u8")], [DISABLED])]))
    add("ok", Item("E", [Variant("A", "tuple", [Field("String")], [DEFAULT]), Variant("B", "named", [Field("u8", "x")], [tos("b={x}")])]))
    add("ok", Item("E", [Variant("A", "tuple", [Field("u8"), Field("u8")], [tos("{0}-{1}")]), Variant("T", "tuple", [Field("String")], [TRANSPARENT])]))
    add("ok", Item("E", base_variants(), metas=[EM("sall", "snake_case"), EM("aci"), EM("prefix", "p"), EM("pety", "PErr"), EM("pefn", "perr_a")]))
    add("ok", Item("E", base_variants(), tparams=1))
    add("ok", Item("E", [Variant("A", "unit", [], [props([("a", ("s", "x")), ("b", ("i", -3)), ("c", ("b", True))])])]))
    add("ok", Item("E", [Variant("A", "tuple", [Field("u8")], [dw("some::path")]), Variant("B", "named", [Field("u8", "f", ["x::y"])])]))
    add("ok", Item("E", []))
    add("ok", Item("E", base_variants(), dmetas=[DM("name", "K"), DM("vis", "pubcrate"), DM("derive", paths=["Hash"])]))
    # an EMPTY generic parameter list `enum E<> {..}` (and a trailing comma `<G0,>`): legal, not generic, no lifetime — accepted by every derive
    for vs_, tp in ((base_variants(), 0), (base_variants() + [Variant("T", "tuple", [Field("u8")], [DISABLED])], 0), (base_variants(), 1)):
        eg = Item("E", vs_, tparams=tp)
        eg.empty_generics = True
        add("ok-empty-generics", eg)
    # two accepted enums of ONE crate with the SAME format string (named placeholders): whatever the macro remembers from one expansion is not
    # valid in the next (seed C20_r16: cached proc_macro identifiers -> "use-after-free of proc_macro symbol")
    for tag in ("a", "b"):
        add("ok-same-format-" + tag, Item("E", [Variant("A", "unit"), Variant("Fail", "named", [Field("u8", "code"), Field("String", "reason")], [tos("error {code}: {reason}")])]))
    # 1 non-enum
    for kind in ("struct", "union"):
        add("nonenum", Item("S", [], kind=kind))
        add("nonenum", Item("S", [], kind=kind, metas=[EM("sall", "snake_case")], lifetimes=1))
    # 2 data-carrying variants
    for pos in (0, 1, 3):
        for kind, fields in (("tuple", [Field("u8")]), ("named", [Field("u8", "x")]), ("tuple", [])):
            vs = base_variants()
            vs.insert(pos, Variant("Data", kind, fields))
            add("nonunit", Item("E", vs))
            vs2 = base_variants()
            vs2.insert(pos, Variant("Data", kind, fields, [DISABLED]))
            add("nonunit-disabled", Item("E", vs2))
    # 3 lifetimes
    add("lifetime", Item("E", base_variants(), lifetimes=1))
    add("lifetime", Item("E", base_variants() + [Variant("B", "tuple", [Field("&'l0 str")])], lifetimes=2, tparams=1))
    # ... also when the variants that USE the lifetime are disabled, or when no variant uses it at all
    add("lifetime", Item("E", [Variant("Eof", "unit"), Variant("Word", "tuple", [Field("&'l0 str")], [DISABLED]), Variant("Tail", "unit")], lifetimes=1))
    add("lifetime", Item("E", [Variant("Word", "named", [Field("&'l0 str", "text")], [DISABLED]), Variant("Eof", "unit", [], [ser("eof")])], lifetimes=1))
    add("lifetime", Item("E", [Variant("Only", "tuple", [Field("&'l0 str")], [DISABLED])], lifetimes=1))
    # 4 repeated variant attributes
    singles = [msg("m"), det("d"), tos("t"), TRANSPARENT, DISABLED, DEFAULT, dw("f"), aci(True, explicit=False)]
    for m in singles:
        for split in (None, [1]):
            for pos in (0, 1, 3):
                for kind, fields in (("unit", []), ("tuple", [Field("String")]), ("named", [Field("String", "s")])):
                    m2 = copy.deepcopy(m)
                    if m.kind in ("msg", "det", "tos", "dw"):
                        m2.s = m.s + "2"
                    if m.kind == "aci":
                        m2 = aci(False)
                    v = Variant("Dup", kind, list(fields), [m, ser("dup"), m2], groups=split)
                    vs = base_variants()
                    vs.insert(pos, v)
                    add("dupvariant:" + m.kind, Item("E", vs))
    # 5 repeated enum attributes
    esingles = [EM("sall", "snake_case"), EM("aci"), EM("crate", "::strum"), EM("phf"), EM("prefix", "p"), EM("pety", "PErr"), EM("pefn", "perr_a"), EM("cis")]
    for m in esingles:
        for split in (None, [1]):
            m2 = copy.deepcopy(m)
            if m.kind == "sall":
                m2.s = "kebab-case"
            metas = [m, m2]
            if m.kind in ("pety",):
                metas.append(EM("pefn", "perr_a"))
            if m.kind in ("pefn",):
                metas.append(EM("pety", "PErr"))
            add("dupenum:" + m.kind, Item("E", base_variants(), metas=metas, groups=split))
    add("dupdisc", Item("E", base_variants(), dmetas=[DM("name", "A"), DM("name", "B")]))
    add("dupdisc", Item("E", base_variants(), dmetas=[DM("vis", "pub"), DM("vis", "pubcrate")]))
    # 6 field-level default_with twice
    add("dupfield", Item("E", base_variants() + [Variant("N", "named", [Field("u8", "x", ["f", "g"])])]))
    # 7 two default variants
    for k2 in ("tuple", "named"):
        d1 = Variant("D1", "tuple", [Field("String")], [DEFAULT])
        d2 = Variant("D2", k2, [Field("String", "s" if k2 == "named" else "")], [DEFAULT])
        add("twodefaults", Item("E", [d1] + base_variants() + [d2]))
        add("twodefaults-one-disabled", Item("E", [d1] + base_variants() + [Variant("D2", k2, [Field("String", "s" if k2 == "named" else "")], [DEFAULT, DISABLED])]))
    for k1 in ("named",):
        for k2 in ("tuple", "named"):
            d1 = Variant("D1", k1, [Field("String", "text")], [DEFAULT])
            d2 = Variant("D2", k2, [Field("String", "s" if k2 == "named" else "")], [DEFAULT])
            add("twodefaults", Item("E", [d1] + base_variants() + [d2]))
            add("twodefaults", Item("E", base_variants() + [d1, d2]))
    # 8 default / transparent arity
    for m, fam in ((DEFAULT, "defaultarity"), (TRANSPARENT, "transparentarity")):
        for kind, fields in (("unit", []), ("tuple", [Field("String"), Field("u8")]), ("named", [Field("String", "a"), Field("u8", "b")]), ("tuple", [])):
            for pos in (0, 2):
                vs = base_variants()
                vs.insert(pos, Variant("Bad", kind, list(fields), [m]))
                add(fam, Item("E", vs))
        vs = base_variants()
        vs.insert(1, Variant("Bad", "unit", [], [m, DISABLED]))
        add(fam + "-disabled", Item("E", vs))
    add("defaultarity-tos", Item("E", base_variants() + [Variant("Bad", "unit", [], [DEFAULT, tos("lit")])]))
    # 9 placeholders / brackets
    for lit in ("{x}", "{0}", "{}", "a {name} b", "{0:>4}"):
        add("unitplaceholder", Item("E", base_variants() + [Variant("U", "unit", [], [tos(lit)])]))
        add("unitplaceholder-ser", Item("E", [Variant("U", "unit", [], [ser(lit)])] + base_variants()))
    add("unitplaceholder-prefix", Item("E", base_variants(), metas=[EM("prefix", "{p}")]))
    add("escaped-ok", Item("E", base_variants() + [Variant("U", "unit", [], [tos("{{x}}")])]))
    for lit in ("{}", "{0} {}", "{:>3}"):
        add("emptybrace", Item("E", base_variants() + [Variant("T", "tuple", [Field("u8")], [tos(lit)])]))
    for lit in ("{a{b}", "a}b", "{{}", "}", "{0}}{"):
        for kind, fields in (("unit", []), ("tuple", [Field("u8")]), ("named", [Field("u8", "a")])):
            add("bracket", Item("E", base_variants() + [Variant("B", kind, list(fields), [tos(lit)])]))
    # the same errors inside LONG, NON-ASCII literals (multi-byte characters at every byte alignment around the offending bracket):
    # an error path that slices the literal by byte offsets panics there instead of reporting
    LONG = ["température mesurée trop élevée", "é" * 17, "日本語" * 6 + "x", "a" + "ß" * 9, "\u00a0" * 8 + "é"]
    for pre in LONG:
        for lit in ("{a{b}", "a}b", "}", "{0}}{"):
            add("bracket", Item("E", base_variants() + [Variant("B", "tuple", [Field("u8")], [tos(pre + lit)])]))
            add("bracket", Item("E", base_variants() + [Variant("B", "named", [Field("u8", "a")], [tos(lit + pre + lit)])]))
        add("emptybrace", Item("E", base_variants() + [Variant("T", "tuple", [Field("u8")], [tos(pre + "{}" + pre)])]))
        add("badident", Item("E", base_variants() + [Variant("N", "named", [Field("u8", "a")], [tos(pre + "{a b}")])]))
        add("unitplaceholder", Item("E", base_variants() + [Variant("U", "unit", [], [tos(pre + "{x}" + pre)])]))
    for lit in ("{1x}", "{a b}", "{a-b}", "{fn}", "{0}"):
        add("badident", Item("E", base_variants() + [Variant("N", "named", [Field("u8", "a")], [tos(lit)])]))
    # 10 unknown style
    for st in ("Snake_Case", "", "camelcase", "snake-case", "SCREAMING_KEBAB_CASE"):
        add("unknownstyle", Item("E", base_variants(), metas=[EM("sall", st)]))
        add("unknownstyle", Item("E", base_variants(), metas=[EM("aci"), EM("sall", st)], groups=[1]))
    # 11 only one parse_err attribute
    add("oneparseerr", Item("E", base_variants(), metas=[EM("pety", "PErr")]))
    add("oneparseerr", Item("E", base_variants(), metas=[EM("pefn", "perr_a"), EM("aci")]))
    add("oneparseerr-default", Item("E", base_variants() + [Variant("D", "tuple", [Field("String")], [DEFAULT])], metas=[EM("pefn", "perr_a")]))
    # integer property literals in every spelling and of every size are SUPPORTED literals for the derive (a literal outside i64 is rustc's
    # business: `literal out of range`); the macro must neither reject them itself nor panic while reading them
    ints = [("i", 9223372036854775807), ("i", -9223372036854775808), ("i", 9223372036854775808), ("i", 18446744073709551615),
            ("i", -9223372036854775809), ("i", 18446744073709551615, "0xFFFF_FFFF_FFFF_FFFF"), ("i", 1000, "1_000"), ("i", 7, "7i64"), ("i", 5, "0b101"),
            ("i", 255, "0o377"), ("i", 340282366920938463463374607431768211455), ("i", 7, "7u8")]
    for j in range(0, len(ints), 3):
        add("ok-intprops", Item("E", [Variant("A", "unit", [], [props([("k%d" % q, iv) for q, iv in enumerate(ints[j:j + 3])])]), Variant("B", "unit")]))
    # 12 unsupported property literal
    for src in ("1.5", "'c'", "b\"bytes\"", "2.0e3", "b'x'"):
        for pos in (0, 2):
            vs = base_variants()
            vs.insert(pos, Variant("P", "unit", [], [props([("ok", ("s", "fine")), ("bad", ("other", src)), ("later", ("i", 1))])]))
            add("badprop", Item("E", vs))
        vs = base_variants()
        vs.insert(1, Variant("P", "unit", [], [DISABLED, props([("bad", ("other", src))])]))
        add("badprop-disabled", Item("E", vs))
    # 13 default_with that is not a path
    for lit in ("1abc", "a b", "", "a::", "a::b::", "fn", "a-b", "a::1"):
        add("badpath", Item("E", base_variants() + [Variant("T", "tuple", [Field("u8")], [dw(lit)])]))
        add("badpath", Item("E", base_variants() + [Variant("N", "named", [Field("u8", "x", [lit])])]))
        add("badpath-unit", Item("E", base_variants() + [Variant("U", "unit", [], [dw(lit)])]))
    for lit in ("a::b", "::a::b", "self::f", "f"):
        add("goodpath", Item("E", base_variants() + [Variant("T", "tuple", [Field("u8")], [dw(lit)])]))
    # empty table
    add("emptytable", Item("E", [Variant("A", "unit", [], [DISABLED])]))
    return out


def build_corpus(tier, rng):
    c = Corpus(ID)
    for fam, it in items_all():
        k = c.add_def(it, family=fam.split(":")[0], detail=fam)
        for d in DERIVES:
            c.add_q(k, "outcome", [d], note=fam)
    return c


def item_source(it):
    return render_item(it, [])


def probe_command(corpus, n, k, kind, args):
    if args[0] == "FromRepr":
        return None     # from_repr_inner calls syn::parse on a proc_macro::TokenStream, which only exists inside a real macro expansion: decided by the compile step below
    return "expand %d %s %s" % (n, args[0], S.hx(item_source(corpus.defs[k])))


def render_def(k, it, meta, cfg):
    return item_source(it)


def compare(corpus, k, kind, args, note, iobs, mobs, cfg):
    mo, _, rules = mobs.partition("|rules=")
    if iobs.startswith("HARNESS"):
        return False, False, "harness: the item did not parse: " + iobs
    if iobs.startswith("panic"):
        return False, True, "the macro panicked: " + bytes.fromhex(iobs.split(":")[1][1:]).decode("utf-8", "replace")
    want_err = mo.startswith("generr")
    if rules and not want_err:
        return False, True, "model: rule(s) %s apply but the generator model accepts the item" % rules
    if iobs == "ok":
        if want_err:
            return False, True, "silently accepted: the model (and the property's rule %s) expect an error" % (rules or mo)
        return True, False, None
    # implementation reported an error
    _, mhex, line, col = iobs.split(":")
    m = bytes.fromhex(mhex[1:]).decode("utf-8", "replace")
    if not want_err:
        return False, True, "the macro rejects an item the model accepts: " + m
    # the property requires AN error, not a particular wording: a different message class is recorded (it would mean that
    # the model's reading of which check fires first has drifted), not reported
    cl = classify_msg(m)
    mcl = mo[len("generr:"):]
    CLASS_STATS["compared"] += 1
    if cl != mcl and len(CLASS_STATS["different"]) < 8:
        CLASS_STATS["different"].append({"item": item_source(corpus.defs[k])[:300], "derive": args[0], "implementation": m[:160], "model_class": mcl})
    if cl == mcl:
        CLASS_STATS["same"] += 1
    return True, True, None


# ---------------- rustc diagnostics for the malformed items (compiled with the real proc macro) ----------------
def extra_checks(corpus, tier, model, impl):
    """-> (violations, evaluations, info)"""
    thorough = tier == "thorough"
    pairs = []
    for (n, k, kind, args, note) in corpus.queries:
        mo, _, rules = model[n].partition("|rules=")
        want_err = mo.startswith("generr")
        fam = corpus.meta[k]["family"]
        pairs.append((k, args[0], want_err, fam, rules))
    # stratified sample for the quick tier: per (family, derive-outcome) a few pairs
    chosen = []
    seen = {}
    for p in pairs:
        key = (p[3], p[1], p[2])
        seen[key] = seen.get(key, 0) + 1
        if thorough or seen[key] <= 1 or p[1] == "FromRepr":
            chosen.append(p)
    root = os.path.join(R.WORK, "ws", "c20diag")
    if os.path.exists(root):
        shutil.rmtree(root)
    os.makedirs(os.path.join(root, "src"))
    shutil.copy(R.lockfile(), os.path.join(root, "Cargo.lock"))
    with open(os.path.join(root, "Cargo.toml"), "w") as f:
        f.write('[package]\nname = "c20diag"\nversion = "0.0.0"\nedition = "2021"\n[workspace]\n[dependencies]\nstrum = { path = "%s/strum", features = ["derive"] }\n' % R.REPO)
    lines = ["#![allow(dead_code, unused, non_camel_case_types, deprecated)]",
             "pub struct PErr; pub fn perr_a(_: &str) -> PErr { PErr }",
             "pub fn f() -> u8 { 0 } pub fn g() -> u8 { 0 }"]
    ranges = []
    for idx, (k, d, want_err, fam, rules) in enumerate(chosen):
        src = render_item(corpus.defs[k], ["strum::" + d] + (["Clone"] if d in ("EnumString",) else []))
        body = "pub mod d%d {\n#![allow(unused_imports)]\nuse super::*;\n%s\n}" % (idx, src)
        start = len("\n".join(lines).split("\n")) + 1
        lines.append(body)
        end = len("\n".join(lines).split("\n"))
        ranges.append((start, end, idx))
    with open(os.path.join(root, "src", "lib.rs"), "w") as f:
        f.write("\n".join(lines) + "\n")
    r = R.sh(["cargo", "build", "--offline", "--message-format=json"], cwd=root, timeout=3000)
    errs = {}       # idx -> [messages]
    for line in r.stdout.split("\n"):
        if not line.startswith("{"):
            continue
        try:
            m = json.loads(line)
        except ValueError:
            continue
        if m.get("reason") != "compiler-message" or m["message"].get("level") != "error":
            continue
        msg_ = m["message"]
        for sp in msg_.get("spans", []):
            if sp.get("is_primary") and sp["file_name"].endswith("lib.rs"):
                for (a, b, idx) in ranges:
                    if a <= sp["line_start"] <= b:
                        errs.setdefault(idx, []).append(msg_.get("message", ""))
    viol = []
    nerr = 0
    for idx, (k, d, want_err, fam, rules) in enumerate(chosen):
        got = errs.get(idx, [])
        src = render_item(corpus.defs[k], ["strum::" + d])
        if want_err:
            nerr += 1
            if not got:
                viol.append({"kind": "diagnostics", "definition": k, "config": "c20diag", "rust_source": src, "query": "cargo build (derive %s)" % d,
                             "observed": "no error-level diagnostic with a primary span inside the item", "expected": "a compile error at the item (%s)" % (rules or fam),
                             "family": fam, "model_item": corpus.defs[k].sexp()})
            elif any("panicked" in g for g in got):
                viol.append({"kind": "diagnostics", "definition": k, "config": "c20diag", "rust_source": src, "query": "cargo build (derive %s)" % d,
                             "observed": "; ".join(got)[:500], "expected": "an error, not a proc-macro panic", "family": fam,
                             "model_item": corpus.defs[k].sexp()})
        elif any("panicked" in g for g in got):
            # an ACCEPTED item: the real proc macro, run by rustc next to all the other expansions of this crate, must not panic either
            viol.append({"kind": "diagnostics", "definition": k, "config": "c20diag", "rust_source": src, "query": "cargo build (derive %s)" % d,
                         "observed": "; ".join(got)[:500], "expected": "the macro accepts this item (no proc-macro panic)", "family": fam,
                         "model_item": corpus.defs[k].sexp()})
    return viol, len(chosen), {"error_message_classes": dict(CLASS_STATS), "diagnostics_compiled_pairs": len(chosen), "diagnostics_expected_errors": nerr,
                               "diagnostics_with_error_at_item": sum(1 for i, p in enumerate(chosen) if p[2] and errs.get(i))}
