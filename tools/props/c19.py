"""C19 — generated code depends only on ::core and on the configured strum path."""
import copy
import json
import os
import shutil
from vlib.defs import (Item, Variant, Field, EM, DM, ser, tos, msg, det, doc, aci, dw, props, DISABLED, DEFAULT, TRANSPARENT,
                       render_item)
from vlib.run import Corpus
from vlib import run as R
from vlib import strings as S

ID = "C19"
PROP_FILE = "Props/C19.v"
THEOREMS = ["C19_shadow_independent", "C19_no_std_item", "C19_resolves_without_std", "C19_strum_through_configured_path",
            "C19_nonvacuous"]
RULE = ("definitions covering every template arm of the 15 non-deprecated derives (variant kinds, placeholders by name and by "
        "position, default / transparent / disabled variants, case-insensitive and phf parsing, custom errors, default_with, "
        "discriminant enums with requested derives, tables, iterators over generic enums). Static audit: genprobe expands every "
        "(definition, derive) with the real generator, a syn visitor extracts every path, macro invocation and `use` of the "
        "generated tokens plus the names the code itself binds and the paths the user wrote, and the PROVED checker refs_ok "
        "(extracted) runs on them — once with the default ::strum path and once with #[strum(crate = ..)]. Oracle: the same "
        "definitions are compiled (1) in a #![no_std] library against strum with default features off, (2) with strum reachable "
        "only as a renamed dependency behind a nested re-export and every enum carrying #[strum(crate = \"..\")], (3) inside "
        "modules that declare `mod core {}`, `mod std {}` and `mod alloc {}`, (4) with `crate = \"<one identifier>\"` naming a local "
        "alias (`use renamed_strum as st_alias;`) or a local re-exporting module, (5) next to look-alikes of the prelude names Result / Ok / Err / "
        "AsRef / TryFrom / FromStr / Send / Sync / PhantomData and modules named marker / fmt / iter / option / result / convert / default. A static finding is confirmed by a compile failure "
        "before it is reported; a compile failure is reported by itself. non-trivial = distinct (definition, derive) expansions "
        "audited + distinct (definition, configuration) compiled")
ASSUMPTIONS = ["rustc's real name resolution is modelled only as far as Model/Paths.v goes; the five build configurations are the oracle",
               "user-written tokens (field types, attribute arguments) are told apart by comparing with the paths of the derive input"]

PRELUDE_LOOKALIKES = ["Result", "Ok", "AsRef", "Send", "PhantomData", "IterGet", "m_matches", "m_assert"]
DERIVES15 = ["EnumString", "Display", "AsRefStr", "IntoStaticStr", "VariantNames", "VariantArray", "EnumIter", "EnumCount", "FromRepr",
             "EnumTable", "EnumIs", "EnumTryAs", "EnumMessage", "EnumProperty", "EnumDiscriminants"]

HELPERS = '''
#[derive(Clone, Copy, Debug, PartialEq, Eq, Default)]
pub struct Cap(pub [u8; 8], pub usize);
impl<'a> From<&'a str> for Cap { fn from(s: &'a str) -> Cap { let mut b = [0u8; 8]; let n = if s.len() < 8 { s.len() } else { 8 }; b[..n].copy_from_slice(&s.as_bytes()[..n]); Cap(b, n) } }
impl ::core::fmt::Display for Cap { fn fmt(&self, f: &mut ::core::fmt::Formatter) -> ::core::fmt::Result { f.write_str("cap") } }
impl AsRef<str> for Cap { fn as_ref(&self) -> &str { "cap" } }
#[derive(Debug, PartialEq)]
pub struct PErr;
pub fn perr_a(_: &str) -> PErr { PErr }
pub fn dw_u8() -> u8 { 7 }
pub mod dwm { pub fn dw_u8_path() -> u8 { 13 } }
'''


def crate_configs(tier):
    return [{"name": "c19probe", "kind": "genprobe"}]


def defs_all():
    out = []

    def add(fam, it, derives):
        out.append((fam, it, derives))
    unit3 = lambda: [Variant("Red", "unit"), Variant("GreenApple", "unit", [], [ser("green"), ser("g")]), Variant("Blue", "unit", [], [tos("blue")])]  # noqa: E731
    strings = ["EnumString", "Display", "AsRefStr", "IntoStaticStr", "VariantNames", "EnumMessage", "EnumProperty"]
    structs = ["EnumIter", "EnumCount", "EnumIs", "EnumTryAs", "FromRepr", "EnumDiscriminants"]
    add("fieldless", Item("E", unit3(), metas=[EM("sall", "kebab-case")]), strings + structs + ["VariantArray", "EnumTable"])
    add("fieldless-disabled", Item("E", unit3() + [Variant("Off", "unit", [], [DISABLED])], metas=[EM("prefix", "p.")]),
        strings + structs + ["VariantArray", "EnumTable"])
    mixed = [Variant("Unit", "unit", [], [msg("m"), det("d"), doc(" docs"), props([("k", ("s", "v")), ("n", ("i", -1)), ("b", ("b", True))])]),
             Variant("Tup", "tuple", [Field("u8"), Field("i32")], [tos("tup {0} and {1:>3}")]),
             Variant("Named", "named", [Field("u8", "a"), Field("bool", "b")], [tos("named {a} {b}")]),
             Variant("Plain", "tuple", [Field("u8")], [ser("plain"), ser("PL")]),
             Variant("Off", "named", [Field("u8", "x")], [DISABLED])]
    add("mixed", Item("E", mixed), ["EnumString", "Display", "AsRefStr", "IntoStaticStr", "VariantNames", "EnumMessage", "EnumProperty",
                                    "EnumIter", "EnumCount", "EnumIs", "EnumTryAs", "FromRepr", "EnumDiscriminants"])
    add("aci", Item("E", [Variant("Ab", "unit", [], [aci(True, explicit=False)]), Variant("Cd", "unit", [], [aci(False), ser("cd"), ser("CD2")]),
                          Variant("Ef", "tuple", [Field("u8")], [dw("dw_u8")]), Variant("Gh", "named", [Field("u8", "x", ["dwm::dw_u8_path"])])],
                    metas=[EM("aci")]), ["EnumString", "Display", "AsRefStr"])
    add("default", Item("E", [Variant("Known", "unit"), Variant("Other", "tuple", [Field("Cap")], [DEFAULT])]),
        ["EnumString", "Display", "EnumIs", "EnumTryAs"])
    add("default-named", Item("E", [Variant("Other", "named", [Field("Cap", "rest")], [DEFAULT]), Variant("Known", "unit")]),
        ["EnumString", "Display"])
    add("transparent", Item("E", [Variant("T", "tuple", [Field("&'static str")], [TRANSPARENT]), Variant("N", "named", [Field("&'static str", "inner")], [TRANSPARENT]),
                                  Variant("U", "unit")]), ["Display", "AsRefStr", "IntoStaticStr"])
    add("transparent-owned", Item("E", [Variant("T", "tuple", [Field("Cap")], [TRANSPARENT]), Variant("U", "unit")]), ["Display", "AsRefStr"])
    add("customerr", Item("E", unit3(), metas=[EM("pety", "PErr"), EM("pefn", "perr_a")]), ["EnumString"])
    # crate-rooted / super-rooted paths as VALUES of other options next to `crate = ".."` in one attribute: the keyword `crate`
    # there is not the option `crate`; every derive still reads the configured path
    add("customerr-crate-rooted", Item("E", unit3(), metas=[EM("pety", "crate::PErr"), EM("pefn", "crate::perr_a")]), strings + structs + ["VariantArray", "EnumTable"])
    add("customerr-crate-rooted", Item("E", unit3(), metas=[EM("pefn", "super::perr_a"), EM("prefix", "crate"), EM("pety", "crate::PErr")]),
        ["EnumCount", "EnumIter", "EnumProperty", "VariantArray", "EnumString", "Display"])
    add("constinto", Item("E", unit3(), metas=[EM("cis")]), ["IntoStaticStr", "AsRefStr"])
    add("generic", Item("E", [Variant("A", "tuple", [Field("G0")]), Variant("B", "unit"), Variant("C", "named", [Field("u8", "x")], [DISABLED])], tparams=1, cparams=1),
        ["EnumString", "Display", "AsRefStr", "IntoStaticStr", "VariantNames", "EnumIter", "EnumCount", "EnumIs", "EnumTryAs", "FromRepr",
         "EnumDiscriminants", "EnumMessage", "EnumProperty"])
    add("lifetime", Item("E", [Variant("B", "tuple", [Field("&'l0 str")]), Variant("N", "unit")], lifetimes=1),
        ["Display", "AsRefStr", "IntoStaticStr", "VariantNames", "EnumCount", "EnumIs", "EnumTryAs", "EnumMessage", "EnumProperty", "EnumDiscriminants"])
    add("repr", Item("E", [Variant("A", "unit", discr=3), Variant("B", "unit", [], [DISABLED]), Variant("C", "unit", discr=-1)], repr="i8"),
        ["FromRepr", "EnumDiscriminants", "EnumIter", "VariantArray", "EnumTable", "EnumCount"])
    add("discr-derives", Item("E", [Variant("A", "tuple", [Field("u8")]), Variant("B", "unit")],
                              dmetas=[DM("name", "Kind"), DM("derive", paths=["SP::EnumIter", "SP::EnumString", "SP::Display", "Hash"]), DM("vis", "pub")]),
        ["EnumDiscriminants"])
    # only NON-strum derives requested for the discriminant enum: nothing there registers the `strum` helper attribute, so the
    # generator must not forward #[strum(crate = ..)] to it on its own
    add("discr-std-derives", Item("E", [Variant("A", "tuple", [Field("u8")]), Variant("B", "unit"), Variant("C", "named", [Field("u8", "x")])],
                                  dmetas=[DM("derive", paths=["Hash", "PartialOrd", "Ord"])]),
        ["EnumDiscriminants"])
    # every derive ALONE on an enum that carries #[strum(crate = ..)]: each derive has to register the `strum` helper attribute itself
    for d_ in DERIVES15:
        add("solo", Item("E", unit3()), [d_])
    add("phf", Item("E", unit3() + [Variant("Ci", "unit", [], [aci(True, explicit=False)])], metas=[EM("phf")]), ["EnumString"])
    add("empty", Item("E", []), ["EnumString", "Display", "AsRefStr", "VariantNames", "EnumIter", "EnumCount", "EnumIs", "EnumTryAs", "FromRepr",
                                 "VariantArray"])   # EnumDiscriminants / EnumMessage / EnumProperty emit `match <&E> {}` on a zero-variant enum, which rustc rejects (no value exists; recorded in DESIGN.md)
    add("table-wide", Item("E", [Variant(n, "unit") for n in ("HTTPServer", "Utf8String", "A1b2", "Blue2Go")] + [Variant("Off", "unit", [], [DISABLED])]),
        ["EnumTable", "EnumIter", "VariantArray"])
    return out


def with_crate(it, path):
    it2 = copy.deepcopy(it)
    it2.metas = list(it2.metas) + [EM("crate", path)]
    if any(m.kind == "derive" and any("SP::" in p_ or "strum" in p_ for p_ in m.paths) for m in it2.dmetas):
        it2.dmetas = list(it2.dmetas) + [DM("other", 'strum(crate = "%s")' % path)]
    return it2


def fix_sp(it, sp):
    it2 = copy.deepcopy(it)
    for m in it2.dmetas:
        if m.kind == "derive":
            m.paths = [p.replace("SP::", sp + "::") for p in m.paths]
    return it2


def build_corpus(tier, rng):
    c = Corpus(ID)
    nalias = [0]
    for fam, it, derives in defs_all():
        # `crate = ".."` also as a SINGLE identifier that is a local alias (`use renamed_strum as st_alias;`) or a local module
        # re-exporting strum: such a path must be used as written (a leading `::` would make it an extern-crate name)
        nalias[0] += 1
        for cfgp, tag in (("::strum", "default"), ("crate::reexport::inner", "crate"), (("st_alias", "st_mod")[nalias[0] % 2], "alias")):
            it2 = fix_sp(it, "strum") if tag == "default" else with_crate(fix_sp(it, "renamed_strum"), cfgp)
            it2.dmetas = [DM("other", m.s) if m.kind == "other" else m for m in it2.dmetas]
            k = c.add_def(it2, family=fam, derives=derives, cfgpath=cfgp, tag=tag, base=it)
            for d in derives:
                c.add_q(k, "outcome", [d], note=tag)
    return c


def item_source(it):
    return render_item(it, [])


def probe_command(corpus, n, k, kind, args):
    if args[0] == "FromRepr":
        return None
    return "refs %d %s %s" % (n, args[0], S.hx(item_source(corpus.defs[k])))


def render_def(k, it, meta, cfg):
    return render_item(it, ["strum::" + d for d in meta["derives"]])


def compare(corpus, k, kind, args, note, iobs, mobs, cfg):
    if iobs.startswith("HARNESS"):
        return False, False, "harness: " + iobs[:300]
    mo = mobs.split("|")[0]
    if not iobs.startswith("ok|"):
        return False, True, "the generator rejects or panics on an in-domain definition: " + iobs[:200]
    return mo == "ok", True, None if mo == "ok" else "the model rejects an in-domain definition: " + mo


# ---------------------------------------------------------------------------------------------------
def build_lib(name, lib_src, dep_line, extra=""):
    root = os.path.join(R.WORK, "ws", name)
    if os.path.exists(root):
        shutil.rmtree(root)
    os.makedirs(os.path.join(root, "src"))
    shutil.copy(R.lockfile(), os.path.join(root, "Cargo.lock"))
    with open(os.path.join(root, "Cargo.toml"), "w") as f:
        f.write('[package]\nname = "%s"\nversion = "0.0.0"\nedition = "2021"\n[workspace]\n[lib]\n[dependencies]\n%s\n%s' % (name, dep_line, extra))
    with open(os.path.join(root, "src", "lib.rs"), "w") as f:
        f.write(lib_src)
    r = R.sh(["cargo", "build", "--offline", "--message-format=json"], cwd=root, timeout=3000)
    msgs = []
    for line in r.stdout.split("\n"):
        if line.startswith("{"):
            try:
                m = json.loads(line)
            except ValueError:
                continue
            if m.get("reason") == "compiler-message" and m["message"].get("level") == "error":
                msgs.append(m["message"])
    return r.returncode, msgs, r.stderr[-2000:]


def lib_source(defs, mode):
    """defs: [(k, item, derives)]; mode: nostd | renamed | shadow"""
    sp = "renamed_strum" if mode in ("renamed", "alias") else "strum"
    lines = ["#![no_std]", "#![allow(dead_code, unused, non_camel_case_types, deprecated, non_snake_case)]", HELPERS]
    if mode == "renamed":
        lines.append("pub mod reexport { pub mod inner { pub use renamed_strum::*; } }")
    if mode == "alias":
        lines.append("use renamed_strum as st_alias;\nmod st_mod { pub use renamed_strum::*; }")
    ranges = []
    for (k, it, derives) in defs:
        src = render_item(it, ["%s::%s" % (sp, d) for d in derives] + ["Clone", "Debug", "PartialEq"],
                          bounds="Default + Clone + PartialEq + ::core::fmt::Debug" if it.tparams else "")
        shadow = "mod core {} mod std {} mod alloc {}\n" if mode == "shadow" else ""
        if mode == "prelude":
            # look-alikes of prelude names next to the enum (the ones EVERY derive is immune to on the unchanged tree, DESIGN.md 9.5)
            from vlib.defs import HOSTILE
            shadow = "\n".join(HOSTILE[n_] for n_ in PRELUDE_LOOKALIKES) + "\n"
        body = "pub mod d%d {\nuse super::*;\n%s%s\n}" % (k, shadow, src)
        start = len("\n".join(lines).split("\n")) + 1
        lines.append(body)
        end = len("\n".join(lines).split("\n"))
        ranges.append((start, end, k))
    return "\n".join(lines) + "\n", ranges


def extra_checks(corpus, tier, model, impl):
    viol = []
    info = {}
    obs = impl.get("c19probe", {})
    # ---- static audit with the proved checker
    path = os.path.join(R.WORK, ID, "refs_corpus.txt")
    lines = []
    idx = {}
    for (n, k, kind, args, note) in corpus.queries:
        o = obs.get(n)
        if not o or not o.startswith("ok|"):
            continue
        parts = dict(p.split("=", 1) for p in o.split("|")[1:])
        refs = ["P" + p for p in parts["paths"].split(",") if p] + ["M" + p for p in parts["macros"].split(",") if p] + \
               ["U" + p for p in parts["uses"].split(",") if p]
        lines.append("q %d -1 refsok %s b=%s u=%s %s" % (n, corpus.meta[k]["cfgpath"], parts["binders"], parts["user"], " ".join(refs)))
        idx[n] = (k, args[0], len(refs))
    with open(path, "w") as f:
        f.write("\n".join(lines) + "\n")
    res = R.run_model(path)
    static_bad = {}
    nrefs = 0
    for n, (k, d, nr) in idx.items():
        nrefs += nr
        r = res.get(n, "MODEL-FAILURE")
        if r != "ok":
            static_bad.setdefault(k, []).append((d, r))
    info["expansions_audited"] = len(idx)
    info["references_checked"] = nrefs
    # ---- compile oracle
    dep_plain = 'strum = { path = "%s/strum", default-features = false, features = ["derive", "phf"] }' % R.REPO
    dep_renamed = 'renamed_strum = { package = "strum", path = "%s/strum", default-features = false, features = ["derive", "phf"] }' % R.REPO
    compile_bad = {}
    compiled = 0
    for mode in ("nostd", "renamed", "shadow", "alias", "prelude"):
        want_tag = {"renamed": "crate", "alias": "alias"}.get(mode, "default")
        defs = [(k, it, corpus.meta[k]["derives"]) for k, it in corpus.defs.items() if corpus.meta[k]["tag"] == want_tag]
        src, ranges = lib_source(defs, mode)
        rc, msgs, err = build_lib("c19" + mode, src, dep_renamed if mode in ("renamed", "alias") else dep_plain)
        compiled += len(defs)
        R.log("cargo build c19%s: rc=%d, %d error diagnostics" % (mode, rc, len(msgs)))
        attributed = False
        for m in msgs:
            for sp in m.get("spans", []):
                if sp.get("is_primary") and sp["file_name"].endswith("lib.rs"):
                    for (a, b, k) in ranges:
                        if a <= sp["line_start"] <= b:
                            compile_bad.setdefault(k, []).append((mode, m.get("rendered") or m.get("message")))
                            attributed = True
        if rc != 0 and not attributed:
            viol.append({"kind": "build-broken", "definition": -1, "config": "c19" + mode, "rust_source": src[:3000], "query": "cargo build",
                         "observed": (err or "")[:2000] + "\n".join((m.get("rendered") or "")[:500] for m in msgs[:4]),
                         "expected": "the %s configuration builds" % mode, "family": mode, "model_item": ""})
    info["definitions_compiled"] = compiled
    info["static_findings"] = sum(len(v) for v in static_bad.values())
    unconfirmed = []
    base_of = {}
    for k, m in corpus.meta.items():
        base_of.setdefault(id(m["base"]), []).append(k)
    for k, finds in static_bad.items():
        siblings = base_of[id(corpus.meta[k]["base"])]
        confirmed = [compile_bad[s] for s in siblings if s in compile_bad]
        if confirmed:
            continue       # reported through the compile failure below, with the static finding attached
        unconfirmed.append({"definition": render_item(corpus.defs[k], []), "findings": finds})
    info["static_findings_not_confirmed_by_a_build"] = unconfirmed[:5]
    for k, fails in compile_bad.items():
        it = corpus.defs[k]
        viol.append({"kind": "no_std-build", "definition": k, "config": "c19" + fails[0][0],
                     "rust_source": render_item(it, ["strum::" + d for d in corpus.meta[k]["derives"]]),
                     "query": "cargo build (%s configuration)" % fails[0][0], "observed": fails[0][1][:2500],
                     "expected": "the generated code builds in the %s configuration" % fails[0][0],
                     "static_audit": static_bad.get(k), "family": corpus.meta[k]["family"], "model_item": it.sexp()})
    return viol, compiled + len(idx), info
