"""C03 — all string-producing derives agree on one canonical name per variant."""
import itertools
from vlib.defs import VM, Item, Variant, Field, EM, ser, tos, aci, DISABLED
from vlib.run import Corpus
from vlib import gen as G
from vlib import strings as S
from vlib import render as RR

ID = "C03"
# look-alikes of prelude names (vlib/defs.py HOSTILE) this check's derives are immune to on the unchanged tree
HOSTILE_OK = ['Default', 'Into', 'Result', 'Some', 'Ok', 'Iterator', 'Clone', 'AsRef', 'Send', 'PhantomData', 'IterGet', 'm_matches', 'm_assert', 'm_fmt', 'ByValue']
PROP_FILE = "Props/C03.v"
RULE = ("definitions: systematic kind x {no attr, to_string, every ORDER of 1-3 serialize literals with pairwise distinct byte "
        "lengths (so `last` differs from `longest` in most), both} x prefix {none, empty, ASCII, non-ASCII} x serialize_all x "
        "const_into_str on/off, plus seeded random enums; each deriving Display + AsRefStr + IntoStaticStr + VariantNames, or "
        "the deprecated ToString + AsStaticStr + VariantNames. For every enabled non-default non-transparent variant and two "
        "payloads: Display, AsRef, From<E>, From<&E>, into_str, ToString/as_static must each print the model's canonical name; "
        "VARIANTS is compared position-wise (disabled variants included). non-trivial = distinct (definition, value, derive)")
ASSUMPTIONS = ["names may contain ESCAPED braces ({{ }}), which are not placeholders", "serialize literals of one variant have pairwise distinct byte lengths and the same order by chars as by bytes (the "
               "property does not say which length is meant otherwise)", "no {placeholders} (C17)"]

LITS = ["a", "bcd", "éfg", "lo-ng", "Mixed Case", "SEVEN77", "x", "yy"]   # distinct byte lengths: 1,3,4,5,10,7,1,2


def systematic(rng, thorough):
    items = []
    prefixes = [None, "", "p/", "pré:"]
    styles = [None, "snake_case", "kebab-case", "SCREAMING_SNAKE_CASE", "camelCase", "title_case", "UPPERCASE", "Train-Case",
              "mixed_case", "lowercase", "PascalCase", "SCREAMING-KEBAB-CASE"]
    cfgs = [("none", [])] + [("tos", [])]
    sets = [["bcd"], ["a", "bcd"], ["a", "lo-ng", "bcd"], ["éfg", "yy", "Mixed Case"], ["SEVEN77", "x"]]
    perms = []
    for st in sets:
        for p in itertools.permutations(st):
            perms.append(list(p))
    n = 0
    combos = list(itertools.product(prefixes, styles if thorough else styles[:6], [False, True]))
    for ci, (pf, sty, cis) in enumerate(combos):
        vs = []
        for kind in ("unit", "tuple", "named"):
            # none, tos, both and 3 permutations (rotating through all of them across enums)
            choices = ["none", "tos", "both"] + [perms[(ci * 3 + j + n) % len(perms)] for j in range(3 if not thorough else 6)]
            for ch in choices:
                n += 1
                ident = "%sV%d" % (G.IDENTS[n % len(G.IDENTS)], n)
                v = Variant(ident, kind)
                if kind == "tuple":
                    v.fields = [Field("u8"), Field("String")]
                elif kind == "named":
                    v.fields = [Field("i32", "a")]
                if ch == "tos" and n % 4 != 0:
                    v.metas = [tos("T%d" % n)]
                elif ch == "tos" and n % 4 == 0:
                    v.metas = [tos("T%d{{esc}}" % n)]          # escaped braces only: still a fixed name
                elif ch == "both":
                    v.metas = [ser("s%d-long-serialize" % n), tos("T%d" % n), ser("z")]
                elif ch != "none":
                    v.metas = [ser("%s%d" % (l, n % 10)) for l in ch]
                vs.append(v)
        vs.insert(3, Variant("OffV%d" % ci, "unit", [], [DISABLED, ser("off")]))
        metas = ([EM("prefix", pf)] if pf is not None else []) + ([EM("sall", sty)] if sty else []) + ([EM("cis")] if cis else [])
        items.append(Item("E", vs, metas=metas))
    return items


def lengths_ok(it):
    for v in it.variants:
        sers = [m.s for m in v.metas if m.kind == "ser"]
        bl = [len(s.encode()) for s in sers]
        cl = [len(s) for s in sers]
        if len(set(bl)) != len(bl):
            return False
        order_b = sorted(range(len(sers)), key=lambda i: bl[i])
        order_c = sorted(range(len(sers)), key=lambda i: cl[i])
        if order_b != order_c or len(set(cl)) != len(cl):
            return False
    return True


def crate_configs(tier):
    return [{"name": ID.lower()}, {"name": ID.lower() + "probe", "kind": "genprobe"}]


def query_in_config(cfg, kind, args):
    return (kind == "struct") == (cfg.get("kind") == "genprobe")


probe_command = S.struct_probe_command


def build_corpus(tier, rng):
    c = Corpus(ID)
    thorough = tier == "thorough"
    from props import c01 as _c01
    cands = _c01.generic_shapes() + [("systematic", it) for it in systematic(rng, thorough)]
    # the LONGEST serialize is the longest VALUE, however the literals are written in the source (escapes, raw strings)
    def sv(text, style=None):
        m = ser(text)
        m.style = style
        return m
    esc_sets = [[sv("ab", "uesc"), sv("abcd")], [sv("abcd"), sv("ab", "uesc")], [sv("\t"), sv("tab")], [sv("tab"), sv("\t")], [sv("k\0"), sv("kk0")],
                [sv("\\\\"), sv("abc")], [sv('q"', "raw"), sv("w\\x")], [sv('q"q"'), sv('w"ww"', "raw")], [sv("é", "uesc"), sv("zz")],
                [sv("x", "raw"), sv("yy", "uesc"), sv("zzz")], [sv("zzz", "raw"), sv("yy"), sv("x", "uesc")]]
    for sty in (None, "snake_case"):
        vs = []
        for i, st in enumerate(esc_sets):
            kind = ["unit", "tuple", "named"][i % 3]
            v = Variant("Esc%d" % i, kind, [Field("u8")] if kind == "tuple" else ([Field("u8", "f")] if kind == "named" else []))
            v.metas = [VM(m.kind, m.s[:-0 or None] + str(i), style=m.style) for m in st]
            vs.append(v)
        cands.append(("escapes", Item("E", vs, metas=[EM("sall", sty)] if sty else [])))
    # a variant-level default_with only says how EnumString fills the payload: the variant keeps its name in every printer
    from vlib.defs import dw
    for sty, pf in ((None, None), ("snake_case", "c."), ("UPPERCASE", None)):
        vs = [Variant("OffWhite", "tuple", [Field("String")], [dw("dw_string")]), Variant("Level", "tuple", [Field("u8")], [dw("dw_u8")]),
              Variant("Named", "named", [Field("u8", "f")], [dw("dw_u8_b"), ser("nm")]), Variant("Plain", "unit"),
              Variant("Two", "tuple", [Field("u8"), Field("String")], [dw("dwm::dw_u8_path")])]
        cands.append(("default-with", Item("E", vs, metas=([EM("sall", sty)] if sty else []) + ([EM("prefix", pf)] if pf else []))))
    # a serialize literal that REPEATS the variant's own identifier (the usual way to exempt one variant from serialize_all) is a literal like
    # any other: never re-cased, counted with its own length
    for sty in ("snake_case", "lowercase", "SCREAMING-KEBAB-CASE", "camelCase", "title_case", None):
        vs = [Variant("HTTP", "unit", [], [ser("HTTP")]), Variant("DarkGray", "tuple", [Field("u8")], [ser("dg"), ser("DarkGray")]),
              Variant("MidTone", "named", [Field("u8", "f")], [ser("MidTone"), ser("a-much-longer-one")]), Variant("Plain", "unit"),
              Variant("r#type", "unit", [], [ser("type")]), Variant("XMLHttp", "unit", [], [ser("XMLHttp"), ser("xml")])]
        cands.append(("own-name-literal", Item("E", vs, metas=([EM("sall", sty)] if sty else []) + ([EM("prefix", "n.")] if sty == "camelCase" else []))))
    # TIES and REPEATS among the serialize literals of one variant: the LAST of the longest wins, and a repeated literal keeps its positions
    tie_sets = [["ab2", "cd2", "ab2"], ["x", "y"], ["aa", "bb", "aa", "cc"], ["one", "two", "one"], ["p", "long", "qq", "long", "rrrr", "ssss"], ["same", "same"],
                ["é", "zz"], ["zz", "é"],
                # case twins (always equally long): still the LAST one, whatever the variant's case-sensitivity is
                ["tab", "TAB"], ["TAB", "tab"], ["Esc", "ESC", "esc"], ["up", "Down", "DOWN"], ["Ünï", "ünï", "ÜNÏ"]]
    from vlib.defs import aci
    for sty, pf, fl in ((None, None, 0), ("snake_case", "p.", 0), (None, None, 1), ("UPPERCASE", None, 2), (None, "q/", 3)):
        vs = []
        for i, st in enumerate(tie_sets):
            kind = ["unit", "tuple", "named"][i % 3]
            v = Variant("Tie%d" % i, kind, [Field("u8")] if kind == "tuple" else ([Field("u8", "f")] if kind == "named" else []))
            v.metas = [ser("%s%d" % (t, i)) for t in st]
            if fl:      # the variant's own ascii_case_insensitive (bare / = true / = false), first or last in the list
                f_ = [aci(True, explicit=False), aci(True, explicit=True), aci(False)][(fl + i) % 3]
                v.metas = ([f_] + v.metas) if i % 2 else (v.metas + [f_])
            if i % 4 == 1:
                v.groups = [1, 1]
            vs.append(v)
        cands.append(("ties", Item("E", vs, metas=([EM("sall", sty)] if sty else []) + ([EM("prefix", pf)] if pf else []) + [EM("cis")] + ([EM("aci")] if fl == 3 else []))))
    from props import c01
    for i, it in enumerate(c01.nonascii()):
        if i % 3 == 1:
            it.metas.append(EM("prefix", "pré:"))
        if i % 4 == 2:
            it.metas.append(EM("cis"))
        cands.append(("non-ascii-ident", it))
    for _ in range(800 if thorough else 80):
        it = G.string_enum(rng, allow_default=False, allow_prefix=True, distinct_lengths=True, custom_err=False,
                           allow_dw=False)
        if rng.random() < 0.4 and it.variants:   # const_into_str on a zero-variant enum does not compile (`match self {}` on &Self); no value exists to query
            it.metas.append(EM("cis"))
        cands.append(("random", it))
    # the SAME variant identifiers in several enums of one crate, under different styles: a name depends on the enum's own style only, not on
    # which enum the compiler expanded first (eight copies per style put one copy of each style into every shard crate, in both orders)
    shared = []
    for sa, sb in ((None, "camelCase"), ("camelCase", None), (None, "snake_case"), ("PascalCase", "UPPERCASE")):
        for sty in [sa] * 8 + [sb] * 8:
            vs = [Variant("DarkRed", "unit"), Variant("LightGreen", "tuple", [Field("u8")]), Variant("Utf8Text", "named", [Field("u8", "f")]), Variant("HTTPCode2", "unit")]
            shared.append(("shared-identifiers", Item("E", vs, metas=[EM("sall", sty)] if sty else [])))
    cands = shared + cands          # first, so that the copies sit at consecutive definition numbers from 0
    infos = G.classify(ID, [it for _, it in cands])
    n = 0
    for (fam, it), info in zip(cands, infos):
        if info is None or (fam != "ties" and not lengths_ok(it)):
            continue
        n += 1
        deprecated = (n % 3 == 0) and not any(m.kind == "cis" for m in it.metas)
        derives = (["ToString", "AsStaticStr", "VariantNames"] if deprecated
                   else ["Display", "AsRefStr", "IntoStaticStr", "VariantNames"])
        k = c.add_def(it, family=fam, derives=derives, info=info)
        vals = RR.sample_values(it)
        c.meta[k]["vals"] = vals
        c.add_q(k, "names", [], note="names")
        if not deprecated:
            c.add_q(k, "struct", ["Display"], note="structure")
            c.add_q(k, "struct", ["AsRefStr"], note="structure")
        for j, (i, _, tag) in enumerate(vals):
            if info["variants"][i]["disabled"]:
                continue
            for kind in (["tostring", "asstatic"] if deprecated else ["display", "asref", "intostatic"]):
                c.add_q(k, kind, [j, i], note=tag)
            if not deprecated:
                # Display returns the canonical name to EVERY caller, also one that pads or truncates (whatever the variant's kind)
                for sp in (["-", ">", "12", "-"], ["x2a", "^", "9", "3"], ["-", "-", "-", "2"]):
                    c.add_q(k, "display", [j, i] + sp, note="spec")
    return c


def render_def(k, it, meta, cfg):
    return S.render_strings(k, it, meta, cfg)


def extra_coverage(corpus, tier):
    return S.struct_coverage()


def compare(corpus, k, kind, args, note, iobs, mobs, cfg):
    if kind == "struct":
        return S.compare_struct(corpus, k, iobs, mobs)
    ok, nt, detail = S.compare_strings(corpus, k, kind, args, note, iobs, mobs, cfg)
    info = corpus.meta[k]["info"]
    # the property's own statement, evaluated on the model's answer: it is the canonical name
    if kind == "names":
        want = "[" + ";".join(S.hx(v["preferred"]) for v in info["variants"]) + "]"
        if mobs != want:
            return False, nt, "model VARIANTS differ from the canonical names"
    elif len(args) == 2:     # (queries with a format spec are compared with the model only: the padded name is not the bare name)
        canon = "str:" + S.hx(info["variants"][int(args[1])]["preferred"])
        if mobs.split("|")[0] != canon:
            return False, nt, "model prints %s, canonical name is %s" % (mobs, canon)
    return ok, nt, detail
