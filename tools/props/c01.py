"""C01 — EnumString returns variant V iff the input is one of V's declared spellings."""
from vlib.defs import Item, Variant, Field, EM, ser, tos, aci, dw, DISABLED, DEFAULT, raw, doc
from vlib.run import Corpus
from vlib import gen as G
from vlib import strings as S

ID = "C01"
# look-alikes of prelude names (vlib/defs.py HOSTILE) this check's derives are immune to on the unchanged tree
HOSTILE_OK = ['From', 'Result', 'Some', 'Ok', 'Iterator', 'Clone', 'AsRef', 'Send', 'PhantomData', 'IterGet', 'm_matches', 'm_assert', 'm_fmt', 'c_binders', 'ByValue']
PROP_FILE = "Props/C01.v"
RULE = ("definitions: regression + systematic (kind x {no attr, to_string, 1-3 serialize, both} x variant flag {none,true,false} "
        "x enum flag x serialize_all) + seeded random enums (0-8 variants, disabled / default / default_with / generics / custom "
        "error), admitted only when the model's NonOverlap predicate holds (the declaration-order family apart: >20 arms with "
        "spellings two variants accept, where the first declared answers); inputs per definition are derived from its own "
        "spellings: every spelling, case flips, one-edit neighbours, padded forms, Unicode look-alikes, spellings of disabled "
        "variants, the raw identifier, far strings. Both from_str and try_from are observed, with the payload of the result. "
        "non-trivial = distinct (definition, input) whose outcome is a variant or a default capture, or the rejection of a near "
        "miss (flip / edit / pad / disabled spelling / un-cased identifier)")
ASSUMPTIONS = ["identifiers are ASCII (Unicode identifiers are outside the model)",
               "a default variant with explicit spellings of its own is excluded here (compared under C11)"]


def admit(it, info):
    if info is None or not info["nonoverlap"]:
        return False
    for v, vi in zip(it.variants, info["variants"]):
        if vi["default"] and not vi["disabled"] and any(m.kind in ("ser", "tos") for m in v.metas):
            return False
    return True


def systematic(rng):
    items = []
    n = 0
    kinds = ["unit", "tuple", "named"]
    spell_cfgs = ["none", "tos", "ser1", "ser3", "both"]
    for eaci in (False, True):
        for style in (None, "snake_case", "SCREAMING-KEBAB-CASE", "camelCase", "title_case"):
            vs = []
            for kind in kinds:
                for sc in spell_cfgs:
                    for flag in (None, True, False):
                        n += 1
                        ident = "%s%sV%d" % (G.IDENTS[n % len(G.IDENTS)].replace("_", ""), "Ab" if n % 2 else "", n)
                        v = Variant(ident, kind)
                        if kind == "tuple":
                            v.fields = [Field("u8"), Field("String")]
                        elif kind == "named":
                            v.fields = [Field("i32", "a"), Field("bool", "b")]
                        base = "Sp%dx" % n
                        ms = []
                        if sc in ("ser1", "ser3", "both"):
                            ms.append(ser(base + "One"))
                        if sc == "ser3":
                            ms += [ser(base.lower() + "-two"), ser(base.upper() + " é3")]
                        if sc in ("tos", "both"):
                            ms.append(tos(base + "Ts"))
                        if flag is not None:
                            ms.append(aci(flag, explicit=(n % 2 == 0) or not flag))
                        v.metas = ms
                        vs.append(v)
            # split into enums of 9 variants, one of them with a disabled and a default variant
            for i in range(0, len(vs), 9):
                chunk = vs[i:i + 9]
                metas = ([EM("aci")] if eaci else []) + ([EM("sall", style)] if style else [])
                it = Item("E", list(chunk), metas=metas)
                if (i // 9) % 2 == 0:
                    it.variants.insert(2, Variant("OffV%d" % i, "unit", [], [DISABLED, ser("off%d" % i)]))
                    it.variants.insert(5, Variant("CatchAll", "tuple", [Field("String")], [DEFAULT]))
                if (i // 9) % 3 == 1:
                    it.metas += [EM("pety", "PErr"), EM("pefn", "perr_a")]
                items.append(it)
    return items


def regression():
    return [
        # default arm placed first / in the middle must not swallow spellings declared after it
        Item("E", [Variant("Other", "tuple", [Field("String")], [DEFAULT]), Variant("Red", "unit", [], [ser("red"), ser("r")]),
                   Variant("Blue", "unit")]),
        Item("E", [Variant("Red", "unit"), Variant("Off", "unit", [], [DISABLED]), Variant("Blue", "tuple", [Field("u8")], [dw("dw_u8")])]),
        Item("E", [Variant("Ab", "unit", [], [aci(True, explicit=False)]), Variant("Cd", "unit", [], [aci(False)])], metas=[EM("aci")]),
        Item("E", []),
        Item("E", [Variant("Only", "named", [Field("String", "s")], [DEFAULT])]),
        # a variant-level default_with on a STRUCT variant is not consulted: fields come from their own default_with or from Default
        Item("E", [Variant("Rect", "named", [Field("u8", "w"), Field("u8", "h", ["dw_u8_b"])], [dw("dw_u8")]), Variant("Plain", "unit"),
                   Variant("Named", "named", [Field("String", "s"), Field("i32", "n")], [ser("nm"), dw("dw_string")])]),
        # two variants marked default, the EARLIER one disabled as well: the enabled one is the catch-all
        Item("E", [Variant("Gone", "tuple", [Field("String")], [DISABLED, DEFAULT]), Variant("Red", "unit"), Variant("Other", "tuple", [Field("String")], [DEFAULT])]),
        Item("E", [Variant("Red", "unit"), Variant("Gone", "named", [Field("String", "x")], [DEFAULT, DISABLED]), Variant("Other", "named", [Field("String", "rest")], [DEFAULT]), Variant("Blue", "unit")]),
        # default next to default_with (variant / field level): the catch-all captures the input, the function is not consulted
        Item("E", [Variant("Red", "unit"), Variant("Other", "tuple", [Field("String")], [DEFAULT, dw("dw_string")]), Variant("Blue", "tuple", [Field("u8")], [dw("dw_u8")])]),
        Item("E", [Variant("Other", "named", [Field("String", "raw", ["dw_string"])], [DEFAULT]), Variant("Red", "unit")]),
        # a DISABLED default variant is neither produced nor used as the catch-all
        Item("E", [Variant("Red", "unit"), Variant("Other", "tuple", [Field("String")], [DISABLED, DEFAULT]), Variant("Blue", "unit")]),
        Item("E", [Variant("Other", "named", [Field("String", "rest")], [DEFAULT, ser("o"), DISABLED]), Variant("Red", "unit")],
             metas=[EM("pety", "PErr"), EM("pefn", "perr_a")]),
        # attributes strum does not read, before the ones it does
        Item("E", [Variant("A", "unit", [], [raw("doc(hidden)"), ser("a1"), raw("allow(dead_code)"), ser("a2")]),
                   Variant("B", "unit", [], [raw('doc(alias = "x")'), DISABLED]), Variant("C", "tuple", [Field("String")], [doc(" d"), raw("doc(hidden)"), DEFAULT]),
                   Variant("D", "unit", [], [raw("doc(hidden)"), aci(True, explicit=False), doc(" text"), tos("Dee")])]),
        # several spellings of ONE variant that differ only in ASCII case, under every flag value
        Item("E", [Variant("A", "unit", [], [ser("mb"), tos("MB"), aci(False)]), Variant("B", "unit", [], [ser("kb"), ser("Kb"), ser("KB")]),
                   Variant("C", "unit", [], [ser("gb"), tos("GB"), aci(True, explicit=True)]), Variant("D", "unit", [], [tos("Tb"), ser("tB")])]),
        Item("E", [Variant("A", "unit", [], [ser("mb"), tos("MB"), aci(False)]), Variant("B", "unit", [], [ser("kb"), ser("KB")])], metas=[EM("aci")]),
        Item("E", [Variant("Off", "tuple", [Field("String")], [DEFAULT, DISABLED]), Variant("Real", "tuple", [Field("String")], [DEFAULT]), Variant("Red", "unit")]),
        # punctuation that differs from another variant's in bit 5 only (| and \, ~ and ^, ` and @, - and CR): case folding touches letters only
        Item("E", [Variant("Pipe", "unit", [], [ser("|"), aci(True, explicit=False)]), Variant("Backslash", "unit", [], [ser("\\")]), Variant("Tilde", "unit", [], [ser("~t")]),
                   Variant("Caret", "unit", [], [ser("^t")]), Variant("Tick", "tuple", [Field("u8")], [ser("`x")]), Variant("At", "unit", [], [ser("@x")]),
                   Variant("Dash", "unit", [], [ser("user-name")]), Variant("Cr", "unit", [], [ser("user\rname")])], metas=[EM("aci")]),
        # a DISABLED (or default) variant owns no spelling: a later enabled variant may use its name
        Item("E", [Variant("Warn", "unit", [], [DISABLED]), Variant("Warning", "unit", [], [ser("Warn")]), Variant("Error", "unit")]),
        Item("E", [Variant("Other", "tuple", [Field("String")], [DEFAULT]), Variant("Misc", "unit", [], [ser("Other"), ser("other")]), Variant("Off", "unit", [], [DISABLED, ser("x")]),
                   Variant("Ex", "tuple", [Field("u8")], [ser("x")])]),
        Item("E", [Variant("dark_red", "unit", [], [DISABLED]), Variant("DarkRed", "unit"), Variant("Blue", "unit", [], [DISABLED, aci(True, explicit=False)]), Variant("BLUE", "unit")],
             metas=[EM("sall", "snake_case")]),
    ]


UNI_IDENTS = ["ÉlanVital", "ÜberMensch", "Ωmega", "élanVital2", "straßeName", "Naïve_Bayes", "ДобрыйДень", "日本語", "Ǆungla", "İstanbul",
              "ΟΔΟΣ", "ßeta", "Öl2", "Café3", "HTTPÉcole", "ÀB_ÇD", "r#Éclair"]


def nonascii():
    """NON-ASCII identifiers under every style (and none): the expected name comes from Model/HeckU.v on the probe's character table
    (G.resolve_names; identifiers with U+03A3 from the Rust reference on heck) and is carried through the rest of the model as a spelling"""
    items = []
    for si, st in enumerate([None] + G.STYLES):
        vs = []
        for i, ident in enumerate(UNI_IDENTS):
            kind = ["unit", "tuple", "named"][(i + si) % 3]
            v = Variant(ident, kind)
            if kind == "tuple":
                v.fields = [Field("u8")]
            elif kind == "named":
                v.fields = [Field("String", "s")]
            if (i + si) % 5 == 0:
                v.metas = [aci(True, explicit=False)]
            vs.append(v)
        items.append(Item("E", vs, metas=[EM("sall", st)] if st else []))
    return items


def long_spellings():
    """spellings of 63 / 64 / 65 / 127 / 128 / 129 / 191 / 256 / 1000 bytes next to short ones (length-indexed shortcuts, u64 masks)"""
    items = []
    lens = [63, 64, 65, 127, 128, 129, 191, 192, 256, 1000]
    for phf in (False, True):
        for flag in (False, True):
            vs = [Variant("Short", "unit", [], [ser("s")]), Variant("Seven", "unit", [], [ser("sevenxx")])]
            for i, n in enumerate(lens):
                body = ("L%d-" % n + "abcdefghij" * 101)[:n]
                vs.append(Variant("Long%d" % n, "unit", [], [ser(body)] + ([aci(True, explicit=False)] if flag and i % 2 else [])))
            vs.append(Variant("LongIdentifierWithManyWordsThatGoesOnAndOnUntilItIsLongerThanSixtyFourBytesInEveryStyle", "unit"))
            items.append(Item("E", vs, metas=([EM("phf")] if phf else []) + ([EM("sall", "SCREAMING_SNAKE_CASE")] if flag else [])))
    return items


def many_variants():
    """63 / 64 / 65 / 130 variants (bit masks, jump tables): every one parses from its own spelling only"""
    items = []
    for n in (63, 64, 65, 130):
        vs = []
        for i in range(n):
            v = Variant("Word%dEnd" % i, "unit" if i % 5 else "tuple", [] if i % 5 else [Field("u8")])
            if i % 7 == 3:
                v.metas = [ser("w%d" % i), ser("W-%d" % i)]
            if i % 11 == 5:
                v.metas = v.metas + [aci(True, explicit=False)]
            if i % 13 == 6:
                v.metas = v.metas + [DISABLED]
            vs.append(v)
        items.append(Item("E", vs, metas=[EM("sall", "kebab-case")] if n % 2 else []))
    return items


def declaration_order():
    """more than 20 arms, spelling lengths in no particular order, and spellings that two enabled variants both accept
    (a case-insensitive spelling and a later exact case twin, one literal on two variants): the variant declared first
    answers — the model's first-match — whatever the generator does to order or bucket its arms"""
    words = ["Metre", "Kg", "Second", "Ampere", "K", "Mole", "Candela", "Hz", "Newton", "Pa", "Joule", "Watt", "Coulomb", "Volt",
             "Farad", "Ohm", "Siemens", "Wb", "Tesla", "Henry", "Lumen", "Lux", "Becquerel", "Gray", "Sievert", "Katal", "Bar",
             "Litre", "Tonne", "Dalton", "Neper", "Bel", "Ev", "Au", "Hectare", "Minute", "Hour", "Day", "Degree", "Arcsec"]
    items = []
    for n, step, phf in ((24, 2, False), (33, 3, False), (40, 2, False), (29, 2, True)):
        vs = []
        for i, w in enumerate(words[:n]):
            vs.append(Variant(w, "unit", [], [aci(True, explicit=False)] if i % step == 0 else []))
        cis = [w for i, w in enumerate(words[:n]) if i % step == 0]
        # later variants re-declare spellings an earlier variant already accepts
        for j in range(0, len(cis), 3):
            grp = cis[j:j + 3]
            ms = [ser(w.upper()) for w in grp] + [ser("legacy%d" % j)]
            if j % 2:
                ms.append(ser(words[j + 1]))                  # an exact literal of an earlier exact variant
            vs.append(Variant("Legacy%d" % j, "unit", [], ms))
        vs.append(Variant("Twin", "unit", [], [ser(cis[-1].lower()), ser(words[1]), aci(True, explicit=True)]))
        it = Item("E", vs, metas=[EM("phf")] if phf else [])
        it.overlap_family = True
        items.append(it)
    return items


def crate_configs(tier):
    return [{"name": ID.lower()}, {"name": ID.lower() + "probe", "kind": "genprobe"}]


def query_in_config(cfg, kind, args):
    return (kind == "struct") == (cfg.get("kind") == "genprobe")


probe_command = S.struct_probe_command


def namesake_items(unit_only=False):
    """the user's enum has INHERENT functions called from_str / try_from / as_ref / to_string of its own (round 16)"""
    out = []
    for j in range(3):
        vs = [Variant("Red", "unit", [], [ser("red"), ser("r")] if j != 1 else []), Variant("DarkGreen", "tuple", [Field("u8")], [aci(True, explicit=False)] if j else []),
              Variant("Off", "unit", [], [DISABLED]), Variant("Blue", "named", [Field("i32", "x")])]
        if j == 2:
            vs.append(Variant("Other", "tuple", [Field("String")], [DEFAULT]))
        if unit_only:
            for v in vs:
                if not v.has("default"):
                    v.kind, v.fields = "unit", []
        it = Item("E", vs, metas=[EM("aci")] if j == 1 else [], tparams=0)
        it.namesakes = True
        out.append(("inherent-namesakes", it))
    return out


def generic_shapes(**kw):
    """(round 15) type parameters that need no trait (instantiated with NoDef) and parameters with defaults"""
    return [("bound-free-parameter", it) for it in G.bound_free_items(**kw)] + [("defaulted-parameters", it) for it in G.defaulted_param_items()]


def build_corpus(tier, rng):
    c = Corpus(ID)
    thorough = tier == "thorough"
    cands = generic_shapes() + namesake_items() + [("regression", it) for it in regression()] + [("systematic", it) for it in systematic(rng)] + [("non-ascii-ident", it) for it in nonascii()] + [("long-spelling", it) for it in long_spellings() if not any(m.kind == "phf" for m in it.metas)] + [("many-variants", it) for it in many_variants()] + [("declaration-order", it) for it in declaration_order() if not any(m.kind == "phf" for m in it.metas)]
    for _ in range(1400 if thorough else 110):
        cands.append(("random", G.string_enum(rng)))
    infos = G.classify(ID, [it for _, it in cands])
    reals = G.real_structure(ID, [it for _, it in cands])
    # the model's description of the same code: where the two differ, a search for a distinguishing input follows (S.mismatch_search)
    mstructs = [r[0] for r in G.model_query(ID, [it for _, it in cands], [("struct", ["EnumString"])])] if any(reals) else [None] * len(cands)
    rejected = 0
    for (fam, it), info, real, mstruct in zip(cands, infos, reals, mstructs):
        if not admit(it, info) and not getattr(it, "overlap_family", False):
            rejected += 1
            continue
        k = c.add_def(it, family=fam, derives=["EnumString"], info=info)
        seen = set()
        for s, note in G.fromstr_inputs(it, info, rng, flipcap=(256 if thorough else 16), nrandom=(40 if thorough else 6)):
            c.add_q(k, "fromstr", [S.hx(s)], note=note)
            seen.add(s)
        S.add_real_literal_inputs(c, k, it, real, seen, model_summary=mstruct)
    c.rejected = rejected
    return c


def render_def(k, it, meta, cfg):
    return S.render_strings(k, it, meta, cfg)


def compare(corpus, k, kind, args, note, iobs, mobs, cfg):
    return S.compare_strings(corpus, k, kind, args, note, iobs, mobs, cfg)


def extra_coverage(corpus, tier):
    notes = {}
    for q in corpus.queries:
        notes[q[4]] = notes.get(q[4], 0) + 1
    d = {"input_kinds": notes, "candidates_rejected_by_domain_predicate": corpus.rejected}
    d.update(S.struct_coverage())
    return d
