"""C11 — default and transparent variants capture and forward their inner value verbatim."""
from vlib.defs import Item, Variant, Field, EM, ser, tos, aci, dw, DISABLED, DEFAULT, TRANSPARENT
from vlib.run import Corpus
from vlib import gen as G
from vlib import strings as S
from vlib import render as RR

ID = "C11"
# look-alikes of prelude names (vlib/defs.py HOSTILE) this check's derives are immune to on the unchanged tree
HOSTILE_OK = ['From', 'Result', 'Some', 'Ok', 'Iterator', 'Clone', 'AsRef', 'Send', 'PhantomData', 'IterGet', 'm_matches', 'm_assert', 'm_fmt', 'c_binders', 'ByValue']
PROP_FILE = "Props/C11.v"
RULE = ("definitions: enums with a default variant (tuple / single named field; inner String, Box<str>, a user type with From<&str>; "
        "declared first, in the middle, last; with or without spellings of its own) and/or transparent variants (tuple / named; inner "
        "String, &'static str, user type, integers for Display) next to ordinary variants, NonOverlap by the model's predicate; "
        "inputs: every spelling of other variants and their near misses (case flips, one-edit neighbours, padding, multi-byte, "
        "300-byte), the captured payload is compared byte for byte with the input; Display of default/transparent values under a "
        "grid of format specs (fill x align x width x precision) must equal the inner field formatted with the same spec; AsRef / "
        "From must equal the inner field's; from_str(s)?.to_string() == s. non-trivial = distinct (definition, query)")
ASSUMPTIONS = ["the inner type's own Display / AsRef / From<&str> are the harness types' (String, Box<str>, Wrap, &'static str, integers)"]

ORD = [Variant("Red", "unit", [], [ser("red"), ser("RED!")]), Variant("GreenApple", "tuple", [Field("u8")]),
       Variant("Blue", "named", [Field("i32", "a")], [tos("b l u e"), aci(True, explicit=False)]),
       Variant("Off", "unit", [], [DISABLED])]


def clone_v(v):
    return Variant(v.ident, v.kind, [Field(f.ty, f.name, list(f.dws)) for f in v.fields], list(v.metas), v.discr, v.discr_expr)


def systematic():
    items = []
    inners = ["String", "Box<str>", "Wrap"]
    n = 0
    for inner in inners:
        for named in (False, True):
            for pos in (0, 2, 4):
                for own in (False, True):
                    n += 1
                    d = Variant("CatchAll", "named" if named else "tuple", [Field(inner, "rest" if named else "")],
                                [DEFAULT] + ([ser("own-spelling"), ser("Own2")] if own else []))
                    vs = [clone_v(v) for v in ORD]
                    vs.insert(pos, d)
                    metas = [EM("sall", "kebab-case")] if n % 2 else []
                    if n % 3 == 0:
                        metas.append(EM("aci"))
                    if n % 5 == 2:
                        # an enum-level prefix is never printed in front of the CAPTURED value of a default variant
                        metas.append(EM("prefix", ["colour/", "p"][n % 2]))
                    if n % 4 == 1:
                        # a custom parse error next to a default variant: the default variant still catches everything
                        metas += [EM("pety", "PErr"), EM("pefn", "perr_a" if n % 8 == 1 else "perr::b")]
                    items.append(("default", Item("E", vs, metas=metas)))
    # default variant WITH to_string: Display prints the literal, not the inner value
    items.append(("default-tos", Item("E", [clone_v(ORD[0]), Variant("Other", "tuple", [Field("String")], [DEFAULT, tos("other!")])])))
    # transparent
    for inner in ("String", "&'static str", "Wrap", "u8", "i32", "Box<str>"):
        for named in (False, True):
            t = Variant("Trans", "named" if named else "tuple", [Field(inner, "inner" if named else "")], [TRANSPARENT])
            t2 = Variant("Trans2", "tuple", [Field(inner)], [TRANSPARENT, ser("ignored")])
            vs = [clone_v(ORD[0]), t, clone_v(ORD[2]), t2, clone_v(ORD[3])]
            items.append(("transparent:" + inner, Item("E", vs, metas=[EM("prefix", "pf.")] if named else [])))
    # (round 15) GENERIC enums whose parameter only TAGS the inner type (`Id<G0>` is Display / AsRef<str> / From<&str> for every G0), instantiated
    # with a type that implements none of these: the impls must not ask anything of G0
    for named in (False, True):
        for what in ("default", "transparent"):
            f_ = Field("Id<G0>", "inner" if named else "")
            if what == "default":
                vs = [clone_v(ORD[0]), clone_v(ORD[2]), Variant("CatchAll", "named" if named else "tuple", [f_], [DEFAULT])]
            else:
                vs = [clone_v(ORD[0]), Variant("Trans", "named" if named else "tuple", [f_], [TRANSPARENT]), clone_v(ORD[3])]
            gi = Item("E", vs, tparams=1)
            gi.targ = "NoDef"
            gi.decl_bounds = ""
            items.append(("tag-parameter:" + what, gi))
    # default AND transparent (AND to_string) on one variant: transparent decides, the value is forwarded
    for j, ms in enumerate(([DEFAULT, TRANSPARENT], [TRANSPARENT, DEFAULT, tos("other")], [tos("word:{0}"), DEFAULT, TRANSPARENT], [DEFAULT, tos("lit"), TRANSPARENT])):
        for named in (False, True):
            vs = [clone_v(ORD[0]), Variant("Both", "named" if named else "tuple", [Field("String", "inner" if named else "")], list(ms)), clone_v(ORD[2])]
            items.append(("default-transparent", Item("E", vs, metas=[EM("prefix", "pf.")] if j == 3 else [])))
    # default AND default_with on one variant (variant level, field level): the catch-all still captures the input, the function is ignored
    for named in (False, True):
        for lvl in ("variant", "field"):
            for pos in (0, 2):
                f = Field("String", "rest" if named else "", ["dw_string"] if lvl == "field" else [])
                d = Variant("CatchAll", "named" if named else "tuple", [f], ([DEFAULT, dw("dw_string")] if pos else [dw("dw_string"), DEFAULT]) if lvl == "variant" else [DEFAULT])
                vs = [clone_v(v) for v in ORD]
                vs.insert(pos, d)
                items.append(("default+default_with", Item("E", vs)))
    # two variants marked default, the EARLIER one disabled as well: the enabled one is the catch-all (a disabled variant takes no part)
    for named in (False, True):
        for gone_first in (True, False):
            gone = Variant("Gone", "named" if named else "tuple", [Field("String", "x" if named else "")], [DISABLED, DEFAULT] if gone_first else [DEFAULT, DISABLED])
            other = Variant("Other", "named" if named else "tuple", [Field("String", "rest" if named else "")], [DEFAULT])
            vs = [clone_v(v) for v in ORD]
            vs.insert(1, gone)
            vs.insert(3 if gone_first else 1, other)
            items.append(("disabled-default+default", Item("E", vs)))
    # both in one enum
    items.append(("both", Item("E", [Variant("T", "tuple", [Field("String")], [TRANSPARENT]),
                                     Variant("D", "tuple", [Field("String")], [DEFAULT]), clone_v(ORD[0])])))
    return items


def crate_configs(tier):
    return [{"name": ID.lower()}, {"name": ID.lower() + "probe", "kind": "genprobe"}]


def query_in_config(cfg, kind, args):
    return (kind == "struct") == (cfg.get("kind") == "genprobe")


probe_command = S.struct_probe_command


def build_corpus(tier, rng):
    c = Corpus(ID)
    thorough = tier == "thorough"
    from props import c01 as _c01
    cands = systematic() + _c01.namesake_items()
    for _ in range(300 if thorough else 40):
        it = G.string_enum(rng, nvariants=rng.randint(2, 7))
        if not any(v.has("default") for v in it.variants):
            v = it.variants[rng.randrange(len(it.variants))]
            v.kind, v.fields = "tuple", [Field(rng.choice(["String", "Box<str>", "Wrap"]))]
            v.metas = [m for m in v.metas if m.kind not in ("dw", "disabled")] + [DEFAULT]
        cands.append(("random", it))
    infos = G.classify(ID, [it for _, it in cands])
    specs = G.spec_grid(rng, n=(200 if thorough else 24))
    for (fam, it), info in zip(cands, infos):
        if info is None or not info["nonoverlap"]:
            continue
        if any(v["default"] and v["disabled"] for v in info["variants"]) and fam != "disabled-default+default":
            continue
        has_default = any(v["default"] for v in info["variants"])
        trans = [v for v in it.variants if v.has("transparent")]
        derives = ["Display"]
        # EnumString reads `transparent` as nothing at all: such a variant parses from its own name like any other (payload from Default)
        if not trans or all(v.fields[0].ty in ("String", "u8", "i32", "Wrap", "Box<str>") for v in trans):
            derives.insert(0, "EnumString")
        if trans and all(RR.is_string_ty(v.fields[0].ty) for v in trans):
            derives.append("AsRefStr")
        if trans and all(v.fields[0].ty == "&'static str" for v in trans):
            derives.append("IntoStaticStr")
        k = c.add_def(it, family=fam.split(":")[0], derives=derives, info=info)
        vals = RR.sample_values(it)
        c.meta[k]["vals"] = vals
        c.add_q(k, "struct", ["Display"], note="structure")
        if "AsRefStr" in derives:
            c.add_q(k, "struct", ["AsRefStr"], note="structure")
        if "EnumString" in derives:
            c.add_q(k, "struct", ["EnumString"], note="structure")
        if "EnumString" in derives:
            for s, note in G.fromstr_inputs(it, info, rng, flipcap=(64 if thorough else 8), nrandom=(30 if thorough else 6)):
                c.add_q(k, "fromstr", [S.hx(s)], note=note)
                if has_default and note != "spelling":
                    c.add_q(k, "caprt", [S.hx(s)], note=note)
        for j, (i, _, tag) in enumerate(vals):
            vi = info["variants"][i]
            if vi["disabled"]:
                continue
            special = vi["transparent"] or (vi["default"] and not it.variants[i].has("tos"))
            if not special and tag != "sample":
                continue
            for sp in (specs if special else specs[:4]):
                c.add_q(k, "display", [j, i] + sp, note="spec")
            if "AsRefStr" in derives:
                c.add_q(k, "asref", [j, i], note="asref")
            if "IntoStaticStr" in derives:
                c.add_q(k, "intostatic", [j, i], note="into")
    return c


def render_def(k, it, meta, cfg):
    return S.render_strings(k, it, meta, cfg)


def extra_coverage(corpus, tier):
    return S.struct_coverage()


def compare(corpus, k, kind, args, note, iobs, mobs, cfg):
    if kind == "struct":
        return S.compare_struct(corpus, k, iobs, mobs)
    if kind == "caprt":
        ok = iobs == mobs
        # the property's statement on the model's answer: a captured input prints back as itself
        if mobs.startswith("str:") and corpus.meta[k].get("family") == "default":
            pass
        return ok, True, None
    return S.compare_strings(corpus, k, kind, args, note, iobs, mobs, cfg)
