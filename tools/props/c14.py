"""C14 — EnumMessage returns exactly the per-variant message, detail, docs and spellings."""
from vlib.defs import Item, Variant, Field, EM, ser, tos, msg, det, doc, aci, DISABLED, raw
from vlib.run import Corpus
from vlib import structs as T
from vlib import gen as G
from vlib import strings as S

ID = "C14"
# look-alikes of prelude names (vlib/defs.py HOSTILE) this check's derives are immune to on the unchanged tree
HOSTILE_OK = ['Default', 'From', 'Into', 'Result', 'Some', 'Ok', 'Iterator', 'Clone', 'AsRef', 'Send', 'PhantomData', 'IterGet', 'm_matches', 'm_assert', 'c_binders', 'no_implicit_prelude', 'ByValue']
PROP_FILE = "Props/C14.v"
RULE = ("enums with 1-8 variants x kinds x {message, detailed_message} presence (all four combinations) x 0-4 doc lines (0-3 "
        "leading spaces, leading tab / NBSP / U+3000 / CR / newline (kept), empty lines, quotes, braces, non-ASCII, a block comment rendered as one multi-line doc attribute; docs "
        "interleaved with #[strum] attributes) x naming attributes x serialize_all x disabled placement (including enums where "
        "EVERY variant has a message, so that no wildcard arm is emitted). For every value the four getters are compared with the "
        "model. non-trivial = distinct (definition, value)")
ASSUMPTIONS = ["zero-variant enums are excluded: the derive emits `match self {}` on &Self, which rustc rejects; the statement "
               "quantifies over variant values, of which there are none"]

DOCS = [[], ["One line."], [" leading space"], ["  two spaces"], ["   three"], [" first", " second"], [" a", "", " c"],
        ["no space", " space", "  two"], [" \"quoted\" {braces} é"], [" block line 1\n line 2\n"], ["", ""], [" x", " y", " z", " w"],
        # leading whitespace that is NOT U+0020 must be kept: tab, NBSP, ideographic space, CR, the "\n" a block comment starts with
        ["\tleading tab"], ["\u00a0nbsp"], ["\u3000ideographic", "\ttab", " space"], ["\n     * block comment\n     "], [" \tspace then tab"],
        ["\rcr", "\u2003em space"]]


def build_corpus(tier, rng):
    c = Corpus(ID)
    thorough = tier == "thorough"
    items = []
    n = 0
    for all_msgs in (False, True):
        for sty in (None, "kebab-case", "SCREAMING_SNAKE_CASE"):
            for dis_pos in (None, 0, 3):
                vs = []
                for i, d in enumerate(DOCS):
                    n += 1
                    kind = ["unit", "tuple", "named"][i % 3]
                    v = Variant("%sV%d" % (G.IDENTS[n % len(G.IDENTS)].replace("_", ""), i), kind)
                    if kind == "tuple":
                        v.fields = [Field("u8")]
                    elif kind == "named":
                        v.fields = [Field("String", "s")]
                    ms = []
                    mode = i % 4 if not all_msgs else 3
                    if mode in (1, 3):
                        ms.append(msg("message %d \"q\"" % n))
                    if mode in (2, 3):
                        ms.append(det("detailed %d\nline" % n))
                    if n % 2:
                        ms.reverse()          # the ORDER in which message / detailed_message are written means nothing
                    if i % 3 == 1:
                        ms.append(ser("ser-%d" % n))
                    if i % 5 == 2:
                        ms += [tos("tos %d" % n), ser("s%d" % n)]
                    # docs interleaved with the strum items
                    docs = [doc(x) for x in d]
                    mixed = docs[:1] + ms + docs[1:]
                    if dis_pos is not None and i % 6 == dis_pos:
                        if (n // 6) % 2:
                            mixed.insert(1 if docs else 0, DISABLED)      # `disabled` BEFORE the naming attributes
                        else:
                            mixed.append(DISABLED)
                    v.metas = mixed
                    vs.append(v)
                for j in range(0, len(vs), 6):
                    # a prefix belongs to the PRINTED name only: get_serializations (what EnumString accepts) never carries it
                    pf = [EM("prefix", "pet/")] if (j // 6 + n) % 3 == 0 else []
                    items.append(("systematic", Item("E", vs[j:j + 6], metas=([EM("sall", sty)] if sty else []) + pf)))
    for _ in range(300 if thorough else 40):
        it = G.string_enum(rng, nvariants=rng.randint(1, 8), allow_default=False, allow_dw=False, custom_err=False)
        for v in it.variants:
            r = rng.random()
            if r < 0.5:
                v.metas.insert(rng.randint(0, len(v.metas)), msg("m " + v.ident))
            if rng.random() < 0.4:
                v.metas.insert(rng.randint(0, len(v.metas)), det("d " + v.ident))
            for d in rng.choice(DOCS):
                v.metas.insert(rng.randint(0, len(v.metas)), doc(d))
        items.append(("random", it))
    # attributes strum does not read, interleaved with the ones it does (#[doc(hidden)] is a doc attribute WITHOUT text)
    items.append(("raw-attrs", Item("E", [
        Variant("A", "unit", [], [raw("doc(hidden)"), msg("m-a"), doc(" doc a"), det("d-a")]),
        Variant("B", "tuple", [Field("u8")], [doc(" first"), raw('doc(alias = "bee")'), doc(" second"), msg("m-b"), ser("bee")]),
        Variant("C", "unit", [], [raw("allow(dead_code)"), raw("doc(hidden)"), DISABLED, msg("never")]),
        Variant("D", "named", [Field("u8", "x")], [msg("m-d"), raw("doc(hidden)"), det("d-d"), doc(" tail doc")])])))
    # a doc attribute whose value is COMPUTED (concat!, stringify!) carries no literal text for strum: it is skipped, the literal lines around it stay
    items.append(("computed-docs", Item("E", [
        Variant("A", "unit", [], [raw('doc = concat!("Hot", "test")'), doc(" Hottest planet.")]),
        Variant("B", "tuple", [Field("u8")], [doc(" First."), raw('doc = stringify!(second)'), doc(" Third."), doc(" Fourth."), msg("m")]),
        Variant("C", "unit", [], [doc(" Only literal."), raw('doc = concat!("tail")')]),
        Variant("D", "named", [Field("u8", "f")], [raw('doc = concat!("alone")')])])))
    # doc attributes written as RAW strings or with an escaped first space: one leading space of the VALUE is removed, however it is spelled
    def dsty(text, style):
        d_ = doc(text)
        d_.style = style
        return d_
    items.append(("doc-literal-styles", Item("E", [
        Variant("A", "unit", [], [dsty(" Raw string doc.", "raw")]), Variant("B", "tuple", [Field("u8")], [dsty(" escaped space", "xesc")]),
        Variant("C", "unit", [], [dsty(" one", "raw"), dsty("  two", "xesc"), doc(" three"), dsty("four", "uesc")]),
        Variant("D", "named", [Field("u8", "f")], [dsty("no space", "raw"), msg("m")])])))
    # an EMPTY literal is a literal: Some("") is not None and not the fallback
    items.append(("empty-literals", Item("E", [
        Variant("A", "unit", [], [msg("short"), det("")]), Variant("B", "tuple", [Field("u8")], [det("")]), Variant("C", "unit", [], [msg("")]),
        Variant("D", "named", [Field("u8", "x")], [msg(""), det("")]), Variant("F", "unit", [], [msg(""), det("long"), doc("")]),
        Variant("G", "unit", [], [doc(""), doc(""), det(" ")])])))
    # the user's enum has INHERENT methods called like the trait's: the trait methods still answer from the attributes
    nk = Item("E", [Variant("Plain", "unit"), Variant("Short", "unit", [], [msg("short")]), Variant("Both", "tuple", [Field("u8")], [msg("m"), det("d"), doc(" docs")]),
                    Variant("Off", "unit", [], [DISABLED, msg("never")]), Variant("OnlyDetail", "named", [Field("u8", "f")], [det("only")])])
    nk.namesakes = True
    items.append(("inherent-namesakes", nk))
    items.append(("case-spellings", Item("E", [Variant("A", "unit", [], [ser("mb"), tos("MB"), aci(False)]), Variant("B", "tuple", [Field("u8")], [ser("kb"), ser("Kb"), ser("KB"), aci(True, explicit=False)]),
                                               Variant("C", "unit", [], [DISABLED, ser("x"), ser("X"), det("never"), msg("never")])])))
    G.resolve_names(ID, [it for _, it in items])
    items = [(f_, i_) for f_, i_ in items if not getattr(i_, "_lost_variants", False)]     # (only when the generator probe is unavailable)
    # non-ASCII identifiers without spellings of their own under every style: get_serializations returns the identifier in that style
    from props import c01
    for j, it_ in enumerate(c01.nonascii()):
        for v in it_.variants:
            if j % 2:
                v.metas = list(v.metas) + [msg("m " + v.ident)]
        items.append(("non-ascii-ident", it_))
    G.resolve_names(ID, [it_ for _, it_ in items])
    for fam, it in items:
        k = c.add_def(it, family=fam, derives=["EnumMessage"])
        for j, (i, _, tag) in enumerate(T.RR.sample_values(it)):
            if tag != "default":
                c.add_q(k, "msg", [j, i], note=tag)
        c.add_q(k, "struct", ["EnumMessage"], note="structure")
    return c


def crate_configs(tier):
    return [{"name": "c14"}, {"name": "c14probe", "kind": "genprobe"}]


def query_in_config(cfg, kind, args):
    return (kind == "struct") == (cfg.get("kind") == "genprobe")


probe_command = S.struct_probe_command


def extra_coverage(corpus, tier):
    d = S.struct_coverage()
    d["structural_tie"]["what"] += ("; EnumMessage: the four getters as tables variant -> literal (message / detailed message / documentation after concat!) and "
                                    "variant -> [spellings] (the static array of get_serializations), with their wildcards")
    return d


def render_def(k, it, meta, cfg):
    return T.render_structs(k, it, meta, cfg)


def compare(corpus, k, kind, args, note, iobs, mobs, cfg):
    if kind == "struct":
        return S.compare_struct(corpus, k, iobs, mobs)
    return iobs == mobs, True, None
