"""C08 — COUNT, VariantNames, VariantArray and EnumIter describe the same variant list."""
from vlib.defs import Item, Variant, Field, EM, ser, tos, DISABLED
from vlib.run import Corpus
from vlib import structs as T
from vlib import gen as G
from vlib import render as RR

ID = "C08"
# look-alikes of prelude names (vlib/defs.py HOSTILE) this check's derives are immune to on the unchanged tree
HOSTILE_OK = ['Default', 'From', 'Into', 'Result', 'Ok', 'AsRef', 'Send', 'PhantomData', 'IterGet', 'm_matches', 'm_assert', 'm_fmt', 'c_binders', 'ByValue']
PROP_FILE = "Props/C08.v"
RULE = ("field-less enums (deriving all four: EnumCount, VariantNames, VariantArray, EnumIter) and mixed enums (the three that "
        "accept payloads), 0-12 variants, explicit discriminants, naming attributes (serialize / to_string / serialize_all / "
        "prefix), every placement of disabled variants for up to 5 variants, generics. Observed: COUNT, iter().count(), VARIANTS "
        "(names), VARIANTS (values) and iter().collect(); compared with the model and, position by position, with each other "
        "when no variant is disabled. non-trivial = distinct (definition, observable)")
ASSUMPTIONS = []


def build_corpus(tier, rng):
    c = Corpus(ID)
    thorough = tier == "thorough"
    items = []
    for n in range(0, (6 if thorough else 5)):
        for mask in range(2 ** n):
            for fieldless in (True, False):
                vs = []
                for i in range(n):
                    kind = "unit" if fieldless or i % 2 else ("tuple" if i % 4 == 0 else "named")
                    v = Variant("%sV%d" % (G.IDENTS[(i + mask) % len(G.IDENTS)].replace("_", ""), i), kind)
                    if kind == "tuple":
                        v.fields = [Field("u8"), Field("String")]
                    elif kind == "named":
                        v.fields = [Field("i32", "a")]
                    ms = []
                    if (i + mask) % 3 == 0:
                        ms.append(ser("s%d" % i))
                    if (i + mask) % 5 == 0:
                        ms.append(tos("T%d" % i))
                    if mask >> i & 1:
                        ms.append(DISABLED)
                    v.metas = ms
                    if fieldless and i == 2:
                        v.discr = 10
                    vs.append(v)
                metas = []
                if mask % 3 == 1:
                    metas.append(EM("sall", G.STYLES[mask % len(G.STYLES)]))
                if mask % 4 == 2:
                    # VariantNames takes the prefix verbatim, braces included (only Display reads braces as placeholders)
                    metas.append(EM("prefix", ["ns::", "{ns}", "}{", "a{{b"][(mask // 4) % 4]))
                items.append(("mask", Item("E", vs, metas=metas)))
    for _ in range(300 if thorough else 40):
        n = rng.randint(6, 12)
        fieldless = rng.random() < 0.6
        it = G.string_enum(rng, nvariants=n, allow_default=False, allow_dw=False, allow_aci=True, allow_fields=not fieldless,
                           allow_prefix=True, custom_err=False, generics=not fieldless)
        items.append(("random", it))
    # case-twin spellings on case-insensitive variants: VARIANTS still lists the LAST of the longest spellings
    from vlib.defs import aci
    for fl in (None, "bare", True, False):
        f_ = [] if fl is None else [aci(True, explicit=False)] if fl == "bare" else [aci(fl, explicit=True)]
        items.append(("case-twins", Item("E", [Variant("Enter", "unit", [], list(f_)), Variant("Tab", "unit", [], [ser("tab"), ser("TAB")] + f_),
                                               Variant("Escape", "tuple", [Field("u8")], f_ + [ser("Esc"), ser("ESC"), ser("esc")]), Variant("Off", "unit", [], [DISABLED, ser("off"), ser("OFF")] + f_),
                                               Variant("Up", "unit", [], [ser("u"), ser("UP"), ser("up")] + f_)], metas=[EM("aci")] if fl is False else [])))
    # the ENUM is named by a raw identifier (`enum r#type`): every derive names what it generates after the un-rawed name
    items.append(("raw-enum-name", Item("r#type", [Variant("Alpha", "unit"), Variant("Beta", "unit", [], [DISABLED]), Variant("Gamma", "unit", [], [ser("g")])])))
    items.append(("raw-enum-name", Item("r#match", [Variant("Alpha", "tuple", [Field("u8")]), Variant("Beta", "unit"), Variant("r#loop", "named", [Field("i32", "a")])])))
    # two variants with the SAME canonical name: every list still has one entry per variant
    for bf in G.bound_free_items():
        items.append(("bound-free-parameter", bf))
    items.append(("samename", Item("E", [Variant("HTTPServer", "unit"), Variant("HttpServer", "unit"), Variant("Other", "unit")], metas=[EM("sall", "kebab-case")])))
    items.append(("samename", Item("E", [Variant("Crimson", "unit", [], [ser("Red")]), Variant("Red", "unit"), Variant("Blue", "tuple", [Field("u8")], [tos("Red")])])))
    items.append(("samename", Item("E", [Variant("A", "unit", [], [tos("x")]), Variant("B", "unit", [], [tos("x"), DISABLED]), Variant("C", "unit", [], [tos("x")])], metas=[EM("prefix", "p")])))
    # `disabled` as a props KEY, or as the text of a literal, is not the option: the variant is declared and enabled in all four lists
    from vlib.defs import props as props_, msg as msg_
    for fieldless in (True, False):
        items.append(("option-lookalikes", Item("E", [Variant("Open", "unit"),
            Variant("Cancel", "unit" if fieldless else "tuple", [] if fieldless else [Field("u8")], [props_([("label", ("s", "Cancel")), ("disabled", ("s", "true"))])]),
            Variant("Quit", "unit", [], [ser("disabled"), msg_("disabled")]), Variant("Gone", "unit", [], [DISABLED, props_([("disabled", ("b", False))])]),
            Variant("Help", "unit", [], [props_([("default", ("i", 1)), ("transparent", ("b", True))])])])))
    # attributes of OTHER tools on a variant (#[deprecated], #[cfg(all())], #[non_exhaustive], #[doc(hidden)]) filter nothing: the variant
    # is declared and enabled, so it is counted, named, listed and iterated
    from vlib.defs import raw
    foreign = [raw("deprecated"), raw('deprecated(note = "phased out")'), raw("cfg(all())"), raw("non_exhaustive"), raw("doc(hidden)"), raw("allow(dead_code)"),
               raw("cfg_attr(all(), deprecated)")]
    for fieldless in (True, False):
        vs = []
        for i, fa in enumerate(foreign):
            kind = "unit" if fieldless or i % 2 == 0 else "tuple"
            vs.append(Variant("Http%d" % i, kind, [Field("u8")] if kind == "tuple" else [], [fa] + ([ser("h%d" % i)] if i % 3 == 0 else [])))
            if i % 3 == 1:
                vs.append(Variant("Plain%d" % i, "unit"))
        items.append(("foreign-attrs", Item("E", vs)))
    # the same options written with other delimiters or passed in as macro fragments (`disabled` as a `meta` fragment): all four derives
    # read them alike
    import copy
    for j, (fam, it) in enumerate(list(items)):
        if fam == "mask" and j % 9 == 4 and it.variants:
            tw = copy.deepcopy(it)
            if j % 2:
                tw.via_macro = True
            else:
                tw.attr_delims = [[1], [2], [0, 2, 1]][j % 3]
            items.append(("attr-forms", tw))
    # every option of the other derives around `disabled` (before / after it, one list / several), with and without payloads
    for it in G.foreign_option_items(rng, 60 if thorough else 16, allow_transparent=False, tag="O"):
        items.append(("foreign-options", it))
    for it in G.foreign_option_items(rng, 40 if thorough else 10, unit_only=True, allow_default=False, tag="U"):
        items.append(("foreign-options", it))
    G.resolve_names(ID, [it for _, it in items])
    items = [(f_, i_) for f_, i_ in items if not getattr(i_, "_lost_variants", False)]     # (only when the generator probe is unavailable)
    nth_def = [0]
    for fam, it in items:
        fieldless = all(v.kind == "unit" for v in it.variants)
        # every fifth definition uses the DEPRECATED spelling of the derive (same trait, same list)
        nth_def[0] += 1
        derives = ["EnumCount", "EnumVariantNames" if nth_def[0] % 5 == 2 else "VariantNames", "EnumIter"] + (["VariantArray"] if fieldless else [])
        k = c.add_def(it, family=fam, derives=derives)
        c.add_q(k, "count", [], note="count")
        c.add_q(k, "adapt", ["count"], note="itercount")
        c.add_q(k, "names", [], note="names")
        c.add_q(k, "iter", [], note="iter")
        # "position i refers to the same variant in each": the i-th iterated value asked for DIRECTLY, iter().nth(i) on a fresh iterator (a clone of
        # the untouched one), for every i up to COUNT (seed C08_r17)
        ne = sum(1 for v in it.variants if not v.has("disabled"))
        if ne <= 12:
            ops = []
            for i in range(ne + 1):
                ops += ["c0", "%d:t%d" % (i + 1, i)]
            c.add_q(k, "iterops", ops, note="nth-positions")
        if fieldless:
            c.add_q(k, "array", [], note="array")
    return c


def render_def(k, it, meta, cfg):
    return T.render_structs(k, it, meta, cfg)


SEEN = {}


def compare(corpus, k, kind, args, note, iobs, mobs, cfg):
    it = corpus.defs[k]
    if kind == "adapt":
        mobs = dict(p.split("=", 1) for p in mobs.split("|"))["debug"]
    if kind == "iter":
        mobs = RR.concretize(mobs, it)
    if kind == "iterops":
        mobs = dict(p.split("=", 1) for p in mobs.split("|"))["debug"] if mobs.startswith("debug=") else mobs
    ok = iobs == mobs
    detail = None
    # the property's statement on the implementation's own outputs
    SEEN.setdefault(k, {})[note] = iobs
    s = SEEN[k]
    n = len(it.variants)
    enabled = [i for i, v in enumerate(it.variants) if not v.has("disabled")]
    if note == "count" and iobs != str(len(enabled)):
        ok, detail = False, "COUNT is not the number of enabled variants"
    if note == "itercount" and iobs != "[%d]" % len(enabled):
        ok, detail = False, "iter().count() is not the number of enabled variants"
    if note == "names" and (iobs.count(";") + 1 if n else 0) != n and not (n == 0 and iobs == "[]"):
        ok, detail = False, "VariantNames does not have one entry per declared variant"
    if note == "array" and iobs != "[" + ";".join("v%d" % i for i in range(n)) + "]":
        ok, detail = False, "VariantArray is not the declared variants in order"
    if note == "iter" and len(enabled) == n:
        got = [x.split("(")[0] for x in iobs.strip("[]").split(";") if x]
        if got != ["v%d" % i for i in range(n)]:
            ok, detail = False, "iteration order differs from declaration order"
    return ok, True, detail
