"""C17 — Display renders fixed names like a str and placeholders like format!."""
import itertools
from vlib.defs import Item, Variant, Field, EM, ser, tos, aci, DISABLED
from vlib.run import Corpus
from vlib import gen as G
from vlib import strings as S
from vlib import render as RR

ID = "C17"
# look-alikes of prelude names (vlib/defs.py HOSTILE) this check's derives are immune to on the unchanged tree
HOSTILE_OK = ['Default', 'From', 'Into', 'Result', 'Option', 'Some', 'Ok', 'Iterator', 'Clone', 'AsRef', 'Send', 'PhantomData', 'IterGet', 'm_matches', 'm_assert', 'm_fmt', 'c_binders', 'no_implicit_prelude', 'ByValue']
PROP_FILE = "Props/C17.v"
RULE = ("fixed names: unit / tuple / named variants x {identifier, serialize_all, serialize, to_string} x prefix x ASCII and "
        "multi-byte names x a grid of format specs (fill {none,*,é,0} x align {none,<,>,^} x width x precision, run-time width/"
        "precision) — the derived Display must equal the model's Formatter::pad of the canonical name. placeholders: named-field "
        "variants with every subset / order of fields, tuple variants with every permutation of positional indices, nested specs "
        "({0:>4}, {x:03}), escaped braces next to placeholders, extreme payloads — the derived Display must equal a harness-written "
        "format!(<same literal>, <same fields>) (differential; the model supplies the captured names). non-trivial = distinct "
        "(definition, value, spec)")
ASSUMPTIONS = ["rendering by format_args! itself is not modelled: that half is a Rust-vs-Rust differential against format!",
               "core::fmt::Formatter::pad is modelled by fmt_pad (Model/Display.v)"]

NAMES = ["x", "Name", "héllo wörld", "日本語テキスト", "a-long-ascii-name-of-27-chars", "", "tab\tx", "é",
         "{{escaped}}", "a}}b{{c", "{{}}"]   # only ESCAPED braces: no placeholder, the name is fixed and printed verbatim


def fixed_items():
    items = []
    n = 0
    for pf in (None, "P:", "é"):
        vs = []
        for kind in ("unit", "tuple", "named"):
            for nm in NAMES:
                for how in ("tos", "ser"):
                    n += 1
                    v = Variant("V%d" % n, kind)
                    if kind == "tuple":
                        v.fields = [Field("u8"), Field("String")]
                    elif kind == "named":
                        v.fields = [Field("i32", "f"), Field("String", "s")]      # names the generated fmt / from_str use themselves
                    v.metas = [tos(nm)] if how == "tos" else [ser(nm)]
                    vs.append(v)
            vs.append(Variant("PlainIdent%s" % kind.title(), kind,
                              [Field("u8")] if kind == "tuple" else ([Field("u8", "f")] if kind == "named" else [])))
        for i in range(0, len(vs), 10):
            items.append(Item("E", vs[i:i + 10], metas=([EM("prefix", pf)] if pf is not None else []) +
                              ([EM("sall", "SCREAMING-KEBAB-CASE")] if i % 20 == 0 else [])))
    return items


def placeholder_items():
    items = []
    # named fields: all subsets / orders
    fields = [Field("u8", "f"), Field("String", "bb"), Field("i32", "c_3")]       # `f` is also the usual name of the formatter
    vs = []
    n = 0
    for r in range(1, 4):
        for combo in itertools.permutations(["f", "bb", "c_3"], r):
            n += 1
            lit = " / ".join("{%s}" % x for x in combo)
            vs.append(Variant("N%d" % n, "named", [Field(f.ty, f.name) for f in fields], [tos("n%d: %s" % (n, lit))]))
    extra = ["{f:>5}|{bb:^9}|{c_3:+}", "{{{f}}}", "{{f}} {f}", "{f}{f}{f}", "{bb:.2}", "{c_3:08}", "{f:#x} {f:#b}", "}}{{ {bb} }}{{",
             "{f }", "{bb:é^7}", "{c_3:<+6}",
             # `:` as the FILL character: the name ends at the FIRST colon
             "{f::>6}", "{bb::^9}|{c_3::<+7}"]
    for e in extra:
        n += 1
        vs.append(Variant("N%d" % n, "named", [Field(f.ty, f.name) for f in fields], [tos(e)]))
    for i in range(0, len(vs), 9):
        items.append(Item("E", vs[i:i + 9]))
    # placeholders that name NO field of the variant: format_args! captures them from the scope (a const, a static), or a field is used
    # only as a `$` width / precision parameter — the variant still renders like format!
    sv = [Variant("S1", "named", [Field("u8", "a")], [tos("frame of {LIMIT} bytes")]), Variant("S2", "named", [Field("u8", "a"), Field("String", "bb")], [tos("limit {LIMIT}{UNIT}")]),
          Variant("S3", "named", [Field("usize", "w")], [tos("[{UNIT:>w$}]")]), Variant("S4", "named", [], [tos("{LIMIT}!")]),
          Variant("S5", "named", [Field("usize", "w"), Field("usize", "p"), Field("String", "bb")], [tos("{bb:>w$.p$}|{LIMIT:03}")]),
          Variant("S6", "named", [Field("u8", "a")], [tos("{a} of {LIMIT}")]),
          # named `$` parameters next to POSITIONAL ones (`0$`, `.*`): positions count the fields the literal prints by name, in declaration order
          Variant("S7", "named", [Field("usize", "w"), Field("usize", "p"), Field("String", "bb")], [tos("{p}:{bb:>w$.0$}|")]),
          Variant("S8", "named", [Field("usize", "w"), Field("usize", "p"), Field("String", "bb")], [tos("{p}/{bb:>w$.*}|")]),
          Variant("S9", "named", [Field("usize", "p"), Field("String", "bb"), Field("usize", "w")], [tos("{bb:1$.p$}~{w}")])]
    items.append(Item("E", sv))
    # the braces of a placeholder may be WRITTEN as escapes (\x7b0\x7d is {0}): what counts is the value of the literal
    def styled(text, style):
        m_ = tos(text)
        m_.style = style
        return m_
    esc = []
    for j, sty in enumerate(("xesc", "uesc", "raw", "xesc")):
        esc.append(Variant("XN%d" % j, "named", [Field("u8", "f"), Field("String", "bb")], [styled("v%d={f} / {bb:>4}" % j, sty)]))
        esc.append(Variant("XT%d" % j, "tuple", [Field("u8"), Field("i32")], [styled("t%d={0}-{1:03}" % j, sty)]))
    items.append(Item("E", esc))
    nodata = Item("E", [Variant("U1", "unit"), Variant("T0", "tuple", [], [tos("after {LIMIT}{UNIT}")]), Variant("S0", "named", [], [tos("[{LIMIT:>5}]")]),
                        Variant("U2", "unit", [], [tos("two")])], metas=[EM("cis")])
    nodata.family = "no-data-variants"
    nodata.extra_derives = ["IntoStaticStr"]      # the inherent into_str of IntoStaticStr must not become Display's shortcut
    items.append(nodata)
    # tuple: every permutation using every positional field
    tys = ["u8", "String", "i32"]
    vs = []
    for r in range(1, 4):
        for perm in itertools.permutations(range(r)):
            n += 1
            lit = "-".join("{%d}" % p for p in perm)
            vs.append(Variant("T%d" % n, "tuple", [Field(tys[j]) for j in range(r)], [tos("t%d=%s" % (n, lit))]))
    extra_t = [("{0:>4}|{1:^7}", 2), ("{{{0}}}", 1), ("{0}{0}", 1), ("{1:.1}{0:03}", 2), ("{0:#06x}", 1), ("{{0}} {0}", 1),
               ("{2}{1}{0}{1}{2}", 3), ("{0 }", 1)]
    for lit, r in extra_t:
        n += 1
        vs.append(Variant("T%d" % n, "tuple", [Field(tys[j]) for j in range(r)], [tos(lit)]))
    # positional placeholders with TWO digits: {10} is the eleventh field, not the one after {1}
    wide = ["u8", "i32", "usize", "u16", "i64"]
    for lit, r in ((" ".join("{%d}" % q for q in range(12)), 12), ("{10}{2}{11}{1}{0}{3}{4}{5}{6}{7}{8}{9}", 12),
                   (" ".join("{%d}" % q for q in reversed(range(13))), 13), ("{11:>4}|{10:03}|" + "".join("{%d}" % q for q in range(10)), 12)):
        n += 1
        vs.append(Variant("T%d" % n, "tuple", [Field(wide[j % 5]) for j in range(r)], [tos(lit)]))
    for i in range(0, len(vs), 8):
        items.append(Item("E", vs[i:i + 8], metas=[EM("prefix", "pre{fix}")] if False else []))
    return items


def crate_configs(tier):
    return [{"name": ID.lower()}, {"name": ID.lower() + "probe", "kind": "genprobe"}]


def query_in_config(cfg, kind, args):
    return (kind == "struct") == (cfg.get("kind") == "genprobe")


probe_command = S.struct_probe_command


def build_corpus(tier, rng):
    c = Corpus(ID)
    thorough = tier == "thorough"
    specs = G.spec_grid(rng, n=(None if thorough else 60), full=thorough)
    for it in fixed_items():
        k = c.add_def(it, family="fixed", derives=["Display"])
        c.add_q(k, "struct", ["Display"], note="structure")
        vals = RR.sample_values(it)
        c.meta[k]["vals"] = vals
        for j, (i, _, tag) in enumerate(vals):
            if tag == "default":
                continue
            for sp in specs:
                c.add_q(k, "display", [j, i] + sp, note="fixed")
    for it in placeholder_items():
        k = c.add_def(it, family=getattr(it, "family", "placeholders"), derives=["Display"] + list(getattr(it, "extra_derives", [])))
        c.add_q(k, "struct", ["Display"], note="structure")
        vals = []
        for i, v in enumerate(it.variants):
            vals.append((i, [RR.SAMPLE[f.ty][0] for f in v.fields], "sample"))
            ext = {"u8": "255u8", "String": 'String::from("{br}aces \\u{e9}")', "i32": "i32::MIN", "usize": "17usize", "u16": "u16::MAX", "i64": "i64::MIN"}
            vals.append((i, [ext[f.ty] for f in v.fields], "extreme"))
            vals.append((i, ["Default::default()" for f in v.fields], "default"))
            if sum(1 for f in v.fields if f.ty == "usize") >= 2:
                # several parameters of one type: every field its own value (which field a `$` / `.*` parameter binds is observable)
                nums = iter((9, 2, 5, 3, 7, 4))
                vals.append((i, ["%dusize" % next(nums) if f.ty == "usize" else RR.SAMPLE[f.ty][0] for f in v.fields], "distinct"))
        c.meta[k]["vals"] = vals
        for j, (i, _, tag) in enumerate(vals):
            for sp in specs[:6]:
                c.add_q(k, "display", [j, i] + sp, note="placeholder")
    # the SAME variant identifiers in several enums of one crate under different styles (eight copies per style: one of each in every shard
    # crate, in both orders): a name depends on the enum's own style, not on which enum was expanded first (seed C17_r16)
    for sa, sb in ((None, "camelCase"), ("camelCase", None)):
        for sty in [sa] * 8 + [sb] * 8:
            it = Item("E", [Variant("RedApple", "unit"), Variant("GreenPear", "tuple", [Field("u8")]), Variant("Utf8Text", "named", [Field("u8", "f")])],
                      metas=[EM("sall", sty)] if sty else [])
            k = c.add_def(it, family="shared-identifiers", derives=["Display"])
            vals = RR.sample_values(it)
            c.meta[k]["vals"] = vals
            for j, (i, _, tag) in enumerate(vals):
                if tag != "default":
                    for sp in specs[:3]:
                        c.add_q(k, "display", [j, i] + sp, note="fixed")
    # (round 15) generic enums: a type parameter that needs no trait (only in PhantomData, also next to the field a placeholder names;
    # instantiated with a type that is not Display) and parameters with defaults
    for it in G.bound_free_items(with_placeholder=True) + G.defaulted_param_items():
        k = c.add_def(it, family="generic-shapes", derives=["Display"])
        c.add_q(k, "struct", ["Display"], note="structure")
        vals = [(i, ["Default::default()" for f in v.fields], "default") for i, v in enumerate(it.variants)]
        vals += [(i, [RR.SAMPLE[f.ty][0] for f in v.fields], "sample") for i, v in enumerate(it.variants) if v.fields]
        c.meta[k]["vals"] = vals
        for j, (i, _, tag) in enumerate(vals):
            if it.variants[i].has("disabled"):
                continue
            for sp in specs[:6]:
                c.add_q(k, "display", [j, i] + sp, note="generic")
    return c


def render_def(k, it, meta, cfg):
    return S.render_strings(k, it, meta, cfg)


def extra_coverage(corpus, tier):
    return S.struct_coverage()


def compare(corpus, k, kind, args, note, iobs, mobs, cfg):
    if kind == "struct":
        return S.compare_struct(corpus, k, iobs, mobs)
    ok, nt, detail = S.compare_strings(corpus, k, kind, args, note, iobs, mobs, cfg)
    fam = corpus.meta[k]["family"]
    if fam == "placeholders" and not mobs.startswith("args"):
        return False, nt, "the model does not see placeholders in this literal: " + mobs
    if fam == "fixed" and not mobs.startswith("str:"):
        return False, nt, "the model does not treat this name as fixed: " + mobs
    return ok, nt, detail
