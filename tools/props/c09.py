"""C09 — EnumDiscriminants mirrors the enum: same variants, order, repr, discriminants."""
import copy
from vlib.defs import generics_decl, Item, Variant, Field, EM, DM, VM, ser, tos, msg, doc, DISABLED
from vlib.run import Corpus
from vlib import structs as T
from vlib import strings as S
from vlib import render as RR
from vlib import gen as G
from vlib.defs import render_item

ID = "C09"
# look-alikes of prelude names (vlib/defs.py HOSTILE) this check's derives are immune to on the unchanged tree
HOSTILE_OK = ['From', 'Option', 'Some', 'Ok', 'Iterator', 'Clone', 'AsRef', 'Send', 'PhantomData', 'IterGet', 'm_matches', 'm_assert', 'm_fmt', 'c_binders', 'no_implicit_prelude', 'ByValue']
PROP_FILE = "Props/C09.v"
RULE = ("enums x kinds x type/const/lifetime generics and where-clauses x #[repr(int)] x explicit discriminants (also on "
        "data-carrying variants under a repr) x strum_discriminants(name(..), vis(..), derive(Hash, PartialOrd, Ord, EnumIter, "
        "EnumString, Display, VariantNames, EnumMessage, FromRepr), doc, pass-through strum(..) on the enum and on variants). Every "
        "sample value goes through From<E>, From<&E> and discriminant(); the result's variant (by an exhaustive match written by "
        "the harness on the GENERATED type), its `as i128` value, and E's own discriminant (an `as` cast for field-less enums, the "
        "tag read for #[repr(int)] data enums) are compared with the model; derives requested for the generated type are exercised "
        "on it and compared with the model applied to the generated item; the generated type is used from outside its module under "
        "its (overridden) name when its visibility allows. non-trivial = distinct (definition, value or observable)")
ASSUMPTIONS = ["rustc's discriminant rule is modelled by rustc_discr", "visibility is checked by use from a sibling module (positive direction only)"]

DISC_RANGE = {"u8": (0, 255), "i8": (-128, 127), "u16": (0, 65535), "i32": (-2**31, 2**31 - 1), "u64": (0, 2**64 - 1), "isize": (-2**63, 2**63 - 1), None: (-2**63, 2**63 - 1)}


def discrs(it):
    out, prev = [], None
    for v in it.variants:
        d = v.discr if v.discr is not None else (0 if prev is None else prev + 1)
        out.append(d)
        prev = d
    return out


def build_corpus(tier, rng):
    c = Corpus(ID)
    thorough = tier == "thorough"
    items = []
    names = ["Alpha", "Beta", "GammaRay", "Delta4", "Eps_ilon", "Zeta"]
    n = 0
    for rp in (None, "u8", "i8", "u16", "i32", "u64", "isize"):
        for shape in range(6 if thorough else 3):
            for dm_kind in range(6):
                n += 1
                nv = 2 + (n % 5)
                vs = []
                for i in range(nv):
                    kind = ["unit", "tuple", "named"][(i + shape) % 3] if shape % 2 else "unit"
                    v = Variant(names[i], kind)
                    if kind == "tuple":
                        v.fields = [Field("G0" if (dm_kind == 3 and i == 1) else "u8"), Field("String")]
                    elif kind == "named":
                        v.fields = [Field("i32", "a")]
                    vs.append(v)
                fieldless = all(v.kind == "unit" for v in vs)
                lo, hi = DISC_RANGE[rp]
                if fieldless or rp is not None:
                    if shape in (1, 2, 4):
                        vs[1].discr = min(hi - 10, 10 + n % 7)
                    if shape in (2, 5) and lo < 0:
                        vs[0].discr = -3
                    if shape == 4 and nv > 3:
                        vs[3].discr = 2
                        vs[3].discr_expr = "1 << 1"
                it = Item("E", vs, repr=rp)
                dms = []
                if dm_kind == 1:
                    dms = [DM("name", "Kind%d" % n), DM("derive", paths=["Hash", "PartialOrd", "Ord"])]
                elif dm_kind == 2:
                    dms = [DM("derive", paths=["strum::EnumIter", "strum::EnumString", "strum::Display", "strum::VariantNames"]),
                           DM("strum", s="strum(serialize_all = \"kebab-case\")", paths=None)]
                    vs[0].dmetas = [ser("first-one"), ser("F1")]
                elif dm_kind == 3:
                    dms = [DM("vis", "pubcrate"), DM("doc", "Generated kinds."), DM("derive", paths=["Hash"])]
                    it.tparams = 1 if any(f.ty == "G0" for v in vs for f in v.fields) else 0
                elif dm_kind == 4:
                    dms = [DM("name", "Tag"), DM("vis", "pub"), DM("derive", paths=["strum::EnumMessage", "strum::FromRepr", "strum::EnumCount"]),
                           DM("other", "allow(dead_code)")]
                    vs[-1].dmetas = [msg("last one")]
                elif dm_kind == 5:
                    dms = [DM("vis", "inherited")]
                    it.vis = "pubcrate"
                    vs[0].metas = [doc(" kept doc"), DISABLED]
                it.dmetas = dms
                ds = discrs(it)
                if len(set(ds)) != len(ds) or not all(lo <= d <= hi for d in ds):
                    continue
                if dm_kind == 4 and rp is None and any(d < 0 for d in ds):
                    continue        # FromRepr on the generated type uses usize when there is no repr
                items.append(("systematic", it))
    # SEVERAL strum(..) pass-through entries at enum level (separate or in one list): every one of them reaches the generated enum
    for order in (0, 1):
        pts = [pass_through([EM("aci")]), pass_through([EM("sall", "kebab-case")])]
        if order:
            pts.reverse()
        it = Item("E", [Variant("DarkBlack", "tuple", [Field("u8")]), Variant("DimGray", "unit"), Variant("Fuchsia", "named", [Field("i32", "a")])],
                  dmetas=[DM("derive", paths=["strum::EnumString", "strum::Display", "strum::VariantNames", "strum::EnumIter"])] + pts)
        items.append(("passthrough", it))
    # ... also when they are written BEFORE the derive(..) entry (the order of the entries means nothing)
    for j in range(3):
        pts = [pass_through([EM("sall", "kebab-case")])] if j < 2 else [pass_through([EM("prefix", "k/")]), pass_through([EM("sall", "snake_case")])]
        dms = pts + [DM("derive", paths=["strum::EnumString", "strum::Display", "strum::VariantNames", "strum::EnumIter"])]
        if j == 1:
            dms = [dms[0], DM("name", "Shade"), dms[1]]
        it = Item("E", [Variant("DarkBlack", "tuple", [Field("u8")]), Variant("DimGray", "unit"), Variant("Fuchsia", "named", [Field("i32", "a")])], dmetas=dms)
        items.append(("passthrough-first", it))
    # several hints, in one #[repr] attribute or in several: ALL of them belong to the generated enum
    for rp, form in (("u8", ["u8", "align(4)"]), ("u8", ["align(4)", "u8"]), ("i16", ["i16, align(8)"]), ("u32", ["align(2)", "u32"]), ("i8", ["i8", "align(2)"])):
        it = Item("E", [Variant("A", "tuple", [Field("u8")], discr=3), Variant("B", "unit"), Variant("C", "named", [Field("i32", "a")], discr=(-2 if rp[0] == "i" else 9)), Variant("D", "unit")],
                  repr=rp)
        it.repr_form = form
        items.append(("repr-forms", it))
    # the discriminant EXPRESSION is copied as written, whatever its spelling: bit-not, parentheses, hex / octal / binary,
    # separators, suffixes, casts, arithmetic, a literal that restates the implicit numbering
    forms = [("i8", [("!0", -1), ("1", 1), ("2", 2)]), ("i32", [("!1", -2), ("0", 0), (None, 1), ("-(1)", -1)]),
             ("i16", [("0", 0), ("1", 1), ("(2)", 2), ("0x10", 16), ("1_7", 17)]), (None, [("!!0", 0), ("1", 1), ("!(-3)", 2)]),
             ("i64", [("-5", -5), ("-4", -4), ("!2", -3), ("-2", -2), (None, -1), ("0", 0)]), ("u8", [("0o7", 7), ("0b1000", 8), ("9u8", 9), ("5 + 5", 10), ("!0", 255)]),
             ("i8", [("-0", 0), ("!0", -1), ("1", 1)]), ("u16", [("1", 1), ("1 + 1", 2), ("3", 3), ("2 as u16 * 2", 4), ("!0xfff0", 15)]),
             ("isize", [("!0", -1), ("!0 + 1", 0), ("1", 1), ("!1 + 4", 2)]), ("i32", [("{ 3 }", 3), ("4", 4), ("-(-5)", 5), ("!(-7)", 6)])]
    for j, (rp, fl) in enumerate(forms):
        for payload in (False, True):
            if payload and rp is None:
                continue
            vs = []
            for q, (ex, val) in enumerate(fl):
                v = Variant(names[q], "unit")
                if payload and q % 2 == 0:
                    v = Variant(names[q], "tuple", [Field("String")]) if q % 4 == 0 else Variant(names[q], "named", [Field("i32", "a")])
                if ex is not None:
                    v.discr, v.discr_expr = val, ex
                vs.append(v)
            it = Item("E", vs, repr=rp)
            if j % 2:
                it.dmetas = [DM("derive", paths=["strum::FromRepr", "PartialOrd"])] if rp else [DM("derive", paths=["PartialOrd"])]      # (FromRepr without a repr re-types the expressions as usize)
            assert discrs(it) == [val for _, val in fl], (fl, discrs(it))
            items.append(("discriminant-spelling", it))
    # a repr hint REQUESTED for the generated enum (strum_discriminants(repr(..))) next to the enum's own #[repr]: both take effect
    for own, req in (("i64", "align(2)"), ("u8", "align(4)"), ("C", "align(8)"), ("i16", "align(1)"), (None, "u16"), (None, "align(4)"), ("u32", "align(2)"), (None, "C")):
        for payload in (False, True):
            if payload and own is None:
                continue
            vs = [Variant("A", "tuple", [Field("u8")]) if payload else Variant("A", "unit"), Variant("B", "unit"), Variant("C", "named", [Field("i32", "a")]) if payload else Variant("C", "unit"),
                  Variant("D", "unit")]
            if own not in (None, "C"):
                vs[1].discr = 7
            for before in (False, True):
                dms = [DM("other", "repr(%s)" % req), DM("derive", paths=["Hash"])]
                it = Item("E", vs if not before else copy.deepcopy(vs), repr=own, dmetas=dms if before else dms[::-1])
                items.append(("repr-requested", it))
    # ANY attribute may be passed through to a generated VARIANT: a bare word (`default`, with Default derived), `name = value`, a list
    from vlib.defs import raw as raw_
    for j in range(2):
        vs = [Variant("Idle", "unit", dmetas=[raw_("default")]), Variant("Busy", "tuple", [Field("u8")], dmetas=[raw_('doc = "the busy one"')]),
              Variant("Done", "named", [Field("i32", "a")], dmetas=[raw_("allow(dead_code)"), raw_('cfg_attr(all(), doc = "x")')]), Variant("Off", "unit", [], [DISABLED], dmetas=[raw_('doc = "off"')])]
        it = Item("E", vs if j == 0 else vs[::-1], dmetas=[DM("derive", paths=["Default", "Hash"])] + ([DM("name", "Phase")] if j else []))
        items.append(("variant-passthrough", it))
    # the ENUM is named by a raw identifier: the generated enum is named after the un-rawed name (F15)
    items.append(("raw-enum-name", Item("r#type", [Variant("A", "tuple", [Field("u8")]), Variant("B", "unit"), Variant("Cc", "named", [Field("i32", "a")])])))
    items.append(("raw-enum-name", Item("r#match", [Variant("A", "unit"), Variant("B", "unit", discr=4)], repr="u8", dmetas=[DM("derive", paths=["strum::EnumIter", "Hash"])])))
    # non-integer repr hints are copied too: #[repr(C)] (layout observable through size_of / align_of)
    for nv in (1, 3, 5):
        items.append(("repr-c", Item("E", [Variant(names[i], "unit") for i in range(nv)], repr="C")))
    items.append(("repr-c", Item("E", [Variant("A", "tuple", [Field("u8")]), Variant("B", "unit"), Variant("C", "named", [Field("i32", "a")])], repr="C")))
    items.append(("repr-c", Item("E", [Variant("A", "unit"), Variant("B", "unit", discr=7)], repr="C", dmetas=[DM("name", "Tag")])))
    # #[repr(C)] next to align(N), in one attribute or in two, either order (no integer hint): BOTH are copied — with N = 1 or 2 the layout
    # (size and alignment of C's int) shows whether C survived (seed C09_r15)
    for j, form in enumerate((["C, align(1)"], ["C", "align(2)"], ["align(2), C"], ["align(1)", "C"], ["C, align(8)"], ["C", "align(16)"])):
        ca = Item("E", [Variant("A", "unit"), Variant("B", "tuple", [Field("u8")]), Variant("Cc", "unit")] if j % 2 else [Variant("A", "unit"), Variant("B", "unit")], repr="C")
        ca.repr_form = form
        items.append(("repr-c-align", ca))
    # 128-bit integer reprs (no FromRepr for them, but `same #[repr]` holds: layout 16 bytes), alone, with align, with explicit discriminants
    for rp in ("u128", "i128"):
        items.append(("repr-128", Item("E", [Variant("A", "unit"), Variant("B", "unit"), Variant("C", "unit")], repr=rp)))
        items.append(("repr-128", Item("E", [Variant("A", "tuple", [Field("u8")], discr=3), Variant("B", "unit"), Variant("C", "named", [Field("i32", "a")], discr=40)], repr=rp)))
        it = Item("E", [Variant("A", "unit", discr=1), Variant("B", "unit")], repr=rp, dmetas=[DM("name", "Wide")])
        it.repr_form = ["align(4)", rp]
        items.append(("repr-128", it))
    # the user's enum has INHERENT methods named discriminant / from / into_discriminant of its own
    for j in range(2):
        nk = Item("E", [Variant("A", "tuple", [Field("G0")]), Variant("B", "unit"), Variant("Cc", "named", [Field("i32", "a")])] if j else [Variant("A", "unit"), Variant("B", "unit", discr=5)],
                  repr="u8" if not j else None, tparams=j)
        nk.namesakes = True
        items.append(("inherent-namesakes", nk))
    items.append(("lifetime", Item("E", [Variant("B", "tuple", [Field("&'l0 str")]), Variant("O", "named", [Field("G0", "x")]), Variant("N", "unit")],
                                   lifetimes=1, tparams=1, where_clause=True)))
    for fam, it in items:
        k = c.add_def(it, family=fam, derives=["EnumDiscriminants"])
        c.add_q(k, "disc", ["item"], note="item")
        vals = RR.sample_values(it)
        for v in vals:
            for q, e in enumerate(v[1]):
                if e == RR.DEFAULT_EXPR and it.variants[v[0]].fields[q].ty == "&'l0 str":
                    v[1][q] = '""'
        c.meta[k]["vals"] = vals
        for j, (i, _, tag) in enumerate(vals):
            c.add_q(k, "disc", [j, i], note=tag)
        want = [p for m in it.dmetas if m.kind == "derive" for p in m.paths]
        if "strum::EnumIter" in want:
            c.add_q(k, "ondisc", ["iter"], note="derive")
        if "strum::VariantNames" in want:
            c.add_q(k, "ondisc", ["names"], note="derive")
        if "strum::EnumString" in want:
            for s in ["first-one", "F1", "alpha", "Alpha", "beta", "gamma-ray", "GammaRay", "delta4", "", "eps-ilon"]:
                c.add_q(k, "ondisc", ["fromstr", S.hx(s)], note="derive")
        if "strum::Display" in want:
            for i in range(len(it.variants)):
                c.add_q(k, "ondisc", ["display", i, i], note="derive")
        if "strum::EnumMessage" in want:
            for i in range(len(it.variants)):
                c.add_q(k, "ondisc", ["msg", i, i], note="derive")
        if "strum::FromRepr" in want:
            for d in sorted(set(discrs(it) + [0, 1, 5])):
                lo, hi = DISC_RANGE[it.repr]
                if max(lo, 0) <= d <= hi or (it.repr and lo <= d <= hi):
                    c.add_q(k, "ondisc", ["repr", "val", d], note="derive")
        if "strum::EnumCount" in want:
            c.add_q(k, "ondisc", ["count"], note="derive")
    return c


def dm_rust(m):
    if m.kind == "strum":
        return m.s
    return m.rust()


def dm_sexp(m):
    if m.kind == "strum":
        ems = getattr(m, "ems", None)
        if ems is not None:
            return "(strum %s)" % " ".join(e.sexp() for e in ems)
        return "(strum (sall %s))" % S.hx("kebab-case")
    return m.sexp()


def pass_through(ems):
    """#[strum_discriminants(strum(<enum-level items>))]"""
    m = DM("strum", s="strum(%s)" % ", ".join(e.rust() for e in ems), paths=None)
    m.ems = list(ems)
    return m


DM.rust_orig = DM.rust
DM.sexp_orig = DM.sexp
DM.rust = lambda self: self.s if self.kind == "strum" else DM.rust_orig(self)
DM.sexp = lambda self: dm_sexp(self) if self.kind == "strum" else DM.sexp_orig(self)


def render_def(k, it, meta, cfg):
    dname = next((m.s for m in it.dmetas if m.kind == "name"), it.ident + "Discriminants")
    dvis = next((m.s for m in it.dmetas if m.kind == "vis"), None)
    want = [p for m in it.dmetas if m.kind == "derive" for p in m.paths]
    bounds = "Default + Clone + PartialEq + core::fmt::Debug" if it.tparams else ""
    ty = RR.inst(it)
    inner = [render_item(it, ["strum::EnumDiscriminants", "Debug", "Clone", "PartialEq"], bounds=bounds)]
    # an exhaustive match on the GENERATED type: one field-less variant per declared variant, same names
    inner.append("pub fn didx(d: %s) -> usize { match d { %s } }" % (
        dname, " ".join("%s::%s => %d," % (dname, v.ident, i) for i, v in enumerate(it.variants)) or "_ => unreachable!(),"))
    inner.append("pub fn dval(d: %s) -> i128 { d as i128 }" % dname)
    if it.variants:
        refvs = ", ".join("%s%s" % (v.ident, (" = %s" % (v.discr_expr or v.discr)) if v.discr is not None else "") for v in it.variants)
        hints = ", ".join(it.repr_form) if it.repr_form else it.repr
        # hints requested for the generated enum through strum_discriminants(repr(..)) ADD to the copied ones
        extra = [m.s[len("repr("):-1] for m in it.dmetas if m.kind == "other" and m.s.startswith("repr(")]
        if extra:
            hints = ", ".join(([hints] if hints else []) + extra)
        inner.append("%s#[derive(Clone, Copy)] pub enum HarnessRef { %s }" % (("#[repr(%s)] " % hints) if hints else "", refvs))
        inner.append("pub fn layout() -> String { format!(\"{}/{},{}/{}\", std::mem::size_of::<%s>(), std::mem::size_of::<HarnessRef>(), std::mem::align_of::<%s>(), std::mem::align_of::<HarnessRef>()) }" % (dname, dname))
    else:
        inner.append("pub fn layout() -> String { \"0/0,1/1\".to_string() }")
    if getattr(it, "namesakes", False):
        # USER-WRITTEN inherent methods on the enum named like what the derive implements / could generate (seed C09_r16): they coexist with the impls
        g_decl, g_where, g_use = generics_decl(it, bounds)
        inner.append("impl%s %s%s%s { pub fn discriminant(&self) -> u8 { 200 } pub fn from(_x: u8) -> u8 { 201 } pub fn into_discriminant(&self) -> u8 { 202 } }" % (
            g_decl, it.ident, g_use, g_where))
    inner.append("pub fn dall() -> Vec<%s> { vec![%s] }" % (dname, ", ".join("%s::%s" % (dname, v.ident) for v in it.variants)))
    inner.append(RR.vals_fn(it, meta["vals"]))
    fieldless = all(v.kind == "unit" for v in it.variants) and it.variants
    if fieldless and not it.tparams and not it.lifetimes:
        inner.append("pub fn eval(e: &%s) -> String { (e.clone() as i128).to_string() }" % ty)
    elif it.repr in ("u8", "u16", "u32", "u64", "usize", "i8", "i16", "i32", "i64", "isize") and it.variants:
        inner.append("pub fn eval(e: &%s) -> String { (unsafe { *(e as *const %s as *const %s) } as i128).to_string() }" % (ty, ty, it.repr))
    else:
        inner.append('pub fn eval(e: &%s) -> String { "-".to_string() }' % ty)
    intodisc = dvis in (None, "pub")
    conv = ['let e = val(j);', 'let a = didx(%s::from(&e));' % dname]
    if intodisc:
        conv.append('let b = didx(strum::IntoDiscriminant::discriminant(&e));')      # (a path call: the user's enum may have an inherent `discriminant` of its own)
        # .. and through a TRAIT OBJECT (IntoDiscriminant is dyn compatible on the unchanged tree: `&dyn IntoDiscriminant<Discriminant = D>`), seed C09_r17
        conv.append('let b = { let dy: &dyn strum::IntoDiscriminant<Discriminant = %s> = &e; let b2 = didx(dy.discriminant()); if b2 == b { b } else { usize::MAX } };' % dname)
    else:
        conv.append('let b = a;')
    conv.append('let ev = eval(&e);')
    conv.append('let dv = dval(%s::from(&e));' % dname)
    conv.append('let c = didx(%s::from(e));' % dname)
    conv.append('format!("ref=v{}|disc=v{}|val=v{}|as={}|tag={}", a, b, c, dv, ev)')
    inner.append("pub fn conv(j: usize) -> String { %s }" % " ".join(conv))
    item_obs = ['format!("name=%s|dvals=[{}]|layout={}", dall().iter().map(|d| dval(*d).to_string()).collect::<Vec<_>>().join(";"), layout())' % dname]
    inner.append("pub fn itemobs() -> String { %s }" % item_obs[0])
    ond = {}
    if "strum::EnumIter" in want:
        ond["iter"] = '{ use strum::IntoEnumIterator; let v: Vec<String> = %s::iter().map(|d| format!("v{}()", didx(d))).collect(); format!("[{}]", v.join(";")) }' % dname
    if "strum::VariantNames" in want:
        ond["names"] = '{ let v: Vec<String> = <%s as strum::VariantNames>::VARIANTS.iter().map(|s| super::xs(s)).collect(); format!("[{}]", v.join(";")) }' % dname
    if "strum::EnumString" in want:
        ond["fromstr"] = ('{ let s = super::unhex_str(args[1]); let a = match <%s as std::str::FromStr>::from_str(&s) { Ok(d) => format!("v{}()", didx(d)), Err(_) => "err:notfound".to_string() };'
                          ' format!("fs={}|tf={}|errty=strum", a, a) }') % dname
    if "strum::Display" in want:
        ond["display"] = '{ let i: usize = args[2].parse().unwrap(); format!("str:{}", super::xs(&format!("{}", dall()[i]))) }'
    if "strum::EnumMessage" in want:
        ond["msg"] = ('{ use strum::EnumMessage; let i: usize = args[2].parse().unwrap(); let v = dall()[i];'
                      ' let o = |x: Option<&\'static str>| match x { Some(s) => format!("some:{}", super::xs(s)), None => "none".to_string() };'
                      ' let ser: Vec<String> = v.get_serializations().iter().map(|s| super::xs(s)).collect();'
                      ' format!("m={}|d={}|doc={}|ser=[{}]", o(v.get_message()), o(v.get_detailed_message()), o(v.get_documentation()), ser.join(";")) }')
    if "strum::FromRepr" in want:
        ond["repr"] = '{ match %s::from_repr(args[2].parse().unwrap()) { Some(d) => format!("v{}()", didx(d)), None => "none".to_string() } }' % dname
    if "strum::EnumCount" in want:
        ond["count"] = '{ format!("{}", <%s as strum::EnumCount>::COUNT) }' % dname
    if "Hash" in want:
        inner.append("pub fn hash_check() { use std::collections::HashSet; let mut h = HashSet::new(); for d in dall() { h.insert(d); } }")
    if "Ord" in want:
        inner.append("pub fn ord_check() -> bool { let v = dall(); v.windows(2).all(|w| w[0] < w[1]) }")
    ondarms = " ".join('"%s" => %s,' % (kk, body) for kk, body in ond.items())
    inner.append('pub fn ondisc(args: &[&str]) -> String { match args[0] { %s _ => "HARNESS-NO-SUCH-DERIVE".to_string() } }' % ondarms)
    src = ["pub mod inner {", "#![allow(dead_code, unused_imports, unused_variables, non_camel_case_types, non_snake_case)]",
           "use super::*;", "\n".join(inner), "}"]
    # use from outside the module under the (overridden) name, when visible
    if dvis in ("pub", "pubcrate", "pubsuper") or (dvis is None and it.vis in ("pub", "pubcrate", "pubsuper")):
        src.append("pub fn outside() -> usize { let v: Vec<inner::%s> = inner::dall(); v.len() }" % dname)
    src.append(RR.query_fn({
        "disc": 'if args[0] == "item" { inner::itemobs() } else { let j: usize = args[0].parse().unwrap(); inner::conv(j) }',
        "ondisc": "inner::ondisc(args)",
    }))
    return "\n".join(src)


def compare(corpus, k, kind, args, note, iobs, mobs, cfg):
    it = corpus.defs[k]
    if mobs.startswith("generr"):
        return False, True, "model rejects: " + mobs
    if kind == "disc" and args[0] == "item":
        mp = dict(p.split("=", 1) for p in mobs.split("|"))
        ip = dict(p.split("=", 1) for p in iobs.split("|"))
        ok = ip["name"] == mp["name"] and ip["dvals"] == mp["discr"]
        ok = ok and mp["variants"] == ",".join(v.ident for v in it.variants)
        INT = ("u8", "u16", "u32", "u64", "usize", "i8", "i16", "i32", "i64", "isize")
        ok = ok and mp["repr"] == ((it.repr if it.repr in INT else "other") if it.repr else "none")
        # same #[repr]: the generated enum is laid out like a hand-written field-less enum with that repr
        (sa, sb), (aa, ab) = [x.split("/") for x in ip["layout"].split(",")]
        ok = ok and sa == sb and aa == ab
        return ok, True, "generated item: impl %s / model %s" % (iobs, mobs)
    if kind == "disc":
        i = int(args[1])
        ip = dict(p.split("=", 1) for p in iobs.split("|"))
        ok = ip["ref"] == mobs and ip["disc"] == mobs and ip["val"] == mobs and mobs == "v%d" % i
        # integer value of the discriminant variant = E's own discriminant
        if ip["tag"] != "-":
            ok = ok and ip["as"] == ip["tag"]
        return ok, True, None
    if kind == "ondisc":
        if args[0] == "display":
            return iobs == mobs, True, None
        if args[0] == "fromstr":
            return iobs == mobs, True, None
        return iobs == mobs, True, None
    return iobs == mobs, True, None
