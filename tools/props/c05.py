"""C05 — the derived iterator obeys the double-ended, exact-size, fused iterator contract."""
import itertools
from vlib.defs import Item, Variant, Field, DISABLED
from vlib.run import Corpus
from vlib import structs as T
from vlib import gen as G
from vlib import strings as S

ID = "C05"
# look-alikes of prelude names (vlib/defs.py HOSTILE) this check's derives are immune to on the unchanged tree
HOSTILE_OK = ['Default', 'From', 'Into', 'Result', 'Option', 'Ok', 'AsRef', 'Send', 'PhantomData', 'IterGet', 'm_matches', 'm_assert', 'm_fmt', 'c_binders', 'ByValue']
PROP_FILE = "Props/C05.v"
RULE = ("enums with N = 0..8 enabled variants (field-less, with payloads, generic, with interleaved disabled variants) and LARGE enums with "
        "255 / 256 / 257 enabled variants driven to exhaustion from either end, each built "
        "in a dev AND a release crate. Histories: (a) state cover: every (front, back) cursor pair reachable in the model "
        "(including the frozen ones) is reached by a shortest prefix, then every operation of the alphabet {next, next_back, "
        "nth k, nth_back k, len, size_hint, clone-then-diverge, and count / last / collect / fold / rev().collect / rfold on a clone}, k in {0..N+1, usize::MAX-1, usize::MAX}, then a probe suffix "
        "(len, drain from both ends, len); (b) all sequences up to length 3 (quick) / 4 (thorough) over a 10-letter alphabet; (c) "
        "seeded random sequences of length <= 40 with clone forks; (d) skip / step_by / rev / skip+rev / cycle+take / count / last. "
        "Every call runs under catch_unwind; every returned item, len, size_hint and panic is compared. Send + Sync is a "
        "compile-time assertion on EIter<Rc<()>> (compile check, not proof). non-trivial = distinct (definition, history, profile)")
ASSUMPTIONS = ["usize is 64 bits", "std's default nth_back / skip / step_by / cycle / rev are modelled as call sequences on the iterator",
               "Send + Sync is decided by rustc on an assertion in the corpus crate, not by a theorem"]
MAXU = 2 ** 64 - 1


def crate_configs(tier):
    return [{"name": "c05d", "release": False}, {"name": "c05r", "release": True}, {"name": "c05probe", "kind": "genprobe"}]


def query_in_config(cfg, kind, args):
    return (kind == "struct") == (cfg.get("kind") == "genprobe")


probe_command = S.struct_probe_command


def mk(n_enabled, disabled_mask=0, payload=False, generic=False):
    vs = []
    total = n_enabled + bin(disabled_mask).count("1")
    e = 0
    pos = 0
    i = 0
    while e < n_enabled or pos < total:
        dis = (disabled_mask >> pos) & 1 and (total - pos) > (n_enabled - e)
        if not dis and e >= n_enabled:
            dis = True
        name = "V%d" % pos
        if payload and pos % 2 == 0:
            v = Variant(name, "tuple", [Field("G0" if generic and pos == 0 else "u8"), Field("String")])
        elif payload and pos % 3 == 0:
            v = Variant(name, "named", [Field("bool", "flag")])
        else:
            v = Variant(name, "unit")
        if dis:
            v.metas = [DISABLED]
        else:
            e += 1
        vs.append(v)
        pos += 1
        if pos > 20:
            break
    it = Item("E", vs)
    if generic and any(f.ty == "G0" for v in vs for f in v.fields):
        it.tparams = 1
    return it


def probe():
    return ["0:l", "0:h", "0:n", "0:b", "0:l", "0:n", "0:n", "0:b", "0:b", "0:l", "0:h"]


def build_corpus(tier, rng):
    c = Corpus(ID)
    thorough = tier == "thorough"
    defs = []
    for n in range(0, 9):
        defs.append((n, mk(n), "plain"))
    for n in (1, 2, 3, 5):
        defs.append((n, mk(n, disabled_mask=0b10101), "disabled"))
        defs.append((n, mk(n, payload=True), "payload"))
    defs.append((3, mk(3, payload=True, generic=True), "generic"))
    defs.append((4, mk(4, disabled_mask=0b11, payload=True, generic=True), "generic"))
    # LARGE enums: cursor widths (a cursor must be able to hold COUNT itself): 255 / 256 / 257 (65536 variants cost rustc more than ten minutes and several GB per crate: not run)
    for n in (255, 256, 257):
        it = Item("E", [Variant("V%d" % i, "unit") for i in range(n)])
        if n == 257:
            it.variants.insert(100, Variant("Off", "tuple", [Field("u8")], [DISABLED]))
        k = c.add_def(it, family="large", derives=["EnumIter"], n=n)
        c.add_q(k, "struct", ["EnumIter"], note="structure")
        drive = [["0:t%d" % (n - 1), "0:n"], ["0:t%d" % n], ["0:u%d" % (n - 1), "0:b"], ["0:u%d" % n], ["0:t%d" % MAXU], ["0:u%d" % MAXU],
                 ["0:t%d" % (n - 2), "0:b", "0:n"], ["0:n", "0:n", "0:u%d" % (n - 4), "0:b", "0:b"], ["0:t%d" % (n // 2), "0:u%d" % (n - n // 2 - 2), "0:n"],
                 ["0:t127", "0:t127", "0:n"], ["0:t%d" % (n - 3), "c0", "1:n", "1:n", "1:n", "0:b", "0:b", "0:b"]]
        for d in drive:
            for tail in (probe(), ["0:l", "0:n", "0:l", "0:b", "0:l", "0:t0", "0:u0", "0:h"], ["c0", "1:l", "1:n", "1:b", "0:l", "1:l"],
                         ["0:K", "0:Z", "0:l", "0:D", "0:E", "0:n"]):
                c.add_q(k, "iterops", d + tail, note="large")
        bigks = sorted({0, 1, 127, 128, 254, 255, 256, 257, n - 1, n, n + 1, MAXU})
        for _ in range(200 if thorough else 40):
            seq = ["0:%s%d" % (rng.choice("tu"), rng.choice(bigks)) if rng.random() < 0.6 else "0:" + rng.choice(["n", "b", "l", "h"])
                   for _ in range(rng.randint(2, 10))]
            c.add_q(k, "iterops", seq + probe(), note="large")
        for a in ["count", "last", "skip:%d" % (n - 1), "skip:%d" % n, "skiprev:%d" % (n - 1), "stepby:%d" % (n - 1), "stepby:%d" % n, "take:2"]:
            c.add_q(k, "adapt", [a], note="adapter")
    # the iterator holds two cursors and no value of the enum: it is Send + Sync even when the ENUM is not (Rc / Cell payloads, also in a
    # disabled variant); structured payload types ride along
    defs.append((3, Item("E", [Variant("A", "tuple", [Field("std::rc::Rc<u8>")]), Variant("B", "unit"), Variant("C", "named", [Field("std::cell::Cell<u8>", "f")])]), "not-send"))
    defs.append((2, Item("E", [Variant("A", "unit"), Variant("Off", "tuple", [Field("std::rc::Rc<u8>")], [DISABLED]), Variant("B", "tuple", [Field("()"), Field("[u8; 3]"), Field("(u8, bool)")])]), "not-send"))
    defs.append((2, Item("E", [Variant("A", "tuple", [Field("std::cell::Cell<u8>")]), Variant("B", "unit")], cparams=1), "not-send"))
    # `disabled` written with other attribute delimiters, or handed in as a macro fragment, is still `disabled`
    for form in ("braces", "brackets", "macro"):
        it = mk(3, disabled_mask=0b1010, payload=True)
        if form == "macro":
            it.via_macro = True
        else:
            it.attr_delims = [1] if form == "braces" else [2]
        defs.append((3, it, "attr-forms"))
    # the options of OTHER derives around `disabled` (valued ascii_case_insensitive, default_with, default, props ..., before / after it,
    # one list / several): the iterator still walks exactly the enabled variants
    fo = [it for it in G.foreign_option_items(rng, 120 if thorough else 60, tag="R") if any(v.has("disabled") for v in it.variants)]
    fo = [it for it in fo if sum(1 for v in it.variants if not v.has("disabled")) <= 4][: (24 if thorough else 8)]
    for it in fo:
        defs.append((sum(1 for v in it.variants if not v.has("disabled")), it, "foreign-options"))
    for n, it, fam in defs:
        k = c.add_def(it, family=fam, derives=["EnumIter"], n=n)
        c.add_q(k, "struct", ["EnumIter"], note="structure")
        ks = sorted(set(list(range(0, n + 2)) + [MAXU - 1, MAXU, 2 ** 63, 2 ** 32]))
        # K Z G D R E: count / last / collect / fold / rev-collect / rfold on a CLONE of the slot (methods a generator could override)
        alphabet = ["n", "b", "l", "h", "K", "Z", "G", "D", "R", "E"] + ["t%d" % x for x in ks] + ["u%d" % x for x in ks]
        # (a) state cover
        for i in range(0, n + 2):
            for b in range(0, n + 2):
                prefix = (["0:t%d" % (i - 1)] if i > 0 else []) + ["0:b"] * b
                for op in alphabet:
                    c.add_q(k, "iterops", prefix + ["0:" + op] + probe(), note="cover")
                # clone then diverge: the clone and the original advance independently
                c.add_q(k, "iterops", prefix + ["c0", "1:n", "0:b", "1:l", "0:l", "1:t1", "0:n", "c1", "2:b", "1:n", "0:l", "1:l", "2:l"], note="clone")
                # clone_from: the target takes over BOTH cursors of the source (whatever its own history was)
                c.add_q(k, "iterops", prefix + ["c0", "1:b", "1:n", "F0>1", "1:l", "1:b", "1:n", "0:l", "1:l", "0:b", "F1>0", "0:l", "0:n", "0:b"], note="clone_from")
        # (b) all short sequences
        short = ["n", "b", "t0", "t1", "t2", "t%d" % MAXU, "u0", "u1", "u%d" % MAXU, "l"]
        L = 4 if thorough else 3
        if n <= (5 if thorough else 3):
            for ln in range(1, L + 1):
                for seq in itertools.product(short, repeat=ln):
                    c.add_q(k, "iterops", ["0:" + s for s in seq] + ["0:l", "0:n", "0:b", "0:l"], note="short")
        # (c) random with clones
        for _ in range(600 if thorough else 40):
            live = [0]          # slots the history may use; the clone a K/Z/G/D/R/E op consumes takes a slot number too, but is never used again
            total = 1
            seq = []
            for _ in range(rng.randint(1, 40)):
                r = rng.random()
                if r < 0.1 and len(live) < 4:
                    seq.append("c%d" % rng.choice(live))
                    live.append(total)
                    total += 1
                else:
                    op = rng.choice(alphabet) if rng.random() < 0.5 else rng.choice(["n", "b", "l", "t0", "t1", "u0", "u1"])
                    seq.append("%d:%s" % (rng.choice(live), op))
                    if op[0] in "KZGDRE":
                        total += 1
            c.add_q(k, "iterops", seq, note="random")
        # (d) adapters
        for x in sorted(set(list(range(0, n + 3)) + [MAXU, MAXU - 1])):
            c.add_q(k, "adapt", ["skip:%d" % x], note="adapter")
            c.add_q(k, "adapt", ["skiprev:%d" % x], note="adapter")
            if x >= 1:
                c.add_q(k, "adapt", ["stepby:%d" % x], note="adapter")
            if x <= n + 2:
                c.add_q(k, "adapt", ["take:%d" % x], note="adapter")
                c.add_q(k, "adapt", ["cycle:%d" % (3 * x + 1)], note="adapter")
        for a in ("rev", "count", "last"):
            c.add_q(k, "adapt", [a], note="adapter")
    return c


def render_def(k, it, meta, cfg):
    return T.render_structs(k, it, meta, cfg)


def compare(corpus, k, kind, args, note, iobs, mobs, cfg):
    if kind == "struct":
        return S.compare_struct(corpus, k, iobs, mobs)
    parts = dict(p.split("=", 1) for p in mobs.split("|"))
    want = parts["release" if cfg.get("release") else "debug"]
    return iobs == want, True, "expected %s" % want


def extra_coverage(corpus, tier):
    notes = {}
    for q in corpus.queries:
        notes[q[4]] = notes.get(q[4], 0) + 1
    n = {corpus.meta[k]["n"] for k in corpus.defs}
    d0 = S.struct_coverage()
    return {"structural_tie": d0["structural_tie"], "history_kinds": notes, "enabled_variant_counts": sorted(n),
            "states": sum((m["n"] + 2) ** 2 for m in corpus.meta.values()),
            "send_sync": "assert_send_sync::<EIter<Rc<()>>>() compiled in every definition (compile check, not proof)"}
