"""C15 — EnumProperty returns the declared value for (variant, key, type), else None."""
from vlib.defs import aci, EM, Item, Variant, Field, EM, props, DISABLED, ser
from vlib.run import Corpus
from vlib import structs as T
from vlib import strings as S
from vlib import gen as G

ID = "C15"
# look-alikes of prelude names (vlib/defs.py HOSTILE) this check's derives are immune to on the unchanged tree
HOSTILE_OK = ['Default', 'From', 'Into', 'Result', 'Option', 'Some', 'Ok', 'Iterator', 'Clone', 'AsRef', 'Send', 'PhantomData', 'IterGet', 'm_matches', 'm_assert', 'm_fmt', 'c_binders', 'no_implicit_prelude', 'ByValue']
PROP_FILE = "Props/C15.v"
RULE = ("enums with 1-8 variants x kinds; 0-6 properties per variant spread over 1-3 props(..) groups in one or several #[strum] "
        "attributes; keys shared across variants and across the three types, keyword-like keys (type, fn, match, r#raw), keys that "
        "differ only in case or by a prefix; negative and extreme i64 values; repeated keys (first wins); disabled variants. Every "
        "value is queried with EVERY key declared anywhere in the enum plus case / prefix variations and random strings, through "
        "all three getters. non-trivial = distinct (definition, value, key)")
ASSUMPTIONS = ["property values are string, integer (unsuffixed, within i64) and boolean literals"]

KEYS = ["color", "Color", "col", "colors", "type", "fn", "match", "r#raw", "weight", "k2", "_under", "a",
        # keys of 63 / 64 / 69 / 128 bytes (length-indexed shortcuts), and keys spelled like strum's own options
        "k" * 63, "key_" + "x" * 60, "long_key_" + "y" * 60, "z" * 128, "disabled", "default", "serialize", "props", "message"]
INTS = [0, 1, -1, 42, -9223372036854775808, 9223372036854775807, 255, -255]
STRS = ["red", "", "with \"quotes\"", "é ü", "{braces}", "line\nbreak", "true", "42"]


def rand_props(rng, nmax=6):
    kv = []
    for _ in range(rng.randint(0, nmax)):
        k = rng.choice(KEYS)
        t = rng.choice("sib")
        if t == "s":
            kv.append((k, ("s", rng.choice(STRS))))
        elif t == "i":
            kv.append((k, ("i", rng.choice(INTS))))
        else:
            kv.append((k, ("b", rng.random() < 0.5)))
    return kv


def build_corpus(tier, rng):
    c = Corpus(ID)
    thorough = tier == "thorough"
    items = []
    # regression: same key under all three types; groups merged; key of another variant; disabled
    items.append(("regression", Item("E", [
        Variant("A", "unit", [], [props([("color", ("s", "red")), ("color", ("i", 7))]), props([("color", ("b", True))]), props([("w", ("i", -5))])], groups=[1, 1]),
        Variant("B", "tuple", [Field("u8")], [props([("weight", ("i", 9223372036854775807)), ("type", ("s", "kw"))])]),
        Variant("C", "unit", [], [DISABLED, props([("color", ("s", "never"))])]),
        Variant("D", "named", [Field("String", "s")], []),
        Variant("F", "unit", [], [props([("k", ("s", "first")), ("k", ("s", "second"))])]),
    ])))
    # NEIGHBOURING variants whose tables look alike: the same keys in the same order with values that PRINT the same but differ in type
    # ("1" / 1, "true" / true, "16" / 0x10), identical tables, the same table in another order, another key — each variant answers from ITS table
    tw = [[("rank", ("s", "1"))], [("rank", ("i", 1))], [("rank", ("i", 1))], [("rank", ("s", "1"))],
          [("flag", ("b", True)), ("a", ("s", "16"))], [("flag", ("s", "true")), ("a", ("i", 16, "0x10"))], [("a", ("i", 16)), ("flag", ("b", True))],
          [("flag", ("b", True)), ("a", ("i", 16))], [("flag", ("b", True)), ("b", ("i", 16))], [("flag", ("b", False)), ("a", ("i", 16))],
          [("n", ("s", "0"))], [("n", ("b", False))], [("n", ("i", 0))], [("n", ("s", "false"))], [("n", ("s", ""))], []]
    for rot in range(3):
        vs = []
        for i, kv in enumerate(tw[rot * 5:] + tw[:rot * 5]):
            kind = ["unit", "tuple", "named"][(i + rot) % 3]
            v = Variant("T%d" % i, kind, [Field("u8")] if kind == "tuple" else ([Field("i32", "x")] if kind == "named" else []), [props(list(kv))] if kv else [])
            vs.append(v)
            if i % 5 == 3 and rot:
                vs.append(Variant("Off%d" % i, "unit", [], [DISABLED, props(list(kv))] if kv else [DISABLED]))    # only a disabled variant in between
        items.append(("neighbour-tables", Item("E", vs)))
    # the enum comes out of a macro_rules! expansion, its NAME and the variant names handed in as `ident` fragments, the values as `expr` / `literal`
    for mode in (True, "idents"):
        mm = Item("E", [Variant("Left", "unit", [], [props([("side", ("s", "l")), ("n", ("i", 1))])]), Variant("Spare", "tuple", [Field("u8")], [DISABLED, props([("side", ("s", "x"))])]),
                        Variant("Right", "named", [Field("i32", "x")], [props([("side", ("s", "r")), ("ok", ("b", True))])]), Variant("Bare", "unit")])
        mm.via_macro = mode
        items.append(("via-macro", mm))
    for _ in range(500 if thorough else 70):
        n = rng.randint(1, 8)
        vs = []
        for i in range(n):
            kind = rng.choice(["unit", "tuple", "named"])
            v = Variant("V%d" % i, kind)
            if kind == "tuple":
                v.fields = [Field("u8"), Field("String")]
            elif kind == "named":
                v.fields = [Field("i32", "x")]
            groups = [props(rand_props(rng, 3)) for _ in range(rng.randint(0, 3))]
            groups = [g for g in groups if g.props]
            ms = list(groups)
            if rng.random() < 0.2:
                ms.append(DISABLED)
            if rng.random() < 0.3:
                ms.insert(rng.randint(0, len(ms)), ser("s%d" % i))
            # attributes of OTHER derives on the same variant do not change the lookup (keys stay exact whatever `ascii_case_insensitive` says)
            if rng.random() < 0.25:
                ms.insert(rng.randint(0, len(ms)), aci(rng.random() < 0.7, explicit=rng.random() < 0.5))
            v.metas = ms
            if len(ms) > 1 and rng.random() < 0.6:
                v.groups = [1] * (len(ms) - 1)
            vs.append(v)
        emetas = []
        if rng.random() < 0.3:
            emetas.append(EM("aci"))
        if rng.random() < 0.3:
            emetas.append(EM("sall", rng.choice(["snake_case", "UPPERCASE"])))
        if rng.random() < 0.2:
            emetas.append(EM("prefix", "p/"))
        items.append(("random", Item("E", vs, metas=emetas)))
    nk = Item("E", [Variant("A", "unit", [], [props([("color", ("s", "red")), ("n", ("i", 7)), ("ok", ("b", False))])]), Variant("B", "tuple", [Field("u8")]),
                    Variant("C", "unit", [], [DISABLED, props([("color", ("s", "never"))])])])
    # options of OTHER derives that change what those derives do with the variant — transparent, default — mean nothing to EnumProperty:
    # the variant answers from ITS OWN table (seed C15_r16: a transparent variant forwarded unknown keys to its inner field)
    from vlib.defs import TRANSPARENT, DEFAULT
    items.append(("foreign-transparent", Item("E", [
        Variant("Len", "tuple", [Field("String")], [TRANSPARENT, props([("kind", ("s", "length")), ("n", ("i", 3))])]),
        Variant("Raw", "named", [Field("String", "text")], [TRANSPARENT]),
        Variant("Rest", "tuple", [Field("String")], [DEFAULT, props([("kind", ("s", "rest"))])]),
        Variant("Plain", "unit", [], [props([("kind", ("s", "plain")), ("ok", ("b", True))])])])))
    nk.namesakes = True       # inherent get_str / get_int / get_bool on the user's enum
    items.append(("inherent-namesakes", nk))
    # case-twin keys on one variant, under case-insensitive flags
    items.append(("case-twins", Item("E", [
        Variant("Metre", "unit", [], [props([("si", ("s", "m")), ("SI", ("s", "metre")), ("Si", ("i", 1))]), aci(True, explicit=False)]),
        Variant("Second", "unit", [], [props([("si", ("s", "s")), ("ok", ("b", True))])]),
        Variant("Kelvin", "tuple", [Field("u8")], [props([("OK", ("b", False)), ("ok", ("i", 3))])])], metas=[EM("aci")])))
    # guided search: every key literal the REAL generated getters compare with becomes a probe key (an arm the model does not predict is
    # then exercised behaviourally, not only noted as a structural difference)
    import re
    real = [] if G.NO_PROBE else G.real_structure(ID, [it for _, it in items], derive="EnumProperty")
    GUIDED["definitions"] = sum(1 for r in real if r and r.startswith("str="))
    for (fam, it), summary in zip(items, real or [None] * len(items)):
        k = c.add_def(it, family=fam, derives=["EnumProperty"])
        real_keys = set()
        for h in re.findall(r"[{,]x([0-9a-f]*)=", summary or ""):
            try:
                real_keys.add(bytes.fromhex(h).decode("utf-8"))
            except (ValueError, UnicodeDecodeError):
                pass
        keys = set()
        for v in it.variants:
            for m in v.metas:
                if m.kind == "props":
                    for kk, _ in m.props:
                        keys.add(kk)
        probe = set(keys)
        for kk in list(keys):
            probe.update([kk.upper(), kk.lower(), kk + "x", kk[:-1], kk.replace("r#", "")])
        probe.update(["", "nope", "é", "prop"])
        GUIDED["keys_only_in_real_code"] += len(real_keys - probe)
        probe.update(real_keys)
        c.add_q(k, "struct", ["EnumProperty"], note="structure")
        for j, (i, _, tag) in enumerate(T.RR.sample_values(it)):
            if tag == "default":
                continue
            for kk in sorted(probe):
                c.add_q(k, "prop", [j, i, S.hx(kk)], note="declared" if kk in keys else "probe")
    return c


GUIDED = {"definitions": 0, "keys_only_in_real_code": 0}


def crate_configs(tier):
    return [{"name": "c15"}, {"name": "c15probe", "kind": "genprobe"}]


def query_in_config(cfg, kind, args):
    return (kind == "struct") == (cfg.get("kind") == "genprobe")


probe_command = S.struct_probe_command


def extra_coverage(corpus, tier):
    d = S.struct_coverage()
    d["structural_tie"]["what"] += ("; EnumProperty: the three getters as tables variant -> [(key literal, value literal)] with their inner and outer wildcards "
                                    "(identical => C15_get speaks about the real code for EVERY key string, not only the sampled ones)")
    d["structural_tie"]["guided_search"] = dict(GUIDED, what="key literals read from the real generated code, asked through all three getters")
    return d


def render_def(k, it, meta, cfg):
    return T.render_structs(k, it, meta, cfg)


def compare(corpus, k, kind, args, note, iobs, mobs, cfg):
    if kind == "struct":
        return S.compare_struct(corpus, k, iobs, mobs)
    return iobs == mobs, True, None
