"""C07 — each serialize_all style renames identifiers to exactly that documented case."""
import copy
from vlib.defs import Item, Variant, Field, EM, ser, tos, aci, render_item
from vlib.run import Corpus
from vlib import gen as G
from vlib import strings as S
from vlib import render as RR

ID = "C07"
PROBE_REQUIRED = True      # part of this property is decided on the generator itself, through harness/genprobe
PROP_FILE = "Props/C07.v"
RULE = ("(a) generator level, through genprobe (the real convert_case / snakify / CaseStyle::from_str of /repo's working tree): "
        "EVERY valid identifier over {a,b,A,B,1,_} up to length 6 (quick) / 8 (thorough) x the 11 styles + no style + snakify, "
        "compared by FNV digests per block of 4096 identifiers (exhaustive for that bound), every identifier up to length 4 and a "
        "dictionary of realistic names (acronyms, digits, underscores) compared in clear, and the 16 accepted style strings plus "
        "near misses through from_str; (b) derive level: enums under each of the 16 style strings with dictionary variants, half of "
        "them carrying explicit spellings, through VariantNames, Display, AsRefStr, IntoStaticStr, EnumString and "
        "get_serializations. non-trivial = distinct (identifier or definition, style, observable); a digest block counts once")
ASSUMPTIONS = ["Model/Heck.v (ASCII bytes) is tied by the exhaustive sweep; identifiers in the rest of Unicode are evaluated by Model/HeckU.v (theorems C07u_*: the same scanner and styles over scalar values, for ANY character database in which Lowercase and Uppercase are disjoint; C07u_ascii_instance: Heck.v is its ASCII instance) instantiated with the table Rust's own `char` methods print for the characters in play (std's Unicode tables are trusted; closure and disjointness of each table are tested)",
               "identifiers containing U+03A3 are outside that model (context-dependent final sigma in heck's `lowercase` and in str::to_lowercase): compared with a Rust reference written on heck itself (Rust-vs-Rust differential, outside the proof)"]

DICT = ["HTTPServer", "XMLHttpRequest2", "Utf8_String", "GreenApple", "Red", "X", "Id", "IOError", "A1b2", "Abc_def", "snake_name",
        "SCREAMING_ONE", "Blue2Go", "darkGray", "Http2_Proxy", "V10", "QRCode", "WiFi", "Z9", "__Private", "Trailing_", "a", "AB", "ABc",
        "AbC", "aBC", "A1", "A_1", "x1Y2z3", "HTMLParser", "parseHTML", "getX", "XY_Z", "Ab__Cd", "L10n", "i18nText", "ISO8601Date",
        "Point3D", "Vec2f", "u8Value", "Y", "_W", "Q_", "Zz"]
RAW = ["r#type", "r#Match", "r#loop_Forever", "r#HTTPAsync"]      # raw identifiers: the name is the identifier without `r#`
NEAR = ["Snake_Case", "snake-case", "camelcase", "", "PASCALCASE", "kebab-case ", "SCREAMING_KEBAB_CASE", "train-case", "Title_Case",
        "pascal_case", "Mixed_case", "UPPER_CASE", "lower_case", "snake case", "camel-case", "shouty-snake-case"]
ALPHA = "abAB1_"
# non-ASCII identifiers (XID): upper / lower / title-case letters of several scripts at the start, in the middle, before and after digits
# and underscores; letters whose case mapping changes the length (ß, ŉ, İ, ǆ) or depends on position (Σ)
UNI = ["ÉlanVital", "ÜberMensch", "Ωmega", "élanVital", "straßeName", "Naïve_Bayes", "ДобрыйДень", "добрый_день", "日本語", "Ǆungla", "ǅungla",
       "ǆungla", "İstanbul", "ıdeal", "ΣίσυφοςΣ", "ΟΔΟΣ", "ßeta", "ŉTest", "Öl2", "Über9Mensch", "Café3", "x1É2", "HTTPÉcole", "éA", "Éa", "aÉ", "ÀB_ÇD",
       "Ünï_cödé_Mïx42", "Straße", "ÅngströmUnit", "ñandú", "Ñandú9",
       # numeric characters that are not ASCII digits; one-letter words; lower-case initials whose upper case does not map back
       "Page٣", "BandⅧ", "Ｘ３y", "Row〇x", "µs", "ſharp", "ǰx", "É", "ß", "Σ", "ΣKey", "xΣ"]
# one-letter and two-letter ASCII identifiers belong to the dictionary as well (camelCase lower-cases the only letter)


def crate_configs(tier):
    return [{"name": "c07probe", "kind": "genprobe"}, {"name": "c07"}]


def query_in_config(cfg, kind, args):
    return (kind == "casing") == (cfg.get("kind") == "genprobe")


def all_idents(maxlen):
    out = []
    for ln in range(1, maxlen + 1):
        idx = [0] * ln
        while True:
            s = "".join(ALPHA[i] for i in idx)
            if not s[0].isdigit() and s != "_":
                out.append(s)
            p = ln - 1
            while p >= 0:
                idx[p] += 1
                if idx[p] < len(ALPHA):
                    break
                idx[p] = 0
                p -= 1
            if p < 0:
                break
    return out


def build_corpus(tier, rng):
    c = Corpus(ID)
    thorough = tier == "thorough"
    k0 = c.add_def(Item("E", []), family="generator", derives=[], probe_only=True)
    sweep_len = 8 if thorough else 6
    for st in G.STYLES:
        c.add_q(k0, "casing", ["sweep", S.hx(ALPHA), sweep_len, S.hx(st)], note="sweep")
    c.add_q(k0, "casing", ["sweep", S.hx(ALPHA), sweep_len, "snakify"], note="sweep")
    c.add_q(k0, "casing", ["sweep", S.hx(ALPHA), sweep_len, "-"], note="sweep")
    clear = DICT + all_idents(4 if not thorough else 5)
    for ident in clear:
        for st in G.STYLES[:11]:
            c.add_q(k0, "casing", ["convert", S.hx(st), S.hx(ident)], note="clear")
        c.add_q(k0, "casing", ["snakify", S.hx(ident)], note="clear")
    for st in G.STYLES[11:]:
        for ident in DICT:
            c.add_q(k0, "casing", ["convert", S.hx(st), S.hx(ident)], note="alias")
    for s in G.STYLES + NEAR:
        c.add_q(k0, "casing", ["stylename", S.hx(s)], note="table")
    # (a') non-ASCII and raw identifiers: the real convert_case / snakify against Model/HeckU.v instantiated with the character table
    # the probe prints from Rust's `char` methods; identifiers with U+03A3 against a Rust reference written on heck 0.5.0 from the
    # documentation (harness/genprobe `mod reference`: Rust-vs-Rust differential, not a theorem)
    tabs = G.char_tables(ID, UNI + RAW)
    for ident in UNI + RAW:
        tab = [tabs[ident]] if tabs.get(ident) else []
        for st in G.STYLES + [None]:
            c.add_q(k0, "casing", ["convertu", S.hx(st) if st else "-", S.hx(ident)] + tab, note="non-ascii")
        if not ident.startswith("r#"):
            c.add_q(k0, "casing", ["snakifyu", S.hx(ident)] + tab, note="non-ascii")
    # (b) derive level
    derive_items = []
    for si, st in enumerate(G.STYLES):
        for rep in range(3 if thorough else 1):
            names = DICT[:] if thorough else rng.sample(DICT, 14)
            names = [n for n in names if n != "a"] + (RAW if thorough else rng.sample(RAW, 2))
            vs = []
            for i, ident in enumerate(names):
                kind = ["unit", "tuple", "named"][i % 3]
                v = Variant(ident, kind)
                if kind == "tuple":
                    v.fields = [Field("u8")]
                elif kind == "named":
                    v.fields = [Field("String", "s")]
                if i % 2 == 1:      # explicit spellings must never be re-cased
                    v.metas = [ser("Explicit_%d_%s" % (i, ident))] if i % 4 == 1 else [tos("To String %d" % i), ser("sEr%d" % i)]
                vs.append(v)
            # every other enum also carries a prefix: the renamed identifier — not the raw one — follows it
            it = Item("E", vs, metas=[EM("sall", st)] + ([EM("prefix", ["ns/", "Pre_Fix", ""][si % 3])] if (si + rep) % 2 else []))
            derive_items.append(("derive", it))
            # the same enum once more, case-insensitive as a whole with every third variant opting out again (or the other way round):
            # the style renames a variant whatever its case-sensitivity is; two non-ASCII identifiers ride along
            it2 = copy.deepcopy(it)
            it2.variants += [Variant("ÉlanVital", "unit"), Variant("Ärger9Über", "tuple", [Field("u8")])]
            for i, v in enumerate(it2.variants):
                if i % 3 == 0:
                    v.metas = list(v.metas) + [aci(si % 2 == 1, explicit=True)]
            it2.metas = list(it2.metas) + ([EM("aci")] if si % 2 == 0 else [])
            derive_items.append(("derive-case-insensitive", it2))
    for fam, it in derive_items:
        info = G.classify(ID, [it])[0]
        if info is None or not info["nonoverlap"]:
            continue
        names = [v.ident for v in it.variants]
        k = c.add_def(it, family=fam, derives=["EnumString", "Display", "AsRefStr", "IntoStaticStr", "VariantNames", "EnumMessage"], info=info)
        vals = RR.sample_values(it)
        c.meta[k]["vals"] = vals
        c.add_q(k, "names", [], note="names")
        for j, (i, _, tag) in enumerate(vals):
            if tag == "default":
                continue
            for kind in ("display", "asref", "intostatic", "msg"):
                c.add_q(k, kind, [j, i], note=kind)
        for vi in info["variants"]:
            for sp in vi["spellings"]:
                c.add_q(k, "fromstr", [S.hx(sp)], note="spelling")
        for ident in names:
            c.add_q(k, "fromstr", [S.hx(ident)], note="near-ident")
            if ident.startswith("r#"):
                c.add_q(k, "fromstr", [S.hx(ident[2:])], note="near-ident")
    return c


def probe_command(corpus, n, k, kind, args):
    if kind != "casing":
        return None
    if args[0] == "sweep":
        return "sweep %d %s %s %s" % (n, args[1], args[2], args[3])
    if args[0] == "convert":
        return "case %d %s %s" % (n, args[1], args[2])
    if args[0] == "snakify":
        return "snakify %d %s" % (n, args[1])
    if args[0] == "stylename":
        return "style %d %s" % (n, args[1])
    if args[0] == "convertu":
        return "caseu %d %s %s" % (n, args[1], args[2])          # (args[3], the character table, is for the model)
    if args[0] == "snakifyu":
        return "snakifyu %d %s" % (n, args[1])
    return None


def render_def(k, it, meta, cfg):
    if meta.get("probe_only"):
        return "// genprobe: helpers::case_style of /repo's working tree (convert_case, snakify, CaseStyle::from_str)\npub fn query(kind: &str, args: &[&str]) -> String { String::new() }"
    return S.render_strings(k, it, meta, cfg)


def compare(corpus, k, kind, args, note, iobs, mobs, cfg):
    if kind == "casing" and args[0] in ("convertu", "snakifyu"):
        parts = dict(p.split("=", 1) for p in iobs.split("|"))
        ident = S.unhx(args[2] if args[0] == "convertu" else args[1])
        real = parts.get("real")
        if mobs.startswith("x"):
            # the Unicode-parametric model (Model/HeckU.v on the probe's character table) answers: it decides
            UNI_STATS["decided_by_the_unicode_model"] += 1
            if parts.get("ref") != mobs:
                UNI_STATS["reference_disagrees_with_the_model"] += 1
            ok = real == mobs
            return ok, True, None if ok else "real %s, model %s (identifier %r)" % (S.unhx(real or "?") if (real or "").startswith("x") else real, S.unhx(mobs), ident)
        # U+03A3 in the identifier (final-sigma rules are outside the model): Rust-vs-Rust differential
        UNI_STATS["decided_by_the_rust_reference"] += 1
        ok = real == parts.get("ref") and real not in (None, "panic") and mobs == "outside-model-domain"
        return ok, True, None if ok else "real %s, Rust reference %s, model %s (identifier %r)" % (
            S.unhx(real or "?") if (real or "").startswith("x") else real, S.unhx(parts.get("ref", "?")), mobs, ident)
    if kind == "casing":
        if args[0] == "sweep" and iobs != mobs:
            a, b = iobs.split(":")[1].split(","), mobs.split(":")[1].split(",")
            bad = [i for i, (x, y) in enumerate(zip(a, b)) if x != y]
            return False, True, "digest blocks that differ (4096 identifiers each, odometer order over %r): %s" % (ALPHA, bad[:10])
        return iobs == mobs, True, None
    return S.compare_strings(corpus, k, kind, args, note, iobs, mobs, cfg)


UNI_STATS = {"decided_by_the_unicode_model": 0, "decided_by_the_rust_reference": 0, "reference_disagrees_with_the_model": 0}


def extra_coverage(corpus, tier):
    return {"non_ascii_identifiers": dict(UNI_STATS), "non_ascii_variant_names": dict(G.NAME_STATS), "exhaustive": True,
            "exhaustive_note": "all valid identifiers over {a,b,A,B,1,_} up to length %d x 16 style strings, no style and snakify, by digest" % (8 if tier == "thorough" else 6)}
