"""C06 — from_repr(d) is Some(V) iff d is the discriminant rustc gives enabled variant V."""
import itertools
import os
from vlib.defs import Item, Variant, Field, render_item, DISABLED
from vlib import gen as G
from vlib.run import Corpus
from vlib import render as RR

ID = "C06"
# look-alikes of prelude names (vlib/defs.py HOSTILE) this check's derives are immune to on the unchanged tree
HOSTILE_OK = ['Default', 'From', 'Into', 'Result', 'Option', 'Some', 'Ok', 'Iterator', 'Clone', 'AsRef', 'Send', 'PhantomData', 'IterGet', 'm_matches', 'm_assert', 'm_fmt', 'c_binders', 'no_implicit_prelude', 'ByValue']
PROP_FILE = "Props/C06.v"
THEOREMS = ["C06_iff", "C06_none", "C06_roundtrip", "C06_const", "C06_total", "C06_program", "C06_program_complete", "C06_repr_scan", "C06_nonvacuous", "C06_repr_scan_nonvacuous"]
RULE = ("definitions: repr type x explicit/implicit discriminant shapes (negative, gapped, descending, expression-valued) "
        "x every placement of disabled variants x variant kinds x generics; inputs: EVERY value of 8- and 16-bit "
        "discriminant types (sweep, compared as the table of Some entries), for wider types every discriminant and its "
        "two neighbours, 0, MIN, MAX and seeded random values; also `v as i128` (ties rustc_discr to rustc) and a const "
        "item calling from_repr. non-trivial = distinct (definition, value) whose answer is Some, or None right next to "
        "a discriminant / at a disabled variant's discriminant; a sweep counts once")
ASSUMPTIONS = ["rustc's discriminant rule is modelled by rustc_discr and tied by `as` casts on field-less enums",
               "64-bit target (usize/isize = 64 bit)"]

RANGES = {"u8": (0, 255), "i8": (-128, 127), "u16": (0, 65535), "i16": (-32768, 32767),
          "u32": (0, 2**32 - 1), "i32": (-2**31, 2**31 - 1), "u64": (0, 2**64 - 1), "i64": (-2**63, 2**63 - 1),
          "usize": (0, 2**64 - 1), "isize": (-2**63, 2**63 - 1), None: (0, 2**63 - 1)}
REPRS = [None, "u8", "i8", "u16", "i16", "u32", "i32", "u64", "i64", "usize", "isize"]
NAMES = ["Alpha", "Beta", "Gamma", "Delta", "Eps", "Zeta", "Eta", "Theta"]


def mk_variant(name, kind, disabled, discr=None, expr=None, gen=False):
    fields = []
    if kind == "tuple":
        fields = [Field("G0" if gen else "u8"), Field("bool")]
    elif kind == "tuple1":
        kind = "tuple"
        fields = [Field("G0" if gen else "i32")]
    elif kind == "named":
        fields = [Field("u8", "a"), Field("G0" if gen else "String", "b")]
    return Variant(name, kind, fields, [DISABLED] if disabled else [], discr, expr)


def discr_of(it):
    out, prev = [], None
    for v in it.variants:
        d = v.discr if v.discr is not None else (0 if prev is None else prev + 1)
        out.append(d)
        prev = d
    return out


def in_domain(it):
    lo, hi = RANGES[it.repr]
    ds = discr_of(it)
    return all(lo <= d <= hi for d in ds) and len(set(ds)) == len(ds)


def build_corpus(tier, rng):
    c = Corpus(ID)
    thorough = tier == "thorough"

    def add(it, family):
        if not it.variants:
            it.repr = None
        if not in_domain(it):
            return
        k = c.add_def(it, family=family)
        lo, hi = RANGES[it.repr]
        ds = discr_of(it)
        fieldless = all(v.kind == "unit" for v in it.variants) and it.tparams == 0 and it.variants
        if it.repr in ("u8", "i8", "u16", "i16"):
            c.add_q(k, "repr", ["sweep"], note="sweep")
        else:
            vals = set()
            for d in ds:
                vals.update([d - 1, d, d + 1])
            vals.update([0, 1, lo, hi, lo + 1, hi - 1])
            for _ in range(40 if thorough else 6):
                vals.add(rng.randint(lo, hi))
                vals.add(rng.randint(max(lo, -300), min(hi, 300)))
            for x in sorted(vals):
                if lo <= x <= hi:
                    near = any(abs(x - d) <= 1 for d in ds)
                    c.add_q(k, "repr", ["val", x], note="near" if near else "far")
        if fieldless and len(it.variants) <= 64:     # (rustc's debug code for `as` on long signed runs adds base + index in the repr type and traps)
            c.add_q(k, "discr", [], note="as")
        if all(v.kind == "unit" for v in it.variants) and it.tparams == 0:
            c.meta[k]["const"] = True
            c.add_q(k, "repr", ["const"], note="const")
        c.add_q(k, "repr", ["prog"], note="structure")      # answered by the model only; the real side is read from the expansion (extra_checks)
        # the #[repr] attribute(s) AS WRITTEN, for the model's scan (C06_repr_scan); compared with the parameter type of the real from_repr
        form = "|".join(r.replace(" ", "") for r in it.repr_form) if it.repr_form else (it.repr or "-")
        c.add_q(k, "repr", ["scan", form], note="structure")

    # regression: the defect repaired by 3e1f5e6 (disabled variant must still occupy a discriminant)
    add(Item("E", [mk_variant("X", "unit", False), mk_variant("Y", "unit", True), mk_variant("Z", "unit", False)], repr="u8"), "regression")
    add(Item("E", [mk_variant("X", "unit", True), mk_variant("Y", "tuple", True), mk_variant("Z", "unit", False)]), "regression")

    # systematic: every placement of disabled variants for n <= 4 (quick) / 6 (thorough), implicit numbering
    nmax = 6 if thorough else 4
    reprs_cycle = itertools.cycle(REPRS)
    for n in range(0, nmax + 1):
        for mask in range(2 ** n):
            rp = next(reprs_cycle)
            kinds = ["unit", "tuple", "named", "tuple1"]
            vs = [mk_variant(NAMES[i], "unit" if (mask + i) % 3 else kinds[(mask + i) % 4], bool(mask >> i & 1)) for i in range(n)]
            add(Item("E", vs, repr=rp), "mask")

    # explicit discriminants: shapes x repr
    shapes = [
        [(None, None), (5, None), (None, None)],
        [(10, None), (None, None), (3, None), (None, None)],
        [(8, "1 << 3"), (None, None), (97, "b'a' as _"), (None, None)],
        [(None, None), (None, None), (100, "50 * 2"), (99, None)],
        [(250, None), (None, None), (None, None), (0, None)],
        [(1, None), (None, None), (None, None), (None, None), (20, None), (None, None)],
        # explicit discriminants in REDUNDANT parentheses whose top-level operator binds looser than `+` (seed C06_r14)
        [(4, "(1 << 2)"), (None, None), (12, "(8 | 4)"), (None, None), (1, "(3 & 1)"), (None, None), (24, "((16 ^ 8))"), (None, None)],
    ]
    neg_shapes = [
        [(-3, None), (None, None), (None, None), (None, None), (None, None)],
        [(None, None), (-1, None), (-128, None), (None, None)],
        [(127, None), (-100, "-(10 * 10)"), (None, None)],
        [(-2, None), (None, None), (None, None), (None, None), (5, None), (-7, None)],
    ]
    for rp in REPRS:
        lo, hi = RANGES[rp]
        allshapes = list(shapes) + (neg_shapes if lo < 0 else [])
        if hi > 70000:
            allshapes.append([(hi - 1, None), (None, None), (0, None)])
            allshapes.append([(lo, None), (hi, None), (12345678, None), (None, None)])
        for si, shape in enumerate(allshapes):
            n = len(shape)
            masks = range(2 ** n) if (thorough or rp in ("u8", "i8")) else [0, 1, 2, 2 ** (n - 1), 5 % 2 ** n, 2 ** n - 2]
            for mask in masks:
                for dk in ([0, 1] if thorough else [mask % 2]):
                    kinds = ["unit", "tuple", "named"]
                    vs = []
                    for i, (d, ex) in enumerate(shape):
                        kind = "unit" if dk == 0 else kinds[(i + mask) % 3]
                        if ex and "as _" in ex and rp:
                            ex = ex.replace("as _", "as %s" % rp)
                        vs.append(mk_variant(NAMES[i], kind, bool(mask >> i & 1), d, ex))
                    it = Item("E", vs, repr=rp)
                    if dk == 1 and rp is None and any(v.discr is not None for v in vs):
                        continue      # explicit discriminants on data-carrying variants need a #[repr(int)]
                    add(it, "explicit")

    # the integer type is the discriminant type however #[repr] is WRITTEN: several hints in one attribute, several attributes, any order
    forms = lambda rp: [["C, %s" % rp], ["%s, C" % rp], ["C", rp], [rp, "C"], ["align(8)", rp], [rp, "align(4)"], ["%s, align(2)" % rp], ["align(4), %s" % rp],
                        ["C, align(2), %s" % rp], ["align(2)", "C, %s" % rp]]   # noqa: E731
    for rp in ("u8", "i16", "u64", "isize"):
        lo, hi = RANGES[rp]
        for fi, form in enumerate(forms(rp)):
            d0 = -2 if lo < 0 else 3
            vs = [mk_variant("A", "tuple", False, d0), mk_variant("B", "unit", fi % 2 == 0), mk_variant("C", "named", False),
                  mk_variant("D", "unit", False, 40), mk_variant("G", "unit", False)]
            it = Item("E", vs, repr=rp)
            it.repr_form = form
            add(it, "repr-forms")
    # a type parameter that no payload needs to be Default (PhantomData<T>), instantiated with a type that is NOT Default: from_repr exists for it
    for rp in (None, "u8", "i16"):
        it = Item("E", [mk_variant("A", "unit", False, 2 if rp else None), Variant("Mark", "tuple", [Field("std::marker::PhantomData<G0>")]),
                        Variant("Off", "named", [Field("std::marker::PhantomData<G0>", "m")], [DISABLED]), mk_variant("D", "unit", False)], repr=rp, tparams=1)
        it.targ = "NoDef"
        add(it, "unbounded-parameter")
    # WIDE contiguous runs (a range check instead of a match must cover the whole run, also across the sign boundary of a narrow type)
    for rp, first, n in (("i8", -100, 200), ("i8", -128, 256), ("u8", 0, 256), ("i16", -150, 300), ("u8", 56, 200)):
        vs = [mk_variant("W%d" % q, "unit", False, first if q == 0 else None) for q in range(n)]
        add(Item("E", vs, repr=rp), "wide-run")
    # the options of OTHER derives on the variants (default_with on payloads, default, valued ascii_case_insensitive, props ... around
    # `disabled`): FromRepr reads `disabled` only, payloads are Default::default()
    for j, it in enumerate(G.foreign_option_items(rng, 90 if thorough else 30, tag="P")):
        it.repr = [None, "u8", "i16", "u32", "i64"][j % 5]
        if j % 3 == 0 and it.variants and it.repr is not None:        # (E0732: explicit discriminants next to payloads need an integer repr)
            it.variants[len(it.variants) // 2].discr = 20 + j
        add(it, "foreign-options")
    # the enum comes out of a macro_rules! expansion: the integer type of #[repr] is a `ty` fragment, discriminants that depend on its width
    for rp, exprs in (("u8", [("!0x0F", 0xF0), ("1", 1), (None, 2)]), ("i16", [("!1", -2), (None, -1), ("5", 5)]), ("u16", [("!0", 65535), ("0", 0), (None, 1)]), ("i8", [(None, 0), ("-3", -3)])):
        for idents in (True, "idents"):
            vs = []
            for q, (ex, val) in enumerate(exprs):
                v = mk_variant(NAMES[q], "unit", False, val if ex is not None else None, ex)
                vs.append(v)
            it = Item("E", vs, repr=rp)
            it.via_macro = idents
            add(it, "via-macro")
    # the USER's own conversions from the repr type next to the derive: `impl TryFrom<R> for E` / `impl From<R> for E` written by hand (what FromRepr
    # is documented NOT to emit) coexist with the generated inherent from_repr (seed C06_r16)
    for j, rp in enumerate((None, "u8", "i16", "u8")):
        ui = Item("E", [mk_variant("Nop", "unit", False), mk_variant("Load", "unit", j % 2 == 1, 4 if rp else None), mk_variant("Store", "unit", False)], repr=rp)
        ui.user_impl = "TryFrom" if j < 2 else "From"
        add(ui, "user-conversions")
    # no variant carries data, but the enum has CONST parameters: from_repr is still a const fn
    for rp in (None, "u8", "i32"):
        add(Item("E", [mk_variant("Empty", "unit", False), mk_variant("Taken", "unit", False, 4), mk_variant("Off", "unit", True), mk_variant("Locked", "unit", False)],
                 repr=rp, cparams=1), "const-generic")
    # generics (type and const parameters); FromRepr does not support lifetimes
    for rp in ([None, "u8", "i16", "u64"] if not thorough else REPRS):
        for mask in range(8):
            vs = [mk_variant("A", "tuple", bool(mask & 1), gen=True), mk_variant("B", "unit", bool(mask & 2)),
                  mk_variant("C", "named", bool(mask & 4), gen=True), mk_variant("D", "unit", False)]
            if all(v.has("disabled") or v.kind == "unit" for v in vs) is False or True:
                add(Item("E", vs, repr=rp, tparams=1, cparams=mask % 2), "generic")

    # seeded random
    for _ in range(400 if thorough else 40):
        rp = rng.choice(REPRS)
        lo, hi = RANGES[rp]
        n = rng.randint(1, 8)
        vs = []
        unit_only = rng.random() < 0.5
        for i in range(n):
            d = None
            if rng.random() < 0.35 and (unit_only or rp is not None):
                d = rng.choice([rng.randint(max(lo, -120), min(hi, 120)), rng.randint(lo, hi)])
            kind = "unit" if unit_only else rng.choice(["unit", "unit", "tuple", "named", "tuple1"])
            vs.append(mk_variant(NAMES[i], kind, rng.random() < 0.3, d))
        add(Item("E", vs, repr=rp), "random")
    return c


def render_def(k, it, meta, cfg):
    src = [render_item(it, ["strum::FromRepr", "Debug", "PartialEq"], bounds="Default" if (it.tparams and not getattr(it, "targ", None)) else "")]
    src.append(RR.vobs_fn(it))
    ty = it.repr or "usize"
    if getattr(it, "user_impl", None) == "TryFrom":
        src.append("impl std::convert::TryFrom<%s> for E { type Error = (); fn try_from(x: %s) -> Result<E, ()> { E::from_repr(x).ok_or(()) } }" % (ty, ty))
    elif getattr(it, "user_impl", None) == "From":
        src.append("impl From<%s> for E { fn from(x: %s) -> E { E::from_repr(x).unwrap_or(E::%s) } }" % (ty, ty, it.variants[0].ident))
    E = RR.turbofish(it)
    fieldless = all(v.kind == "unit" for v in it.variants) and it.tparams == 0 and it.variants
    if meta.get("const"):
        src.append("pub const C_FROM_REPR: Option<%s> = %s::from_repr(0);" % (RR.inst(it), E))
    discr_body = '"n/a".to_string()'
    if fieldless and len(it.variants) <= 64:
        discr_body = 'format!("[{}]", vec![%s].join(";"))' % ", ".join(
            "(%s::%s as i128).to_string()" % (E, v.ident) for v in it.variants)
    repr_body = '''
        match args[0] {
            "sweep" => {
                let mut s = String::from("[");
                let mut d: %(ty)s = <%(ty)s>::MIN;
                loop {
                    if let Some(e) = %(E)s::from_repr(d) { s.push_str(&format!("{}:{};", d, vobs(&e))); }
                    if d == <%(ty)s>::MAX { break; }
                    d += 1;
                }
                s.push(']');
                s
            }
            "val" => {
                let d: %(ty)s = args[1].parse().expect("value in range of the discriminant type");
                match %(E)s::from_repr(d) { Some(e) => vobs(&e), None => "none".to_string() }
            }
            "const" => { %(constq)s }
            _ => "HARNESS-BAD-ARGS".to_string(),
        }''' % {"ty": ty, "E": E,
                "constq": ('let _ = C_FROM_REPR; "const".to_string()' if meta.get("const") else '"nonconst".to_string()')}
    src.append(RR.query_fn({"repr": repr_body, "discr": discr_body}))
    return "\n".join(src)


def compare(corpus, k, kind, args, note, iobs, mobs, cfg):
    mobs = RR.concretize(mobs, corpus.defs[k])
    if kind == "repr" and args[0] == "sweep":
        nt = iobs.count(":") > 0
        return iobs == mobs, nt, None
    if kind == "repr" and args[0] == "const":
        return iobs == mobs, True, None
    nt = (iobs != "none") or note == "near"
    return iobs == mobs, nt, None


def query_in_config(cfg, kind, args):
    return not (kind == "repr" and args and args[0] in ("prog", "scan"))


STRUCT = {}


def extra_checks(corpus, tier, model, impl):
    """Structural tie: the body of `from_repr` in the REAL expansion of the corpus crate (rustc -Zunpretty=expanded), read by
    harness/genprobe `structfr` into the shape of Model/ReprProg.v (constant chain: zero | prev | own; guarded arms: constant, variant,
    payload count; wildcard), compared with the program the model emits (C06_program: running that program IS run_from_repr).
    A structural difference alone is recorded, not reported."""
    from vlib import run as R
    from vlib.defs import plain_source
    from vlib.strings import hx
    st = {"what": extra_checks.__doc__.strip().replace("\n    ", " "), "definitions_checked": 0, "identical": 0, "not_readable": 0, "different": [],
          "status": "ok"}
    STRUCT.update(st)
    shards = range(8)
    mods, problems = R.real_expansion(ID.lower(), shards)
    if problems:
        STRUCT["status"] = "expansion unavailable: " + "; ".join(problems)[:400]
    binp, err = R.build_genprobe()
    if binp is None:
        STRUCT["status"] = "token reader unavailable (harness/genprobe does not build)"
        return [], 0, {}
    progq = {k: n for (n, k, kind, args, note) in corpus.queries if kind == "repr" and args and args[0] == "prog"}
    scanq = {k: n for (n, k, kind, args, note) in corpus.queries if kind == "repr" and args and args[0] == "scan"}
    STRUCT["repr_scan"] = {"what": "Model scan_repr (C06_repr_scan: the last integer hint of all #[repr] attributes, usize when none) evaluated on the attribute(s) as "
                                   "WRITTEN, compared with the parameter type of the real from_repr and with the integer type the harness renders its observers with",
                           "checked": 0, "equal_to_the_real_parameter_type": 0, "equal_to_the_harness_type": 0, "different": []}
    lines, asked = [], {}
    for k, ml in sorted(mods.items()):
        if k not in progq or k not in corpus.defs:
            continue
        imp = R.cut_impl(ml, "fn from_repr(")
        if imp is None:
            STRUCT["definitions_checked"] += 1
            STRUCT["not_readable"] += 1
            continue
        asked[progq[k]] = k
        lines.append("structfr %d %s %s" % (progq[k], hx(plain_source(corpus.defs[k])), hx(imp)))
    obs, died = R.run_genprobe(binp, lines, os.path.join(R.WORK, ID, "structfr"))
    for n, k in asked.items():
        real, mobs = obs.get(n, "unparsed:no answer"), model.get(n, "")
        STRUCT["definitions_checked"] += 1
        if real.startswith("unparsed") or real.startswith("HARNESS"):
            STRUCT["not_readable"] += 1
            if len(STRUCT["different"]) < 5:
                STRUCT["different"].append({"definition": render_item(corpus.defs[k], []), "real": real[:300], "model": mobs[:300]})
        elif real == mobs:
            STRUCT["identical"] += 1
            sc = model.get(scanq.get(k, -1))
            if sc is not None:
                rs = STRUCT["repr_scan"]
                rs["checked"] += 1
                real_ty = dict(p_.split("=", 1) for p_ in real.split("|")).get("ty")
                rs["equal_to_the_real_parameter_type"] += int(sc == real_ty)
                rs["equal_to_the_harness_type"] += int(sc == (corpus.defs[k].repr or "usize"))
                if (sc != real_ty or sc != (corpus.defs[k].repr or "usize")) and len(rs["different"]) < 5:
                    rs["different"].append({"definition": render_item(corpus.defs[k], []), "model_scan": sc, "real": real_ty})
        elif len(STRUCT["different"]) < 5:
            STRUCT["different"].append({"definition": render_item(corpus.defs[k], []), "real": real[:600], "model": mobs[:600]})
    return [], STRUCT["definitions_checked"], {}


def extra_coverage(corpus, tier):
    sweeps = sum(1 for q in corpus.queries if q[3] and q[3][0] == "sweep")
    return {"structural_tie": dict(STRUCT), "exhaustive": True, "exhaustive_note": "%d definitions with 8/16-bit discriminant types were swept over every value of the type" % sweeps}
