"""C18 — a custom parse error is the user's function applied to the exact rejected input."""
from vlib.defs import Item, Variant, Field, EM, ser, tos, aci, DISABLED
from vlib.run import Corpus
from vlib import gen as G
from vlib import strings as S
from props import c01

ID = "C18"
# look-alikes of prelude names (vlib/defs.py HOSTILE) this check's derives are immune to on the unchanged tree
HOSTILE_OK = ['From', 'Into', 'Result', 'Some', 'Ok', 'Iterator', 'Clone', 'AsRef', 'Send', 'PhantomData', 'IterGet', 'm_matches', 'm_assert', 'm_fmt', 'ByValue']
PROP_FILE = "Props/C18.v"
RULE = ("definitions: C01-style enums WITHOUT a default variant, half with parse_err_ty + parse_err_fn (a function or a module "
        "path; attributes in either order, in one or two #[strum] attributes), half without; case-sensitive and insensitive "
        "variants; a third of the definitions also carry use_phf (strum built with its phf feature). The harness's parse_err_fn logs every call: for every rejected input the log must be exactly [input] (bytes "
        "unchanged: padded, mixed-case, multi-byte, 300-byte inputs) and the error must carry that input; for every accepted "
        "input the log must stay empty; FromStr::Err and TryFrom::Error are observed through a trait implemented only for "
        "strum::ParseError and the custom type. non-trivial = distinct (definition, input)")
ASSUMPTIONS = ["the user's function is observed through its argument and a call log (its body is the harness's)"]


def crate_configs(tier):
    return [{"name": "c18", "features": ("derive", "phf")}, {"name": "c18probe", "kind": "genprobe"}]


def query_in_config(cfg, kind, args):
    return (kind == "struct") == (cfg.get("kind") == "genprobe")


probe_command = S.struct_probe_command


def build_corpus(tier, rng):
    c = Corpus(ID)
    thorough = tier == "thorough"
    cands = []
    for i in range(900 if thorough else 100):
        # a third of the definitions also use the phf-backed parser (field-less enums only): the error function must not be
        # touched by the map lookup path either
        phf = (i % 3 == 0)
        cands.append(("custom" if i % 2 == 0 else "standard",
                      G.string_enum(rng, allow_default=False, custom_err=(i % 2 == 0), phf=phf, allow_fields=not phf,
                                    generics=not phf, allow_aci=(i % 6 != 0), allow_prefix=(i % 4 == 1))))
    # a DISABLED default variant takes no part in parsing: the custom error still applies
    from vlib.defs import DEFAULT
    for j, fn in enumerate(("perr_a", "perr::b")):
        for pos in (0, 1, 2):
            vs = [Variant("Red", "unit"), Variant("Blue", "unit", [], [aci(True, explicit=False), ser("b%d" % j)])]
            vs.insert(pos, Variant("Gone", "tuple", [Field("String")], [DISABLED, DEFAULT] if j else [DEFAULT, DISABLED]))
            cands.append(("disabled-default", Item("E", vs, metas=[EM("pety", "PErr"), EM("pefn", fn)])))
    # an enum-level prefix belongs to the printed names only: inputs that START with it reach the error function unchanged
    for j, pf in enumerate(("colour/", "p", "é:")):
        vs = [Variant("Red", "unit"), Variant("Blue", "tuple", [Field("u8")], [ser("b%d" % j)]), Variant("DarkGreen", "unit", [], [aci(True, explicit=False)])]
        cands.append(("prefix", Item("E", vs, metas=[EM("prefix", pf), EM("pety", "PErr"), EM("pefn", "perr_a")] + ([EM("sall", "snake_case")] if j else []))))
    # the user's function may have ANY name, also one a generated helper would like to use
    for j, fn in enumerate(("not_found", "parse_error", "from_str", "try_from", "err", "error", "default", "variant_not_found", "value", "phf", "fallback", "parse",
                            "make_error")):
        vs = [Variant("Red", "unit"), Variant("Blue", "tuple", [Field("u8")], [ser("b%d" % j)]), Variant("DarkGreen", "unit", [], [aci(True, explicit=False)])]
        cands.append(("fn-names", Item("E", vs, metas=[EM("pety", "PErr"), EM("pefn", fn)] + ([EM("phf")] if j % 4 == 3 else []))))
        if j % 4 == 3:
            for v in vs:
                v.kind, v.fields = "unit", []
    # the enum and its error function declared inside a FUNCTION BODY, a module-level function of the same name next to it: the local one is the
    # declared one (names resolve lexically)
    for j, fn in enumerate(("perr_a", "not_found", "error")):
        vs = [Variant("Red", "unit"), Variant("Blue", "tuple", [Field("u8")], [ser("b%d" % j)]), Variant("DarkGreen", "unit", [], [aci(True, explicit=False)])]
        it = Item("E", vs, metas=[EM("pety", "PErr"), EM("pefn", fn)] + ([EM("sall", "kebab-case")] if j else []))
        it.in_fn_body = True
        cands.append(("fn-body", it))
    # enum, derive and #[strum(parse_err_ty = $t, parse_err_fn = $f)] come out of a macro_rules! expansion, type and function handed in by the
    # CALLER (`ty` / `path` fragments): the generated `f(s)` mixes the caller's hygiene context with the derive's (seed C18_r15)
    for j, (mode, fn) in enumerate(((True, "perr_a"), ("idents", "perr::b"), (True, "perr::b"))):
        vs = [Variant("Red", "unit"), Variant("Blue", "tuple", [Field("u8")], [ser("b%d" % j)]), Variant("DarkGreen", "unit", [], [aci(True, explicit=False)])]
        it = Item("E", vs, metas=[EM("pety", "PErr"), EM("pefn", fn)] + ([EM("phf")] if False else []))
        it.via_macro = mode
        cands.append(("via-macro", it))
    for it in c01.systematic(rng):
        it.variants = [v for v in it.variants if not v.has("default")]
        it.metas = [m for m in it.metas if m.kind not in ("pety", "pefn")] + [EM("pefn", "perr::b"), EM("pety", "PErr")]
        it.groups = [len(it.metas) - 1]
        cands.append(("systematic", it))
    import copy
    for fam, it in list(cands):
        if fam == "systematic" and len(cands) % 2 == 0 or fam == "systematic":
            tw = copy.deepcopy(it)
            for v in tw.variants:
                v.kind, v.fields = "unit", []
                v.metas = [m for m in v.metas if m.kind != "aci"] if len(tw.variants) % 2 else v.metas
            tw.metas = [m for m in tw.metas if m.kind != "aci"] + [EM("phf")]
            tw.groups = None
            cands.append(("systematic-phf", tw))
    # spellings that OVERLAP (an exact spelling and a case-insensitive twin in either order, one literal on two variants): an input some
    # variant accepts is never handed to the error function, whichever arm answers (the model's first match)
    from props import c16
    for j, it in enumerate(c16.overlapping()):
        if any(v.has("default") for v in it.variants) or j % 2:
            continue
        ov = copy.deepcopy(it)
        ov.metas = list(ov.metas) + [EM("pety", "PErr"), EM("pefn", "perr_a" if j % 4 else "perr::b")]
        ov.overlap_family = True
        cands.append(("overlap", ov))
    infos = G.classify(ID, [it for _, it in cands])
    reals = G.real_structure(ID, [it for _, it in cands])
    # the model's description of the same code: where the two differ, a search for a distinguishing input follows (S.mismatch_search)
    mstructs = [r[0] for r in G.model_query(ID, [it for _, it in cands], [("struct", ["EnumString"])])] if any(reals) else [None] * len(cands)
    rejected = 0
    for (fam, it), info, real, mstruct in zip(cands, infos, reals, mstructs):
        if getattr(it, "overlap_family", False):
            if info is None:
                continue
        elif not c01.admit(it, info):
            rejected += 1
            continue
        k = c.add_def(it, family=fam, derives=["EnumString"], info=info)
        seen = set()
        for s, note in G.fromstr_inputs(it, info, rng, flipcap=(64 if thorough else 8), nrandom=(30 if thorough else 8)):
            c.add_q(k, "fromstr", [S.hx(s)], note=note)
            seen.add(s)
        S.add_real_literal_inputs(c, k, it, real, seen, model_summary=mstruct)
    c.rejected = rejected
    return c


render_def = c01.render_def


def compare(corpus, k, kind, args, note, iobs, mobs, cfg):
    ok, nt, detail = S.compare_strings(corpus, k, kind, args, note, iobs, mobs, cfg)
    return ok, True, detail


extra_coverage = c01.extra_coverage
