"""The structural derive family (EnumIter, EnumCount, VariantNames, VariantArray, EnumTable, EnumIs,
EnumTryAs, EnumDiscriminants): Rust renderer of the observers."""
from .defs import Item, Variant, Field, render_item, pattern, rust_str, hx
from . import render as RR
import os as _os
_HOSTILE_ENV = [x for x in _os.environ.get("VERIF_DEV_HOSTILE", "").split(",") if x] or None      # development probe only
from . import strings as S

HP_STRUCTS = r'''
pub fn item_obs<T>(o: Option<T>, f: impl Fn(&T) -> usize) -> String { match o { Some(e) => format!("v{}", f(&e)), None => "none".to_string() } }
pub fn catch_mut<F: FnOnce() -> String>(f: F) -> String {
    match std::panic::catch_unwind(std::panic::AssertUnwindSafe(f)) { Ok(s) => s, Err(_) => "panic".to_string() }
}
'''
from . import run as _run
if HP_STRUCTS not in _run.PRELUDE_EXTRA:
    _run.PRELUDE_EXTRA.append(HP_STRUCTS)


def heck_snake_py(_):
    raise NotImplementedError


def render_structs(k, it: Item, meta, cfg, strum_path="strum"):
    derives = list(meta.get("derives", []))
    dl = ["%s::%s" % (strum_path, d) if d in S.STRUM_DERIVES else d for d in derives]
    dl += ["%s::%s" % (strum_path, d) for d in meta.get("silent_derives", [])]
    for std in meta.get("std_derives", ["Debug", "Clone", "PartialEq"]):
        if std not in dl:
            dl.append(std)
    bounds = meta.get("bounds", "Default + Clone + PartialEq + core::fmt::Debug" if it.tparams else "")
    if getattr(it, "decl_bounds", None) is not None:
        bounds = it.decl_bounds        # (G.bound_free_items: the declaration carries NO bound and the enum is instantiated with NoDef)
    src = [render_item(it, dl, bounds=bounds)]
    if (getattr(it, "hostile", None) or (_HOSTILE_ENV if not it.tparams else None)):
        from .defs import hostile_wrap
        src = [hostile_wrap(src[0], getattr(it, "hostile", None) or _HOSTILE_ENV)]
    ty = RR.inst(it)
    E = RR.turbofish(it)
    src.append(RR.vobs_fn(it))
    src.append(RR.vidx_fn(it))
    vals = meta.get("vals")
    if vals is None:
        vals = RR.sample_values(it)
        meta["vals"] = vals
    src.append(RR.vals_fn(it, vals))
    arms = {}
    gen_args = ["'static"] * it.lifetimes + [getattr(it, "targ", None) or "u8"] * it.tparams + ["3"] * it.cparams
    iter_ty = it.ident + "Iter" + ("<%s>" % ", ".join(gen_args) if gen_args else "")

    if "EnumIter" in derives:
        src.append("fn assert_send_sync<T: Send + Sync>() {}")
        rc_args = ["std::rc::Rc<()>"] * it.tparams + ["3"] * it.cparams
        src.append("pub fn send_sync_check() { assert_send_sync::<%sIter%s>(); }" % (
            it.ident, "<%s>" % ", ".join(rc_args) if rc_args else ""))
        arms["iter"] = '''
            use %(sp)s::IntoEnumIterator;
            let v: Vec<String> = <%(ty)s>::iter().map(|e| vobs(&e)).collect();
            format!("[{}]", v.join(";"))
        ''' % {"sp": strum_path, "ty": ty}
        arms["iterops"] = '''
            use %(sp)s::IntoEnumIterator;
            let mut its: Vec<%(ity)s> = vec![<%(ty)s>::iter()];
            let mut out: Vec<String> = Vec::new();
            for tok in args {
                if tok.starts_with('c') { let j: usize = tok[1..].parse().unwrap(); let cl = its[j].clone(); its.push(cl); continue; }
                if tok.starts_with('F') {
                    // F<a>><b>: its[b].clone_from(&its[a]) — afterwards b continues exactly where a is
                    let gt = tok.find('>').unwrap();
                    let a: usize = tok[1..gt].parse().unwrap(); let b: usize = tok[gt + 1..].parse().unwrap();
                    let src = its[a].clone();
                    Clone::clone_from(&mut its[b], &src);
                    continue;
                }
                let ci = tok.find(':').unwrap();
                let slot: usize = tok[..ci].parse().unwrap();
                let op = &tok[ci + 1..];
                if b"KZGDRE".contains(&op.as_bytes()[0]) {
                    // std methods a generator could override, on a CLONE of the slot (the clone takes the next slot number, as in the model)
                    let cl = its[slot].clone();
                    its.push(cl.clone());
                    let total = %(n)d + 1;
                    let pad = |mut v: Vec<String>| { while v.len() < total { v.push("none".to_string()); } v.join(";") };
                    let r = catch_mut(|| match op.as_bytes()[0] {
                        b'K' => format!("len={}", cl.count()),
                        b'Z' => item_obs(cl.last(), vidx),
                        b'G' => pad(cl.map(|e| format!("v{}", vidx(&e))).collect::<Vec<String>>()),
                        b'D' => pad(cl.fold(Vec::new(), |mut v, e| { v.push(format!("v{}", vidx(&e))); v })),
                        b'R' => pad(cl.rev().map(|e| format!("v{}", vidx(&e))).collect::<Vec<String>>()),
                        _ => pad(cl.rfold(Vec::new(), |mut v, e| { v.push(format!("v{}", vidx(&e))); v })),
                    });
                    out.push(r);
                    continue;
                }
                let it = &mut its[slot];
                let r = catch_mut(|| match op.as_bytes()[0] {
                    b'n' => item_obs(it.next(), vidx),
                    b'b' => item_obs(it.next_back(), vidx),
                    b't' => { let n: usize = op[1..].parse().unwrap(); item_obs(it.nth(n), vidx) }
                    b'u' => { let n: usize = op[1..].parse().unwrap(); item_obs(it.nth_back(n), vidx) }
                    b'l' => format!("len={}", it.len()),
                    b'K' | b'Z' | b'G' | b'D' | b'R' | b'E' => "HARNESS-CLONE-OP".to_string(),
                    b'h' => { let (a, b) = it.size_hint(); format!("hint={},{}", a, match b { Some(x) => x.to_string(), None => "none".to_string() }) }
                    _ => "HARNESS-BAD-OP".to_string(),
                });
                out.push(r);
            }
            out.join(";")
        ''' % {"sp": strum_path, "ty": ty, "ity": iter_ty, "n": sum(1 for v in it.variants if not v.has("disabled"))}
        arms["ctor"] = '''
            use %(sp)s::IntoEnumIterator;
            // a payload whose Default PANICS (hp.rs `Boom`): the values in front of that variant are still produced, one by one
            let mut i = <%(ty)s as IntoEnumIterator>::iter();
            let mut out: Vec<String> = Vec::new();
            for _ in 0..64 {
                let r = catch_mut(|| match args[0] { "front" => item_obs(i.next(), vidx), _ => item_obs(i.next_back(), vidx) });
                let stop = r == "panic" || r == "none";
                out.push(r);
                if stop { break; }
            }
            out.join(";")
        ''' % {"sp": strum_path, "ty": ty}
        arms["adapt"] = '''
            use %(sp)s::IntoEnumIterator;
            let ci = args[0].find(':').unwrap_or(args[0].len());
            let name = &args[0][..ci];
            let n: usize = if ci < args[0].len() { args[0][ci + 1..].parse().unwrap() } else { 0 };
            catch_mut(|| {
                let v: Vec<String> = match name {
                    "skip" => <%(ty)s>::iter().skip(n).map(|e| format!("v{}", vidx(&e))).collect(),
                    "stepby" => <%(ty)s>::iter().step_by(n).map(|e| format!("v{}", vidx(&e))).collect(),
                    "rev" => <%(ty)s>::iter().rev().map(|e| format!("v{}", vidx(&e))).collect(),
                    "skiprev" => <%(ty)s>::iter().skip(n).rev().map(|e| format!("v{}", vidx(&e))).collect(),
                    "cycle" => <%(ty)s>::iter().cycle().take(n).map(|e| format!("v{}", vidx(&e))).collect(),
                    "count" => vec![format!("{}", <%(ty)s>::iter().count())],
                    "last" => vec![item_obs(<%(ty)s>::iter().last(), vidx)],
                    "take" => <%(ty)s>::iter().take(n).map(|e| format!("v{}", vidx(&e))).collect(),
                    _ => vec!["HARNESS-BAD-ADAPTER".to_string()],
                };
                format!("[{}]", v.join(";"))
            })
        ''' % {"sp": strum_path, "ty": ty}
    if "EnumCount" in derives:
        arms["count"] = 'format!("{}", <%s as %s::EnumCount>::COUNT)' % (ty, strum_path)
    if "VariantNames" in derives or "EnumVariantNames" in derives:       # (EnumVariantNames: the deprecated spelling of the same derive)
        arms["names"] = '''
            let v: Vec<String> = <%s as %s::VariantNames>::VARIANTS.iter().map(|s| xs(s)).collect();
            format!("[{}]", v.join(";"))
        ''' % (ty, strum_path)
    if "VariantArray" in derives:
        arms["array"] = '''
            let v: Vec<String> = <%s as %s::VariantArray>::VARIANTS.iter().map(|e| format!("v{}", vidx(e))).collect();
            format!("[{}]", v.join(";"))
        ''' % (ty, strum_path)
    if "EnumTable" in derives:
        en = meta["enabled"]       # indices of the enabled variants (the harness's own reading of the definition)
        nslots = len(en)
        tname = it.ident + "Table"
        src.append("pub fn var(i: usize) -> %s { match i { %s _ => panic!(\"harness: no variant\") } }" % (
            ty, " ".join("%d => %s::%s," % (i, it.ident, v.ident) for i, v in enumerate(it.variants))))
        src.append("pub fn slotpos(e: &%s) -> usize { match e { %s _ => usize::MAX } }" % (
            ty, " ".join("%s::%s => %d," % (it.ident, it.variants[i].ident, p) for p, i in enumerate(en))))
        if not it.cparams and not it.tparams:
            arms["ctor"] = '''
                // Default::default() of the table: one INDEPENDENT default value per slot (no slot shares its value with another one), for
                // every value type that is Default (Clone not required)
                let t: %(tn)s<std::rc::Rc<std::cell::Cell<i64>>> = Default::default();
                let counts: Vec<String> = vec![%(en)s].into_iter().map(|i| format!("{}", std::rc::Rc::strong_count(&t[var(i)]))).collect();
                let a: %(tn)s<std::sync::atomic::AtomicUsize> = Default::default();
                let zeros: Vec<String> = vec![%(en)s].into_iter().map(|i| format!("{}", a[var(i)].load(std::sync::atomic::Ordering::SeqCst))).collect();
                format!("rc=[{}]|atomic=[{}]", counts.join(";"), zeros.join(";"))
            ''' % {"tn": tname, "en": ", ".join("%dusize" % i for i in en)}
        dump = "format!(\"[{}]\", vec![%s].join(\",\"))" % ", ".join(
            "t[%s::%s].to_string()" % (it.ident, it.variants[i].ident) for i in en)
        arms["table"] = '''
            let ctor = args[0];
            let made = std::panic::catch_unwind(|| -> %(tn)s<i64> { if ctor.starts_with("new:") {
                let v: Vec<i64> = ctor[4..].split(',').map(|x| x.parse().unwrap()).collect();
                %(tn)s::new(%(newargs)s)
            } else if ctor.starts_with("filled:") {
                %(tn)s::filled(ctor[7..].parse().unwrap())
            } else { %(tn)s::from_closure(|e| 10 * (vidx(&e) as i64) + 1) } });
            let mut t = match made { Ok(t) => t, Err(_) => return "panic-in-constructor".to_string() };
            let mut out: Vec<String> = Vec::new();
            for op in &args[1..] {
                let r = catch_mut(|| match op.as_bytes()[0] {
                    b'r' => { let i: usize = op[1..].parse().unwrap(); catch_mut(|| t[var(i)].to_string()) }
                    b'w' => { let mut p = op[1..].split('='); let i: usize = p.next().unwrap().parse().unwrap(); let x: i64 = p.next().unwrap().parse().unwrap();
                              catch_mut(|| { t[var(i)] = x; "ok".to_string() }) }
                    b'T' => { t = t.transform(|e, x| *x * 100 + vidx(&e) as i64); "t".to_string() }
                    b'D' => { %(dump)s }
                    b'A' => { let mask: usize = op[1..].parse().unwrap();
                              let o = t.transform(|e, x| if (mask >> slotpos(&e)) & 1 == 1 { None } else { Some(*x) });
                              match o.all() { Some(t) => format!("some{}", %(dump)s), None => "none".to_string() } }
                    b'O' => { let mask: usize = op[1..].parse().unwrap();
                              let o = t.transform(|e, x| if (mask >> slotpos(&e)) & 1 == 1 { Err::<i64, usize>(slotpos(&e)) } else { Ok(*x) });
                              match o.all_ok() { Ok(t) => format!("ok{}", %(dump)s), Err(p) => format!("err{}", p) } }
                    _ => "HARNESS-BAD-OP".to_string(),
                });
                out.push(r);
            }
            out.join(";")
        ''' % {"tn": tname, "newargs": ", ".join("v[%d]" % p for p in range(nslots)), "dump": dump}
    if "EnumIs" in derives:
        names = meta["is_names"]     # [(method name, ...)] expected to exist: supplied by the model through classify
        body = ", ".join('format!("%s={}", if v.%s() { 1 } else { 0 })' % (n, n) for n in names)
        # methods that must NOT exist (disabled variants): an inherent method would take precedence over this fallback trait
        absent = list(meta.get("absent_is", []))
        if absent:
            src.append("thread_local! { static FALLBACK_IS: std::cell::Cell<u32> = std::cell::Cell::new(0); }")
            src.append("pub trait FallbackIs { %s }" % " ".join(
                "fn %s(&self) -> bool { FALLBACK_IS.with(|c| c.set(c.get() + 1)); false }" % n for n in absent))
            src.append("impl%s FallbackIs for %s {}" % (("<%s>" % ", ".join(["'l%d" % q for q in range(it.lifetimes)])) if it.lifetimes else "",
                                                      RR.inst(it) if not it.lifetimes else it.ident + "<%s>" % ", ".join(["'l%d" % q for q in range(it.lifetimes)] + ["u8"] * it.tparams)))
        absent_body = " ".join("let _ = v.%s();" % n for n in absent)
        arms["is"] = '''
            let j: usize = args[0].parse().unwrap();
            let v = val(j);
            let parts: Vec<String> = vec![%s];
            %s
            format!("[{}]%s", parts.join(";")%s)
        ''' % (body,
               ("FALLBACK_IS.with(|c| c.set(0)); " + absent_body + " let used = FALLBACK_IS.with(|c| c.get());") if absent else "",
               "|absent={}/%d" % len(absent) if absent else "", ", used" if absent else "")
    if "EnumTryAs" in derives:
        # [(base name, variant index)] for enabled tuple variants, supplied by the model
        parts = []
        for base, vi in meta["tryas_names"]:
            v = it.variants[vi]
            nf = len(v.fields)
            if nf == 0:
                show = 'Some(_) => "some()".to_string()'
                show_ref = show
                show_mut = show
            elif nf == 1:
                show = 'Some(a) => format!("some({})", FObs::fobs(&a))'
                show_ref = 'Some(a) => format!("some({})", FObs::fobs(a))'
                show_mut = 'Some(a) => format!("some({})", FObs::fobs(&*a))'
            else:
                bs = ["a%d" % q for q in range(nf)]
                show = 'Some((%s)) => format!("some(%s)", %s)' % (", ".join(bs), ",".join("{}" for _ in bs), ", ".join("FObs::fobs(&%s)" % b for b in bs))
                show_ref = 'Some((%s)) => format!("some(%s)", %s)' % (", ".join(bs), ",".join("{}" for _ in bs), ", ".join("FObs::fobs(%s)" % b for b in bs))
                show_mut = 'Some((%s)) => format!("some(%s)", %s)' % (", ".join(bs), ",".join("{}" for _ in bs), ", ".join("FObs::fobs(&*%s)" % b for b in bs))
            # _mut: overwrite the first field with its sample value through the reference, then re-read the whole value
            if nf >= 1:
                first = v.fields[0]
                newv = meta.get("mut_value", {}).get(first.ty, RR.SAMPLE[first.ty][0])
                if nf == 1:
                    mutw = 'if let Some(a) = m.%s_mut() { *a = %s; }' % (base, newv)
                else:
                    mutw = 'if let Some((a0, %s)) = m.%s_mut() { *a0 = %s; }' % (", ".join("_" for _ in range(nf - 1)), base, newv)
            else:
                mutw = 'let _ = m.%s_mut();' % base
            parts.append('''{
                let a = match val(j).%(b)s() { %(show)s, None => "none".to_string() };
                let vr = val(j);
                let r = match vr.%(b)s_ref() { %(show_ref)s, None => "none".to_string() };
                let mut m = val(j);
                let mm = match m.%(b)s_mut() { %(show_mut)s, None => "none".to_string() };
                %(mutw)s
                format!("%(b)s={}/{}/{}/{}", a, r, mm, vobs(&m))
            }''' % {"b": base, "show": show, "show_ref": show_ref, "show_mut": show_mut, "mutw": mutw})
        # methods that must NOT exist (disabled or non-tuple variants): probed through a fallback trait, as for EnumIs
        absent_t = list(meta.get("absent_tryas", []))
        absent_call = ""
        if absent_t:
            src.append("thread_local! { static FALLBACK_TA: std::cell::Cell<u32> = std::cell::Cell::new(0); }")
            src.append("pub trait FallbackTryAs { %s }" % " ".join(
                "fn %s_ref(&self) -> Option<()> { FALLBACK_TA.with(|c| c.set(c.get() + 1)); None }" % n for n in absent_t))
            src.append("impl%s FallbackTryAs for %s {}" % (("<%s>" % ", ".join(["'l%d" % q for q in range(it.lifetimes)])) if it.lifetimes else "",
                                                         RR.inst(it) if not it.lifetimes else it.ident + "<%s>" % ", ".join(["'l%d" % q for q in range(it.lifetimes)] + ["u8"] * it.tparams)))
            absent_call = "FALLBACK_TA.with(|c| c.set(0)); { let pv = val(j); %s } parts.push(format!(\"absent={}/%d\", FALLBACK_TA.with(|c| c.get())));" % (
                " ".join("let _ = pv.%s_ref();" % n for n in absent_t), len(absent_t))
        arms["tryas"] = '''
            let j: usize = args[0].parse().unwrap();
            let jm: usize = args[2].parse().unwrap();
            let mut parts: Vec<String> = vec![format!("self={}", vobs(&val(j))), format!("mut={}", vobs(&val(jm)))];
            ABSENT_CALL
            let more: Vec<String> = vec![%s];
            parts.extend(more);
            format!("[{}]", parts.join(";"))
        '''.replace("ABSENT_CALL", absent_call) % ", ".join(parts)
    if "EnumMessage" in derives:
        ns = bool(getattr(it, "namesakes", False))
        T = "<%s as %s::EnumMessage>" % (ty, strum_path)
        arms["msg"] = '''
            let j: usize = args[0].parse().unwrap();
            let v = val(j);
            let o = |x: Option<&'static str>| match x { Some(s) => format!("some:{}", xs(s)), None => "none".to_string() };
            // path calls on the TRAIT (an inherent method of the same name on the user's enum must not matter)
            let ser: Vec<String> = %(T)s::get_serializations(&v).iter().map(|s| xs(s)).collect();
            let direct = format!("m={}|d={}|doc={}|ser=[{}]", o(%(T)s::get_message(&v)), o(%(T)s::get_detailed_message(&v)), o(%(T)s::get_documentation(&v)), ser.join(";"));
            %(recv)s
        ''' % {"T": T, "recv": "direct" if ns else '''
            // the same getters through other receivers (method resolution may pick another impl): &&E, Box<E>
            use %s::EnumMessage;
            let rr = &&v;
            let ser2: Vec<String> = rr.get_serializations().iter().map(|s| xs(s)).collect();
            let via_ref = format!("m={}|d={}|doc={}|ser=[{}]", o(rr.get_message()), o(rr.get_detailed_message()), o(rr.get_documentation()), ser2.join(";"));
            let bx = Box::new(val(j));
            let ser3: Vec<String> = bx.get_serializations().iter().map(|s| xs(s)).collect();
            let via_box = format!("m={}|d={}|doc={}|ser=[{}]", o(bx.get_message()), o(bx.get_detailed_message()), o(bx.get_documentation()), ser3.join(";"));
            if via_ref != direct || via_box != direct { format!("RECEIVER-MISMATCH direct={} via&&={} viaBox={}", direct, via_ref, via_box) } else { direct }''' % strum_path}
        if ns:
            # the user's OWN inherent methods with the names of the trait's methods: generated code that calls `self.get_message()` picks these
            src.append('''impl %s {
    pub fn get_message(&self) -> Option<&'static str> { Some("(inherent)") }
    pub fn get_detailed_message(&self) -> Option<&'static str> { Some("(inherent detail)") }
    pub fn get_documentation(&self) -> Option<&'static str> { Some("(inherent doc)") }
    pub fn get_serializations(&self) -> &'static [&'static str] { &["(inherent)"] }
}''' % ty)
    if "EnumProperty" in derives:
        ns = bool(getattr(it, "namesakes", False))
        T = "<%s as %s::EnumProperty>" % (ty, strum_path)
        arms["prop"] = '''
            let j: usize = args[0].parse().unwrap();
            let key = unhex_str(args[2]);
            let v = val(j);
            let fs = |x: Option<&'static str>| match x { Some(s) => format!("some:{}", xs(s)), None => "none".to_string() };
            let fi = |x: Option<i64>| match x { Some(n) => format!("some:{}", n), None => "none".to_string() };
            let fb = |x: Option<bool>| match x { Some(b) => format!("some:{}", if b { 1 } else { 0 }), None => "none".to_string() };
            let direct = format!("s={}|i={}|b={}", fs(%(T)s::get_str(&v, &key)), fi(%(T)s::get_int(&v, &key)), fb(%(T)s::get_bool(&v, &key)));
            %(recv)s
        ''' % {"T": T, "recv": "direct" if ns else '''
            // the same getters through other receivers (method resolution may pick another impl): &&E, Box<E>, &mut E
            use %s::EnumProperty;
            let rr = &&v;
            let via_ref = format!("s={}|i={}|b={}", fs(rr.get_str(&key)), fi(rr.get_int(&key)), fb(rr.get_bool(&key)));
            let mut w = val(j);
            let rm = &mut w;
            let via_mut = format!("s={}|i={}|b={}", fs(rm.get_str(&key)), fi(rm.get_int(&key)), fb(rm.get_bool(&key)));
            let bx = Box::new(val(j));
            let via_box = format!("s={}|i={}|b={}", fs(bx.get_str(&key)), fi(bx.get_int(&key)), fb(bx.get_bool(&key)));
            if via_ref != direct || via_mut != direct || via_box != direct { format!("RECEIVER-MISMATCH direct={} via&&={} via&mut={} viaBox={}", direct, via_ref, via_mut, via_box) } else { direct }''' % strum_path}
        if ns:
            src.append('''impl %s {
    pub fn get_str(&self, _k: &str) -> Option<&'static str> { Some("(inherent)") }
    pub fn get_int(&self, _k: &str) -> Option<i64> { Some(-1) }
    pub fn get_bool(&self, _k: &str) -> Option<bool> { Some(true) }
}''' % ty)
    if meta.get("extra_src"):
        src.append(meta["extra_src"])
    for kk, body in (meta.get("extra_arms") or {}).items():
        arms[kk] = body
    src.append(RR.query_fn(arms))
    return "\n".join(src)
