"""Build / run plumbing shared by all checks: Coq build + audit, corpus crates (real derives from
/repo's working tree), the extracted model, diffing, evidence and violation reports."""
import hashlib
import json
import os
import re
import shutil
import subprocess
import sys
import time
from concurrent.futures import ThreadPoolExecutor

VERIF = os.path.dirname(os.path.dirname(os.path.dirname(os.path.abspath(__file__))))
REPO = os.environ.get("VERIF_REPO", "/repo")
WORK = os.environ.get("VERIF_WORK", os.path.join(VERIF, "work"))
COQ = os.path.join(VERIF, "coq")
EXTRACT = os.path.join(VERIF, "extract")
TARGET = os.path.join(WORK, "target")
REPLAYS = os.environ.get("VERIF_REPLAYS", os.path.join(VERIF, "replays"))
# a development run that skips the Coq build must never overwrite the committed evidence (it would record 0 obligations)
_DEV = os.environ.get("VERIF_DEV_SKIP_COQ", "0") not in ("", "0")
EVIDENCE = os.environ.get("VERIF_EVIDENCE", os.path.join(VERIF, "work", "dev_evidence") if _DEV else os.path.join(VERIF, "evidence"))

ENV = dict(os.environ)
ENV.update({"CARGO_NET_OFFLINE": "true", "CARGO_TARGET_DIR": TARGET, "CARGO_TERM_COLOR": "never",
            "RUSTFLAGS": os.environ.get("VERIF_RUSTFLAGS", "--cfg peternator7_strum_verif -Awarnings"),
            "CARGO_INCREMENTAL": "0"})

T0 = time.time()


def lockfile():
    """the repository's Cargo.lock (untracked in git: a scratch worktree has none, fall back to /repo's)"""
    p = os.path.join(REPO, "Cargo.lock")
    return p if os.path.exists(p) else "/repo/Cargo.lock"

TRUSTED_BASE = [
    "Coq 8.16.1 kernel (coqc), including its VM for vm_compute in reflection lemmas; no native_compute",
    "axioms: none (Print Assumptions of every property theorem is re-run on each check and must be 'Closed under the global context')",
    "extraction plugin with ExtrOcamlBasic only (bool, option, unit, list, prod, sumbool, sumor mapped to OCaml types; andb/orb inlined); no Extract Constant/Inductive of our own; OCaml 4.13.1; extract/driver.ml (corpus parser, printing)",
    "hand-written Gallina model of strum_macros (coq/Model/*.v) tied to /repo by this run's differential correspondence; corpus generators, Rust renderer and observers (tools/), cargo/rustc",
    "modelled not verified: syn attribute parsing, quote! assembly, generics/where-clauses/trait dispatch (decided by rustc on the corpus), Rust match semantics, phf, core::fmt",
    "names of NON-ASCII identifiers: Model/HeckU.v (heck and convert_case over scalar values, parametric in the character database; theorems C07u_*, C13u_*) instantiated with a finite table printed by Rust's own char::is_lowercase / is_uppercase / is_alphanumeric / to_lowercase / to_uppercase (harness/genprobe `chartab`: std's Unicode tables are trusted); identifiers containing U+03A3 (context-dependent final sigma) are outside that model and decided by a Rust reference written on heck 0.5.0 (`mod reference`), a Rust-vs-Rust differential; either way the name is carried through the rest of the model as a declared spelling",
]


def log(*a):
    print("[%6.1fs]" % (time.time() - T0), *a, file=sys.stderr, flush=True)


def sh(cmd, cwd=None, timeout=3600, env=None, check=False, input=None):
    r = subprocess.run(cmd, cwd=cwd, env=env or ENV, timeout=timeout, stdout=subprocess.PIPE,
                       stderr=subprocess.PIPE, text=True, input=input, shell=isinstance(cmd, str))
    if check and r.returncode != 0:
        raise RuntimeError("command failed: %s\n%s\n%s" % (cmd, r.stdout[-4000:], r.stderr[-4000:]))
    return r


# ------------------------------------------------------------------------------------------
# Coq side
# ------------------------------------------------------------------------------------------
FORBIDDEN = re.compile(r"\b(Admitted|admit|Axiom|Axioms|Parameter|Parameters|Conjecture|Hypothesis|Variable|Variables|Hypotheses)\b|Unset\s+Guard|bypass_check|type-in-type|impredicative-set|Admit\s+Obligations|Unset\s+Universe|Unset\s+Positivity")
ALLOWED_AXIOMS = set()   # names of standard-library axioms a theorem may depend on (none needed so far)


def strip_comments(src: str) -> str:
    out, depth, i = [], 0, 0
    while i < len(src):
        if src.startswith("(*", i):
            depth += 1
            i += 2
        elif src.startswith("*)", i) and depth > 0:
            depth -= 1
            i += 2
        else:
            if depth == 0:
                out.append(src[i])
            i += 1
    return "".join(out)


def coq_sources():
    res = []
    for root, _, files in os.walk(COQ):
        for f in files:
            if f.endswith(".v"):
                res.append(os.path.join(root, f))
    return sorted(res)


def audit_sources():
    """no Admitted/admit/Axiom/Parameter/... anywhere; Variable/Hypothesis only inside a Section"""
    problems = []
    for p in coq_sources():
        src = strip_comments(open(p).read())
        # strip string literals
        src_ns = re.sub(r'"[^"]*"', '""', src)
        depth = 0
        for ln, line in enumerate(src_ns.split("\n"), 1):
            if re.match(r"\s*Section\b", line):
                depth += 1
            if re.match(r"\s*End\b", line) and depth > 0:
                depth -= 1
            for m in FORBIDDEN.finditer(line):
                w = m.group(0)
                if w.split()[0] in ("Variable", "Variables", "Hypothesis", "Hypotheses") and depth > 0:
                    continue
                problems.append("%s:%d: %s" % (os.path.relpath(p, VERIF), ln, w))
    return problems


def coq_deps(vfile: str):
    """transitive closure of `Require ... Strum.X.Y` imports of a .v file (paths relative to coq/)"""
    seen, todo = [], [vfile]
    while todo:
        f = todo.pop()
        if f in seen:
            continue
        seen.append(f)
        src = strip_comments(open(os.path.join(COQ, f)).read())
        for line in src.split("\n"):
            if "Require" not in line and not line.lstrip().startswith("Strum."):
                continue
            for m in re.finditer(r"\bStrum((?:\.[A-Za-z_]\w*)+)", line):
                todo.append(m.group(1)[1:].replace(".", "/") + ".v")
    return seen


def count_obligations(vfiles):
    n = 0
    names = []
    for f in vfiles:
        src = strip_comments(open(os.path.join(COQ, f)).read())
        for m in re.finditer(r"^\s*(?:Local\s+|Global\s+)?(Theorem|Lemma|Corollary|Example|Fact|Remark|Proposition)\s+([\w']+)", src, re.M):
            n += 1
            names.append(m.group(2))
    return n, names


def coq_build(prop_file: str, theorems, timeout=1500):
    """make Props/<file>.vo + Extract.vo; then re-run Print Assumptions on the theorems in a scratch file.
    Returns dict(ok, problems, obligations, discharged, assumptions, log)."""
    res = {"ok": True, "problems": [], "log": ""}
    if not os.path.exists(os.path.join(COQ, "Makefile")):
        r = sh("coq_makefile -f _CoqProject -o Makefile", cwd=COQ)
        if r.returncode != 0:
            res["ok"] = False
            res["problems"].append("coq_makefile failed: " + r.stderr[-500:])
            return res
    vo = prop_file[:-2] + ".vo"
    r = sh("timeout %d make -j16 %s Extract.vo" % (timeout, vo), cwd=COQ, timeout=timeout + 60)
    res["log"] = (r.stdout + r.stderr)[-6000:]
    if r.returncode != 0:
        res["ok"] = False
        res["problems"].append("make %s failed:\n%s" % (vo, res["log"][-1500:]))
    src_problems = audit_sources()
    if src_problems:
        res["ok"] = False
        res["problems"].append("forbidden constructs: " + "; ".join(src_problems[:10]))
    deps = coq_deps(prop_file)
    res["obligations"], res["obligation_names"] = count_obligations(deps)
    res["discharged"] = res["obligations"] if r.returncode == 0 else 0
    res["dep_files"] = deps
    # assumption audit, re-run every time against the compiled files
    res["assumptions"] = {}
    if r.returncode == 0 and theorems:
        os.makedirs(WORK, exist_ok=True)
        mod = "Strum." + prop_file[:-2].replace("/", ".")
        audit = os.path.join(WORK, "Audit_%s.v" % os.path.basename(prop_file)[:-2])
        with open(audit, "w") as f:
            f.write("Require Import %s.\n" % mod)
            for t in theorems:
                f.write('Goal True. idtac "@@ %s". Abort.\nPrint Assumptions %s.\n' % (t, t))
        ra = sh(["coqc", "-Q", COQ, "Strum", audit], cwd=WORK, timeout=600)
        out = ra.stdout + ra.stderr
        if ra.returncode != 0:
            res["ok"] = False
            res["problems"].append("assumption audit failed to compile (theorem missing?):\n" + out[-1500:])
        else:
            chunks = out.split("@@ ")[1:]
            for ch in chunks:
                name, _, body = ch.partition("\n")
                body = body.strip()
                closed = body.startswith("Closed under the global context")
                axioms = [] if closed else re.findall(r"^([\w.']+)\s*:", body, re.M)
                res["assumptions"][name.strip()] = "closed" if closed else axioms
                bad = [a for a in axioms if a not in ALLOWED_AXIOMS]
                if bad:
                    res["ok"] = False
                    res["problems"].append("theorem %s depends on axioms %s" % (name.strip(), bad))
            missing = [t for t in theorems if t not in res["assumptions"]]
            if missing:
                res["ok"] = False
                res["problems"].append("no assumption report for " + ", ".join(missing))
        for ext in (".v", ".vo", ".glob", ".vok", ".vos"):
            try:
                os.remove(audit[:-2] + ext)
            except OSError:
                pass
    return res


def coqchk(prop_file: str, timeout=1500):
    """thorough tier: re-check the compiled property module and everything it depends on with Coq's independent checker"""
    mod = "Strum." + prop_file[:-2].replace("/", ".")
    r = sh(["timeout", str(timeout), "coqchk", "-o", "-silent", "-Q", COQ, "Strum", mod], cwd=COQ, timeout=timeout + 60)
    out = r.stdout + r.stderr
    res = {"ran": True, "rc": r.returncode, "axioms": None}
    m = re.search(r"\* Axioms:\s*(.*?)\n\s*\n", out, re.S)
    if m:
        res["axioms"] = m.group(1).strip()
    for key, pat in (("type_in_type", r"type-in-type:\s*(\S.*)"), ("unsafe_fixpoints", r"unsafe \(co\)fixpoints:\s*(\S.*)"),
                     ("assumed_positivity", r"positivity is assumed:\s*(\S.*)")):
        mm = re.search(pat, out)
        res[key] = mm.group(1).strip() if mm else None
    res["ok"] = r.returncode == 0 and res["axioms"] == "<none>" and all(res[k] == "<none>" for k in ("type_in_type", "unsafe_fixpoints", "assumed_positivity"))
    return res


def ensure_model_driver():
    r = sh("make", cwd=EXTRACT, timeout=600)
    if r.returncode != 0:
        raise RuntimeError("building the extracted model failed:\n" + r.stdout[-2000:] + r.stderr[-2000:])
    return os.path.join(EXTRACT, "modelrun")


def run_model(corpus_path: str, extra_args=()):
    binp = ensure_model_driver()
    r = sh([binp, corpus_path] + list(extra_args), timeout=3600)
    if r.returncode != 0:
        raise RuntimeError("model run failed: " + r.stderr[-2000:])
    return parse_obs(r.stdout)


def parse_obs(text: str):
    out = {}
    for line in text.split("\n"):
        if "\t" in line:
            n, _, obs = line.partition("\t")
            try:
                out[int(n)] = obs
            except ValueError:
                pass
    return out


# ------------------------------------------------------------------------------------------
# Rust side
# ------------------------------------------------------------------------------------------
def repo_hash() -> str:
    h = hashlib.sha256()
    for sub in ("strum", "strum_macros"):
        for root, dirs, files in os.walk(os.path.join(REPO, sub)):
            dirs[:] = sorted(d for d in dirs if d != "target")
            for f in sorted(files):
                p = os.path.join(root, f)
                h.update(p.encode())
                with open(p, "rb") as fh:
                    h.update(fh.read())
    return h.hexdigest()[:16]


PRELUDE = r'''
#![allow(dead_code, unused_imports, unused_variables, unused_mut, non_camel_case_types, non_snake_case, unreachable_patterns, unused_parens, clippy::all)]
pub fn unhex(s: &str) -> Vec<u8> {
    let b = s.as_bytes();
    assert!(!b.is_empty() && b[0] == b'x', "expected x<hex>: {}", s);
    let h = |c: u8| -> u8 { match c { b'0'..=b'9' => c - b'0', b'a'..=b'f' => c - b'a' + 10, b'A'..=b'F' => c - b'A' + 10, _ => panic!("bad hex") } };
    let mut out = Vec::with_capacity(b.len() / 2);
    let mut i = 1;
    while i + 1 < b.len() { out.push(h(b[i]) * 16 + h(b[i + 1])); i += 2; }
    out
}
pub fn unhex_str(s: &str) -> String { String::from_utf8(unhex(s)).expect("corpus strings are valid UTF-8") }
pub fn hex(b: &[u8]) -> String {
    let mut s = String::with_capacity(2 * b.len() + 1);
    s.push('x');
    for x in b { s.push_str(&format!("{:02x}", x)); }
    s
}
/// observation of one payload field: `s:<hex>` for string-like fields; otherwise `d` when it equals
/// Default::default(), `w:<fn>` when it equals the value of a known default_with function, else
/// `h:<hex of Debug>`
pub fn fobs_str(x: &str) -> String { format!("s:{}", hex(x.as_bytes())) }
pub fn fobs<T: Default + PartialEq + std::fmt::Debug>(x: &T, dws: &[(&str, fn() -> T)]) -> String {
    for (name, f) in dws { if *x == f() { return format!("w:{}", name); } }
    if *x == T::default() { return "d".to_string(); }
    format!("h:{}", hex(format!("{:?}", x).as_bytes()))
}
pub trait FObs { fn fobs(&self) -> String; }
impl FObs for u8 { fn fobs(&self) -> String { fobs(self, &[("dw_u8", dw_u8 as fn() -> u8), ("dw_u8_b", dw_u8_b), ("dwm::dw_u8_path", dwm::dw_u8_path)]) } }
impl FObs for i32 { fn fobs(&self) -> String { fobs(self, &[("dw_i32", dw_i32 as fn() -> i32)]) } }
impl FObs for bool { fn fobs(&self) -> String { fobs(self, &[("dw_bool", dw_bool as fn() -> bool)]) } }
impl FObs for usize { fn fobs(&self) -> String { fobs(self, &[("dw_usize", dw_usize as fn() -> usize)]) } }
impl FObs for u16 { fn fobs(&self) -> String { fobs(self, &[]) } }
impl FObs for std::rc::Rc<u8> { fn fobs(&self) -> String { fobs(self, &[]) } }
impl FObs for std::cell::Cell<u8> { fn fobs(&self) -> String { fobs(self, &[]) } }
impl FObs for () { fn fobs(&self) -> String { "d".to_string() } }
impl FObs for [u8; 3] { fn fobs(&self) -> String { fobs(self, &[]) } }
impl FObs for (u8, bool) { fn fobs(&self) -> String { fobs(self, &[]) } }
impl FObs for i64 { fn fobs(&self) -> String { fobs(self, &[]) } }
impl FObs for char { fn fobs(&self) -> String { fobs(self, &[]) } }
impl<T: FObs + Default + PartialEq + std::fmt::Debug> FObs for Option<T> { fn fobs(&self) -> String { fobs(self, &[]) } }
impl FObs for String { fn fobs(&self) -> String { fobs_str(self) } }
impl FObs for &str { fn fobs(&self) -> String { fobs_str(self) } }
impl FObs for Box<str> { fn fobs(&self) -> String { fobs_str(self) } }
impl FObs for Wrap { fn fobs(&self) -> String { fobs_str(&self.0) } }
/// a user type with From<&str>, Display and AsRef<str> (inner type of default / transparent variants)
#[derive(Debug, Clone, PartialEq, Eq, Default, Hash)]
pub struct Wrap(pub String);
thread_local! { pub static CONVS: std::cell::Cell<usize> = std::cell::Cell::new(0); pub static TICKS: std::cell::Cell<usize> = std::cell::Cell::new(0); }
/// conversions from &str are COUNTED: a parser may convert the input only when it really builds the catch-all variant
impl<'a> From<&'a str> for Wrap { fn from(s: &'a str) -> Wrap { CONVS.with(|c| c.set(c.get() + 1)); Wrap(s.to_string()) } }
pub fn take_convs() -> usize { CONVS.with(|c| c.replace(0)) }
/// a GENERIC user type that is Display / AsRef<str> / From<&str> / Default / Clone / PartialEq / Debug for EVERY K (K only tags it): the inner type
/// of default / transparent variants of generic enums instantiated with a K that implements none of these (NoDef)
pub struct Id<K>(pub String, pub std::marker::PhantomData<K>);
impl<K> Default for Id<K> { fn default() -> Self { Id(String::new(), std::marker::PhantomData) } }
impl<K> Clone for Id<K> { fn clone(&self) -> Self { Id(self.0.clone(), std::marker::PhantomData) } }
impl<K> PartialEq for Id<K> { fn eq(&self, o: &Self) -> bool { self.0 == o.0 } }
impl<K> std::fmt::Debug for Id<K> { fn fmt(&self, f: &mut std::fmt::Formatter) -> std::fmt::Result { write!(f, "Id({:?})", self.0) } }
impl<K> std::fmt::Display for Id<K> { fn fmt(&self, f: &mut std::fmt::Formatter) -> std::fmt::Result { std::fmt::Display::fmt(&self.0, f) } }
impl<K> AsRef<str> for Id<K> { fn as_ref(&self) -> &str { &self.0 } }
impl<'a, K> From<&'a str> for Id<K> { fn from(s: &'a str) -> Self { Id(s.to_string(), std::marker::PhantomData) } }
impl<K> FObs for Id<K> { fn fobs(&self) -> String { fobs_str(&self.0) } }
/// a payload whose `Default` is OBSERVABLE (constructions are counted) and which also has an inherent `default()` that returns something
/// else: only `Default::default()` of the values actually returned may run, and it is the trait's
#[derive(Debug, Clone, PartialEq)]
pub struct Tick(pub u8);
impl Default for Tick { fn default() -> Tick { TICKS.with(|c| c.set(c.get() + 1)); Tick(0) } }
impl Tick { pub fn default() -> Tick { Tick(99) } }
pub fn take_ticks() -> usize { TICKS.with(|c| c.replace(0)) }
/// a type argument WITHOUT Default (and without Clone): generated impls may only ask of a type parameter what the payloads need
#[derive(Debug, PartialEq)]
pub struct NoDef;
impl<T> FObs for std::marker::PhantomData<T> { fn fobs(&self) -> String { "d".to_string() } }
/// a payload that has NO usable default (it panics): values of the variants before it can still be produced
#[derive(Debug, Clone, PartialEq)]
pub struct Boom;
impl Default for Boom { fn default() -> Boom { panic!("Boom has no default") } }
impl FObs for Boom { fn fobs(&self) -> String { "boom".to_string() } }
impl FObs for Tick { fn fobs(&self) -> String { if self.0 == 0 { "d".to_string() } else { format!("h:{}", hex(format!("{:?}", self).as_bytes())) } } }
impl std::fmt::Display for Wrap { fn fmt(&self, f: &mut std::fmt::Formatter) -> std::fmt::Result { std::fmt::Display::fmt(&self.0, f) } }
impl AsRef<str> for Wrap { fn as_ref(&self) -> &str { &self.0 } }
pub fn quiet_panics() { std::panic::set_hook(Box::new(|_| {})); }
pub fn catch<F: FnOnce() -> String + std::panic::UnwindSafe>(f: F) -> String {
    match std::panic::catch_unwind(f) { Ok(s) => s, Err(_) => "panic".to_string() }
}
// default_with functions available to corpus enums (distinct, non-default values)
pub fn dw_u8() -> u8 { 7 }
pub fn dw_u8_b() -> u8 { 9 }
pub fn dw_i32() -> i32 { -5 }
pub fn dw_bool() -> bool { true }
pub fn dw_string() -> String { "dw".to_string() }
pub fn dw_usize() -> usize { 11 }
pub mod dwm { pub fn dw_u8_path() -> u8 { 13 } }
'''

PRELUDE_EXTRA = []   # other modules append Rust source for hp.rs here

MAIN_TMPL = r'''
mod hp;
#[allow(unused_imports)]
use hp::*;
%(mods)s
fn dispatch(k: usize, kind: &str, args: &[&str]) -> Option<String> {
    match k {
%(arms)s
        _ => None,
    }
}
fn main() {
    quiet_panics();
    let path = std::env::args().nth(1).expect("corpus path");
    let text = std::fs::read_to_string(&path).expect("read corpus");
    use std::io::Write;
    let stdout = std::io::stdout();
    let mut so = stdout.lock();
    for line in text.lines() {
        if !line.starts_with("q ") { continue; }
        let parts: Vec<&str> = line.split(' ').collect();
        let n = parts[1];
        let k: usize = parts[2].parse().unwrap();
        let kind = parts[3];
        let args = &parts[4..];
        // one answer per line, written at once: when an observer does not terminate, the harness knows which query it was
        if let Some(obs) = dispatch(k, kind, args) {
            let mut out = String::with_capacity(n.len() + obs.len() + 2);
            out.push_str(n); out.push('\t'); out.push_str(&obs); out.push('\n');
            so.write_all(out.as_bytes()).unwrap();
        }
    }
    so.flush().unwrap();
}
'''


class CorpusCrate:
    """A cargo workspace of `nshards` binary crates; definition k lives in module m<k> of shard k % n."""

    def __init__(self, name, features=("derive",), nshards=8, extra_deps="", crate_attrs="", profile_release=False,
                 strum_dep=None):
        self.name = name
        self.features = features
        self.nshards = nshards
        self.extra_deps = extra_deps
        self.crate_attrs = crate_attrs
        self.release = profile_release
        self.mods = {}          # k -> rust source of module body
        self.root = os.path.join(WORK, "ws", name)
        self.strum_dep = strum_dep
        self.line_ranges = {}   # shard -> [(first, last, k)]
        self.failed = {}        # k -> rustc message
        self.stalled = set()    # shards whose binary was killed because an observer did not terminate

    def add(self, k: int, body: str):
        self.mods[k] = body

    def shard_of(self, k):
        return k % self.nshards

    def write(self):
        if os.path.exists(self.root):
            # keep Cargo.lock, rewrite everything else
            for e in os.listdir(self.root):
                p = os.path.join(self.root, e)
                if os.path.isdir(p):
                    shutil.rmtree(p)
        os.makedirs(self.root, exist_ok=True)
        shutil.copy(lockfile(), os.path.join(self.root, "Cargo.lock"))
        members = []
        for s in range(self.nshards):
            ks = sorted(k for k in self.mods if self.shard_of(k) == s and k not in self.failed)
            if not ks:
                continue
            members.append("s%d" % s)
            d = os.path.join(self.root, "s%d" % s, "src")
            os.makedirs(d, exist_ok=True)
            dep = self.strum_dep or 'strum = { path = "%s/strum", features = [%s] }' % (
                REPO, ", ".join('"%s"' % f for f in self.features))
            with open(os.path.join(self.root, "s%d" % s, "Cargo.toml"), "w") as f:
                f.write('[package]\nname = "%s_s%d"\nversion = "0.0.0"\nedition = "2021"\n\n[dependencies]\n%s\n%s\n' % (
                    self.name, s, dep, self.extra_deps))
            with open(os.path.join(d, "hp.rs"), "w") as f:
                f.write(PRELUDE + "\n".join(PRELUDE_EXTRA))
            mods_src, arms, ranges = [], [], []
            line = MAIN_TMPL[:MAIN_TMPL.index("%(mods)s")].count("\n") + 1 + self.crate_attrs.count("\n") + (1 if self.crate_attrs else 0)
            for k in ks:
                src = "pub mod m%d {\n#![allow(dead_code, unused_imports, unused_variables, unused_mut, non_camel_case_types, non_snake_case, unreachable_patterns, unused_parens, deprecated, arithmetic_overflow)]\nuse super::hp::*;\n%s\n}\n" % (k, self.mods[k])
                n = src.count("\n")
                ranges.append((line, line + n - 1, k))
                line += n
                mods_src.append(src)
                arms.append("        %d => Some(m%d::query(kind, args))," % (k, k))
            self.line_ranges[s] = ranges
            with open(os.path.join(d, "main.rs"), "w") as f:
                f.write((self.crate_attrs + "\n" if self.crate_attrs else "") +
                        MAIN_TMPL % {"mods": "".join(mods_src), "arms": "\n".join(arms)})
        with open(os.path.join(self.root, "Cargo.toml"), "w") as f:
            f.write('[workspace]\nmembers = [%s]\nresolver = "2"\n\n[profile.dev]\ndebug = 0\nincremental = false\n\n[profile.release]\ndebug = 0\nincremental = false\nopt-level = 1\ncodegen-units = 16\n' %
                    ", ".join('"%s"' % m for m in members))
        self.members = members

    def build(self, max_rounds=4, timeout=3000):
        """cargo build; definitions whose module fails to compile are removed (recorded in self.failed)
        and the build is repeated.  Returns True when a build finally succeeded."""
        for rnd in range(max_rounds):
            self.write()
            if not self.members:
                return True
            cmd = ["cargo", "build", "--offline", "--message-format=json"] + (["--release"] if self.release else [])
            t = time.time()
            r = sh(cmd, cwd=self.root, timeout=timeout)
            log("cargo build %s round %d: rc=%d %.1fs" % (self.name, rnd, r.returncode, time.time() - t))
            if r.returncode == 0:
                return True
            newly = {}
            other_errors = []
            for line in r.stdout.split("\n"):
                if not line.startswith("{"):
                    continue
                try:
                    m = json.loads(line)
                except ValueError:
                    continue
                if m.get("reason") != "compiler-message":
                    continue
                msg = m["message"]
                if msg.get("level") != "error":
                    continue
                shard = None
                mt = re.search(r"_s(\d+)", m.get("target", {}).get("name", ""))
                if mt:
                    shard = int(mt.group(1))
                attributed = False
                for sp in msg.get("spans", []):
                    if not sp.get("is_primary"):
                        continue
                    if shard is None or not sp["file_name"].endswith("main.rs"):
                        continue
                    for (a, b, k) in self.line_ranges.get(shard, []):
                        if a <= sp["line_start"] <= b:
                            newly.setdefault(k, msg.get("rendered") or msg.get("message"))
                            attributed = True
                if not attributed:
                    other_errors.append(msg.get("rendered") or msg.get("message"))
            if not newly:
                self.unattributed = other_errors or [r.stderr[-3000:]]
                return False
            self.failed.update(newly)
        return False

    def binaries(self):
        prof = "release" if self.release else "debug"
        return [os.path.join(TARGET, prof, "%s_%s" % (self.name, m)) for m in self.members]

    def run(self, corpus_path: str, timeout=int(os.environ.get("VERIF_OBSERVER_TIMEOUT", "3000"))):
        obs = {}
        died = []

        def one(b):
            # an observer that does not terminate (an iterator that never ends under `count()`, say) must not hang the check:
            # when no answer line arrives for `stall` seconds the binary is killed, the answers given so far are kept and the
            # unanswered queries become `no-answer` violations
            import tempfile, time
            stall = int(os.environ.get("VERIF_OBSERVER_STALL", "90"))
            with tempfile.TemporaryFile() as fo, tempfile.TemporaryFile() as fe:
                p = subprocess.Popen([b, corpus_path], stdout=fo, stderr=fe)
                t0 = time.time()
                last_size, last_change = 0, t0
                rc = None
                while True:
                    try:
                        rc = p.wait(timeout=1.0)
                        break
                    except subprocess.TimeoutExpired:
                        pass
                    sz = os.fstat(fo.fileno()).st_size
                    now = time.time()
                    if sz != last_size:
                        last_size, last_change = sz, now
                    if now - last_change > stall or now - t0 > timeout:
                        p.kill()
                        p.wait()
                        rc = "timeout: no answer for %ds (the query after the last answered one does not terminate)" % int(now - last_change)
                        break
                fo.seek(0)
                fe.seek(0)
                r = subprocess.CompletedProcess([b], rc, fo.read().decode("utf-8", "replace"), fe.read().decode("utf-8", "replace"))
            return b, r
        with ThreadPoolExecutor(max_workers=16) as ex:
            for b, r in ex.map(one, self.binaries()):
                obs.update(parse_obs(r.stdout))
                if r.returncode != 0:
                    died.append((b, r.returncode, r.stderr[-2000:]))
                    if isinstance(r.returncode, str):
                        self.stalled.add(int(os.path.basename(b).rsplit("_s", 1)[1]))
        return obs, died


GENPROBE_DIR = os.path.join(VERIF, "harness", "genprobe")


def real_expansion(ws_name, shards, release=False):
    """The REAL expansion of corpus crates of workspace `ws_name` (already built): `cargo rustc -- -Zunpretty=expanded` with
    RUSTC_BOOTSTRAP=1 on the stable toolchain, i.e. the real proc macros of /repo's working tree run by rustc in their real context.
    -> ({k: lines of module m<k>}, problems)"""
    env = dict(ENV)
    env["RUSTC_BOOTSTRAP"] = "1"
    root = os.path.join(WORK, "ws", ws_name)
    mods, problems = {}, []
    for s_ in shards:
        if not os.path.isdir(os.path.join(root, "s%d" % s_)):
            continue
        pkg = "%s_s%d" % (ws_name, s_)
        t = time.time()
        r = sh(["cargo", "rustc", "--offline", "-p", pkg, "--bin", pkg] + (["--release"] if release else []) + ["--", "-Zunpretty=expanded"],
               cwd=root, timeout=1200, env=env)
        log("expansion of %s: rc=%d %.1fs" % (pkg, r.returncode, time.time() - t))
        if r.returncode != 0:
            problems.append("%s: %s" % (pkg, r.stderr[-400:]))
            continue
        cur, k = None, None
        for line in r.stdout.split("\n"):
            if cur is None:
                m = re.match(r"^pub mod m(\d+) \{$", line)
                if m:
                    k, cur = int(m.group(1)), [line]
            else:
                cur.append(line)
                if line == "}":
                    mods[k] = cur
                    cur = None
    return mods, problems


def cut_impl(mod_lines, marker):
    """the text of the impl block (of an expanded module) that contains `marker`, or None"""
    for i, line in enumerate(mod_lines):
        if marker in line:
            j = i
            while j >= 0 and not re.match(r"^\s*(unsafe\s+)?impl\b", mod_lines[j]):
                j -= 1
            if j < 0:
                return None
            ind = re.match(r"^\s*", mod_lines[j]).group(0)
            for e in range(i, len(mod_lines)):
                if mod_lines[e] == ind + "}":
                    return "\n".join(mod_lines[j:e + 1])
            return None
    return None


_CONV = [(re.compile(r"'l0\b"), "'a"), (re.compile(r"'l1\b"), "'b"), (re.compile(r"\bG0\b"), "T"), (re.compile(r"\bG1\b"), "U"),
         (re.compile(r"\bN0\b"), "COUNT"), (re.compile(r"\bN1\b"), "N")]


def conventional_names(src: str) -> str:
    """the module of a `conventional_names` twin: the harness's parameter names replaced by 'a / 'b / T / U / COUNT / N throughout"""
    for rx, to in _CONV:
        src = rx.sub(to, src)
    return src


def build_genprobe():
    """the real generator sources of /repo's working tree compiled into a command-line probe"""
    src_dir = GENPROBE_DIR
    if REPO != "/repo":
        # a scratch copy of the probe crate whose #[path] attributes point at the tree under test
        src_dir = os.path.join(WORK, "genprobe_src")
        if os.path.exists(src_dir):
            shutil.rmtree(src_dir)
        shutil.copytree(GENPROBE_DIR, src_dir, ignore=shutil.ignore_patterns("target"))
        mp = os.path.join(src_dir, "src", "main.rs")
        with open(mp) as f:
            txt = f.read()
        with open(mp, "w") as f:
            f.write(txt.replace('"/repo/strum_macros/', '"%s/strum_macros/' % REPO))
    lock = os.path.join(src_dir, "Cargo.lock")
    if not os.path.exists(lock):
        shutil.copy(lockfile(), lock)
    t = time.time()
    r = sh(["cargo", "build", "--offline", "--release"], cwd=src_dir, timeout=1800)
    log("cargo build genprobe: rc=%d %.1fs" % (r.returncode, time.time() - t))
    if r.returncode != 0:
        return None, (r.stdout + r.stderr)[-3000:]
    return os.path.join(TARGET, "release", "genprobe"), None


def run_genprobe(binp, lines, workdir, shards=16):
    """lines: ['<cmd> <n> ...']; sharded over processes; -> {n: obs}"""
    os.makedirs(workdir, exist_ok=True)
    files = []
    for s in range(shards):
        part = lines[s::shards]
        if not part:
            continue
        fp = os.path.join(workdir, "probe_%d.txt" % s)
        with open(fp, "w") as f:
            f.write("\n".join(part) + "\n")
        files.append(fp)
    obs = {}
    died = []

    def one(fp):
        return fp, subprocess.run([binp, fp], stdout=subprocess.PIPE, stderr=subprocess.PIPE, text=True, timeout=3000)
    with ThreadPoolExecutor(max_workers=16) as ex:
        for fp, r in ex.map(one, files):
            obs.update(parse_obs(r.stdout))
            if r.returncode != 0:
                died.append((fp, r.returncode, r.stderr[-1000:]))
    return obs, died


# ------------------------------------------------------------------------------------------
# corpus files
# ------------------------------------------------------------------------------------------
class Corpus:
    def __init__(self, prop: str):
        self.prop = prop
        self.defs = {}       # k -> Item
        self.meta = {}       # k -> dict (generator notes: family, derives, ...)
        self.queries = []    # (n, k, kind, args list, note)
        self.dir = os.path.join(WORK, prop)
        os.makedirs(self.dir, exist_ok=True)
        self.path = os.path.join(self.dir, "corpus.txt")

    def add_def(self, item, **meta) -> int:
        k = len(self.defs)
        self.defs[k] = item
        self.meta[k] = meta
        return k

    def add_q(self, k: int, kind: str, args, note=None) -> int:
        n = len(self.queries)
        self.queries.append((n, k, kind, [str(a) for a in args], note))
        return n

    def add_conventional_name_twins(self, limit=6, max_queries=150):
        """Generic definitions of the corpus are repeated with the parameter names every Rust programmer writes — 'a, 'b, T, U, and const
        parameters called COUNT and N — instead of the harness's 'l0, G0, N0 (which nothing collides with): same model item, same expected
        observations.  Generated code that declares a lifetime / type / constant of its own under such a name (`fn try_as_x_ref<'a>`,
        `const COUNT: usize`) captures or shadows the user's parameter (round 15)."""
        import copy
        base = [k for k, it in self.defs.items() if (it.tparams or it.lifetimes or it.cparams) and it.variants and "twin" not in self.meta[k]
                and not self.meta[k].get("probe_only") and not self.meta[k].get("sibling") and not getattr(it, "via_macro", False)]
        if not base:
            return
        qs_of = {}
        for q in self.queries:
            qs_of.setdefault(q[1], []).append(q)
        # spread over the corpus, preferring one of each generic shape
        seen_shapes, chosen = set(), []
        for k in base:
            it = self.defs[k]
            shape = (bool(it.lifetimes), bool(it.tparams), bool(it.cparams), self.meta[k].get("family"))
            if shape not in seen_shapes:
                seen_shapes.add(shape)
                chosen.append(k)
        chosen = chosen[:limit]
        for k in chosen:
            it = copy.deepcopy(self.defs[k])
            it.conventional_names = True
            meta = dict(self.meta[k])
            meta["family"] = "conventional-names/" + str(meta.get("family"))
            fam = meta.pop("family")
            k2 = self.add_def(it, family=fam, **meta)
            for (n, _k, kind, args, note) in qs_of.get(k, [])[:max_queries]:
                self.add_q(k2, kind, list(args), note=note)

    def add_silent_derive_twins(self, limit=6, max_queries=150):
        """SEVERAL DERIVES ON ONE ENUM: a few definitions are repeated with every further strum derive that (a) the model accepts for that item
        and (b) asks nothing of the field types (EnumCount, EnumIs, EnumTryAs, VariantNames, EnumMessage, EnumProperty, EnumDiscriminants,
        AsRefStr, IntoStaticStr; VariantArray when no variant carries data) added to the derive list, WITHOUT observers of their own: same model item,
        same queries, same expected observations.  Helper items two expansions both emit under one name, a generated call that resolves to
        another derive's method, a derive that starts to rely on another one being present (or absent), expansion-order dependent state: the
        twin stops compiling or answers differently (round 16)."""
        import copy
        from . import gen as G
        SAFE = ["EnumCount", "EnumIs", "EnumTryAs", "VariantNames", "EnumMessage", "EnumProperty", "EnumDiscriminants", "AsRefStr", "IntoStaticStr", "VariantArray"]
        base = [k for k, it in self.defs.items()
                if it.kind == "enum" and it.variants and "twin" not in self.meta[k] and not self.meta[k].get("probe_only") and not self.meta[k].get("sibling")
                and not self.meta[k].get("shadow_prelude") and not getattr(it, "hostile", None) and not getattr(it, "via_macro", False)
                and not getattr(it, "conventional_names", False) and not getattr(it, "in_fn_body", False) and not getattr(it, "namesakes", False)
                and self.meta[k].get("derives") and not it.dmetas and it.ident == "E"
                and all(v.ident.isascii() and not v.ident.startswith("r#") for v in it.variants)]
        if not base:
            return
        # one per family, in corpus order
        seen, chosen = set(), []
        for k in base:
            fam = str(self.meta[k].get("family")).split("/")[0]
            if fam not in seen:
                seen.add(fam)
                chosen.append(k)
        chosen = chosen[:limit]
        try:
            ans = G.model_query(self.prop, [self.defs[k] for k in chosen], [("outcome", [d]) for d in SAFE] + [("is", ["allnames"])])
        except Exception:
            return
        qs_of = {}
        for q in self.queries:
            qs_of.setdefault(q[1], []).append(q)
        for k, row in zip(chosen, ans):
            it0 = self.defs[k]
            names = [x for x in row[-1].strip("[]").split(";") if x]
            snake_clash = len(set(names)) != len(names)
            have = set(self.meta[k].get("derives") or [])
            if "EnumVariantNames" in have:
                have.add("VariantNames")       # (the deprecated spelling implements the same trait)
            if "AsStaticStr" in have or "ToString" in have:
                have.update(["AsRefStr", "IntoStaticStr"])      # (deprecated derives: keep their definitions as they are)
            extra = []
            for d, o in zip(SAFE, row[:-1]):
                if d in have or not o.startswith("ok"):
                    continue
                if d in ("EnumIs", "EnumTryAs") and snake_clash:
                    continue        # two variants with one snake name: E0428 in any implementation (outside the derive's domain)
                if d in ("AsRefStr", "IntoStaticStr") and any(v.has("transparent") for v in it0.variants):
                    continue        # (a transparent inner field would have to be AsRef<str>)
                if d == "VariantArray" and (any(v.kind != "unit" for v in it0.variants) or it0.tparams or it0.lifetimes):
                    continue
                if d == "EnumDiscriminants" and "EnumDiscriminants" in have:
                    continue
                extra.append(d)
            if not extra:
                continue
            it = copy.deepcopy(it0)
            meta = dict(self.meta[k])
            fam = "together-with-other-derives/" + str(meta.pop("family", None))
            meta["silent_derives"] = extra
            k2 = self.add_def(it, family=fam, **meta)
            for (n, _k, kind, args, note) in qs_of.get(k, [])[:max_queries]:
                self.add_q(k2, kind, list(args), note=note)

    def add_hostile_twins(self, names, per_name=3, max_queries=120):
        """For each look-alike name (defs.HOSTILE) a few definitions of the corpus are repeated INSIDE a module that declares the
        look-alike next to the enum, with all their queries: same model item, same expected observations.  A generated path that
        stops being absolute (`::core::default::Default` -> `Default`) then resolves to the look-alike and the twin disagrees."""
        import copy
        base = [k for k, it in self.defs.items()
                if not it.tparams and not it.lifetimes and it.kind == "enum" and it.variants and not self.meta[k].get("shadow_prelude")
                and not self.meta[k].get("twin") and self.meta[k].get("twin", 0) is not None or False]
        base = [k for k in self.defs if not self.defs[k].tparams and not self.defs[k].lifetimes and self.defs[k].variants
                and not self.meta[k].get("shadow_prelude") and "twin" not in self.meta[k] and not self.meta[k].get("probe_only")
                and not getattr(self.defs[k], "in_fn_body", False) and any(v.fields for v in self.defs[k].variants)]
        if not base:
            base = [k for k in self.defs if not self.defs[k].tparams and not self.defs[k].lifetimes and self.defs[k].variants
                    and not self.meta[k].get("shadow_prelude") and "twin" not in self.meta[k] and not self.meta[k].get("probe_only")]
        if not base:
            return
        qs_of = {}
        for q in self.queries:
            qs_of.setdefault(q[1], []).append(q)
        added = 0
        # which definitions get a twin: one per FEATURE for every look-alike (a look-alike matters only on the code path that mentions the
        # name: the Err of a custom parse error, the None of a disabled variant, the Default of a payload ...), then `per_name` by position
        def feat(k, what):
            it_ = self.defs[k]
            if what == "ci":
                return any(m.kind == "aci" for m in it_.metas) or any(m.kind == "aci" and getattr(m, "b", True) for v in it_.variants for m in v.metas)
            if what == "default":
                return any(v.has("default") for v in it_.variants)
            if what == "default_with":
                return any(v.has("dw") or any(f.dws for f in v.fields) for v in it_.variants)
            if what == "disabled":
                return any(v.has("disabled") for v in it_.variants)
            if what == "transparent":
                return any(v.has("transparent") for v in it_.variants)
            if what == "custom-error":
                return any(m.kind == "pety" for m in it_.metas)
            if what == "phf":
                return any(m.kind == "phf" for m in it_.metas)
            return any(v.fields for v in it_.variants)
        feats = ("ci", "default", "default_with", "disabled", "transparent", "custom-error", "phf", "fields")
        buckets = {w: [k for k in base if feat(k, w)] for w in feats}
        for ni, name in enumerate(names):
            step = max(1, len(base) // per_name)
            chosen = []
            for fi, w in enumerate(feats):
                b = buckets[w]
                if b:
                    k = b[(ni * 3 + fi) % len(b)]
                    if k not in chosen:
                        chosen.append(k)
            for j in range(per_name):
                k = base[(ni * 7 + j * step) % len(base)]
                if k not in chosen:
                    chosen.append(k)
            for k in chosen:
                it = copy.deepcopy(self.defs[k])
                it.hostile = [name]
                meta = dict(self.meta[k])
                meta["family"] = "hostile-scope/" + name
                k2 = self.add_def(it, **meta)
                for (n, _, kind, args, note) in qs_of.get(k, [])[:max_queries]:
                    self.add_q(k2, kind, list(args), note=note)
                added += 1
        self.hostile_twins = added

    def write(self, skip_defs=()):
        with open(self.path, "w") as f:
            for k, it in self.defs.items():
                if k in skip_defs:
                    continue
                f.write("def %d %s\n" % (k, it.sexp()))
            for (n, k, kind, args, _) in self.queries:
                if k in skip_defs:
                    continue
                f.write("q %d %d %s%s\n" % (n, k, kind, "".join(" " + a for a in args)))
        return self.path


# ------------------------------------------------------------------------------------------
# reporting
# ------------------------------------------------------------------------------------------
def load_known_findings():
    p = os.path.join(VERIF, "known_findings.json")
    if not os.path.exists(p):
        return []
    return json.load(open(p)).get("findings", [])


def write_replay(prop: str, payload: dict) -> str:
    os.makedirs(REPLAYS, exist_ok=True)
    h = hashlib.sha256(json.dumps(payload, sort_keys=True, default=str).encode()).hexdigest()[:10]
    p = os.path.join(REPLAYS, "%s-%s.json" % (prop, h))
    with open(p, "w") as f:
        json.dump(payload, f, indent=1, default=str)
    return p


def write_evidence(prop: str, tier: str, seed: int, coverage: dict, assumptions, violations: int, level="proof"):
    os.makedirs(EVIDENCE, exist_ok=True)
    ev = {"property_id": prop, "tier": tier, "seed": seed, "level": level, "coverage": coverage,
          "assumptions": assumptions, "wall_s": round(time.time() - T0, 1), "violations": violations}
    with open(os.path.join(EVIDENCE, "%s.json" % prop), "w") as f:
        json.dump(ev, f, indent=1, default=str)
    return ev
