"""The string-derive family (EnumString, Display, AsRefStr, IntoStaticStr, VariantNames, EnumMessage,
deprecated ToString / AsStaticStr): Rust renderer of the observers and the comparison of the
implementation's observations with the model's."""
import re
from .defs import Item, Variant, Field, render_item, pattern, rust_str, hx
from . import render as RR
import os as _os
_HOSTILE_ENV = [x for x in _os.environ.get("VERIF_DEV_HOSTILE", "").split(",") if x] or None      # development probe only

STRUM_DERIVES = {"EnumVariantNames", "EnumString", "Display", "AsRefStr", "IntoStaticStr", "VariantNames", "EnumMessage", "ToString",
                 "AsStaticStr", "EnumProperty", "EnumIter", "EnumCount", "VariantArray", "EnumIs", "EnumTryAs",
                 "FromRepr", "EnumTable", "EnumDiscriminants"}

SCOPE_NAMES = {"LIMIT", "UNIT"}      # items of hp.rs a format string may name without the variant having such a field

HP_EXTRA = r'''
// ---- custom parse errors (parse_err_ty / parse_err_fn) with a call log ----
#[derive(Debug, PartialEq, Eq, Clone)]
pub struct PErr(pub &'static str, pub String);
thread_local! { pub static PERR_LOG: std::cell::RefCell<Vec<String>> = std::cell::RefCell::new(Vec::new()); }
pub fn perr_a(s: &str) -> PErr { PERR_LOG.with(|l| l.borrow_mut().push(format!("perr_a:{}", hex(s.as_bytes())))); PErr("perr_a", s.to_string()) }
pub mod perr { pub fn b(s: &str) -> super::PErr { super::PERR_LOG.with(|l| l.borrow_mut().push(format!("perr::b:{}", super::hex(s.as_bytes())))); super::PErr("perr::b", s.to_string()) } }
// error functions whose NAMES are the ones a generated helper would plausibly use (an inner item of that name would capture the call)
macro_rules! perr_named { ($($n:ident),*) => { $(pub fn $n(s: &str) -> PErr { PERR_LOG.with(|l| l.borrow_mut().push(format!("{}:{}", stringify!($n), hex(s.as_bytes())))); PErr(stringify!($n), s.to_string()) })* } }
perr_named!(not_found, parse_error, from_str, try_from, err, error, default, variant_not_found, value, phf, fallback, parse, make_error);
pub const LIMIT: u32 = 7;
pub static UNIT: &str = "ms";
pub fn take_log() -> String { PERR_LOG.with(|l| { let v: Vec<String> = l.borrow_mut().drain(..).collect(); v.join(",") }) }
pub trait ErrObs { fn eobs(&self) -> String; const TY: &'static str; }
impl ErrObs for strum::ParseError { fn eobs(&self) -> String { match self { strum::ParseError::VariantNotFound => "err:notfound".to_string() } } const TY: &'static str = "strum"; }
impl ErrObs for PErr { fn eobs(&self) -> String { format!("err:custom:{}:{}", self.0, hex(self.1.as_bytes())) } const TY: &'static str = "custom"; }

// ---- run-time format specs: fill x align are compile-time, width / precision run-time ----
pub fn fmt_with<T: std::fmt::Display + ?Sized>(v: &T, fill: &str, align: &str, w: Option<usize>, p: Option<usize>) -> String {
    macro_rules! go { ($a:literal, $b:literal) => { match (w, p) {
        (None, None) => format!(concat!("{:", $a, "}"), v),
        (Some(w), None) => format!(concat!("{:", $a, "w$}"), v, w = w),
        (None, Some(p)) => format!(concat!("{:", $a, ".p$}"), v, p = p),
        (Some(w), Some(p)) => format!(concat!("{:", $a, "w$.p$}"), v, w = w, p = p),
    } } }
    match (fill, align) {
        ("-", "-") => go!("", ""),
        ("-", "<") => go!("<", ""), ("-", ">") => go!(">", ""), ("-", "^") => go!("^", ""),
        ("x2a", "<") => go!("*<", ""), ("x2a", ">") => go!("*>", ""), ("x2a", "^") => go!("*^", ""),
        ("xc3a9", "<") => go!("\u{e9}<", ""), ("xc3a9", ">") => go!("\u{e9}>", ""), ("xc3a9", "^") => go!("\u{e9}^", ""),
        ("x30", "<") => go!("0<", ""), ("x30", ">") => go!("0>", ""), ("x30", "^") => go!("0^", ""),
        _ => panic!("harness: unsupported fill/align {} {}", fill, align),
    }
}
pub fn parse_spec<'a>(a: &[&'a str]) -> (&'a str, &'a str, Option<usize>, Option<usize>) {
    if a.len() < 4 { return ("-", "-", None, None); }
    (a[0], a[1], if a[2] == "-" { None } else { Some(a[2].parse().unwrap()) }, if a[3] == "-" { None } else { Some(a[3].parse().unwrap()) })
}
pub fn xs(s: &str) -> String { hex(s.as_bytes()) }
'''


from . import run as _run
if HP_EXTRA not in _run.PRELUDE_EXTRA:
    _run.PRELUDE_EXTRA.append(HP_EXTRA)


def unhx(h: str) -> str:
    try:
        return bytes.fromhex(h[1:]).decode("utf-8", "replace") if h.startswith("x") else h
    except ValueError:
        return h


def placeholders(lit: str):
    """names used by a format literal (independent of the model: the harness's own scan)"""
    s = lit.replace("{{", "").replace("}}", "")
    return [m.group(1).strip() for m in re.finditer(r"\{([^{}:]*)(?::[^{}]*)?\}", s)]


def preferred_literal(it: Item, v: Variant):
    """to_string literal if the variant has one (used only to decide whether an oracle format! is emitted)"""
    for m in v.metas:
        if m.kind == "tos":
            return m.s
    return None


def render_strings(k, it: Item, meta, cfg, extra_derives=(), strum_path="strum"):
    derives = list(meta.get("derives", []))
    dl = ["%s::%s" % (strum_path, d) if d in STRUM_DERIVES else d for d in derives] + list(extra_derives)
    dl += ["%s::%s" % (strum_path, d) for d in meta.get("silent_derives", [])]
    for std in ("Debug", "Clone", "PartialEq"):
        if std not in dl:
            dl.append(std)
    bounds = meta.get("bounds", "Default + Clone + PartialEq + core::fmt::Debug" if it.tparams else "")
    if getattr(it, "decl_bounds", None) is not None:
        bounds = it.decl_bounds        # (G.bound_free_items: the declaration carries NO bound and the enum is instantiated with NoDef)
    if meta.get("shadow_prelude"):
        # the enum lives in a module whose glob import of its own variants (named Ok / Err / Some / None) SHADOWS the prelude:
        # generated code that says `Ok(..)` instead of `::core::result::Result::Ok(..)` stops compiling there
        src = ["pub use self::shadow::%s;\npub mod shadow {\n#![allow(unused_imports, dead_code)]\nuse super::*;\nuse self::%s::*;\n%s\n}" % (
            it.ident, it.ident, render_item(it, dl, bounds=bounds))]
    elif (getattr(it, "hostile", None) or (_HOSTILE_ENV if not it.tparams else None)):
        from .defs import hostile_wrap
        src = [hostile_wrap(render_item(it, dl, bounds=bounds), getattr(it, "hostile", None) or _HOSTILE_ENV)]
    else:
        src = [render_item(it, dl, bounds=bounds)]
    if meta.get("sibling") is not None:
        # a SECOND enum in the same module, with the same derives: helper items the derives emit next to the impls must not collide
        src.append(render_item(meta["sibling"], dl, bounds=bounds))
    ty = RR.inst(it)
    E = RR.turbofish(it)
    if getattr(it, "namesakes", False):
        # USER-WRITTEN inherent functions on the enum named like the trait functions the derives implement: generated code that says
        # `Self::from_str(s)` / `self.as_ref()` instead of a path on the trait picks these (three agents of round 16 wrote that change)
        from .defs import generics_decl
        g_decl, g_where, g_use = generics_decl(it, bounds)
        src.append("""impl%s %s%s%s {
    pub fn from_str(_s: &str) -> ::core::result::Result<Self, %s::ParseError> { ::core::result::Result::Err(%s::ParseError::VariantNotFound) }
    pub fn try_from(_s: &str) -> ::core::result::Result<Self, %s::ParseError> { ::core::result::Result::Err(%s::ParseError::VariantNotFound) }
}""" % (g_decl, it.ident, g_use, g_where, strum_path, strum_path, strum_path, strum_path))
    src.append(RR.vobs_fn(it))
    vals = meta.get("vals")
    if vals is None:
        vals = RR.sample_values(it)
        meta["vals"] = vals
    src.append(RR.vals_fn(it, vals))
    arms = {}

    if "EnumString" in derives:
        arms["fromstr"] = '''
            let s = unhex_str(args[0]);
            let _ = take_log();
            let _ = take_convs();
            let a = match <%(ty)s as std::str::FromStr>::from_str(&s) { Ok(e) => vobs(&e), Err(e) => ErrObs::eobs(&e) };
            let la = take_log();
            let ca = take_convs();
            let b = match <%(ty)s as std::convert::TryFrom<&str>>::try_from(&s) { Ok(e) => vobs(&e), Err(e) => ErrObs::eobs(&e) };
            let lb = take_log();
            let cb = take_convs();
            format!("fs={}|tf={}|errty={}/{}|log={}/{}|conv={}/{}", a, b,
                <<%(ty)s as std::str::FromStr>::Err as ErrObs>::TY, <<%(ty)s as std::convert::TryFrom<&str>>::Error as ErrObs>::TY, la, lb, ca, cb)
        ''' % {"ty": ty}

    # inner-field observers for single-field variants
    def inner_fn(name, expr_of_field, pred):
        lines = ["pub fn %s(e: &%s, sp: &[&str]) -> Option<String> {" % (name, ty),
                 "    let (fill, align, w, p) = parse_spec(sp);", "    match e {"]
        for v in it.variants:
            if len(v.fields) == 1 and pred(v.fields[0]):
                lines.append("        %s => Some(%s)," % (pattern(it, v, ["b0"]), expr_of_field("b0")))
        lines.append("        _ => None,")
        lines.append("    }")
        lines.append("}")
        return "\n".join(lines)
    displayable = lambda f: f.ty in RR.SAMPLE and RR.SAMPLE[f.ty][1] is not None   # noqa: E731
    src.append(inner_fn("inner_display", lambda b: "xs(&fmt_with(%s, fill, align, w, p))" % b, displayable))
    src.append(inner_fn("inner_asref", lambda b: "xs(AsRef::<str>::as_ref(%s))" % b, lambda f: RR.is_string_ty(f.ty)))

    # oracle: format!(<to_string literal>, fields..) for variants whose literal has placeholders
    lines = ["pub fn oracle(e: &%s) -> Option<String> {" % ty, "    match e {"]
    for v in it.variants:
        lit = preferred_literal(it, v)
        if lit is None or meta.get("no_oracle") or v.kind == "unit":
            continue
        used = placeholders(lit)
        if not used:
            continue
        prefix = next((m.s for m in it.metas if m.kind == "prefix"), "")
        flit = rust_str((prefix or "").replace("{", "{{").replace("}", "}}") + lit)
        if v.kind == "named":
            names = [f.name for f in v.fields]
            # a placeholder that names NO field is captured from the scope by format_args! itself (a const, a static): the oracle is
            # written in a scope that sees the same items (hp.rs: LIMIT, UNIT)
            if not all(u in names or u in SCOPE_NAMES for u in used):
                continue
            bound = [n for n in names if n in used]
            lines.append("        %s => Some(xs(&format!(%s, %s)))," % (
                pattern(it, v, names), flit, ", ".join("%s = %s" % (n, n) for n in bound)))
        elif v.kind == "tuple":
            bs = ["b%d" % j for j in range(len(v.fields))]
            if not all(u.isdigit() or u in SCOPE_NAMES for u in used):
                continue
            lines.append("        %s => Some(xs(&format!(%s, %s)))," % (pattern(it, v, bs), flit, ", ".join(bs)))
    lines += ["        _ => None,", "    }", "}"]
    src.append("#[allow(unused_variables)]\n" + "\n".join(lines))

    opt = 'fn opt(o: Option<String>) -> String { o.unwrap_or_else(|| "-".to_string()) }'
    src.append(opt)
    if "Display" in derives:
        arms["display"] = '''
            let j: usize = args[0].parse().unwrap();
            let sp: Vec<&str> = args[2..].to_vec();
            let (fill, align, w, p) = parse_spec(&sp);
            let out = catch(move || xs(&fmt_with(&val(j), fill, align, w, p)));
            format!("out={}|inner={}|oracle={}", out, opt(inner_display(&val(j), &sp)), opt(oracle(&val(j))))
        '''
    if "ToString" in derives:
        arms["tostring"] = '''
            let j: usize = args[0].parse().unwrap();
            let out = catch(move || xs(&ToString::to_string(&val(j))));
            format!("out={}|inner={}", out, opt(inner_display(&val(j), &[])))
        '''
    if "AsRefStr" in derives:
        arms["asref"] = '''
            let j: usize = args[0].parse().unwrap();
            let out = catch(move || xs(AsRef::<str>::as_ref(&val(j))));
            format!("out={}|inner={}", out, opt(inner_asref(&val(j), &[])))
        '''
    if "IntoStaticStr" in derives:
        has_const = any(m.kind == "cis" for m in it.metas)
        arms["intostatic"] = '''
            let j: usize = args[0].parse().unwrap();
            let a = catch(move || xs(<&'static str>::from(val(j))));
            let b = catch(move || xs(<&'static str>::from(&val(j))));
            let c = %s;
            format!("out={}|ref={}|const={}|inner={}", a, b, c, opt(inner_asref(&val(j), &[])))
        ''' % ('catch(move || xs(val(j).into_str()))' if has_const else '"-".to_string()')
    if "AsStaticStr" in derives:
        arms["asstatic"] = '''
            let j: usize = args[0].parse().unwrap();
            #[allow(deprecated)]
            let out = catch(move || xs(%s::AsStaticRef::<str>::as_static(&val(j))));
            format!("out={}|inner={}", out, opt(inner_asref(&val(j), &[])))
        ''' % strum_path
    if "VariantNames" in derives:
        arms["names"] = '''
            let v: Vec<String> = <%s as %s::VariantNames>::VARIANTS.iter().map(|s| xs(s)).collect();
            format!("[{}]", v.join(";"))
        ''' % (ty, strum_path)
    if "EnumMessage" in derives:
        arms["msg"] = '''
            use %s::EnumMessage;
            let j: usize = args[0].parse().unwrap();
            let v = val(j);
            let o = |x: Option<&'static str>| match x { Some(s) => format!("some:{}", xs(s)), None => "none".to_string() };
            let ser: Vec<String> = v.get_serializations().iter().map(|s| xs(s)).collect();
            format!("m={}|d={}|doc={}|ser=[{}]", o(v.get_message()), o(v.get_detailed_message()), o(v.get_documentation()), ser.join(";"))
        ''' % strum_path
    if "EnumProperty" in derives:
        arms["prop"] = '''
            use %s::EnumProperty;
            let j: usize = args[0].parse().unwrap();
            let key = unhex_str(args[2]);
            let v = val(j);
            format!("s={}|i={}|b={}",
                match v.get_str(&key) { Some(s) => format!("some:{}", xs(s)), None => "none".to_string() },
                match v.get_int(&key) { Some(n) => format!("some:{}", n), None => "none".to_string() },
                match v.get_bool(&key) { Some(b) => format!("some:{}", if b { 1 } else { 0 }), None => "none".to_string() })
        ''' % strum_path
    if "EnumString" in derives and "Display" in derives:
        arms["caprt"] = '''
            let s = unhex_str(args[0]);
            match <%(ty)s as std::str::FromStr>::from_str(&s) {
                Ok(e) => catch(move || format!("str:{}", xs(&e.to_string()))),
                Err(e) => { let o = ErrObs::eobs(&e); if o.starts_with("err:custom") { "err:custom".to_string() } else { o } }
            }
        ''' % {"ty": ty}
    if meta.get("roundtrip"):
        # C02: parse what the printing derives produce
        parts = []
        if "Display" in derives:
            parts.append(('disp', 'format!("{}", val(j))'))
        if "ToString" in derives and "Display" not in derives:
            parts.append(('tostr', 'ToString::to_string(&val(j))'))
        if "AsRefStr" in derives:
            parts.append(('asref', 'AsRef::<str>::as_ref(&val(j)).to_string()'))
        if "IntoStaticStr" in derives:
            parts.append(('into', "<&'static str>::from(&val(j)).to_string()"))
        body = ['let j: usize = args[0].parse().unwrap();', 'let mut out: Vec<String> = Vec::new();']
        for tag, ex in parts:
            # (FromStr and TryFrom<&str> always agree: both are asked)
            body.append('out.push(format!("%s={}", catch(move || { let s = %s; let a = match <%s as std::str::FromStr>::from_str(&s) { Ok(e) => vobs(&e), Err(e) => ErrObs::eobs(&e) }; let b = match <%s as std::convert::TryFrom<&str>>::try_from(&s) { Ok(e) => vobs(&e), Err(e) => ErrObs::eobs(&e) }; if a == b { a } else { format!("TRYFROM-DIFFERS:{}/{}", a, b) } })));' % (tag, ex, ty, ty))
        if "EnumMessage" in derives:
            body.append('{ use %s::EnumMessage; let v = val(j); let r: Vec<String> = v.get_serializations().iter().map(|s| { let a = match <%s as std::str::FromStr>::from_str(s) { Ok(e) => vobs(&e), Err(e) => ErrObs::eobs(&e) }; let b = match <%s as std::convert::TryFrom<&str>>::try_from(*s) { Ok(e) => vobs(&e), Err(e) => ErrObs::eobs(&e) }; if a == b { a } else { format!("TRYFROM-DIFFERS:{}/{}", a, b) } }).collect(); out.push(format!("sers=[{}]", r.join(";"))); }' % (strum_path, ty, ty))
        body.append('out.join("|")')
        arms["roundtrip"] = "\n".join(body)
    src.append(RR.query_fn(arms))
    if getattr(it, "in_fn_body", False):
        # the enum (and everything that talks about it) is declared INSIDE a function body, next to a local function with the name the
        # enum gives as parse_err_fn; a module-level function of the SAME name exists too and must not be the one that is called
        pefn = next((m.s for m in it.metas if m.kind == "pefn"), None)
        pre, local = [], []
        if pefn and "::" not in pefn:
            pre.append('pub fn %s(s: &str) -> PErr { PErr("module-level-twin", s.to_string()) }' % pefn)
            local.append("fn %s(s: &str) -> PErr { crate::hp::%s(s) }" % (pefn, pefn))
        inner = "\n".join(src[:-1]) + "\n" + src[-1].replace("pub fn query(kind: &str, args: &[&str])", "fn query_inner(kind: &str, args: &[&str])", 1)
        return "\n".join(pre) + "\npub fn query(kind: &str, args: &[&str]) -> String {\n" + "\n".join(local) + "\n" + inner + "\nquery_inner(kind, args)\n}"
    return "\n".join(src)


def split_obs(obs: str):
    d = {}
    for part in obs.split("|"):
        if "=" in part:
            a, _, b = part.partition("=")
            d[a] = b
    return d


def expect_print(mobs: str, io: dict):
    """what the implementation's `out` must be, given the model's symbolic answer"""
    m = mobs.split("|")[0]
    if m.startswith("str:"):
        return m[4:]
    if m == "inner":
        return io.get("inner")
    if m.startswith("argsn:") or m.startswith("argsp:"):
        return io.get("oracle")
    if m == "panic":
        return "panic"
    return "?" + m


STRUCT_STATS = {"checked": 0, "matched": 0, "unparsed": 0, "mismatched": []}


def add_real_literal_inputs(c, k, it, summary, known_inputs, rng=None, model_summary=None):
    """guided search: every literal the REAL generated code compares the input with (and its ASCII case variants) becomes an
    input, so that an arm or phf key the model does not predict is exercised behaviourally"""
    from . import gen as G
    n = 0
    for lit in G.literals_of_structure(summary):
        for s_ in {lit, lit.lower(), lit.upper(), lit.swapcase()}:
            if s_ not in known_inputs:
                known_inputs.add(s_)
                c.add_q(k, "fromstr", [hx(s_)], note="near-real-literal")
                n += 1
    for s_ in mismatch_search(summary, model_summary):
        if s_ not in known_inputs:
            known_inputs.add(s_)
            c.add_q(k, "fromstr", [hx(s_)], note="search-after-structural-mismatch")
            n += 1
    c.add_q(k, "struct", ["EnumString"], note="structure")
    return n


SEARCH_STATS = {"definitions_whose_real_structure_differs": 0, "inputs_added_by_the_search": 0}


def mismatch_search(real, model):
    """when the REAL generated EnumString code is readable and is NOT the code the model describes, the broken correspondence is
    followed by a SEARCH for an input on which the two behave differently: every ASCII case flip (all 2^k up to k = 10, else a
    fixed sample) and every one-edit / bit-5 neighbour of every literal either side compares the input with.  On a tree where the
    structures agree (the unchanged one) this adds nothing."""
    import random
    from . import gen as G
    if not real or not model or real == model or not real.startswith("phf=") or not model.startswith("phf="):
        return []
    SEARCH_STATS["definitions_whose_real_structure_differs"] += 1
    lits = set(G.literals_of_structure(real)) | set(G.literals_of_structure(model))
    rng = random.Random(12345)
    out = set()
    for lit in lits:
        fl = G.flips(lit, rng, 1024)
        out.update(fl)
        for f_ in list(fl)[:8] + [lit]:
            out.update(G.neighbours(f_))
    SEARCH_STATS["inputs_added_by_the_search"] += len(out)
    return sorted(out)


def struct_probe_command(corpus, n, k, kind, args):
    if kind != "struct":
        return None
    from .defs import plain_source
    return "struct %d %s %s" % (n, args[0], hx(plain_source(corpus.defs[k])))


def compare_struct(corpus, k, iobs, mobs):
    """the structural tie is an extra: a difference without observable effect is recorded, not reported"""
    STRUCT_STATS["checked"] += 1
    if iobs.startswith("unparsed") or iobs.startswith("HARNESS"):
        STRUCT_STATS["unparsed"] += 1
    elif iobs == mobs:
        STRUCT_STATS["matched"] += 1
    elif len(STRUCT_STATS["mismatched"]) < 5:
        STRUCT_STATS["mismatched"].append({"definition": render_item(corpus.defs[k], []), "real": iobs[:600], "model": mobs[:600]})
    return True, iobs == mobs, None


def struct_coverage():
    return {"structural_tie": {"what": "translation of the REAL generated tokens (harness/genprobe `struct`) compared with the model's description of the "
                                       "generated code — EnumString: phf entries, match arms in order, fall-through, error type, TryFrom delegation (literals of "
                                       "the real code are fed back as inputs: guided search); EnumIter: the bodies of nth / next_back / size_hint translated into "
                                       "the deep-embedded language of Model/IterProg.v (proved equal to it_nth / it_next_back / it_len) and the constructor "
                                       "table of get; Display / AsRefStr: one entry per match arm (fixed literal, inner-field forward with its `ref` binding, format_args! with its bound arguments, wildcard panic). A structural difference alone is recorded, not reported",
                               "definitions_checked": STRUCT_STATS["checked"], "identical": STRUCT_STATS["matched"],
                               "not_readable": STRUCT_STATS["unparsed"], "different": STRUCT_STATS["mismatched"],
                               "search_on_mismatch": dict(SEARCH_STATS, what=mismatch_search.__doc__.strip().replace("\n    ", " "))}}


def compare_strings(corpus, k, kind, args, note, iobs, mobs, cfg):
    it = corpus.defs[k]
    if kind == "struct":
        return compare_struct(corpus, k, iobs, mobs)
    if mobs.startswith("generr:") or mobs == "genpanic":
        return False, False, "the model's generator rejects a definition the corpus believed to be in the domain: " + mobs
    if kind == "fromstr":
        io, mo = split_obs(iobs), split_obs(mobs)
        exp = RR.concretize(mo["fs"], it, args[0])
        exp_tf = RR.concretize(mo["tf"], it, args[0])
        ok = io.get("fs") == exp and io.get("tf") == exp_tf
        ety = mo["errty"]
        ok = ok and io.get("errty") == "%s/%s" % (ety, ety)
        # the call log of the user's parse_err_fn: exactly [input] on a custom error, empty otherwise
        if mo["fs"].startswith("err:custom:"):
            _, _, fn, arg = mo["fs"].split(":", 3)
            want = "%s:%s" % (fn, arg)
            ok = ok and io.get("log") == "%s/%s" % (want, want)
        else:
            ok = ok and io.get("log") == "/"
        # the input is converted into the catch-all variant's payload only when that variant is what is returned (counted for `Wrap` payloads)
        wrap_default = any(v.has("default") and v.fields and v.fields[0].ty == "Wrap" for v in it.variants)
        captured = mo["fs"].endswith("(in)")
        want_conv = "1/1" if (captured and wrap_default) else "0/0"
        if io.get("conv") != want_conv:
            return False, True, "conversions of the input into the catch-all payload: %s, expected %s" % (io.get("conv"), want_conv)
        nt = not mo["fs"].startswith("err:") or (note or "").startswith("near")
        return ok, nt, None
    if kind in ("display", "asref", "tostring", "asstatic"):
        io = split_obs(iobs)
        exp = expect_print(mobs, io)
        ok = exp is not None and exp != "-" and io.get("out") == exp
        return ok, True, "expected out=%s" % exp
    if kind == "intostatic":
        io = split_obs(iobs)
        exp = expect_print(mobs, io)
        ok = exp is not None and exp != "-" and io.get("out") == exp and io.get("ref") == exp
        if mobs.endswith("|const"):
            ok = ok and io.get("const") == exp
        return ok, True, "expected out=ref=const=%s" % exp
    if kind in ("names", "msg", "prop"):
        return iobs == mobs, True, None
    return iobs == mobs, True, None
