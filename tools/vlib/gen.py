"""Seeded generators for the string-derive family, and the two-phase corpus construction: candidate
definitions are first classified by the extracted model (`spell` query: spellings, flags, the
NonOverlap domain predicate), then admitted and given inputs derived from their own spellings."""
import itertools
import os
from .defs import (Item, Variant, Field, VM, EM, ser, tos, aci, dw, msg, det, doc, props, DISABLED, DEFAULT,
                   TRANSPARENT, hx, unraw)
from . import run as R

IDENTS = ["Red", "GreenApple", "HTTPServer", "Utf8String", "X", "Abc_def", "A1b2", "XMLHttpRequest2", "Id", "IOError",
          "snake_name", "SCREAMING_ONE", "Blue2Go", "ÜberCool"[1:], "Yellow", "darkGray", "B", "Http2_Proxy", "V10",
          "NoCase", "Purple_", "QRCode", "WiFi", "Z9", "r#type", "r#Match", "r#loop_Forever",
          # non-ASCII identifiers: named by the Rust reference on heck (resolve_names), outside the theorems' ASCII domain
          "ÉlanVital", "Ωmega", "straßeName", "Öl2Rest", "ДобрыйДень"]
STYLES = ["camelCase", "PascalCase", "kebab-case", "snake_case", "SCREAMING_SNAKE_CASE", "SCREAMING-KEBAB-CASE",
          "lowercase", "UPPERCASE", "title_case", "mixed_case", "Train-Case",
          "camel_case", "snek_case", "kebab_case", "shouty_snake_case", "shouty_snek_case"]
SPELLINGS = ["blue", "Blue", "BLUE", "b", "dark-red", "Dark Red", "r3d", "42", "", " pad ", "é", "É", "straße", "STRASSE",
             "K", "k", "i", "I", "ss", "s", "naïve", "NAÏVE", "x_y", "X-Y", "a.b", "A.B", "long-spelling-here", "q", "Q!",
             "日本", "ﬁ", "fi", "tab\there", "quote\"d", "back\\slash", "ab", "aB", "abc", "ABCD", "abcde",
             # first bytes next to the letters in the ASCII table, and bit-5 partners of punctuation
             "[if]", "[Go]", "@home", "`tick", "_under", "|pipe", "\\bs", "~t", "^t"]
FIELD_TYPES = ["u8", "i32", "bool", "String", "usize", "Option<u8>", "Tick"]


def flips(s: str, rng, cap):
    """case flips of the ASCII letters of s: all 2^k when that is at most cap, else a sample"""
    pos = [i for i, ch in enumerate(s) if ch.isascii() and ch.isalpha()]
    k = len(pos)
    out = set()
    if 2 ** k <= cap:
        masks = range(2 ** k)
    else:
        masks = [rng.getrandbits(k) for _ in range(cap)] + [0, 2 ** k - 1]
    for m in masks:
        cs = list(s)
        for bi, p in enumerate(pos):
            cs[p] = cs[p].upper() if (m >> bi) & 1 else cs[p].lower()
        out.add("".join(cs))
    return out


LOOKALIKES = {"k": "K", "K": "K", "s": "ſ", "S": "ſ", "i": "ı", "I": "İ",
              "ss": "ß", "e": "é", "a": "а", "o": "ο"}


def neighbours(s: str):
    out = set()
    for i in range(len(s) + 1):
        out.add(s[:i] + "x" + s[i:])
        out.add(s[:i] + " " + s[i:])
    for i in range(len(s)):
        out.add(s[:i] + s[i + 1:])
        out.add(s[:i] + ("y" if s[i] != "y" else "z") + s[i + 1:])
        la = LOOKALIKES.get(s[i])
        if la:
            out.add(s[:i] + la + s[i + 1:])
    if "ss" in s:
        out.add(s.replace("ss", "ß"))
    # byte-level neighbours: bit 5 (the ASCII case bit) flipped in ANY byte, letters or not ('-' <-> '\r', '[' <-> '{',
    # digits <-> control characters, UTF-8 continuation bytes: "é" <-> "É"), when the result is still valid UTF-8
    b = s.encode("utf-8")
    for i in range(len(b)):
        for mask in (0x20, 0x40, 0x01):
            try:
                out.add((b[:i] + bytes([b[i] ^ mask]) + b[i + 1:]).decode("utf-8"))
            except UnicodeDecodeError:
                pass
    out.discard(s)
    return out


def random_fields(rng, kind, gen=False):
    if kind == "unit":
        return []
    n = rng.randint(1, 3) if rng.random() > 0.15 else 0      # `V()` and `V {}`: tuple / struct variants WITHOUT fields
    tys = [rng.choice(FIELD_TYPES) for _ in range(n)]
    if gen and tys:
        tys[0] = "G0"
    if kind == "tuple":
        return [Field(t) for t in tys]
    # field names that COLLIDE with names the generated code uses for its own parameters and bindings (`f` the formatter, `s` the
    # parsed string, `x`, `value`, `field0`, `idx`): a struct variant binds its fields by their own names
    names = rng.sample(["f", "s", "x", "value", "idx", "field0", "e", "n", "f1"], n)
    return [Field(t, nm) for nm, t in zip(names, tys)]


def string_enum(rng, nvariants=None, *, allow_default=True, allow_disabled=True, allow_dw=True, allow_aci=True,
                allow_style=True, allow_prefix=False, allow_fields=True, allow_transparent=False,
                custom_err=None, phf=False, generics=True, distinct_lengths=False, placeholders=False):
    """one candidate definition (spellings may still clash: the model decides admission)"""
    n = rng.randint(0, 8) if nvariants is None else nvariants
    idents = rng.sample(IDENTS, n)
    metas = []
    if allow_style and rng.random() < 0.6:
        metas.append(EM("sall", rng.choice(STYLES)))
    if allow_aci and rng.random() < 0.35:
        metas.append(EM("aci"))
    if allow_prefix and rng.random() < 0.5:
        metas.append(EM("prefix", rng.choice(["", "p/", "pré:", "NS."])))
    if custom_err is None:
        custom_err = rng.random() < 0.25
    if custom_err:
        fn = rng.choice(["perr_a", "perr::b"])
        pair = [EM("pety", "PErr"), EM("pefn", fn)]
        rng.shuffle(pair)
        metas += pair
    if phf:
        metas.append(EM("phf"))
    rng.shuffle(metas)
    it = Item("E", [], metas=metas)
    if generics and allow_fields and rng.random() < 0.2:
        it.tparams = 1
    if len(metas) >= 2 and rng.random() < 0.5:
        it.groups = [1]
    used_g = False
    have_default = False
    pool = list(SPELLINGS)
    rng.shuffle(pool)
    for i, ident in enumerate(idents):
        kind = rng.choice(["unit", "unit", "tuple", "named"]) if allow_fields else "unit"
        v = Variant(ident, kind)
        v.fields = random_fields(rng, kind, gen=(it.tparams > 0 and not used_g and kind != "unit"))
        if any(f.ty == "G0" for f in v.fields):
            used_g = True
        ms = []
        r = rng.random()
        if r < 0.55:
            nser = rng.choice([0, 1, 1, 2, 3])
            sers = [pool.pop() for _ in range(nser) if pool]
            if distinct_lengths:
                seen = set()
                sers = [s for s in sers if not (len(s.encode()) in seen or seen.add(len(s.encode())))]
            if sers and rng.random() < 0.12 and ident.isascii():
                # the usual way to exempt one variant from serialize_all: its own identifier, spelled out as a literal (never re-cased)
                sers[rng.randrange(len(sers))] = unraw(ident)
            ms += [ser(s) for s in sers]
            if rng.random() < 0.4 and pool:
                ms.append(tos(pool.pop()))
        if allow_aci and rng.random() < 0.3:
            b = rng.random() < 0.6
            ms.append(aci(b, explicit=(not b) or rng.random() < 0.5))
        # disabled / default / default_with are drawn INDEPENDENTLY: options meet on one variant (a disabled catch-all, a catch-all with a
        # default_with function that must not be consulted, a disabled variant with default_with)
        is_dis = allow_disabled and rng.random() < 0.2
        is_def = allow_default and not have_default and rng.random() < (0.3 if is_dis else 0.15)
        if is_dis:
            ms.append(DISABLED)
        if is_def:
            have_default = True
            ms.append(DEFAULT)
            inner = rng.choice(["String", "String", "Box<str>", "Wrap"])
            if rng.random() < 0.5:
                v.kind, v.fields = "tuple", [Field(inner)]
            else:
                v.kind, v.fields = "named", [Field(inner, "captured")]
        if allow_dw and v.fields and rng.random() < (0.35 if not (is_dis or is_def) else 0.5):
            if v.kind == "tuple" and len(v.fields) == 1:
                f = {"u8": "dw_u8", "i32": "dw_i32", "bool": "dw_bool", "String": "dw_string", "usize": "dw_usize"}.get(v.fields[0].ty)
                if f:
                    ms.append(dw(rng.choice([f, "dwm::dw_u8_path"]) if v.fields[0].ty == "u8" else f))
            elif v.kind == "named":
                for f in v.fields:
                    fn = {"u8": "dw_u8_b", "i32": "dw_i32", "bool": "dw_bool", "String": "dw_string", "usize": "dw_usize"}.get(f.ty)
                    if fn and rng.random() < 0.6:
                        f.dws = [fn]
        # how a literal is WRITTEN does not matter, only what it denotes: some are spelled with \u{..} escapes or as raw strings
        for m in ms:
            if m.kind in ("ser", "tos") and rng.random() < 0.2:
                m.style = rng.choice(["uesc", "raw", "xesc"])
        rng.shuffle(ms)
        v.metas = ms
        if len(ms) >= 2 and rng.random() < 0.4:
            v.groups = [1]
        it.variants.append(v)
    if it.tparams and not any("G0" in f.ty for v in it.variants for f in v.fields):
        it.tparams = 0
    if it.tparams and rng.random() < 0.5:
        it.where_clause = True     # bounds written in a where-clause instead of inline
    if rng.random() < 0.1:
        it.attr_delims = rng.choice([[1], [2], [0, 1, 2], [1, 0]])      # #[strum{..}] / #[strum[..]] instead of #[strum(..)]
    if rng.random() < 0.15:
        it.trailing_commas = True  # `V(u8,)`, `S { a: u8, }`, `#[strum(serialize = "x",)]`
    if rng.random() < 0.12:
        it.via_macro = True if rng.random() < 0.6 else "idents"     # "idents": the variant names are macro fragments too        # the enum comes out of a macro_rules! expansion, attribute values passed in as fragments
    return it


DW_FN = {"u8": "dw_u8", "i32": "dw_i32", "bool": "dw_bool", "String": "dw_string", "usize": "dw_usize"}


def bound_free_items(extra_metas=None, with_placeholder=False):
    """GENERIC enums whose type parameter needs NO trait at all: it occurs only inside PhantomData<G0> (Default, Clone, Debug, PartialEq
    whatever G0 is) — in an enabled tuple variant, an enabled struct variant next to an ordinary field, and a disabled variant — and the
    enum is instantiated with `NoDef`, a type that is neither Default nor Clone nor Display.  The derives emit `impl<G0> .. for E<G0>`
    with the bounds the USER wrote (none): an impl that asks more of G0 (`G0: Default` "like the std derives", `G0: Display`) does not exist
    for E<NoDef>, and in-domain code stops compiling (round 15).  Callers pass meta bounds="" so that the renderer adds no bound of its own."""
    from .defs import Item, Variant, Field, DISABLED, tos
    PD = "std::marker::PhantomData<G0>"
    out = []
    for j in range(2):
        vs = [Variant("Plain", "unit"),
              Variant("Mark", "tuple", [Field(PD)]),
              Variant("Pair", "named", [Field("u8", "a"), Field(PD, "m")], [tos("pair {a}")] if with_placeholder else []),
              Variant("Off", "named", [Field(PD, "m")], [DISABLED]),
              Variant("Last", "unit")]
        if j:
            vs = [vs[3], vs[1], vs[0], vs[2]]
        it = Item("E", vs, tparams=1, cparams=j, where_clause=bool(j), metas=list(extra_metas or []))
        it.targ = "NoDef"
        it.decl_bounds = ""
        out.append(it)
    return out


def defaulted_param_items(extra_metas=None):
    """generic enums whose type and const parameters carry DEFAULTS (`enum E<G0: Bounds = u8, const N0: usize = 3>`): legal on the
    declaration, an error in an impl header — a derive that splices the declared parameters into `impl<..>` itself (instead of
    syn's split_for_impl) stops compiling for exactly these (round 15)"""
    from .defs import Item, Variant, Field, DISABLED
    out = []
    for j in range(2):
        vs = [Variant("Empty", "unit"), Variant("Full", "tuple", [Field("G0")]), Variant("Named", "named", [Field("u8", "a"), Field("G0", "g")]),
              Variant("Off", "unit", [], [DISABLED])]
        it = Item("E", vs if not j else vs[::-1], tparams=1, cparams=1 - j, where_clause=bool(j), metas=list(extra_metas or []))
        it.tparam_default = "u8"
        if it.cparams:
            it.cparam_default = "3"
        out.append(it)
    return out


def foreign_option_items(rng, count, *, allow_default=True, allow_transparent=False, unit_only=False, tag="Q"):
    """enums for the derives that read ONE option of a variant (`disabled`) — EnumIter, EnumCount, FromRepr, EnumTable, EnumIs,
    VariantArray ... — whose variants carry every OTHER option, in every position relative to `disabled`, in one list or in
    several: bare and valued `ascii_case_insensitive`, serialize / to_string, message / detailed_message, props, default_with
    (variant and field level), default, doc comments.  Options of other derives mean nothing to these derives."""
    shapes = [("unit", []), ("tuple", ["u8"]), ("tuple", ["String"]), ("named", [("flag", "bool")]), ("named", [("a", "usize"), ("b", "String")]),
              ("tuple", ["String", "i32"]), ("tuple", ["i32"]), ("named", [("n", "u8")]),
              # fields named by raw identifiers that are keywords: a constructor or pattern has to write them as `r#type: ..`
              ("named", [("r#type", "u8"), ("r#fn", "bool")]), ("named", [("r#match", "String")])]
    out = []
    for j in range(count):
        n = rng.randint(3, 7)
        vs = []
        have_default = False
        for i in range(n):
            kind, fs = ("unit", []) if unit_only else rng.choice(shapes)
            v = Variant("%s%d%s" % (tag, i, "xyzuvw"[i % 6]), kind)
            v.fields = [Field(t) for t in fs] if kind == "tuple" else [Field(t, nm) for nm, t in fs]
            ms = []
            if rng.random() < 0.5:
                ms.append(aci(rng.random() < 0.5, explicit=True) if rng.random() < 0.6 else aci(True, explicit=False))
            if rng.random() < 0.4:
                ms.append(ser("s%d-%d" % (j, i)))
                if rng.random() < 0.4:
                    ms.append(ser("S%d_%d_longer" % (j, i)))
            if rng.random() < 0.25:
                ms.append(tos("t%d.%d" % (j, i)))
            if rng.random() < 0.25:
                ms.append(msg("message %d" % i))
            if rng.random() < 0.2:
                ms.append(det("detail %d" % i))
            if rng.random() < 0.3:
                ms.append(props([("k%d" % i, ("s", "v")), ("n", ("i", i)), ("b", ("b", i % 2 == 0))][: rng.randint(1, 3)]))
            if rng.random() < 0.2:
                ms.append(doc(" doc line %d" % i))
            if kind == "tuple" and len(v.fields) == 1 and v.fields[0].ty in DW_FN and rng.random() < 0.5:
                ms.append(dw(DW_FN[v.fields[0].ty]))
            elif kind == "named" and rng.random() < 0.5:
                for f in v.fields:
                    if f.ty in DW_FN and rng.random() < 0.7:
                        f.dws = [DW_FN[f.ty]]
            if allow_default and not have_default and kind == "tuple" and fs == ["String"] and rng.random() < 0.6:
                have_default = True
                ms.append(DEFAULT)
            if allow_transparent and kind == "tuple" and len(fs) == 1 and DEFAULT not in ms and not any(m.kind in ("ser", "tos") for m in ms) and rng.random() < 0.2:
                ms.append(TRANSPARENT)
            rng.shuffle(ms)
            if rng.random() < 0.45:
                ms.insert(rng.randint(0, len(ms)), DISABLED)           # `disabled` first, in the middle, last
            v.metas = ms
            r = rng.random()
            if len(ms) >= 2 and r < 0.3:
                v.groups = [1] * (len(ms) - 1)                          # every option in a list of its own
            elif len(ms) >= 2 and r < 0.5:
                v.groups = [rng.randint(1, len(ms) - 1)]
            vs.append(v)
        it = Item("E", vs)
        if rng.random() < 0.3:
            it.metas = [EM("aci")] if rng.random() < 0.5 else [EM("sall", rng.choice(STYLES))]
        out.append(it)
    return out


def fix_generics(it: Item) -> Item:
    """drop a type parameter that no field uses any more (rustc rejects unused parameters)"""
    if it.tparams and not any("G0" in f.ty for v in it.variants for f in v.fields):
        it.tparams = 0
    return it


class ProbeUnavailable(Exception):
    """harness/genprobe does not build against the tree under test (an internal signature of strum_macros changed, say)"""


NO_PROBE = False      # set by check.py after a ProbeUnavailable: corpora are then built without anything only the probe can tell


def resolve_names(prop: str, items):
    """NON-ASCII identifiers are outside Model/Heck.v (stated over ASCII bytes). A variant with such an identifier and no explicit name
    gets `model_name`: what Model/HeckU.v (the same code over scalar values, instantiated with the probe's character table) makes of
    the identifier under the enum's serialize_all style — or, for identifiers with U+03A3, what the Rust reference (harness/genprobe
    `mod reference`, written on heck itself) makes of it. The rest of the model then treats it as a declared spelling."""
    todo = []
    for it in items:
        style = next((m.s for m in it.metas if m.kind == "sall"), None)
        for v in it.variants:
            if not v.ident.isascii() and v.model_name is None and not any(m.kind in ("ser", "tos") for m in v.metas):
                todo.append((v, style))
    if not todo:
        return
    if NO_PROBE:
        # without the probe nobody can name a non-ASCII identifier (the model is stated over ASCII): such variants leave the corpus
        for it in items:
            keep = [v for v in it.variants if v.ident.isascii() or v.model_name is not None or any(m.kind in ("ser", "tos") for m in v.metas)]
            if len(keep) != len(it.variants):
                it.variants = keep
                it._lost_variants = True       # (classify then leaves the definition out: it is no longer the one its family meant)
        return
    names = unicode_names(prop, [("convertu", st, v.ident) for v, st in todo])
    for (v, st), nm in zip(todo, names):
        # (an unknown style: the model rejects the definition on its own)
        v.model_name = v.ident if nm is None else nm


# where the names of non-ASCII identifiers came from in this run (evidence): Model/HeckU.v instantiated with the probe's character
# table, or — identifiers with U+03A3, outside that model's domain — the Rust reference on heck
NAME_STATS = {"named_by_the_unicode_model": 0, "named_by_the_rust_reference": 0, "model_and_reference_disagree": 0}


def unicode_names(prop, reqs):
    """reqs: [("convertu", style | None, ident) | ("snakifyu", None, ident)] -> [name | None].  The probe prints, per request, the
    real result, the reference's, and the character table (Rust's own `char` methods for every scalar value in play); the
    extracted Model/HeckU.v evaluates the request on that table.  The model's answer is the name whenever it has one."""
    binp, err = R.build_genprobe()
    if binp is None:
        raise ProbeUnavailable("genprobe (the generator sources of /repo compiled as a library) does not build: " + str(err)[-1500:])
    lines = []
    for n, (kind, st, ident) in enumerate(reqs):
        lines.append("caseu %d %s %s" % (n, hx(st) if st is not None else "-", hx(ident)) if kind == "convertu" else "snakifyu %d %s" % (n, hx(ident)))
    d = os.path.join(R.WORK, prop, "names")
    obs, died = R.run_genprobe(binp, lines, d)
    parts = [dict(p.split("=", 1) for p in obs.get(n, "").split("|") if "=" in p) for n in range(len(reqs))]
    path = os.path.join(d, "unicode_model.txt")
    with open(path, "w") as f:
        f.write("def 0 %s\n" % Item("E", []).sexp())
        for n, (kind, st, ident) in enumerate(reqs):
            tab = parts[n].get("tab", "")
            if kind == "convertu" and parts[n].get("ref", "").startswith("x"):
                f.write("q %d 0 casing convertu %s %s %s\n" % (n, hx(st) if st is not None else "-", hx(ident), tab))
            elif kind == "snakifyu":
                f.write("q %d 0 casing snakifyu %s %s\n" % (n, hx(ident), tab))
    mo = R.run_model(path)
    out = []
    for n in range(len(reqs)):
        ref, m = parts[n].get("ref", ""), mo.get(n, "")
        if m.startswith("x"):
            NAME_STATS["named_by_the_unicode_model"] += 1
            if ref.startswith("x") and ref != m:
                NAME_STATS["model_and_reference_disagree"] += 1
            out.append(bytes.fromhex(m[1:]).decode("utf-8"))
        elif ref.startswith("x"):
            NAME_STATS["named_by_the_rust_reference"] += 1
            out.append(bytes.fromhex(ref[1:]).decode("utf-8"))
        else:
            out.append(None)
    return out


def char_tables(prop, idents):
    """the probe's character table for each identifier (None without a probe)"""
    if NO_PROBE:
        return {}
    binp, err = R.build_genprobe()
    if binp is None:
        raise ProbeUnavailable("genprobe (the generator sources of /repo compiled as a library) does not build: " + str(err)[-1500:])
    obs, died = R.run_genprobe(binp, ["chartab %d %s" % (n, hx(i[2:] if i.startswith("r#") else i)) for n, i in enumerate(idents)], os.path.join(R.WORK, prop, "tables"))
    return {i: obs.get(n) for n, i in enumerate(idents)}


def classify(prop: str, items, extra_kind=None):
    resolve_names(prop, items)
    for it in items:
        fix_generics(it)
    """run the extracted model's `spell` query on candidate definitions.
    -> list of None (generator error) or dict(nonoverlap, variants=[dict(flags, spellings, preferred)])"""
    d = os.path.join(R.WORK, prop)
    os.makedirs(d, exist_ok=True)
    path = os.path.join(d, "candidates.txt")
    with open(path, "w") as f:
        for k, it in enumerate(items):
            f.write("def %d %s\n" % (k, it.sexp()))
        for k, it in enumerate(items):
            f.write("q %d %d spell\n" % (k, k))
    obs = R.run_model(path)
    out = []
    for k in range(len(items)):
        o = obs.get(k, "")
        if getattr(items[k], "_lost_variants", False):
            out.append(None)
            continue
        if o.startswith("generr") or o.startswith("genpanic") or o.startswith("MODEL-FAILURE") or not o:
            out.append(None)
            continue
        parts = o.split("|")
        info = {"nonoverlap": parts[0] == "nonoverlap=1", "variants": []}
        for p in [x for x in parts[1:] if x]:
            idx, flags, sp, pref = p.split(":")
            sps = [bytes.fromhex(x[1:]).decode("utf-8") for x in sp.strip("[]").split(";") if x]
            info["variants"].append({"disabled": "d" in flags, "default": "D" in flags, "ci": "c" in flags,
                                     "transparent": "t" in flags, "spellings": sps,
                                     "preferred": bytes.fromhex(pref[1:]).decode("utf-8")})
        out.append(info)
    return out


def fromstr_inputs(it: Item, info, rng, flipcap=32, nrandom=8):
    """inputs for a definition, derived from its own spellings: [(string, note)]"""
    ins = {}

    def put(s, note):
        try:
            s.encode("utf-8")
        except UnicodeEncodeError:
            return
        if s not in ins:
            ins[s] = note
    for vi, v in enumerate(info["variants"]):
        tag = "disabled" if v["disabled"] else ("default" if v["default"] else "spelling")
        for sp in v["spellings"]:
            put(sp, tag)
            for f in flips(sp, rng, flipcap):
                put(f, "near-flip")
            for nb in sorted(neighbours(sp))[: (flipcap * 4 + 64)]:
                put(nb, "near-edit")
            put(" " + sp, "near-pad")
            put(sp + " ", "near-pad")
            put(sp + "\n", "near-pad")
            # NUL padding (a spelling packed into a fixed-size word must not equal the spelling followed by NUL bytes)
            put(sp + "\0", "near-pad")
            if len(sp.encode()) < 8:
                put(sp + "\0" * (8 - len(sp.encode())), "near-pad")
            put("\0" + sp, "near-pad")
        ident = it.variants[vi].ident
        if ident.startswith("r#"):
            put(ident, "near-ident")        # the raw spelling of a raw identifier is NOT its name
            ident = ident[2:]
        put(ident, "near-ident")
        for alt in (ident.lower(), ident.upper(), ident.replace("_", "-"), ident.replace("_", "")):
            put(alt, "near-ident")
    prefix = next((m.s for m in it.metas if m.kind == "prefix"), None)
    if prefix:
        # the prefix is part of the PRINTED name only: prefix + spelling is not a spelling
        put(prefix, "near-prefix")
        put(prefix + "zzz", "near-prefix")
        for v in info["variants"]:
            for sp in v["spellings"][:3]:
                put(prefix + sp, "near-prefix")
                if sp.startswith(prefix):
                    put(sp[len(prefix):], "near-prefix")
    for s in ("", " ", "é", "K", "ſ", "ı", "ß", "x" * 300, "null", "None", "0"):
        put(s, "far")
    alphabet = "abBlueREd-_ 1éß"
    for _ in range(nrandom):
        put("".join(rng.choice(alphabet) for _ in range(rng.randint(0, 9))), "far")
    return list(ins.items())


def spec_grid(rng, n=None, full=False):
    """format specs as query args [fill, align, width, precision] ('-' = absent)"""
    fills = ["-", "x2a", "xc3a9", "x30"]
    aligns = ["-", "<", ">", "^"]
    widths = ["-", "0", "1", "3", "4", "7", "12", "16"]
    precs = ["-", "0", "1", "2", "3", "5", "8"]
    out = []
    for f in fills:
        for a in aligns:
            if f != "-" and a == "-":
                continue
            for w in widths:
                for p in precs:
                    out.append([f, a, w, p])
    if full or n is None or n >= len(out):
        return out
    keep = [["-", "-", "-", "-"], ["-", "-", "7", "-"], ["-", ">", "7", "2"], ["x2a", "^", "12", "-"], ["xc3a9", "<", "4", "3"],
            ["-", "-", "-", "1"], ["x30", ">", "16", "5"], ["-", "^", "3", "0"]]
    return keep + rng.sample(out, max(0, n - len(keep)))


def model_query(prop: str, items, queries_per_item):
    """run the extracted model on candidate definitions with the given [(kind, args)] per item;
    -> list (per item) of list of observations"""
    resolve_names(prop, items)
    d = os.path.join(R.WORK, prop)
    os.makedirs(d, exist_ok=True)
    path = os.path.join(d, "candidates2.txt")
    idx = []
    with open(path, "w") as f:
        for k, it in enumerate(items):
            f.write("def %d %s\n" % (k, it.sexp()))
        n = 0
        for k, it in enumerate(items):
            row = []
            for kind, args in queries_per_item:
                f.write("q %d %d %s%s\n" % (n, k, kind, "".join(" " + str(a) for a in args)))
                row.append(n)
                n += 1
            idx.append(row)
    obs = R.run_model(path)
    return [[obs.get(n, "") for n in row] for row in idx]


def real_structure(prop: str, items, derive="EnumString"):
    """structural summaries of the REAL generated code (harness/genprobe `struct`), per candidate definition;
    None when the probe cannot be built"""
    from .defs import plain_source
    binp, err = R.build_genprobe()
    if binp is None:
        return [None] * len(items)
    lines = ["struct %d %s %s" % (k, derive, hx(plain_source(it))) for k, it in enumerate(items)]
    obs, died = R.run_genprobe(binp, lines, os.path.join(R.WORK, prop, "struct"))
    return [obs.get(k) for k in range(len(items))]


def literals_of_structure(summary):
    """every string literal the real generated EnumString code compares the input with (phf keys and arm literals)"""
    out = []
    if not summary or not summary.startswith("phf="):
        return out
    parts = dict(p.split("=", 1) for p in summary.split("|"))
    for blk in (parts.get("phf", "[]"), parts.get("arms", "[]")):
        for e in blk.strip("[]").split(";"):
            if not e:
                continue
            fields = e.split(":")
            hx_ = fields[0] if blk is parts.get("phf") else fields[1]
            try:
                out.append(bytes.fromhex(hx_[1:]).decode("utf-8"))
            except (ValueError, UnicodeDecodeError):
                pass
    return out
