"""Rust-side rendering shared by the property checks: the concrete instantiation of a corpus enum, the
value observer `vobs`, sample values, and the per-query-kind dispatcher bodies."""
from .defs import Item, Variant, Field, pattern, render_item, generics_decl, rust_str, hx

# type parameter G<i> is instantiated with u8, const N<i> with 3, lifetimes with 'static
def inst(it: Item, name=None) -> str:
    args = ["'static"] * it.lifetimes + [getattr(it, "targ", None) or "u8"] * it.tparams + ["3"] * it.cparams
    return (name or it.ident) + ("<%s>" % ", ".join(args) if args else "")


def turbofish(it: Item, name=None) -> str:
    args = [getattr(it, "targ", None) or "u8"] * it.tparams + ["3"] * it.cparams     # lifetime arguments are inferred
    return (name or it.ident) + ("::<%s>" % ", ".join(args) if args else "")


STRING_TYPES = ("String", "&'static str", "Box<str>", "Wrap", "&'l0 str", "Id<G0>")


def is_string_ty(ty: str) -> bool:
    return ty.strip() in STRING_TYPES


# non-default sample values per field type (Rust expression, Display rendering)
SAMPLE = {
    "u8": ("42u8", "42"), "G0": ("42u8", "42"), "G1": ("17u8", "17"), "i32": ("-77i32", "-77"), "bool": ("true", "true"),
    "usize": ("1234usize", "1234"), "u16": ("600u16", "600"), "i64": ("-5000000000i64", "-5000000000"),
    "char": ("'q'", "q"), "Option<u8>": ("Some(3u8)", None),
    "String": ('String::from("pay load")', "pay load"), "&'static str": ('"st\\u{e9}"', "sté"),
    "&'l0 str": ('"lt"', "lt"),
    "Box<str>": ('Box::<str>::from("boxed")', "boxed"), "Wrap": ('Wrap(String::from("wr"))', "wr"),
    "Id<G0>": ('Id(String::from("id7"), std::marker::PhantomData)', "id7"),
    "f32": ("1.5f32", "1.5"),
    "Tick": ("Tick(5)", None), "Boom": ("Boom", None), "std::marker::PhantomData<G0>": ("std::marker::PhantomData", None),      # hp.rs: Default counts constructions; an inherent `default()` returns another value
    # types that are NOT Send / Sync, and a few structured ones (none of them is Display)
    "std::rc::Rc<u8>": ("std::rc::Rc::new(9u8)", None), "std::cell::Cell<u8>": ("std::cell::Cell::new(9u8)", None),
    "()": ("()", None), "[u8; 3]": ("[1u8, 2, 3]", None), "(u8, bool)": ("(5u8, true)", None),
}
DEFAULT_EXPR = "Default::default()"


def vobs_fn(it: Item, fname="vobs", tyname=None) -> str:
    """fn vobs(e: &E<..>) -> String : `v<i>(<field obs>,..)`"""
    lines = ["pub fn %s(e: &%s) -> String {" % (fname, inst(it, tyname)), "    match e {"]
    for i, v in enumerate(it.variants):
        binders = ["b%d" % j for j in range(len(v.fields))]
        pat = pattern(it, v, binders, path=tyname)
        if not v.fields:
            lines.append('        %s => "v%d()".to_string(),' % (pat, i))
        else:
            fmt = "v%d(" % i + ",".join("{}" for _ in v.fields) + ")"
            lines.append('        %s => format!("%s", %s),' % (pat, fmt, ", ".join("FObs::fobs(%s)" % b for b in binders)))
    if not it.variants:
        lines.append("        _ => unreachable!(),")
    lines.append("    }")
    lines.append("}")
    return "\n".join(lines)


def vidx_fn(it: Item, fname="vidx", tyname=None) -> str:
    lines = ["pub fn %s(e: &%s) -> usize {" % (fname, inst(it, tyname)), "    match e {"]
    for i, v in enumerate(it.variants):
        lines.append("        %s => %d," % (pattern(it, v, None, path=tyname), i))
    if not it.variants:
        lines.append("        _ => unreachable!(),")
    lines.append("    }")
    lines.append("}")
    return "\n".join(lines)


def construct(it: Item, v: Variant, exprs, tyname=None) -> str:
    # with lifetime parameters rustc rejects generic arguments on a struct-variant path: rely on inference
    p = "%s::%s" % ((tyname or it.ident) if it.lifetimes else turbofish(it, tyname), v.ident)
    if v.kind == "unit":
        return p
    if v.kind == "tuple":
        return "%s(%s)" % (p, ", ".join(exprs))
    return "%s { %s }" % (p, ", ".join("%s: %s" % (f.name, e) for f, e in zip(v.fields, exprs)))


def sample_values(it: Item):
    """[(variant index, [field exprs], tag)]: per variant one all-default value and, when it has
    fields, one with non-default payloads"""
    vals = []
    for i, v in enumerate(it.variants):
        if not v.fields:
            vals.append((i, [], "unit"))
            continue
        ok_default = all(f.ty not in ("f32",) for f in v.fields)
        vals.append((i, [DEFAULT_EXPR for _ in v.fields], "default"))
        vals.append((i, [SAMPLE[f.ty][0] for f in v.fields], "sample"))
    return vals


def vals_fn(it: Item, vals, fname="val", tyname=None) -> str:
    lines = ["pub fn %s(j: usize) -> %s {" % (fname, inst(it, tyname)), "    match j {"]
    for j, (i, exprs, _) in enumerate(vals):
        lines.append("        %d => %s," % (j, construct(it, it.variants[i], exprs, tyname)))
    lines.append('        _ => panic!("no such sample value"),')
    lines.append("    }")
    lines.append("}")
    return "\n".join(lines)


def query_fn(arms: dict) -> str:
    """pub fn query(kind, args) -> String dispatching on the query kind; arms: kind -> Rust block expr"""
    lines = ["pub fn query(kind: &str, args: &[&str]) -> String {", "    match kind {"]
    for k, body in arms.items():
        lines.append('        "%s" => { %s }' % (k, body))
    lines.append('        _ => format!("HARNESS-UNKNOWN-KIND:{}", kind),')
    lines.append("    }")
    lines.append("}")
    return "\n".join(lines)


import re as _re

DW_VALUES = {"dw_string": b"dw"}


def concretize(mobs: str, it: Item, input_hex: str = None) -> str:
    """turn the model's symbolic payload observations (d | w:<fn> | in) into what the Rust observer prints
    for string-like fields (`s:<hex>`); other field types print the symbolic form themselves"""
    def one(m):
        i = int(m.group(1))
        body = m.group(2)
        if body == "":
            return m.group(0)
        v = it.variants[i]
        parts = body.split(",")
        out = []
        for j, p in enumerate(parts):
            ty = v.fields[j].ty if j < len(v.fields) else ""
            if is_string_ty(ty):
                if p == "d":
                    p = "s:x"
                elif p == "in":
                    p = "s:" + (input_hex or "x")
                elif p.startswith("w:") and p[2:] in DW_VALUES:
                    p = "s:x" + DW_VALUES[p[2:]].hex()
            out.append(p)
        return "v%d(%s)" % (i, ",".join(out))
    return _re.sub(r"v(\d+)\(([^()]*)\)", one, mobs)
