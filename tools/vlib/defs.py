"""Enum definitions as Python data; rendered (a) as the s-expression the extracted model reads and
(b) as Rust source carrying the REAL strum derives.  One definition <-> one `item` of Model/Defs.v."""
from dataclasses import dataclass, field as dfield
from typing import List, Optional, Tuple, Union


def hx(s) -> str:
    if isinstance(s, str):
        s = s.encode("utf-8")
    return "x" + s.hex()


def unraw(ident: str) -> str:
    """`r#type` names the identifier `type` (the model and every derived NAME use the identifier; Rust source needs the prefix)"""
    return ident[2:] if ident.startswith("r#") else ident


def rust_str(s, style=None) -> str:
    """A Rust string literal for the given text (str or bytes that are valid UTF-8).
    style: None (plain, escapes only where needed) | "xesc" (ASCII as \\xNN) | "uesc" (every character as \\u{..}: a LONG source spelling of a short value) |
    "raw" (r##".."##: quotes and backslashes unescaped, a source spelling shorter than the escaped one)"""
    if isinstance(s, bytes):
        s = s.decode("utf-8")
    if style == "uesc":
        return '"' + "".join("\\u{%x}" % ord(ch) for ch in s) + '"'
    if style == "xesc":
        # every ASCII character as \xNN (braces, spaces and quotes too: `\x7b0\x7d` is the placeholder {0}); the rest verbatim
        return '"' + "".join(("\\x%02x" % ord(ch)) if ord(ch) < 0x80 else ch for ch in s) + '"'
    if style == "raw" and "\r" not in s:
        n = 1
        while ('"' + "#" * n) in s:
            n += 1
        return "r" + "#" * n + '"' + s + '"' + "#" * n
    out = ['"']
    for ch in s:
        o = ord(ch)
        if ch == '"':
            out.append('\\"')
        elif ch == "\\":
            out.append("\\\\")
        elif ch == "\n":
            out.append("\\n")
        elif ch == "\t":
            out.append("\\t")
        elif ch == "\r":
            out.append("\\r")
        elif o < 0x20 or o == 0x7F:
            out.append("\\u{%x}" % o)
        else:
            out.append(ch)
    out.append('"')
    return "".join(out)


# ---------------------------------------------------------------- macro_rules! rendering
# When an item is rendered `via_macro`, every literal VALUE inside its #[strum(..)] attributes is passed in as a macro fragment
# (`$f3:expr` / `$f4:literal`, alternating): rustc hands such a value to the derive wrapped in an invisible group, which an attribute
# parser that pattern-matches on the expression kind does not see through.
_FRAGS = None


def frag(text: str, kind: str = None) -> str:
    """kind: fragment specifier; None = alternate `expr` / `literal` (values), "meta" for a whole option such as `disabled`"""
    if _FRAGS is None:
        return text
    _FRAGS.append((text, kind or ("expr" if len(_FRAGS) % 2 == 0 else "literal")))
    return "$f%d" % (len(_FRAGS) - 1)


# ---------------------------------------------------------------- variant-level metas
@dataclass
class VM:
    """one item of a #[strum(..)] list on a variant, or a doc attribute"""
    kind: str                      # ser tos msg det doc transparent disabled default dw aci props
    s: Optional[str] = None        # payload string (ser/tos/msg/det/doc/dw)
    b: Optional[bool] = None       # aci value
    explicit: bool = True          # aci written as `ascii_case_insensitive = true` (vs bare keyword)
    props: Optional[list] = None   # [(key, ('s', str) | ('i', int) | ('b', bool) | ('other', src))]
    style: Optional[str] = None    # how the literal is WRITTEN in the Rust source (rust_str): None | "uesc" | "raw"; invisible to the model

    def sexp(self) -> str:
        k = self.kind
        if k in ("ser", "tos", "msg", "det", "doc", "dw"):
            return "(%s %s)" % (k, hx(self.s))
        if k in ("transparent", "disabled", "default"):
            return k
        if k == "raw":
            return ""          # an attribute strum does not read (#[doc(hidden)], #[allow(..)], ..): invisible to the model
        if k == "aci":
            return "(aci %d)" % (1 if self.b else 0)
        if k == "props":
            items = []
            for key, val in self.props:
                if val[0] == "s":
                    items.append("(%s (s %s))" % (hx(key), hx(val[1])))
                elif val[0] == "i":
                    items.append("(%s (i %d))" % (hx(key), val[1]))
                elif val[0] == "b":
                    items.append("(%s (b %d))" % (hx(key), 1 if val[1] else 0))
                else:
                    items.append("(%s other)" % hx(key))
            return "(props %s)" % " ".join(items) if items else "(props)"
        raise ValueError(k)

    def rust(self) -> str:
        """text inside #[strum( .. )]; doc handled by the caller"""
        k = self.kind
        names = {"ser": "serialize", "tos": "to_string", "msg": "message", "det": "detailed_message",
                 "dw": "default_with"}
        if k in names:
            return "%s = %s" % (names[k], frag(rust_str(self.s, self.style)))
        if k in ("transparent", "disabled", "default"):
            return frag(k, "meta")
        if k == "aci":
            if self.b and not self.explicit:
                return frag("ascii_case_insensitive", "meta")
            return "ascii_case_insensitive = %s" % frag("true" if self.b else "false")
        if k == "props":
            parts = []
            for key, val in self.props:
                if val[0] == "s":
                    parts.append("%s = %s" % (key, rust_str(val[1])))
                elif val[0] == "i":
                    parts.append("%s = %s" % (key, val[2] if len(val) > 2 else "%d" % val[1]))     # ("i", value[, source spelling])
                elif val[0] == "b":
                    parts.append("%s = %s" % (key, "true" if val[1] else "false"))
                else:
                    parts.append("%s = %s" % (key, val[1]))
            return "props(%s)" % ", ".join(parts)
        raise ValueError(k)


def ser(s): return VM("ser", s)
def tos(s): return VM("tos", s)
def msg(s): return VM("msg", s)
def det(s): return VM("det", s)
def doc(s): return VM("doc", s)
def dw(s): return VM("dw", s)
def aci(b=True, explicit=None): return VM("aci", b=b, explicit=(explicit if explicit is not None else not b))
TRANSPARENT = VM("transparent")
DISABLED = VM("disabled")
DEFAULT = VM("default")
def props(kv): return VM("props", props=kv)
def raw(s): return VM("raw", s)      # e.g. raw("doc(hidden)"), raw("doc(alias = \"x\")"), raw("allow(dead_code)")


# ---------------------------------------------------------------- enum-level metas
@dataclass
class EM:
    kind: str                  # sall aci crate phf prefix pety pefn cis
    s: Optional[str] = None

    def sexp(self) -> str:
        if self.kind in ("sall", "crate", "prefix", "pety", "pefn"):
            return "(%s %s)" % (self.kind, hx(self.s))
        return self.kind

    def rust(self) -> str:
        k = self.kind
        if k == "sall":
            return "serialize_all = %s" % frag(rust_str(self.s))
        if k == "aci":
            return "ascii_case_insensitive"
        if k == "crate":
            return "crate = %s" % rust_str(self.s)
        if k == "phf":
            return "use_phf"
        if k == "prefix":
            return "prefix = %s" % frag(rust_str(self.s))
        if k == "pety":
            return "parse_err_ty = %s" % frag(self.s, "ty")          # (inside a macro_rules! expansion: handed in by the caller as a `ty` fragment)
        if k == "pefn":
            return "parse_err_fn = %s" % frag(self.s, "path")        # (.. and the function as a `path` fragment: the caller's hygiene context)
        if k == "cis":
            return "const_into_str"
        raise ValueError(k)


@dataclass
class DM:
    """one item of a #[strum_discriminants(..)] list on the enum"""
    kind: str                  # derive name vis doc other
    s: Optional[str] = None
    paths: Optional[List[str]] = None

    def sexp(self) -> str:
        if self.kind == "derive":
            return "(derive %s)" % " ".join(hx(p) for p in self.paths)
        if self.kind == "vis":
            return "(vis %s)" % self.s
        return "(%s %s)" % (self.kind, hx(self.s))

    def rust(self) -> str:
        if self.kind == "derive":
            return "derive(%s)" % ", ".join(self.paths)
        if self.kind == "name":
            return "name(%s)" % self.s
        if self.kind == "vis":
            return "vis(%s)" % {"inherited": "", "pub": "pub", "pubcrate": "pub(crate)", "pubsuper": "pub(super)"}[self.s]
        if self.kind == "doc":
            return "doc = %s" % rust_str(self.s)
        return self.s


# ---------------------------------------------------------------- fields / variants / items
@dataclass
class Field:
    ty: str                          # Rust type text
    name: str = ""                   # "" for tuple fields
    dws: List[str] = dfield(default_factory=list)   # field-level default_with occurrences
    value: Optional[str] = None      # not part of the definition; scratch for generators

    @property
    def is_ref(self) -> bool:
        return self.ty.lstrip().startswith("&")

    def sexp(self) -> str:
        return "(%s %s %d (%s))" % (hx(self.name), hx(self.ty), 1 if self.is_ref else 0,
                                    " ".join(hx(d) for d in self.dws))


@dataclass
class Variant:
    ident: str
    kind: str = "unit"               # unit | tuple | named
    fields: List[Field] = dfield(default_factory=list)
    metas: List[VM] = dfield(default_factory=list)
    discr: Optional[int] = None      # VALUE of the explicit discriminant
    discr_expr: Optional[str] = None # Rust expression with that value (default: the decimal literal)
    dmetas: List[VM] = dfield(default_factory=list)
    groups: Optional[List[int]] = None   # how metas are split over #[strum] attributes (sizes)
    model_name: Optional[str] = None     # NON-ASCII identifier without explicit names: the name the Rust reference (heck) gives it
                                         # under the enum's style; the model (stated over ASCII identifiers) sees it as a spelling

    def sexp(self) -> str:
        if self.model_name is not None and not any(m.kind in ("ser", "tos") for m in self.metas):
            extra = "(ser %s) " % hx(self.model_name)
        else:
            extra = ""
        if self.kind == "unit":
            fs = "unit"
        else:
            fs = "(%s %s)" % (self.kind, " ".join(f.sexp() for f in self.fields)) if self.fields else "(%s)" % self.kind
        return "(v %s %s (metas %s) (discr %s) (dmetas %s))" % (
            hx(unraw(self.ident)), fs, extra + " ".join(m.sexp() for m in self.metas if m.kind != "raw"),
            "none" if self.discr is None else str(self.discr),
            " ".join(m.sexp() for m in self.dmetas if m.kind != "raw"))

    def has(self, kind) -> bool:
        return any(m.kind == kind for m in self.metas)


@dataclass
class Item:
    ident: str
    variants: List[Variant] = dfield(default_factory=list)
    kind: str = "enum"               # enum | struct | union
    lifetimes: int = 0
    tparams: int = 0
    cparams: int = 0
    vis: str = "pub"                 # inherited | pub | pubcrate | pubsuper
    metas: List[EM] = dfield(default_factory=list)
    dmetas: List[DM] = dfield(default_factory=list)
    repr: Optional[str] = None
    where_clause: bool = False       # render bounds in a where-clause instead of inline
    cparam_default: Optional[str] = None    # const parameters carry a default (`const N0: usize = 4`)
    tparam_default: Optional[str] = None    # type parameters carry a default (`G0: Bound = u8`): legal on the enum, NOT in an impl header
    repr_form: Optional[List[str]] = None   # how #[repr] is WRITTEN: one entry per attribute, e.g. ["C, u8"], ["u8", "C"], ["align(8)", "i16"]
                                            # (`repr` stays the integer type: that is what rustc uses and what the model sees)
    groups: Optional[List[int]] = None

    def sexp(self) -> str:
        return "(item %s %s %d %d %d %s (metas %s) (dmetas %s) (repr %s) (variants %s))" % (
            self.kind, hx(self.ident), self.lifetimes, self.tparams, self.cparams, self.vis,
            " ".join(m.sexp() for m in self.metas), " ".join(m.sexp() for m in self.dmetas),
            self.repr or "none", " ".join(v.sexp() for v in self.variants))


def split_groups(items: list, groups: Optional[List[int]]) -> List[list]:
    if not items:
        return []
    if not groups:
        return [items]
    out, i = [], 0
    for g in groups:
        if i >= len(items):
            break
        out.append(items[i:i + g])
        i += g
    if i < len(items):
        out.append(items[i:])
    return [g for g in out if g]


VIS = {"inherited": "", "pub": "pub ", "pubcrate": "pub(crate) ", "pubsuper": "pub(super) "}


# an attribute's arguments may be delimited by ( ), { } or [ ]: `#[strum{disabled}]` is the same attribute as `#[strum(disabled)]`
_DELIMS = [("(", ")"), ("{", "}"), ("[", "]")]
_DELIM_CYCLE = None       # set while rendering an item whose `attr_delims` asks for mixed delimiters
_TRAILING = False         # set while rendering an item with `trailing_commas`


def render_variant_attrs(v: Variant, indent="    ") -> str:
    """attributes of a variant in source order: docs stay where they are between strum groups"""
    lines = []
    run = []
    runs = []
    for m in v.metas:
        if m.kind in ("doc", "raw"):
            if run:
                runs.append(("strum", run))
                run = []
            runs.append((m.kind, m))
        else:
            run.append(m)
    if run:
        runs.append(("strum", run))
    gi = list(v.groups or [])
    for kind, payload in runs:
        if kind == "doc":
            lines.append("%s#[doc = %s]" % (indent, rust_str(payload.s, payload.style)))
        elif kind == "raw":
            lines.append("%s#[%s]" % (indent, payload.s))
        else:
            for g in split_groups(payload, gi):
                o_, c_ = _DELIMS[0] if not _DELIM_CYCLE else _DELIM_CYCLE[len(lines) % len(_DELIM_CYCLE)]
                lines.append("%s#[strum%s%s%s%s]" % (indent, o_, ", ".join(m.rust() for m in g), "," if _TRAILING else "", c_))
    for m in v.dmetas:
        if m.kind == "raw":
            # any attribute may be passed through to the generated variant: a bare word (`default`), `name = value`, a list
            lines.append("%s#[strum_discriminants(%s)]" % (indent, m.s))
        else:
            lines.append("%s#[strum_discriminants(strum(%s))]" % (indent, m.rust()))
    return "\n".join(lines)


def generics_decl(it: Item, bounds: str = "") -> Tuple[str, str, str]:
    """(declaration generics `<'a, T: B, const N: usize>`, where clause, use generics `<'a, T, N>`)"""
    params, uses, wh = [], [], []
    for i in range(it.lifetimes):
        params.append("'l%d" % i)
        uses.append("'l%d" % i)
    for i in range(it.tparams):
        name = "G%d" % i
        dflt = (" = " + it.tparam_default) if it.tparam_default else ""
        if bounds and not it.where_clause:
            params.append("%s: %s%s" % (name, bounds, dflt))
        else:
            params.append(name + dflt)
            if bounds:
                wh.append("%s: %s" % (name, bounds))
        uses.append(name)
    for i in range(it.cparams):
        params.append("const N%d: usize%s" % (i, (" = " + it.cparam_default) if it.cparam_default else ""))
        uses.append("N%d" % i)
    if not params:
        # `enum E<> { .. }`: an EMPTY parameter list is legal Rust (what `enum $name<$($p),*>` expands to for a parameterless enum): not generic
        return ("<>" if getattr(it, "empty_generics", False) else ""), "", ""
    return "<%s%s>" % (", ".join(params), "," if getattr(it, "empty_generics", False) else ""), (" where %s" % ", ".join(wh) if wh else ""), "<%s>" % ", ".join(uses)


def render_item(it: Item, derives: List[str], bounds: str = "", extra_attrs: List[str] = ()) -> str:
    """Rust source of the item with the given derive list (paths like `strum::EnumString`)."""
    global _FRAGS, _DELIM_CYCLE, _TRAILING
    if getattr(it, "trailing_commas", False) and not _TRAILING:
        _TRAILING = True
        try:
            return render_item(it, derives, bounds, extra_attrs)
        finally:
            _TRAILING = False
    if getattr(it, "attr_delims", None) and _DELIM_CYCLE is None:
        _DELIM_CYCLE = [_DELIMS[i] for i in it.attr_delims]
        try:
            return render_item(it, derives, bounds, extra_attrs)
        finally:
            _DELIM_CYCLE = None
    if getattr(it, "via_macro", False) and _FRAGS is None:
        _FRAGS = []
        try:
            body = render_item(it, derives, bounds, extra_attrs)
            frags = _FRAGS
        finally:
            _FRAGS = None
        if not frags:
            return body
        params = ", ".join("$f%d:%s" % (i, k_) for i, (_, k_) in enumerate(frags))
        mname = "mk_%s" % unraw(it.ident).lower()
        return "macro_rules! %s { (%s) => {\n%s\n} }\n%s!(%s);" % (mname, params, body, mname, ", ".join(t_ for t_, _ in frags))
    lines = []
    if derives:
        lines.append("#[derive(%s)]" % ", ".join(derives))
    for a in extra_attrs:
        lines.append(a)
    if it.repr_form:
        for r in it.repr_form:
            lines.append("#[repr(%s)]" % r)
    elif it.repr:
        # (inside a macro_rules! expansion the integer type arrives as a `ty` fragment: an invisible group around the hint)
        lines.append("#[repr(%s)]" % (frag(it.repr, "ty") if (_FRAGS is not None and it.repr != "C") else it.repr))
    for g in split_groups(it.metas, it.groups):
        o_, c_ = _DELIMS[0] if not _DELIM_CYCLE else _DELIM_CYCLE[len(lines) % len(_DELIM_CYCLE)]
        lines.append("#[strum%s%s%s]" % (o_, ", ".join(m.rust() for m in g), c_))
    for m in it.dmetas:
        lines.append("#[strum_discriminants(%s)]" % m.rust())
    decl, wh, _ = generics_decl(it, bounds)
    kw = {"enum": "enum", "struct": "struct", "union": "union"}[it.kind]
    if it.kind != "enum":
        lines.append("%s%s %s%s%s { pub a: u8 }" % (VIS[it.vis], kw, it.ident, decl, wh))
        return "\n".join(lines)
    ename = frag(it.ident, "ident") if (_FRAGS is not None and getattr(it, "via_macro", None) == "idents") else it.ident   # the enum's NAME as a fragment too
    lines.append("%senum %s%s%s {" % (VIS[it.vis], ename, decl, wh))
    for v in it.variants:
        a = render_variant_attrs(v)
        if a:
            lines.append(a)
        vid = frag(v.ident, "ident") if (_FRAGS is not None and getattr(it, "via_macro", None) == "idents") else v.ident   # variant NAMES as macro fragments
        tc = "," if getattr(it, "trailing_commas", False) and v.fields else ""      # `One(u32,)`, `S { a: u8, }`: legal, and rustfmt's vertical layout
        if v.kind == "unit":
            body = vid
        elif v.kind == "tuple":
            fs = []
            for f in v.fields:
                pre = "".join("#[strum(default_with = %s)] " % rust_str(d) for d in f.dws)
                fs.append(pre + f.ty)
            body = "%s(%s%s)" % (vid, ", ".join(fs), tc)
        else:
            fs = []
            for f in v.fields:
                pre = "".join("#[strum(default_with = %s)] " % rust_str(d) for d in f.dws)
                fs.append("%s%s: %s" % (pre, f.name, f.ty))
            body = "%s { %s%s }" % (vid, ", ".join(fs), tc)
        if v.discr is not None:
            body += " = %s" % (v.discr_expr if v.discr_expr is not None else str(v.discr))
        lines.append("    %s," % body)
    lines.append("}")
    return "\n".join(lines)


def pattern(it: Item, v: Variant, binders: Optional[List[str]] = None, path: str = None) -> str:
    """a pattern matching variant v; binders name the fields (else ignored)"""
    p = "%s::%s" % (path or it.ident, v.ident)
    if v.kind == "unit":
        return p
    if v.kind == "tuple":
        if binders is None:
            return p + "(..)"
        return p + "(%s)" % ", ".join(binders)
    if binders is None:
        return p + " { .. }"
    return p + " { %s }" % ", ".join("%s: %s" % (f.name, b) for f, b in zip(v.fields, binders))


# ---------------------------------------------------------------- hostile scopes
# Look-alikes of prelude names, declared NEXT to the enum (they shadow the prelude there, so generated code that names one of them
# without an absolute path picks up the look-alike).  Private on purpose: `pub use self::shadow::*` re-exports only the enum and the
# types the derives generate.
HOSTILE = {
    "no_implicit_prelude": "",
    "Default": """trait Default { fn default() -> Self; }
impl Default for u8 { fn default() -> u8 { 101 } }
impl Default for i32 { fn default() -> i32 { 102 } }
impl Default for bool { fn default() -> bool { true } }
impl Default for usize { fn default() -> usize { 103 } }
impl Default for String { fn default() -> String { String::from("hostile") } }""",
    "From": """trait From<T> { fn from(t: T) -> Self; }
impl<'q> From<&'q str> for String { fn from(_: &'q str) -> String { ::std::string::ToString::to_string("hostile") } }
impl<'q> From<&'q str> for Wrap { fn from(_: &'q str) -> Wrap { Wrap(::std::string::ToString::to_string("hostile")) } }""",
    "Into": """trait Into<T> { fn into(self) -> T; }
impl<'q> Into<String> for &'q str { fn into(self) -> String { String::from("hostile") } }""",
    "Result": "type Result<T> = ::core::result::Result<T, ()>;",
    "Option": "struct Option;",
    "Some": "enum HostileOpt { Some(u8), None }\nuse self::HostileOpt::*;",
    "Ok": "enum HostileRes { Ok(u8), Err(u8) }\nuse self::HostileRes::*;",
    "Iterator": "trait Iterator {}\ntrait DoubleEndedIterator {}\ntrait ExactSizeIterator {}",
    "Clone": "trait Clone {}\ntrait Copy {}\ntrait PartialEq {}\ntrait Eq {}",
    "AsRef": "trait AsRef<T: ?Sized> {}\ntrait TryFrom<T> {}\ntrait FromStr {}",
    "usize": "#[allow(non_camel_case_types)] type usize = u8;",
    "str": "#[allow(non_camel_case_types)] type str = [u8];",
    "i64": "#[allow(non_camel_case_types)] type i64 = i32;\n#[allow(non_camel_case_types)] type bool = u8;",
    "Send": "trait Send {}\ntrait Sync {}\ntrait Sized2 {}",
    # a blanket extension trait of iterators with a method called `get` (the shape of itertools' `get`): `self.get(i)` on a `&mut Self` receiver
    # prefers it to an inherent `get(&self)`
    "IterGet": "trait HostileIterGet: Sized { fn get(&mut self, _n: usize) -> ::core::option::Option<u8> { ::core::option::Option::None } }\nimpl<T: ::core::iter::Iterator> HostileIterGet for T {}",
    # user macros named like std macros (textual scope: they shadow the std ones for everything below them in the module)
    "m_matches": "macro_rules! matches { ($($t:tt)*) => { false } }",
    "m_panic": "macro_rules! panic { ($($t:tt)*) => { loop {} } }",
    "m_fmt": "macro_rules! concat { ($($t:tt)*) => { \"\" } }\nmacro_rules! stringify { ($($t:tt)*) => { \"\" } }\nmacro_rules! write { ($($t:tt)*) => { ::core::result::Result::Ok(()) } }",
    "m_assert": "macro_rules! assert { ($($t:tt)*) => { () } }\nmacro_rules! debug_assert { ($($t:tt)*) => { () } }\nmacro_rules! unreachable { ($($t:tt)*) => { loop {} } }\nmacro_rules! todo { ($($t:tt)*) => { loop {} } }\nmacro_rules! unimplemented { ($($t:tt)*) => { loop {} } }",
    # lower-case CONSTANTS with names a generated binding would plausibly use: a pattern `input if ..` becomes a constant pattern next to
    # `const input: &str` (no warning, the arm just stops matching)
    "c_binders": "\n".join("#[allow(non_upper_case_globals)] const %s: &str = \"hostile\";" % n_ for n_ in
                            ("input", "other", "name", "text", "key", "word", "candidate", "variant", "spelling", "lit", "lower", "upper", "this", "that", "raw",
                             "string", "needle", "src", "val", "item", "elem", "arg", "found", "matched", "result", "res", "out", "ret", "tmp")),
    # a blanket extension trait with BY-VALUE methods named like the methods the derives generate or implement: a generated `x.into_str()` /
    # `self.get_message()` written as a METHOD CALL on a by-value receiver finds it before it auto-refs to the intended `&self` method (seed C03_r16)
    "ByValue": """trait HostileByValue: Sized {
    fn into_str(self) -> &'static str { "hostile" }
    fn get_message(self) -> ::core::option::Option<&'static str> { ::core::option::Option::Some("hostile") }
    fn get_detailed_message(self) -> ::core::option::Option<&'static str> { ::core::option::Option::Some("hostile") }
    fn get_documentation(self) -> ::core::option::Option<&'static str> { ::core::option::Option::Some("hostile") }
    fn get_str(self, _k: &::core::primitive::str) -> ::core::option::Option<&'static str> { ::core::option::Option::Some("hostile") }
    fn get_int(self, _k: &::core::primitive::str) -> ::core::option::Option<i64> { ::core::option::Option::Some(-1) }
    fn get_bool(self, _k: &::core::primitive::str) -> ::core::option::Option<bool> { ::core::option::Option::Some(true) }
    fn discriminant(self) -> u8 { 0 }
}
impl<T> HostileByValue for T {}""",
    "PhantomData": "struct PhantomData;\nmod marker {}\nmod fmt {}\nmod iter {}\nmod option {}\nmod result {}\nmod convert {}\nmod default {}",
}


def hostile_wrap(item_src: str, names) -> str:
    if "no_implicit_prelude" in names:
        # no prelude at all next to the enum: only what the USER's own tokens need is imported by name (payload types), so every
        # method call of the generated code that relies on a prelude TRAIT being in scope (`x.clone()`, `s.into()`) stops resolving
        imports = "use ::std::string::String; use ::std::option::Option; use ::std::boxed::Box; use ::std::vec::Vec;"
        # the user's own derive list has to name everything absolutely as well (the extern prelude is gone too)
        import re as _re

        def _abs(m):
            names = [x.strip() for x in m.group(1).split(",") if x.strip()]
            table = {"Debug": "::core::fmt::Debug", "Clone": "::core::clone::Clone", "PartialEq": "::core::cmp::PartialEq", "Copy": "::core::marker::Copy",
                     "Eq": "::core::cmp::Eq", "Hash": "::core::hash::Hash", "Default": "::core::default::Default"}
            return "#[derive(%s)]" % ", ".join(table.get(n, ("::" + n) if n.startswith("strum::") else n) for n in names)
        item_src = _re.sub(r"#\[derive\(([^)]*)\)\]", _abs, item_src, count=1)
        return ("pub use self::shadow::*;\npub mod shadow {\n#![no_implicit_prelude]\n#![allow(unused_imports, dead_code, non_snake_case)]\nuse super::*;\n%s\n%s\n}" % (imports, item_src))
    body = "\n".join(HOSTILE[n] for n in names)
    return ("pub use self::shadow::*;\npub mod shadow {\n#![allow(unused_imports, dead_code, non_snake_case)]\nuse super::*;\n%s\n%s\n}" % (body, item_src))


def plain_source(it: Item) -> str:
    """the item as syn sees it after macro expansion: no derive list, no macro_rules! wrapper (for the generator probe)"""
    vm = getattr(it, "via_macro", False)
    it.via_macro = False
    try:
        return render_item(it, [])
    finally:
        it.via_macro = vm
