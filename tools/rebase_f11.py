#!/usr/bin/env python3
"""rebase a seed patch written before /repo d5274d9 (formatter parameter renamed f -> __strum_fmt in display.rs)"""
import sys, re, shutil, os
d = sys.argv[1]
p = os.path.join(d, "patch.diff")
if not os.path.exists(os.path.join(d, "patch.orig.diff")):
    shutil.copy(p, os.path.join(d, "patch.orig.diff"))
out = []
infile = False
for line in open(p):
    if line.startswith("diff --git"):
        infile = "strings/display.rs" in line
    if infile and line[:1] in " +-" and not line.startswith(("+++", "---")):
        body = line[1:]
        body = body.replace("::core::fmt::Display::fmt(#tok, f)", "::core::fmt::Display::fmt(#tok, __strum_fmt)")
        body = body.replace("::core::fmt::Display::fmt(#output, f)", "::core::fmt::Display::fmt(#output, __strum_fmt)")
        body = body.replace("::core::fmt::Display::fmt(&format_args!(#output, #args), f)", "::core::fmt::Display::fmt(&format_args!(#output, #args), __strum_fmt)")
        body = body.replace("fn fmt(&self, f: &mut ::core::fmt::Formatter)", "fn fmt(&self, __strum_fmt: &mut ::core::fmt::Formatter)")
        body = re.sub(r"\bf\.write_str\(", "__strum_fmt.write_str(", body)
        body = re.sub(r"\bf\.pad\(", "__strum_fmt.pad(", body)
        body = re.sub(r", f\)", ", __strum_fmt)", body)
        line = line[0] + body
    out.append(line)
open(p, "w").writelines(out)
