#!/bin/bash
# seed_check.sh <seed name> <property id>...: apply seeded/<name>/patch.diff to /repo, run the quick checks, undo.
NAME=$1; shift
cd /verif
git -C /repo apply /verif/seeded/$NAME/patch.diff || { echo "patch does not apply"; exit 2; }
for P in "$@"; do
  VERIF_DEV_SKIP_COQ=${SEED_SKIP_COQ:-0} python3 tools/check.py $P --tier quick > /tmp/seedchk_${NAME}_$P.log 2>&1; RC=$?
  echo "seed=$NAME check=$P rc=$RC $(grep -c VIOLATION /tmp/seedchk_${NAME}_$P.log) violation lines"
  grep -A1 -m1 "VIOLATION" /tmp/seedchk_${NAME}_$P.log | tail -1 | cut -c1-300
done
git -C /repo checkout -- .
git -C /repo status --short
