#!/bin/bash
# seed_eval.sh <property id> [seed name]: (1) re-verifies a seeded change produced in /tmp/wt_<id> + /tmp/seed_<id>
# (existing suite passes with the change, demo fails with it and passes without), (2) stores it under /verif/seeded/<name>/,
# (3) applies it to /repo, runs the property's quick check, and undoes it.
set -u
ID=$1; NAME=${2:-$ID}
WT=/tmp/wt_$ID; SD=/tmp/seed_$ID; OUT=/verif/seeded/$NAME
mkdir -p $OUT
cp $SD/patch.diff $OUT/patch.diff; cp $SD/seeded_demo.rs $OUT/seeded_demo.rs; cp $SD/notes.md $OUT/notes.md 2>/dev/null
cd $WT || exit 2
git checkout -q -- . 2>/dev/null; rm -f strum_tests/tests/seeded_demo.rs
# without the change: demo passes
cp $OUT/seeded_demo.rs strum_tests/tests/seeded_demo.rs
cargo test -p strum_tests --offline --test seeded_demo >/tmp/seed_${ID}_clean.log 2>&1; CLEAN=$?
rm -f strum_tests/tests/seeded_demo.rs
git apply $OUT/patch.diff || { echo "patch does not apply"; exit 2; }
# with the change: existing suite passes
cargo test --workspace --offline >/tmp/seed_${ID}_suite.log 2>&1; SUITE=$?
cp $OUT/seeded_demo.rs strum_tests/tests/seeded_demo.rs
cargo test -p strum_tests --offline --test seeded_demo >/tmp/seed_${ID}_mut.log 2>&1; MUT=$?
echo "demo-without-change rc=$CLEAN (want 0); suite-with-change rc=$SUITE (want 0); demo-with-change rc=$MUT (want !=0)"
echo "$CLEAN $SUITE $MUT" > $OUT/.verify
if [ "${SEED_VERIFY_ONLY:-0}" = "1" ]; then exit 0; fi
cd /verif
git -C /repo apply $OUT/patch.diff || { echo "patch does not apply to /repo"; exit 2; }
python3 tools/check.py $ID --tier quick >/tmp/seed_${ID}_check.log 2>&1; CHK=$?
git -C /repo checkout -- .
git -C /repo status --short
echo "check rc=$CHK"; grep -m3 "VIOLATION" /tmp/seed_${ID}_check.log; grep -A1 -m2 "VIOLATION" /tmp/seed_${ID}_check.log | grep -v VIOLATION | cut -c1-400
python3 - <<PY
import json
json.dump({"property": "$ID", "confirmed": {"demo_without_change_rc": $CLEAN, "existing_suite_with_change_rc": $SUITE, "demo_with_change_rc": $MUT},
           "check_quick_rc": $CHK, "ran": ["cargo test -p strum_tests --offline --test seeded_demo (clean worktree)", "cargo test --workspace --offline (patched)",
           "cargo test -p strum_tests --offline --test seeded_demo (patched)", "git -C /repo apply patch.diff; python3 tools/check.py $ID --tier quick; git -C /repo checkout -- ."],
           "needs": open("$OUT/notes.md").read()[:1500] if True else ""}, open("$OUT/meta.json", "w"), indent=1)
PY
