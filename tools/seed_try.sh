#!/bin/bash
# seed_try.sh <seed> [props...]: apply seeded/<seed>/patch.diff to a scratch worktree of /repo HEAD and run quick checks against it
cd /verif
S=$1; shift
P=${@:-$(echo $S | cut -d_ -f1)}
WT=/tmp/wt_try_$S
git -C /repo worktree remove --force $WT 2>/dev/null
git -C /repo worktree add -q --detach $WT HEAD || exit 2
if ! git -C $WT apply /verif/seeded/$S/patch.diff; then echo "$S: patch does not apply"; git -C /repo worktree remove --force $WT; exit 3; fi
tools/tree_check.sh $WT try_$S $P
for p in $P; do grep -m2 -B3 VIOLATION /tmp/vwork_try_$S/$p.log | cut -c1-400; done
git -C /repo worktree remove --force $WT; rm -rf /tmp/vwork_try_$S
