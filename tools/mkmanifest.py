#!/usr/bin/env python3
"""Regenerates /verif/MANIFEST.json from the table below (kept valid at all times)."""
import json
import os

VERIF = os.path.dirname(os.path.dirname(os.path.abspath(__file__)))

LEVEL_NOTE_COMMON = ("Trusted: Coq 8.16.1 kernel (+ its VM for vm_compute reflection; no native_compute), no axioms "
                     "(Print Assumptions re-run per check), extraction via ExtrOcamlBasic only + OCaml 4.13.1 + extract/driver.ml, "
                     "the hand-written Gallina model tied to /repo by the differential correspondence run on every check, "
                     "the corpus generators / Rust renderer / observers, cargo + rustc 1.95. ")

# property -> (text, note, technique, design_ref)
TIE = ("The model is tied to /repo on every run by a differential correspondence: generated enum definitions are compiled with the REAL "
       "derives from /repo's working tree, run, and every observable the property constrains is compared with the extracted model. ")
TECH = "Rocq proof over a Gallina model of the generator + differential correspondence (extracted model vs compiled derive)"

CLAIMED = {
    "C01": ("C01_sound_complete / C01_fallthrough / C01_match_is_variant / C01_disabled_never / C01_first_match / C01_try_from_agrees: for EVERY enum "
            "definition on which the EnumString generator model succeeds and whose spellings do not overlap (decidable predicate), and EVERY input "
            "string, from_str returns variant V with Default / default_with payload iff the input is one of V's spellings (exactly, or ignoring ASCII "
            "case when V is case-insensitive); otherwise the default capture or the error; never a disabled variant; try_from agrees. " + TIE,
            "Modelled, not verified: Rust's match on &str with guards, phf lookup.", TECH, "DESIGN.md §7 C01"),
    "C02": ("C02_roundtrip_* / C02_serializations / C02_preferred_in_spellings: for every definition (no prefix, non-overlapping) and every enabled "
            "non-default non-transparent variant with a placeholder-free name, what Display / AsRefStr / IntoStaticStr / ToString print parses back to "
            "the same variant with reset payload, and so does every get_serializations() entry; corollaries of C01 and C03 inside the model. " + TIE,
            "As C01 / C03.", TECH, "DESIGN.md §7 C02"),
    "C03": ("C03_canonical / C03_longest_unique / C03_display / C03_as_ref / C03_into_static / C03_to_string / C03_variant_names: the name every "
            "string-producing derive prints is preferred_name, which is the property's canonical name (to_string, else the unique longest serialize, "
            "else the cased identifier, prefix prepended), for every definition and variant; VARIANTS holds it at the declaration index. " + TIE,
            "Serialize literals of one variant are assumed to have pairwise distinct byte lengths.", TECH, "DESIGN.md §7 C03"),
    "C04": ("C04_table / C04_collect / C04_rev / C04_iter_collect / C04_count: the iterator's constructor table is exactly the enabled variants in "
            "declaration order (no duplicates, all payload fields Default), draining the generated state machine from the front yields 0..COUNT-1 "
            "and from the back the reverse, COUNT = table length — for every definition. " + TIE,
            "As C05 for the arithmetic.", TECH, "DESIGN.md §7 C04"),
    "C05": ("C05_step / C05_history / C05_no_panic / C05_fused / C05_len_exact (+ C05_legacy_refuted for the pinned arithmetic): for every variant count "
            "with COUNT+1 < 2^64, both overflow modes, every n < 2^64 and EVERY history of next / next_back / nth / nth_back / len / size_hint / clone, "
            "the generated cursor arithmetic refines the double-ended iterator over 0..COUNT-1 and never panics. Tied by state-cover + exhaustive short "
            "+ random histories in dev AND release builds under catch_unwind. Send + Sync is a compile-time assertion (compile check, not proof).",
            "Modelled: usize arithmetic (checked / wrapping / saturating), std's default nth_back / skip / step_by / cycle.", TECH, "DESIGN.md §7 C05"),
    "C06": ("Theorems C06_iff / C06_none / C06_roundtrip / C06_const / C06_total / C06_program / C06_program_complete (Props/C06.v) hold for EVERY enum definition on which "
            "the FromRepr generator model succeeds and every integer x: from_repr(x) = Some(V, defaults) iff V is enabled and x is the "
            "discriminant rustc assigns to V (rule over all declared variants). " + TIE +
            "~1000 generated enums are compared on every value of 8/16-bit discriminant types and on boundary/random values of wider ones; the "
            "body of from_repr is also read from the REAL rustc expansion of the corpus crate into the deep-embedded program of Model/ReprProg.v "
            "(constant chain + guarded arms) and compared with the program the model emits, which C06_program proves equal to run_from_repr.",
            "Modelled, not verified: rustc's discriminant assignment (rustc_discr, tied by `as` casts), const-evaluability (tied by a "
            "const item), generics/trait dispatch (decided by rustc on the corpus).", TECH, "DESIGN.md §7 C06"),
    "C07": ("C07_words_spec / C07_style / C07_camel_is_mixed / C07_table / C07_lower_upper / C07_uniform / C07_explicit_not_recased: heck's word "
            "scanner equals a position-local boundary specification (underscores, lower->upper, acronym boundaries) for EVERY ASCII identifier; each "
            "style is the documented separator + capitalisation over those words; the 16 accepted strings map to the documented styles; explicit "
            "spellings are never re-cased. Tied through genprobe (the real convert_case / snakify / from_str) exhaustively over all identifiers up to "
            "length 6 (thorough 8) over {a,b,A,B,1,_} by digest, plus a dictionary and derive-level enums under all 16 style strings.",
            "heck 0.5.0 is modelled over ASCII bytes (Model/Heck.v, tied by the exhaustive sweep) and over all scalar values parametric in the character database (Model/HeckU.v; C07u_words_spec / C07u_style / C07u_table_disjoint / C07u_ascii_instance / C07u_camel_not_mixed), the latter instantiated on every run with the table Rust's own char methods print for the characters in play. Identifiers containing U+03A3 (final sigma): Rust-vs-Rust differential against a reference written on heck itself (outside the proof).", TECH, "DESIGN.md §7 C07"),
    "C08": ("C08_count_iter / C08_names_length / C08_array / C08_no_disabled_positions / C08_four_agree: COUNT = number of iterated values; VariantNames and "
            "VariantArray have one entry per declared variant in declaration order; with no disabled variant all four lists have the same length and "
            "position i denotes the same variant — for every definition. " + TIE, "As C03 / C04.", TECH, "DESIGN.md §7 C08"),
    "C09": ("C09_mirror / C09_from_agree / C09_name_vis: the generated discriminant item has the same variant names, order, explicit discriminants and "
            "repr (hence the same rustc numbering), From<E> / From<&E> / discriminant() map variant i to variant i, name / visibility / derives follow "
            "the attributes — for every definition. Requested derives are exercised on the generated type and compared with the model applied to the "
            "generated item. " + TIE, "`Derives take effect` and visibility are decided by compiling and using the generated type.", TECH, "DESIGN.md §7 C09"),
    "C10": ("C10_slots / C10_get_set_same / C10_get_set_other / C10_history / C10_constructors / C10_transform / C10_all / C10_all_ok / "
            "C10_disabled_panics / C10_total_map / C10_keys_are_iter: one slot per enabled variant; after ANY history of writes, reading k gives the last value written to k else the "
            "constructed one; constructors / transform pointwise; all / all_ok; disabled keys panic; end to end on the generated table every enabled variant reads and writes a value (no missing arm, no panic) with no side hypothesis; the keys are exactly EnumIter's output in order, COUNT of them — for every definition and element type. " + TIE,
            "Struct-literal field evaluation order and `?` are modelled.", TECH, "DESIGN.md §7 C10"),
    "C11": ("C11_capture / C11_display_default / C11_transparent_display / C11_transparent_as_ref / C11_transparent_into_static: an input that matches "
            "no other variant is captured unchanged in the default variant; Display of a default variant without to_string and Display / AsRef / From "
            "of a transparent variant forward to the inner field with the caller's formatter — for every definition, input and format spec. " + TIE,
            "The inner type's Display / AsRef / From<&str> are the harness types'.", TECH, "DESIGN.md §7 C11"),
    "C12": ("C12_fold_ascii_only (256x256 reflection) / C12_str_fold / C12_non_ascii_exact / C12_flag / C12_insensitive_iff / C12_sensitive_exact / "
            "C12_unicode_examples: eq_ignore_ascii_case is equality up to bit 0x20 on ASCII letters only; the effective flag is the variant's value else "
            "the enum's; insensitive variants match iff equal after ASCII folding, others exactly. " + TIE, "Strings are UTF-8 byte lists.", TECH, "DESIGN.md §7 C12"),
    "C13": ("C13_methods / C13_one_per_iterated / C13_partition / C13_disabled / C13_try_as: exactly one is_* predicate (named is_<snakify ident>) is true for a value of an "
            "enabled variant and none for a disabled one; try_as_* / _ref / _mut return Some(all fields in order) exactly on their own tuple variant. "
            + TIE + "Method names come from the model and are called (a naming difference is a compile error); _mut writes are re-read.",
            "Method names are assumed pairwise distinct.", TECH, "DESIGN.md §7 C13"),
    "C14": ("C14_message / C14_detailed / C14_documentation / C14_serializations / C14_doc_text: the four getters return exactly the variant's "
            "message, detailed_message (falling back to message), doc text (one leading space stripped per line; one line as is, several newline-"
            "terminated) and spellings; None for disabled variants — for every definition. " + TIE, "Zero-variant enums excluded (no value exists).", TECH, "DESIGN.md §7 C14"),
    "C15": ("C15_get / C15_get_str_iff / C15_merge_groups: get_str / get_int / get_bool return the first declared value of that type for the key among "
            "all props(..) groups of the variant, None otherwise and for disabled variants — for every definition and key. " + TIE +
            "The three real getters are also read token by token into the model's tables (variant -> [(key, value)] + wildcards) and compared.",
            "Property values are string / integer / boolean literals.", TECH, "DESIGN.md §7 C15"),
    "C16": ("C16_equiv / C16_accepts / C16_keys_distinct: adding use_phf never makes the generator fail, never emits duplicate phf keys, and for "
            "non-overlapping definitions the phf-backed parser equals the plain one on EVERY input. Every corpus definition is built twice (with / "
            "without use_phf, strum's phf feature on) and both parsers are compared with their models and with each other.",
            "phf_map! / phf::Map::get are modelled as an association list with distinct keys.", TECH, "DESIGN.md §7 C16"),
    "C17": ("C17_fixed / C17_pad_length / C17_pad_identity / C17_capture / C17_named_binding / C17_positional_binding: a fixed name is formatted by "
            "Formatter::pad (model fmt_pad) whatever the variant's kind; strum's placeholder capture returns exactly the argument names of every "
            "well-formed format string; named arguments bound = fields used. " + TIE + "The rendering by format_args! itself is a Rust-vs-Rust "
            "differential against format! with the same literal and fields (differential, not proof).",
            "core::fmt::Formatter::pad is modelled; format_args! is not.", TECH, "DESIGN.md §7 C17"),
    "C18": ("C18_custom_err / C18_not_called_on_match / C18_standard / C18_err_type: with parse_err_ty/fn and no default variant every rejected "
            "input yields Err(f(input)) with the input unchanged and f is not involved when a variant matches; otherwise VariantNotFound. " + TIE +
            "The harness's parse_err_fn logs its calls: exactly [input] on rejection, empty on success.",
            "The user's function is observed through its argument and call log.", TECH, "DESIGN.md §7 C18"),
    "C19": ("C19_shadow_independent / C19_no_std_item / C19_resolves_without_std / C19_strum_through_configured_path: the reference checker refs_ok is "
            "proved sound against a model of Rust name resolution; on every run it is applied (extracted) to every path / macro / use of the REAL "
            "generated tokens of every (definition, derive) obtained through genprobe, with the default and a configured strum path; and the same "
            "definitions are compiled in three configurations: #![no_std] with strum default-features off, strum only reachable renamed + re-exported "
            "with #[strum(crate=..)], and inside modules declaring mod core / std / alloc.",
            "rustc's real resolution is modelled only by Model/Paths.v; the three builds are the oracle (translation of real tokens + compile).",
            "Rocq-proved checker run on references extracted from the real generated tokens + three no_std build configurations", "DESIGN.md §7 C19"),
    "C20": ("C20_rejects / C20_no_panic / C20_dup_variant_attr_iff: for every item and derive, whenever one of the property's rejection rules applies "
            "the generator model returns an error, and no generator ever panics. Tied through genprobe: ~300 malformed and control items x 17 derive "
            "entry points of the REAL generator under catch_unwind must give the model's outcome class; a sample (thorough: all) is compiled with the "
            "real proc macro and must produce an error-level rustc diagnostic inside the item, never a panic.",
            "Diagnostics level / span are observed from rustc's JSON output, not modelled.", TECH, "DESIGN.md §7 C20"),
}
READY = sorted(CLAIMED)

REASON_PENDING = "check under construction (framework being built); will be claimed once its theorem and correspondence run"


def main():
    props = [json.loads(l)["id"] for l in open(os.path.join(VERIF, "properties.jsonl"))]
    checks = []
    for pid in props:
        if pid not in READY:
            continue
        text, note, tech, ref = CLAIMED[pid]
        checks.append({
            "property_id": pid,
            "quick_cmd": "python3 tools/check.py %s --tier quick" % pid,
            "thorough_cmd": "python3 tools/check.py %s --tier thorough" % pid,
            "evidence_file": "evidence/%s.json" % pid,
            "replay_cmd_template": "python3 tools/check.py --replay {path}",
            "engine": "rocq-model-correspondence",
            "level_claimed": {"category": "proof", "text": text, "design_ref": ref},
            "level_note": LEVEL_NOTE_COMMON + note,
            "technique": tech,
        })
    man = {
        "version": 1,
        "setup_cmd": "bash tools/setup.sh",
        "hooks": {
            "guard": "peternator7_strum_verif",
            "enable": "no hooks are needed: every observable is reached through the public API of the generated code or by compiling the unmodified generator sources; checks pass RUSTFLAGS=--cfg peternator7_strum_verif anyway",
            "baseline_off_cmd": "cd /repo && cargo test --workspace --no-fail-fast --offline",
            "source_commits": [],
            "add_only": True,
        },
        "engines": [{
            "name": "rocq-model-correspondence", "path": "tools/check.py",
            "serves_properties": [c["property_id"] for c in checks],
            "kind_free_text": "Rocq (Coq 8.16.1) theorems over a hand-written executable Gallina model of strum_macros; the model is extracted to OCaml and compared on every run with the real derives compiled from /repo's working tree",
        }],
        "checks": checks,
        "not_applicable": [{"property_id": p, "reason": REASON_PENDING} for p in props if p not in READY],
        "notes": "Seven genuine defects of the pinned tree were repaired by `fix:` commits in /repo (see known_findings.json and DESIGN.md §8).",
    }
    with open(os.path.join(VERIF, "MANIFEST.json"), "w") as f:
        json.dump(man, f, indent=1)
    print("MANIFEST.json: %d checks, %d not applicable" % (len(checks), len(man["not_applicable"])))


if __name__ == "__main__":
    main()
