#!/usr/bin/env python3
"""Regenerates /verif/MANIFEST.json from the table below (kept valid at all times)."""
import json
import os

VERIF = os.path.dirname(os.path.dirname(os.path.abspath(__file__)))

LEVEL_NOTE_COMMON = ("Trusted: Coq 8.16.1 kernel (+ its VM for vm_compute reflection; no native_compute), no axioms "
                     "(Print Assumptions re-run per check), extraction via ExtrOcamlBasic only + OCaml 4.13.1 + extract/driver.ml, "
                     "the hand-written Gallina model tied to /repo by the differential correspondence run on every check, "
                     "the corpus generators / Rust renderer / observers, cargo + rustc 1.95. ")

# property -> (text, note, technique, design_ref)
CLAIMED = {
    "C06": ("Theorems C06_iff / C06_none / C06_roundtrip / C06_const / C06_total (Props/C06.v) hold for EVERY enum definition on which "
            "the FromRepr generator model succeeds and every integer x: from_repr(x) = Some(V, defaults) iff V is enabled and x is the "
            "discriminant rustc assigns to V (rule over all declared variants). The model is tied to the real derive on every run: "
            "~1000 generated enums are compiled with the real #[derive(FromRepr)] from /repo's working tree and compared with the "
            "extracted model on every value of 8/16-bit discriminant types and on boundary/random values of wider ones.",
            "Modelled, not verified: rustc's discriminant assignment (rustc_discr, tied by `as` casts), const-evaluability (tied by a "
            "const item), generics/trait dispatch (decided by rustc on the corpus).",
            "Rocq proof over a Gallina model of the generator + differential correspondence (extracted model vs compiled derive)",
            "DESIGN.md §7 C06"),
}

REASON_PENDING = "check under construction (framework being built); will be claimed once its theorem and correspondence run"


def main():
    props = [json.loads(l)["id"] for l in open(os.path.join(VERIF, "properties.jsonl"))]
    checks = []
    for pid in props:
        if pid not in CLAIMED:
            continue
        text, note, tech, ref = CLAIMED[pid]
        checks.append({
            "property_id": pid,
            "quick_cmd": "python3 tools/check.py %s --tier quick" % pid,
            "thorough_cmd": "python3 tools/check.py %s --tier thorough" % pid,
            "evidence_file": "evidence/%s.json" % pid,
            "replay_cmd_template": "python3 tools/check.py --replay {path}",
            "engine": "rocq-model-correspondence",
            "level_claimed": {"category": "proof", "text": text, "design_ref": ref},
            "level_note": LEVEL_NOTE_COMMON + note,
            "technique": tech,
        })
    man = {
        "version": 1,
        "setup_cmd": "bash tools/setup.sh",
        "hooks": {
            "guard": "peternator7_strum_verif",
            "enable": "no hooks are needed: every observable is reached through the public API of the generated code or by compiling the unmodified generator sources; checks pass RUSTFLAGS=--cfg peternator7_strum_verif anyway",
            "baseline_off_cmd": "cd /repo && cargo test --workspace --no-fail-fast --offline",
            "source_commits": [],
            "add_only": True,
        },
        "engines": [{
            "name": "rocq-model-correspondence", "path": "tools/check.py",
            "serves_properties": [c["property_id"] for c in checks],
            "kind_free_text": "Rocq (Coq 8.16.1) theorems over a hand-written executable Gallina model of strum_macros; the model is extracted to OCaml and compared on every run with the real derives compiled from /repo's working tree",
        }],
        "checks": checks,
        "not_applicable": [{"property_id": p, "reason": REASON_PENDING} for p in props if p not in CLAIMED],
        "notes": "Seven genuine defects of the pinned tree were repaired by `fix:` commits in /repo (see known_findings.json and DESIGN.md §8).",
    }
    with open(os.path.join(VERIF, "MANIFEST.json"), "w") as f:
        json.dump(man, f, indent=1)
    print("MANIFEST.json: %d checks, %d not applicable" % (len(checks), len(man["not_applicable"])))


if __name__ == "__main__":
    main()
