(* StatementsU.v — the C07 / C13 naming theorems for identifiers in ALL of Unicode, parametric in the character database
   (Model/HeckU.v).  Statements and the spec-level definitions they mention only; no proofs. *)
Require Export Strum.Spec.Statements Strum.Model.HeckU.
Local Open Scope N_scope.
Local Open Scope list_scope.

(* the one fact about Unicode that is used: Lowercase and Uppercase are disjoint (a hypothesis of the theorems; the
   correspondence check tests it on every table it feeds the model: `table_disjoint`) *)
Definition lower_upper_disjoint (U : ucd) : Prop := forall c, u_lower U c = true -> u_upper U c = false.

Section SpecU.
Variable U : ucd.
(* the position-local boundary rule of Statements.v (C07), over scalar values *)
Definition ulc_upd (l : lastcase) (c : N) : lastcase := if u_lower U c then LClower else if u_upper U c then LCupper else l.
Definition uboundary_before (l : lastcase) (c : N) (next : option N) : bool :=
  u_upper U c &&
  match l with
  | LClower => true
  | LCupper => match next with Some n => u_lower U n | None => false end
  | LCnone => false
  end.
Fixpoint uspec_cut (w : ustr) (l : lastcase) (cur : ustr) : list ustr :=
  match w with
  | [] => [rev cur]
  | c :: rest =>
    if uboundary_before l c (hd_error rest) then rev cur :: uspec_cut rest (ulc_upd l c) [c]
    else uspec_cut rest (ulc_upd l c) (c :: cur)
  end.
Definition uspec_seg_words (w : ustr) : list ustr := match w with [] => [] | _ => uspec_cut w LCnone [] end.
Definition uspec_words (id : ustr) : list ustr := flat_map uspec_seg_words (usplit_alnum U id []).
Definition uapply_case (wc : wordcase) (w : ustr) : ustr :=
  match wc with WLower => ulowercase U w | WUpper => uuppercase U w | WCapital => ucapitalize U w end.
Definition ustyled (sep : ustr) (first rest : wordcase) (id : ustr) : ustr :=
  ujoin sep (match uspec_words id with [] => [] | w :: r => uapply_case first w :: map (uapply_case rest) r end).
End SpecU.

Definition stmt_C07u_words_spec : Prop :=
  forall U, lower_upper_disjoint U -> forall w, useg_words U w MBoundary [] = uspec_seg_words U w.

(* separator and capitalisation per style.  Two styles are NOT of the plain "separator + word case" shape outside ASCII:
   camelCase lower-cases the first SCALAR VALUE of the PascalCase name (mixed_case lower-cases the whole first word), and
   SCREAMING-KEBAB-CASE upper-cases the kebab-case name (upper . lower is not upper for e.g. U+0130) *)
Definition stmt_C07u_style : Prop :=
  forall U, lower_upper_disjoint U -> forall st id,
  uconvert_case U (Some st) id =
  match st with
  | SnakeCase => ustyled U [95] WLower WLower id
  | KebabCase => ustyled U [45] WLower WLower id
  | ShoutySnakeCase => ustyled U [95] WUpper WUpper id
  | TitleCase => ustyled U [32] WCapital WCapital id
  | TrainCase => ustyled U [45] WCapital WCapital id
  | PascalCase => ustyled U [] WCapital WCapital id
  | MixedCase => ustyled U [] WLower WCapital id
  | CamelCase => match ustyled U [] WCapital WCapital id with [] => [] | c :: r => u_lo U c ++ r end
  | ScreamingKebabCase => flat_map (u_up U) (ustyled U [45] WLower WLower id)
  | UpperCase => flat_map (u_up U) id
  | LowerCase => flat_map (u_lo U) id
  end.

(* a table that passes the run-time test satisfies the hypothesis *)
Definition stmt_C07u_table_disjoint : Prop :=
  forall t, table_disjoint t = true -> lower_upper_disjoint (ucd_of_table t).

(* Heck.v (on which every other theorem about names is stated) is the ASCII instance of this model *)
Definition stmt_C07u_ascii_instance : Prop :=
  lower_upper_disjoint ascii_ucd /\
  forall id, (forall st, uconvert_case ascii_ucd st (map byte id) = map byte (convert_case st id)) /\
             usnakify ascii_ucd (map byte id) = map byte (snakify id).

(* C07_camel_is_mixed is a theorem about ASCII only: over Unicode the two styles differ (U+00DF, "ßeta": "sSeta" / "ßeta") *)
Definition stmt_C07u_camel_not_mixed : Prop :=
  exists t id, table_disjoint t = true /\ table_closed t id = true /\ sigma_free id = true /\
    uconvert_case (ucd_of_table t) (Some CamelCase) id <> uconvert_case (ucd_of_table t) (Some MixedCase) id.

(* snakify = snake_case, then "_" before every ASCII digit that follows a non-digit *)
Definition stmt_C13u_snakify_digits : Prop :=
  forall U, lower_upper_disjoint U -> forall id, usnakify U id = usnakify_go None (ustyled U [95] WLower WLower id).
