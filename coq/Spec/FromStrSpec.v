(* FromStrSpec.v — the declarative side of C01 / C11 / C12 / C16 / C18: which strings a variant's
   declared spellings match, and the decidable domain predicate NonOverlap.  Executable (extracted:
   the corpus generators use it to admit definitions and to classify inputs). *)
Require Export Strum.Model.FromStr.

(* the spellings C01 defines for a variant: serialize* ++ to_string, else the cased identifier *)
Definition vspell (tp : tprops) (p : vprops) : list str := serializations (tp_style tp) p.
(* the effective case-insensitivity flag (C12): the variant's own value, else the enum's *)
Definition vci (tp : tprops) (p : vprops) : bool :=
  match vp_aci p with Some b => b | None => tp_aci tp end.
Definition lit_matches (ci : bool) (s l : str) : bool := if ci then eq_ic_str s l else str_eqb s l.
Definition matches_b (tp : tprops) (p : vprops) (s : str) : bool :=
  existsb (lit_matches (vci tp p) s) (vspell tp p).
Definition eligible_b (p : vprops) : bool := negb (vp_disabled p) && negb (vp_default p).

(* two variants clash when some string matches both *)
Definition clash (tp : tprops) (p q : vprops) : bool :=
  existsb (fun a => existsb (fun b => lit_matches (vci tp p || vci tp q) a b) (vspell tp q)) (vspell tp p).

Fixpoint no_clash_with (tp : tprops) (p : vprops) (l : list vprops) : bool :=
  match l with
  | [] => true
  | q :: r => negb (eligible_b p && eligible_b q && clash tp p q) && no_clash_with tp p r
  end.
Fixpoint non_overlap_list (tp : tprops) (l : list vprops) : bool :=
  match l with
  | [] => true
  | p :: r => no_clash_with tp p r && non_overlap_list tp r
  end.

Definition all_vprops (it : item) : res (list vprops) := mapM vprops_of (i_variants it).

Definition non_overlap_b (it : item) : bool :=
  match tprops_of it, all_vprops it with
  | Ok tp, Ok ps => non_overlap_list tp ps
  | _, _ => false
  end.

(* the first enabled default variant: (index, name of its single field if it is a named one) *)
Fixpoint find_default (idx : nat) (vs : list variant) : option (nat * option str) :=
  match vs with
  | [] => None
  | v :: r =>
    match vprops_of v with
    | Ok p =>
      if negb (vp_disabled p) && vp_default p then
        match single_field (v_fields v) with
        | Some (SingleTuple _) => Some (idx, None)
        | Some (SingleNamed n _) => Some (idx, Some n)
        | None => None
        end
      else find_default (S idx) r
    | _ => None
    end
  end.

(* what an input that matches no eligible variant must produce (C01 / C11 / C18) *)
Definition spec_fallthrough (it : item) (tp : tprops) (s : str) : fs_out :=
  match find_default 0 (i_variants it) with
  | Some (k, fld) => OCapture k fld s
  | None =>
    match tp_err_ty tp, tp_err_fn tp with
    | Some _, Some f => OCustom f s
    | _, _ => ONotFound
    end
  end.

(* variant i of the item, with its properties *)
Definition variant_at (it : item) (i : nat) (v : variant) (p : vprops) : Prop :=
  nth_error (i_variants it) i = Some v /\ vprops_of v = Ok p.
