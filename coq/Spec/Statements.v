(* Statements.v — the property theorems as closed propositions (so that Props/*.v can only be closed by
   `exact <lemma>` against exactly these statements).  No proofs here. *)
Require Export Strum.Spec.FromStrSpec Strum.Model.Display Strum.Model.Iter Strum.Model.IterProg Strum.Model.Table Strum.Model.Misc
               Strum.Model.Reject Strum.Model.Paths.
Local Open Scope char_scope.
Local Open Scope list_scope.

(* ======================= C01 ======================= *)
Definition stmt_C01_sound_complete : Prop :=
  forall it c tp, gen_from_str it = Ok c -> tprops_of it = Ok tp -> non_overlap_b it = true ->
  forall s i ps,
    run_from_str c s = OVariant i ps <->
    exists v p, variant_at it i v p /\ eligible_b p = true /\ matches_b tp p s = true /\ fs_params p (v_fields v) = Ok ps.

Definition stmt_C01_fallthrough : Prop :=
  forall it c tp, gen_from_str it = Ok c -> tprops_of it = Ok tp ->
  forall s, (forall i v p, variant_at it i v p -> eligible_b p && matches_b tp p s = false) ->
  run_from_str c s = spec_fallthrough it tp s.

(* a match never falls through (no NonOverlap needed) *)
Definition stmt_C01_match_is_variant : Prop :=
  forall it c tp, gen_from_str it = Ok c -> tprops_of it = Ok tp ->
  forall s i v p, variant_at it i v p -> eligible_b p = true -> matches_b tp p s = true ->
  exists j ps, run_from_str c s = OVariant j ps.

Definition stmt_C01_disabled_never : Prop :=
  forall it c, gen_from_str it = Ok c ->
  forall s i, (exists ps, run_from_str c s = OVariant i ps) \/ (exists f x, run_from_str c s = OCapture i f x) ->
  exists v p, variant_at it i v p /\ vp_disabled p = false.

(* without use_phf the result is the FIRST eligible variant, in declaration order, that matches *)
Definition stmt_C01_first_match : Prop :=
  forall it c tp, gen_from_str it = Ok c -> tprops_of it = Ok tp -> tp_phf tp = false ->
  forall s i ps, run_from_str c s = OVariant i ps ->
  (exists v p, variant_at it i v p /\ eligible_b p = true /\ matches_b tp p s = true /\ fs_params p (v_fields v) = Ok ps) /\
  (forall j v p, (j < i)%nat -> variant_at it j v p -> eligible_b p && matches_b tp p s = false).

Definition stmt_C01_try_from_agrees : Prop :=
  forall c s, run_try_from c s = run_from_str c s.

(* ======================= C12 ======================= *)
Definition stmt_C12_str_fold : Prop :=
  forall s l, eq_ic_str s l = true <-> Forall2 (fun a b => eq_ic a b = true) s l.
Definition stmt_C12_non_ascii_exact : Prop :=
  forall s l, eq_ic_str s l = true -> forall i a, nth_error s i = Some a -> is_ascii a = false -> nth_error l i = Some a.
Definition stmt_C12_flag : Prop :=
  forall tp p, vci tp p = match vp_aci p with Some b => b | None => tp_aci tp end.
Definition stmt_C12_insensitive_iff : Prop :=
  forall it c tp, gen_from_str it = Ok c -> tprops_of it = Ok tp -> non_overlap_b it = true ->
  forall i v p, variant_at it i v p -> eligible_b p = true -> vci tp p = true ->
  forall s, (exists ps, run_from_str c s = OVariant i ps) <-> (exists l, In l (vspell tp p) /\ eq_ic_str s l = true).
Definition stmt_C12_sensitive_exact : Prop :=
  forall it c tp, gen_from_str it = Ok c -> tprops_of it = Ok tp -> non_overlap_b it = true ->
  forall i v p, variant_at it i v p -> eligible_b p = true -> vci tp p = false ->
  forall s, (exists ps, run_from_str c s = OVariant i ps) <-> In s (vspell tp p).

(* ======================= C18 ======================= *)
Definition stmt_C18_custom_err : Prop :=
  forall it c tp t f, gen_from_str it = Ok c -> tprops_of it = Ok tp ->
  tp_err_ty tp = Some t -> tp_err_fn tp = Some f -> find_default 0 (i_variants it) = None ->
  forall s, (forall i v p, variant_at it i v p -> eligible_b p && matches_b tp p s = false) ->
  run_from_str c s = OCustom f s.
Definition stmt_C18_not_called_on_match : Prop :=
  forall it c tp, gen_from_str it = Ok c -> tprops_of it = Ok tp ->
  forall s i v p, variant_at it i v p -> eligible_b p = true -> matches_b tp p s = true ->
  forall f x, run_from_str c s <> OCustom f x.
Definition stmt_C18_standard : Prop :=
  forall it c tp, gen_from_str it = Ok c -> tprops_of it = Ok tp ->
  tp_err_ty tp = None -> tp_err_fn tp = None -> find_default 0 (i_variants it) = None ->
  forall s, (forall i v p, variant_at it i v p -> eligible_b p && matches_b tp p s = false) ->
  run_from_str c s = ONotFound.
Definition stmt_C18_err_type : Prop :=
  forall it c tp, gen_from_str it = Ok c -> tprops_of it = Ok tp ->
  (fs_custom_err c = true <->
   (is_some (tp_err_ty tp) = true /\ is_some (tp_err_fn tp) = true /\ find_default 0 (i_variants it) = None)).

(* ======================= C11 ======================= *)
Definition stmt_C11_capture : Prop :=
  forall it c tp k fld, gen_from_str it = Ok c -> tprops_of it = Ok tp ->
  find_default 0 (i_variants it) = Some (k, fld) ->
  forall s, (forall i v p, variant_at it i v p -> eligible_b p && matches_b tp p s = false) ->
  run_from_str c s = OCapture k fld s.
Definition stmt_C11_display_default : Prop :=
  forall it d i v p sg, gen_display it = Ok d -> variant_at it i v p ->
  vp_disabled p = false -> vp_transparent p = false -> vp_default p = true -> vp_to_string p = None ->
  single_field (v_fields v) = Some sg ->
  forall sp, run_display d i sp = OutInner sg.
Definition stmt_C11_transparent_display : Prop :=
  forall it d i v p sg, gen_display it = Ok d -> variant_at it i v p ->
  vp_disabled p = false -> vp_transparent p = true -> single_field (v_fields v) = Some sg ->
  forall sp, run_display d i sp = OutInner sg.
Definition stmt_C11_transparent_as_ref : Prop :=
  forall it a i v p sg, gen_as_ref it = Ok a -> variant_at it i v p ->
  vp_disabled p = false -> vp_transparent p = true -> single_field (v_fields v) = Some sg ->
  run_as_ref a i = AOutInner sg.
Definition stmt_C11_transparent_into_static : Prop :=
  forall it a i v p sg, gen_into_static it = Ok a -> variant_at it i v p ->
  vp_disabled p = false -> vp_transparent p = true -> single_field (v_fields v) = Some sg ->
  run_as_ref (is_arms a) i = AOutInner sg.

(* ======================= C03 ======================= *)
(* the canonical name of the property: to_string, else the LONGEST serialize, else the cased identifier; prefix prepended *)
Definition longest (l : list str) (x : str) : Prop := In x l /\ forall y, In y l -> (length y <= length x)%nat.
Definition canonical (st : option case_style) (pf : option str) (p : vprops) (name : str) : Prop :=
  exists base, name = (match pf with Some q => (q ++ base)%list | None => base end) /\
  match vp_to_string p with
  | Some t => base = t
  | None => match vp_serialize p with
            | [] => base = convert_case st (vp_ident p)
            | l => longest l base
            end
  end.
Definition stmt_C03_longest_unique : Prop :=
  forall l, NoDup (map (@length ascii) l) -> forall x, max_by_len l = Some x <-> longest l x.
Definition stmt_C03_canonical : Prop :=
  forall st pf p, NoDup (map (@length ascii) (vp_serialize p)) -> canonical st pf p (preferred_name st pf p).
(* the variants the property speaks about: enabled, not default-without-to_string, not transparent, no placeholders *)
Definition plain_variant (tp : tprops) (p : vprops) : Prop :=
  vp_disabled p = false /\ vp_transparent p = false /\ (vp_default p = false \/ vp_to_string p <> None) /\
  capture (preferred_name (tp_style tp) (tp_prefix tp) p) = Ok [].
Definition stmt_C03_display : Prop :=
  forall it d tp i v p, gen_display it = Ok d -> tprops_of it = Ok tp -> variant_at it i v p -> plain_variant tp p ->
  run_display d i nospec = OutStr (preferred_name (tp_style tp) (tp_prefix tp) p).
Definition stmt_C03_as_ref : Prop :=
  forall it a tp i v p, gen_as_ref it = Ok a -> tprops_of it = Ok tp -> variant_at it i v p ->
  vp_disabled p = false -> vp_transparent p = false ->
  run_as_ref a i = AOutStr (preferred_name (tp_style tp) (tp_prefix tp) p).
Definition stmt_C03_into_static : Prop :=
  forall it a tp i v p, gen_into_static it = Ok a -> tprops_of it = Ok tp -> variant_at it i v p ->
  vp_disabled p = false -> vp_transparent p = false ->
  run_as_ref (is_arms a) i = AOutStr (preferred_name (tp_style tp) (tp_prefix tp) p) /\ is_const a = tp_const_into_str tp.
Definition stmt_C03_to_string : Prop :=
  forall it t tp i v p, gen_to_string it = Ok t -> tprops_of it = Ok tp -> variant_at it i v p ->
  vp_disabled p = false -> (vp_default p = false \/ vp_to_string p <> None) ->
  run_match t i = MArm (TStr (preferred_name (tp_style tp) (tp_prefix tp) p)).
Definition stmt_C03_variant_names : Prop :=
  forall it ns tp, gen_variant_names it = Ok ns -> tprops_of it = Ok tp ->
  length ns = length (i_variants it) /\
  forall i v p, variant_at it i v p -> nth_error ns i = Some (preferred_name (tp_style tp) (tp_prefix tp) p).

(* ======================= C17 ======================= *)
Definition stmt_C17_fixed : Prop :=
  forall it d tp i v p, gen_display it = Ok d -> tprops_of it = Ok tp -> variant_at it i v p -> plain_variant tp p ->
  forall sp, run_display d i sp = OutStr (fmt_pad sp (preferred_name (tp_style tp) (tp_prefix tp) p)).
Definition starts_ok (s : str) : bool := match s with [] => true | c :: _ => negb (is_cont c) end.
Definition stmt_C17_pad_length : Prop :=
  forall sp s, starts_ok s = true -> char_count (sp_fill sp) = 1%nat ->
  char_count (fmt_pad sp s) =
  let n := match sp_prec sp with Some q => Nat.min q (char_count s) | None => char_count s end in
  match sp_width sp with Some w => Nat.max w n | None => n end.
Definition stmt_C17_pad_identity : Prop :=
  forall sp s, sp_prec sp = None ->
  (sp_width sp = None \/ exists w, sp_width sp = Some w /\ (w <= char_count s)%nat) -> fmt_pad sp s = s.
(* Rust's format-string token structure: text, {{, }}, {inner} with a brace-free inner *)
Inductive ftok := FText (c : ascii) | FEscOpen | FEscClose | FArg (inner : str).
Definition nobrace (c : ascii) : Prop := c <> ob /\ c <> cb.
Definition wf_ftok (t : ftok) : Prop :=
  match t with FText c => nobrace c | FArg i => Forall nobrace i | _ => True end.
Definition render_ftok (t : ftok) : str :=
  match t with FText c => [c] | FEscOpen => [ob; ob] | FEscClose => [cb; cb] | FArg i => ob :: i ++ [cb] end.
Definition render_ftoks (ts : list ftok) : str := concat (map render_ftok ts).
Definition ftok_args (ts : list ftok) : list str :=
  flat_map (fun t => match t with FArg i => [name_of i] | _ => [] end) ts.
Definition stmt_C17_capture : Prop :=
  forall ts, Forall wf_ftok ts -> capture (render_ftoks ts) = Ok (ftok_args ts).
Definition stmt_C17_named_binding : Prop :=
  forall it d tp i v p fs used, gen_display it = Ok d -> tprops_of it = Ok tp -> variant_at it i v p ->
  vp_disabled p = false -> vp_transparent p = false -> (vp_default p = false \/ vp_to_string p <> None) ->
  v_fields v = FNamed fs ->
  capture_idents (preferred_name (tp_style tp) (tp_prefix tp) p) = Ok used -> used <> [] ->
  forall sp, exists bound,
    run_display d i sp = OutArgsNamed (preferred_name (tp_style tp) (tp_prefix tp) p) bound /\
    (forall n, In n bound <-> (In n (map f_name fs) /\ In n used)).
Definition stmt_C17_positional_binding : Prop :=
  forall it d tp i v p fs used, gen_display it = Ok d -> tprops_of it = Ok tp -> variant_at it i v p ->
  vp_disabled p = false -> vp_transparent p = false -> (vp_default p = false \/ vp_to_string p <> None) ->
  v_fields v = FTuple fs ->
  capture (preferred_name (tp_style tp) (tp_prefix tp) p) = Ok used -> used <> [] -> ~ In [] used ->
  forall sp, run_display d i sp = OutArgsPos (preferred_name (tp_style tp) (tp_prefix tp) p) (length fs).

(* ======================= C02 ======================= *)
Definition stmt_C02_preferred_in_spellings : Prop :=
  forall st p, In (preferred_name st None p) (serializations st p).
Definition roundtrip_hyps (it : item) (c : from_str_code) (tp : tprops) (i : nat) (v : variant) (p : vprops) : Prop :=
  gen_from_str it = Ok c /\ tprops_of it = Ok tp /\ non_overlap_b it = true /\ tp_prefix tp = None /\
  variant_at it i v p /\ eligible_b p = true.
Definition stmt_C02_roundtrip_display : Prop :=
  forall it c d tp i v p name, roundtrip_hyps it c tp i v p -> gen_display it = Ok d ->
  run_display d i nospec = OutStr name ->
  exists ps, run_from_str c name = OVariant i ps /\ fs_params p (v_fields v) = Ok ps.
Definition stmt_C02_roundtrip_as_ref : Prop :=
  forall it c a tp i v p name, roundtrip_hyps it c tp i v p -> gen_as_ref it = Ok a ->
  run_as_ref a i = AOutStr name ->
  exists ps, run_from_str c name = OVariant i ps /\ fs_params p (v_fields v) = Ok ps.
Definition stmt_C02_roundtrip_into_static : Prop :=
  forall it c a tp i v p name, roundtrip_hyps it c tp i v p -> gen_into_static it = Ok a ->
  run_as_ref (is_arms a) i = AOutStr name ->
  exists ps, run_from_str c name = OVariant i ps /\ fs_params p (v_fields v) = Ok ps.
Definition stmt_C02_roundtrip_to_string : Prop :=
  forall it c t tp i v p name, roundtrip_hyps it c tp i v p -> gen_to_string it = Ok t ->
  run_match t i = MArm (TStr name) ->
  exists ps, run_from_str c name = OVariant i ps /\ fs_params p (v_fields v) = Ok ps.
Definition stmt_C02_serializations : Prop :=
  forall it c m tp i v p l, gen_from_str it = Ok c -> tprops_of it = Ok tp -> non_overlap_b it = true ->
  variant_at it i v p -> eligible_b p = true -> gen_message it = Ok m ->
  run_serializations m i = Some l ->
  l = vspell tp p /\
  forall s, In s l -> exists ps, run_from_str c s = OVariant i ps /\ fs_params p (v_fields v) = Ok ps.

(* ======================= C07 ======================= *)
(* position-local word boundaries inside one alphanumeric segment: a boundary immediately before c iff c is
   upper-case and either the last CASED character before it is lower-case, or it is upper-case and the
   character after c is lower-case (acronym boundary) *)
Inductive lastcase := LCnone | LClower | LCupper.
Definition lc_upd (l : lastcase) (c : ascii) : lastcase := if is_lower c then LClower else if is_upper c then LCupper else l.
Definition boundary_before (l : lastcase) (c : ascii) (next : option ascii) : bool :=
  is_upper c &&
  match l with
  | LClower => true
  | LCupper => match next with Some n => is_lower n | None => false end
  | LCnone => false
  end.
Fixpoint spec_cut (w : str) (l : lastcase) (cur : str) : list str :=
  match w with
  | [] => [rev cur]
  | c :: rest =>
    if boundary_before l c (hd_error rest) then rev cur :: spec_cut rest (lc_upd l c) [c]
    else spec_cut rest (lc_upd l c) (c :: cur)
  end.
Definition spec_seg_words (w : str) : list str := match w with [] => [] | _ => spec_cut w LCnone [] end.
Definition spec_words (id : str) : list str := flat_map spec_seg_words (split_alnum id []).
Inductive wordcase := WLower | WUpper | WCapital.
Definition apply_case (wc : wordcase) (w : str) : str :=
  match wc with WLower => lowercase w | WUpper => uppercase w | WCapital => capitalize w end.
(* documented separator and capitalisation per style: (separator, case of the first word, case of the others) *)
Definition style_shape (st : case_style) : option (str * wordcase * wordcase) :=
  match st with
  | SnakeCase => Some (["_"], WLower, WLower)
  | KebabCase => Some (["-"], WLower, WLower)
  | ShoutySnakeCase => Some (["_"], WUpper, WUpper)
  | ScreamingKebabCase => Some (["-"], WUpper, WUpper)
  | TitleCase => Some ([" "], WCapital, WCapital)
  | TrainCase => Some (["-"], WCapital, WCapital)
  | PascalCase => Some ([], WCapital, WCapital)
  | CamelCase | MixedCase => Some ([], WLower, WCapital)
  | UpperCase | LowerCase => None
  end.
Definition styled (sep : str) (first rest : wordcase) (id : str) : str :=
  join sep (match spec_words id with [] => [] | w :: r => apply_case first w :: map (apply_case rest) r end).
Definition stmt_C07_words_spec : Prop := forall w, seg_words w MBoundary [] = spec_seg_words w.
Definition stmt_C07_style : Prop :=
  forall st id,
    match style_shape st with
    | Some (sep, f, r) => convert_case (Some st) id = styled sep f r id
    | None => convert_case (Some st) id = map (if match st with UpperCase => true | _ => false end then to_upper else to_lower) id
    end.
Definition stmt_C07_camel_is_mixed : Prop :=
  forall id, convert_case (Some CamelCase) id = convert_case (Some MixedCase) id.
Definition stmt_C07_table : Prop :=
  map (fun s => style_of_string (s_ s))
      ["camelCase"; "PascalCase"; "kebab-case"; "snake_case"; "SCREAMING_SNAKE_CASE"; "SCREAMING-KEBAB-CASE"; "lowercase";
       "UPPERCASE"; "title_case"; "mixed_case"; "Train-Case"; "camel_case"; "snek_case"; "kebab_case"; "shouty_snake_case";
       "shouty_snek_case"]%string
  = map Some [CamelCase; PascalCase; KebabCase; SnakeCase; ShoutySnakeCase; ScreamingKebabCase; LowerCase; UpperCase; TitleCase;
              MixedCase; TrainCase; PascalCase; SnakeCase; KebabCase; ShoutySnakeCase; ShoutySnakeCase].
Definition stmt_C07_lower_upper : Prop :=
  forall id, length (convert_case (Some LowerCase) id) = length id /\ length (convert_case (Some UpperCase) id) = length id /\
  forall i c, nth_error id i = Some c ->
    nth_error (convert_case (Some LowerCase) id) i = Some (to_lower c) /\
    nth_error (convert_case (Some UpperCase) id) i = Some (to_upper c) /\
    (is_alpha c = false -> to_lower c = c /\ to_upper c = c) /\
    eq_ic (to_lower c) c = true /\ eq_ic (to_upper c) c = true.
Definition stmt_C07_uniform : Prop :=
  forall st pf p, vp_serialize p = [] -> vp_to_string p = None ->
  preferred_name st pf p = (match pf with Some q => (q ++ convert_case st (vp_ident p))%list | None => convert_case st (vp_ident p) end) /\
  serializations st p = [convert_case st (vp_ident p)].
Definition stmt_C07_explicit_not_recased : Prop :=
  forall st st' pf p, (vp_serialize p <> [] \/ vp_to_string p <> None) ->
  preferred_name st pf p = preferred_name st' pf p /\ serializations st p = serializations st' p.

(* ======================= C04 / C05 / C08 ======================= *)
(* the enabled variants in declaration order, with their field counts *)
Fixpoint enabled_ctors (idx : nat) (vs : list variant) : list ctor :=
  match vs with
  | [] => []
  | v :: r =>
    match vprops_of v with
    | Ok p => if vp_disabled p then enabled_ctors (S idx) r
              else {| ct_variant := idx; ct_nfields := nfields_of (v_fields v) |} :: enabled_ctors (S idx) r
    | _ => enabled_ctors (S idx) r
    end
  end.
Definition stmt_C04_table : Prop :=
  forall it c, gen_iter it = Ok c ->
  ic_table c = enabled_ctors 0 (i_variants it) /\
  NoDup (map ct_variant (ic_table c)) /\
  (forall a b x y, nth_error (ic_table c) a = Some x -> nth_error (ic_table c) b = Some y -> (a < b)%nat ->
                   (ct_variant x < ct_variant y)%nat) /\
  (forall i v p, variant_at it i v p -> (vp_disabled p = false <-> In i (map ct_variant (ic_table c)))).
Definition stmt_C04_count : Prop :=
  forall it c n, gen_iter it = Ok c -> gen_count it = Ok n -> iter_count c = Z.of_nat n /\ n = length (enabled_ctors 0 (i_variants it)).

(* the abstract double-ended iterator over 0 .. cnt-1: remaining items are the interval [lo, hi) *)
Record absit := { lo : Z; hi : Z }.
Local Open Scope Z_scope.
Definition spec_step (a : absit) (op : iop) : absit * iobs :=
  match op with
  | OpNext => if lo a <? hi a then ({| lo := lo a + 1; hi := hi a |}, ObsItem (Some (lo a))) else (a, ObsItem None)
  | OpNextBack => if lo a <? hi a then ({| lo := lo a; hi := hi a - 1 |}, ObsItem (Some (hi a - 1))) else (a, ObsItem None)
  | OpNth n => if lo a + n <? hi a then ({| lo := lo a + n + 1; hi := hi a |}, ObsItem (Some (lo a + n)))
               else ({| lo := hi a; hi := hi a |}, ObsItem None)
  | OpNthBack n => if lo a <? hi a - n then ({| lo := lo a; hi := hi a - n - 1 |}, ObsItem (Some (hi a - n - 1)))
                   else ({| lo := lo a; hi := lo a |}, ObsItem None)
  | OpLen => (a, ObsLen (hi a - lo a))
  | OpSizeHint => (a, ObsHint (hi a - lo a) (hi a - lo a))
  end.
Definition op_ok (W : Z) (op : iop) : Prop :=
  match op with OpNth n | OpNthBack n => 0 <= n < W | _ => True end.
(* refinement relation between the cursor pair of the generated iterator and the abstract interval *)
Definition Rit (cnt : Z) (s : ist) (a : absit) : Prop :=
  0 <= idx s <= cnt /\ 0 <= back s <= cnt /\ 0 <= lo a <= hi a /\ hi a <= cnt /\
  (if idx s + back s >=? cnt then lo a = hi a else lo a = idx s /\ hi a = cnt - back s).
Definition stmt_C05_step : Prop :=
  forall W cnt o s a op, 0 <= cnt -> 2 * cnt + 1 < W -> Rit cnt s a -> op_ok W op ->
  let '(s', ob) := it_step W o cnt s op in
  let '(a', ob') := spec_step a op in
  ob = ob' /\ ob <> ObsPanic /\ Rit cnt s' a'.
Definition stmt_C05_init : Prop := forall cnt, 0 <= cnt -> Rit cnt ist0 {| lo := 0; hi := cnt |}.
(* histories over a family of iterators with clone forks: the generated code and the abstract iterator
   produce the same observation list *)
Definition spec_hist_step (as_ : list absit) (h : hop) : list absit * option iobs :=
  match h with
  | HOp j op => match nth_error as_ j with
                | Some a => let '(a', ob) := spec_step a op in (set_nth as_ j a', Some ob)
                | None => (as_, None)
                end
  | HClone j => match nth_error as_ j with Some a => ((as_ ++ [a])%list, None) | None => (as_, None) end
  end.
Fixpoint spec_run_hist (as_ : list absit) (hs : list hop) : list (option iobs) :=
  match hs with
  | [] => []
  | h :: r => let '(as', ob) := spec_hist_step as_ h in ob :: spec_run_hist as' r
  end.
Definition hop_ok (W : Z) (h : hop) : Prop := match h with HOp _ op => op_ok W op | HClone _ => True end.
Definition stmt_C05_history : Prop :=
  forall W cnt o hs, 0 <= cnt -> 2 * cnt + 1 < W -> Forall (hop_ok W) hs ->
  run_hist (it_step W o cnt) [ist0] hs = spec_run_hist [{| lo := 0; hi := cnt |}] hs.
Definition stmt_C05_no_panic : Prop :=
  forall W cnt o hs, 0 <= cnt -> 2 * cnt + 1 < W -> Forall (hop_ok W) hs ->
  ~ In (Some ObsPanic) (run_hist (it_step W o cnt) [ist0] hs).
Definition stmt_C05_fused : Prop :=
  forall a op, lo a = hi a -> match op with OpNth n | OpNthBack n => 0 <= n | _ => True end ->
  match op with OpLen | OpSizeHint => True | _ =>
    snd (spec_step a op) = ObsItem None /\ lo (fst (spec_step a op)) = hi (fst (spec_step a op)) end.
Definition stmt_C05_len_exact : Prop :=
  forall W cnt o s a, 0 <= cnt -> 2 * cnt + 1 < W -> Rit cnt s a ->
  snd (it_step W o cnt s OpLen) = ObsLen (hi a - lo a) /\ snd (it_step W o cnt s OpSizeHint) = ObsHint (hi a - lo a) (hi a - lo a).
(* the method bodies the real generator emits, read token by token into the deep-embedded language of Model/IterProg.v
   (harness/genprobe `struct EnumIter`, compared with prog_nth / prog_next_back / prog_size_hint on every run), compute
   exactly the functions the theorems above are about — for every width, overflow mode, count, state and argument *)
Definition stmt_C05_programs : Prop :=
  forall W o cnt s n,
  exec W o cnt s [("n"%string, n)] prog_nth = mbind (it_nth W o cnt s n) (fun p => Ret (fst p, RItem (snd p))) /\
  exec W o cnt s [] prog_next_back = mbind (it_next_back W o cnt s) (fun p => Ret (fst p, RItem (snd p))) /\
  exec W o cnt s [] prog_size_hint = mbind (it_len W o cnt s) (fun m => Ret (s, RHint m)).
(* the hypothesis 2 * cnt + 1 < W (fewer than 2^63 variants on a 64-bit target) cannot be weakened to cnt + 1 < W: in the
   exhausted state idx = back = cnt the sums idx + (back + 1) of next_back and idx + back of size_hint exceed W.
   Witness with W = 10, cnt = 8: nth(8); next_back; next_back *)
Definition stmt_C05_hypothesis_needed : Prop :=
  In (Some ObsPanic) (run_hist (it_step 10 Debug 8) [ist0] [HOp 0 (OpNth 8); HOp 0 OpNextBack; HOp 0 OpNextBack]).
(* the items the abstract iterator yields are exactly lo, lo+1, .. from the front and hi-1, hi-2, .. from the back,
   each once: draining from the front gives the interval in order *)
Fixpoint spec_drain (fuel : nat) (a : absit) (op : iop) : list Z :=
  match fuel with
  | O => []
  | S f => match spec_step a op with
           | (a', ObsItem (Some k)) => k :: spec_drain f a' op
           | _ => []
           end
  end.
Definition zseq (lo_ : Z) (n : nat) : list Z := map (fun k => lo_ + Z.of_nat k) (seq 0 n).
Definition stmt_C04_collect : Prop :=
  forall a fuel, 0 <= lo a <= hi a -> (Z.to_nat (hi a - lo a) < fuel)%nat ->
  spec_drain fuel a OpNext = zseq (lo a) (Z.to_nat (hi a - lo a)).
Definition stmt_C04_rev : Prop :=
  forall a fuel, 0 <= lo a <= hi a -> (Z.to_nat (hi a - lo a) < fuel)%nat ->
  spec_drain fuel a OpNextBack = rev (zseq (lo a) (Z.to_nat (hi a - lo a))).
(* the same for the generated iterator itself: E::iter().collect() and .rev().collect() *)
Fixpoint it_drain (W : Z) (o : ovf) (cnt : Z) (fuel : nat) (s : ist) (op : iop) : list Z :=
  match fuel with
  | O => []
  | S f => match it_step W o cnt s op with
           | (s', ObsItem (Some k)) => k :: it_drain W o cnt f s' op
           | _ => []
           end
  end.
Definition stmt_C04_iter_collect : Prop :=
  forall W o cnt fuel, 0 <= cnt -> cnt + 1 < W -> (Z.to_nat cnt < fuel)%nat ->
  it_drain W o cnt fuel ist0 OpNext = zseq 0 (Z.to_nat cnt) /\
  it_drain W o cnt fuel ist0 OpNextBack = rev (zseq 0 (Z.to_nat cnt)).
(* the legacy (pinned) arithmetic violates the contract: nth(usize::MAX) on a fresh iterator *)
Definition stmt_C05_legacy_refuted : Prop :=
  let W := 2 ^ 64 in
  snd (it_step_legacy W Debug 3 ist0 (OpNth (W - 1))) = ObsPanic /\
  (* release: the sum wraps to 0, the cursor is NOT frozen, and `get` is handed the wrapped index 0 - 1 (out of range => None) *)
  it_step_legacy W Release 3 ist0 (OpNth (W - 1)) = (ist0, ObsItem (Some (W - 1))) /\
  (forall c, iter_count c = 3 -> iter_get c (W - 1) = None) /\
  snd (it_step_legacy W Release 3 (fst (it_step_legacy W Release 3 ist0 (OpNth (W - 1)))) OpNext) = ObsItem (Some 0).
Close Scope Z_scope.

Definition stmt_C08_count_iter : Prop :=
  forall it c n, gen_iter it = Ok c -> gen_count it = Ok n -> n = length (ic_table c).
Definition stmt_C08_names_length : Prop :=
  forall it ns, gen_variant_names it = Ok ns -> length ns = length (i_variants it).
Definition stmt_C08_array : Prop :=
  forall it arr, gen_variant_array it = Ok arr -> arr = seq 0 (length (i_variants it)).
Definition stmt_C08_no_disabled_positions : Prop :=
  forall it c, gen_iter it = Ok c ->
  (forall i v p, variant_at it i v p -> vp_disabled p = false) ->
  map ct_variant (ic_table c) = seq 0 (length (i_variants it)).

(* the four descriptions taken together: on an enum with no disabled variant, COUNT, the number of names, the array and
   the iterator's table all have the same length and the array lists the iterator's variants in the iterator's order *)
Definition stmt_C08_four_agree : Prop :=
  forall it c n ns arr, gen_iter it = Ok c -> gen_count it = Ok n -> gen_variant_names it = Ok ns ->
  gen_variant_array it = Ok arr -> (forall i v p, variant_at it i v p -> vp_disabled p = false) ->
  n = length ns /\ n = length arr /\ n = length (ic_table c) /\ arr = map ct_variant (ic_table c).

(* ======================= C10 ======================= *)
Definition stmt_C10_slots : Prop :=
  forall it c, gen_table it = Ok c ->
  map fst (tb_slots c) = map ct_variant (enabled_ctors 0 (i_variants it)) /\ NoDup (map fst (tb_slots c)) /\
  (forall i v p, variant_at it i v p -> (vp_disabled p = true <-> In i (tb_disabled c))) /\
  (forall k n, In (k, n) (tb_slots c) -> exists v, nth_error (i_variants it) k = Some v /\ n = ("_" :: snakify (v_ident v))).
Definition well_sized {T} (c : table_code) (t : list T) : Prop := length t = length (tb_slots c).
Definition stmt_C10_get_set_same : Prop :=
  forall (T : Type) c (t : list T) vi x t', NoDup (map fst (tb_slots c)) -> well_sized c t ->
  tb_set T c t vi x = TOk t' -> tb_index T c t' vi = TOk x /\ well_sized c t'.
Definition stmt_C10_get_set_other : Prop :=
  forall (T : Type) c (t : list T) vi vj x t', NoDup (map fst (tb_slots c)) -> well_sized c t -> vi <> vj ->
  tb_set T c t vi x = TOk t' -> tb_index T c t' vj = tb_index T c t vj.
(* a history of writes: reading k afterwards gives the last value written to k, else the constructed value *)
Fixpoint apply_writes {T} (c : table_code) (t : list T) (ws : list (nat * T)) : list T :=
  match ws with
  | [] => t
  | (k, x) :: r => match tb_set T c t k x with TOk t' => apply_writes c t' r | _ => apply_writes c t r end
  end.
Fixpoint last_write {T} (k : nat) (ws : list (nat * T)) (acc : option T) : option T :=
  match ws with [] => acc | (k', x) :: r => last_write k r (if Nat.eqb k k' then Some x else acc) end.
Definition stmt_C10_history : Prop :=
  forall (T : Type) c (t : list T) ws k, NoDup (map fst (tb_slots c)) -> well_sized c t -> In k (map fst (tb_slots c)) ->
  tb_index T c (apply_writes c t ws) k =
  match last_write k ws None with Some x => TOk x | None => tb_index T c t k end.
Definition stmt_C10_constructors : Prop :=
  forall (T : Type) c, NoDup (map fst (tb_slots c)) ->
  (forall x k, In k (map fst (tb_slots c)) -> tb_index T c (tb_filled T c x) k = TOk x) /\
  (forall f k, In k (map fst (tb_slots c)) -> tb_index T c (tb_from_closure T c f) k = TOk (f k)) /\
  (forall args p k, length args = length (tb_slots c) -> nth_error (map fst (tb_slots c)) p = Some k ->
                    tb_index T c (tb_new T args) k = match nth_error args p with Some x => TOk x | None => TNoArm end).
Definition stmt_C10_transform : Prop :=
  forall (T U : Type) c (t : list T) (f : nat -> T -> U) k x, NoDup (map fst (tb_slots c)) -> well_sized c t ->
  tb_index T c t k = TOk x -> tb_index U c (tb_transform T U c f t) k = TOk (f k x).
Definition stmt_C10_all : Prop :=
  forall (T : Type) (t : list (option T)),
  (forall l, tb_all t = Some l <-> t = map Some l) /\ (tb_all t = None <-> In None t).
Definition stmt_C10_all_ok : Prop :=
  forall (T E : Type) (t : list (T + E)),
  (forall l, tb_all_ok t = inl l <-> t = map inl l) /\
  (forall e, tb_all_ok t = inr e <-> exists pre post, t = map inl pre ++ inr e :: post).
Definition stmt_C10_disabled_panics : Prop :=
  forall (T : Type) c (t : list T) k x, In k (tb_disabled c) -> ~ In k (map fst (tb_slots c)) ->
  tb_index T c t k = TPanic /\ tb_set T c t k x = TPanic.
(* totality, end to end: on the table GENERATED for an enum, every enabled variant reads a value and can be overwritten and read
   back (never a missing arm, never a panic); every disabled variant panics.  No NoDup / membership hypothesis is left to the caller. *)
Definition stmt_C10_total_map : Prop :=
  forall (T : Type) it c (t : list T) i v p, gen_table it = Ok c -> well_sized c t -> variant_at it i v p ->
  (vp_disabled p = false ->
     (exists x, tb_index T c t i = TOk x) /\
     (forall y, exists t', tb_set T c t i y = TOk t' /\ tb_index T c t' i = TOk y /\ well_sized c t')) /\
  (vp_disabled p = true -> tb_index T c t i = TPanic /\ forall y, tb_set T c t i y = TPanic).
(* the table's keys are exactly what EnumIter yields, in the same order, and there are COUNT of them *)
Definition stmt_C10_keys_are_iter : Prop :=
  forall it c ic n, gen_table it = Ok c -> gen_iter it = Ok ic -> gen_count it = Ok n ->
  map fst (tb_slots c) = map ct_variant (ic_table ic) /\ length (tb_slots c) = n.

(* ======================= C13 / C14 / C15 / C09 ======================= *)
Definition stmt_C13_methods : Prop :=
  forall it ms, gen_is it = Ok ms ->
  map im_variant ms = map ct_variant (enabled_ctors 0 (i_variants it)) /\
  forall m, In m ms -> exists v, nth_error (i_variants it) (im_variant m) = Some v /\ im_name m = (s_ "is_" ++ snakify (v_ident v))%list.
(* one predicate per value EnumIter yields, in the same order, COUNT of them *)
Definition stmt_C13_one_per_iterated : Prop :=
  forall it ms ic n, gen_is it = Ok ms -> gen_iter it = Ok ic -> gen_count it = Ok n ->
  map im_variant ms = map ct_variant (ic_table ic) /\ length ms = n.
Definition stmt_C13_partition : Prop :=
  forall it ms i v p, gen_is it = Ok ms -> variant_at it i v p -> vp_disabled p = false ->
  exists m, In m ms /\ im_variant m = i /\ forall m', In m' ms -> (run_is m' i = true <-> im_variant m' = i).
Definition stmt_C13_disabled : Prop :=
  forall it ms i v p, gen_is it = Ok ms -> variant_at it i v p -> vp_disabled p = true ->
  forall m, In m ms -> run_is m i = false.
Definition stmt_C13_try_as : Prop :=
  forall it ms, gen_try_as it = Ok ms ->
  (forall m, In m ms -> exists v p fs, variant_at it (tm_variant m) v p /\ vp_disabled p = false /\ v_fields v = FTuple fs /\
                        tm_nfields m = length fs /\ tm_base m = (s_ "try_as_" ++ snakify (v_ident v))%list) /\
  (forall i v p fs, variant_at it i v p -> vp_disabled p = false -> v_fields v = FTuple fs ->
                    exists m, In m ms /\ tm_variant m = i) /\
  (forall m i, In m ms -> run_try_as m i = if Nat.eqb (tm_variant m) i then Some (seq 0 (tm_nfields m)) else None).
Definition stmt_C13_snakify_digits : Prop :=
  forall id, snakify id = snakify_go None (to_snake id).

Definition stmt_C14_message : Prop :=
  forall it m i v p, gen_message it = Ok m -> variant_at it i v p ->
  run_message m i = Some (if vp_disabled p then None else vp_message p).
Definition stmt_C14_detailed : Prop :=
  forall it m i v p, gen_message it = Ok m -> variant_at it i v p ->
  run_detailed m i = Some (if vp_disabled p then None else match vp_detailed p with Some d => Some d | None => vp_message p end).
Definition stmt_C14_documentation : Prop :=
  forall it m i v p, gen_message it = Ok m -> variant_at it i v p ->
  run_documentation m i = Some (if vp_disabled p then None else match vp_docs p with [] => None | ds => Some (doc_text ds) end).
Definition stmt_C14_serializations : Prop :=
  forall it m tp i v p, gen_message it = Ok m -> tprops_of it = Ok tp -> variant_at it i v p ->
  run_serializations m i = Some (vspell tp p).
Definition stmt_C14_doc_text : Prop :=
  (forall d, doc_text [d] = strip1 d) /\
  (forall d1 d2 ds, doc_text (d1 :: d2 :: ds) = flat_map (fun l => (strip1 l ++ ["010"])%list) (d1 :: d2 :: ds)) /\
  (forall r, strip1 (" " :: r) = r) /\ (forall c r, c <> " " -> strip1 (c :: r) = c :: r).

Definition stmt_C15_get : Prop :=
  forall it c i v p k, gen_props it = Ok c -> variant_at it i v p ->
  run_get_str c i k = Some (if vp_disabled p then None else
     assoc_key k (flat_map (fun kv => match snd kv with LStr s => [(fst kv, s)] | _ => [] end) (vp_props p))) /\
  run_get_int c i k = Some (if vp_disabled p then None else
     assoc_key k (flat_map (fun kv => match snd kv with LInt z => [(fst kv, z)] | _ => [] end) (vp_props p))) /\
  run_get_bool c i k = Some (if vp_disabled p then None else
     assoc_key k (flat_map (fun kv => match snd kv with LBool b => [(fst kv, b)] | _ => [] end) (vp_props p))).
(* with keys unique per type, Some x iff the pair is declared *)
Definition stmt_C15_get_str_iff : Prop :=
  forall it c i v p k x, gen_props it = Ok c -> variant_at it i v p -> vp_disabled p = false ->
  NoDup (map fst (flat_map (fun kv => match snd kv with LStr s => [(fst kv, s)] | _ => [] end) (vp_props p))) ->
  (run_get_str c i k = Some (Some x) <-> In (k, LStr x) (vp_props p)).
Definition stmt_C15_merge_groups : Prop :=
  forall id ms p, vprops_of_metas id ms = Ok p ->
  vp_props p = flat_map (fun m => match m with MProps kv => kv | _ => [] end) ms.

Definition stmt_C09_mirror : Prop :=
  forall it c, gen_discriminants it = Ok c ->
  map v_ident (i_variants (dc_item c)) = map v_ident (i_variants it) /\
  map v_discr (i_variants (dc_item c)) = map v_discr (i_variants it) /\
  Forall (fun v => v_fields v = FUnit) (i_variants (dc_item c)) /\
  i_repr (dc_item c) = i_repr it /\
  rustc_discr (i_variants (dc_item c)) = rustc_discr (i_variants it).
Definition stmt_C09_from_agree : Prop :=
  forall it c i v, gen_discriminants it = Ok c -> nth_error (i_variants it) i = Some v -> run_discr_from c i = Some i.
Definition stmt_C09_name_vis : Prop :=
  forall it c tp, gen_discriminants it = Ok c -> tprops_of it = Ok tp ->
  i_ident (dc_item c) = (match tp_dname tp with Some n => n | None => (i_ident it ++ s_ "Discriminants")%list end) /\
  i_vis (dc_item c) = (match tp_dvis tp with Some x => x | None => i_vis it end) /\
  dc_derives c = (default_derives ++ tp_dderives tp)%list /\
  (dc_into_discriminant c = true <-> (tp_dvis tp = None \/ tp_dvis tp = Some VPub)).

(* ======================= C16 ======================= *)
Definition with_phf (it : item) : item :=
  {| i_kind := i_kind it; i_ident := i_ident it; i_lifetimes := i_lifetimes it; i_tparams := i_tparams it;
     i_cparams := i_cparams it; i_vis := i_vis it; i_metas := (i_metas it ++ [EUsePhf])%list; i_dmetas := i_dmetas it;
     i_repr := i_repr it; i_variants := i_variants it |}.
Definition has_phf (it : item) : bool := existsb (fun m => match m with EUsePhf => true | _ => false end) (i_metas it).
Definition stmt_C16_accepts : Prop :=
  forall it c, has_phf it = false -> gen_from_str it = Ok c -> exists c', gen_from_str (with_phf it) = Ok c'.
Definition stmt_C16_keys_distinct : Prop :=
  forall it c, gen_from_str it = Ok c -> NoDup (map fst (fs_phf c)).
Definition stmt_C16_equiv : Prop :=
  forall it c c', has_phf it = false -> non_overlap_b it = true ->
  gen_from_str it = Ok c -> gen_from_str (with_phf it) = Ok c' ->
  forall s, run_from_str c' s = run_from_str c s.

(* at full strength (no NonOverlap hypothesis: with overlapping spellings declaration order decides in both parsers) *)
Definition stmt_C16_equiv_all : Prop :=
  forall it c c', has_phf it = false ->
  gen_from_str it = Ok c -> gen_from_str (with_phf it) = Ok c' ->
  forall s, run_from_str c' s = run_from_str c s.

(* ======================= C20 ======================= *)
Definition stmt_C20_rejects : Prop :=
  forall r dv it, rule_applies r dv it = true -> exists e, outcome dv it = Err e.
Definition stmt_C20_no_panic : Prop := forall dv it, outcome dv it <> Panic.
Definition stmt_C20_dup_variant_attr_iff : Prop :=
  forall id ms, vmeta_dup ms = true <-> exists a, vprops_of_metas id ms = Err (GOccurrence a).
