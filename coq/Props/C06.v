(* C06 — from_repr(d) is Some(V) iff d is the discriminant rustc gives enabled variant V.
   Only statements, `exact`, pins and assumption audits live here. *)
Require Import Strum.Model.Repr Strum.Model.ReprProg Strum.Proofs.ReprP Strum.Proofs.ReprProgP.
Open Scope Z_scope.

(* For every item on which the FromRepr generator succeeds, every rustc-accepted numbering
   (pairwise distinct discriminants) and EVERY integer x:  from_repr(x) = Some(variant i with
   nf defaulted fields)  <->  variant i is declared, enabled, rustc numbers it x (rule over ALL
   declared variants), and nf is its field count. *)
Theorem C06_iff : forall it c, gen_from_repr it = Ok c -> NoDup (rustc_discr (i_variants it)) ->
  forall x i nf,
  run_from_repr c x = Some (i, nf) <->
  exists v, nth_error (i_variants it) i = Some v /\ enabled_b v = true /\
            nth_error (rustc_discr (i_variants it)) i = Some x /\ nf = nfields v.
Proof. exact from_repr_iff. Qed.

Theorem C06_none : forall it c, gen_from_repr it = Ok c -> NoDup (rustc_discr (i_variants it)) ->
  forall x,
  run_from_repr c x = None <->
  forall i v, nth_error (i_variants it) i = Some v -> enabled_b v = true ->
              nth_error (rustc_discr (i_variants it)) i <> Some x.
Proof. exact from_repr_none. Qed.

Theorem C06_roundtrip : forall it c, gen_from_repr it = Ok c -> NoDup (rustc_discr (i_variants it)) ->
  forall i v d, nth_error (i_variants it) i = Some v -> enabled_b v = true -> v_fields v = FUnit ->
  nth_error (rustc_discr (i_variants it)) i = Some d ->
  run_from_repr c d = Some (i, 0%nat).
Proof. exact from_repr_roundtrip. Qed.

Theorem C06_const : forall it c, gen_from_repr it = Ok c ->
  (fr_const c = true <->
   forall i v, nth_error (i_variants it) i = Some v -> enabled_b v = true -> nfields v = 0%nat).
Proof. exact from_repr_const. Qed.

(* the generator is total on the documented domain: an enum without lifetime parameters, well-formed
   variant attributes, every discriminant representable in the discriminant type *)
Theorem C06_total : forall it,
  i_kind it = KEnum -> i_lifetimes it = 0%nat ->
  Forall (fun v => exists p, vprops_of v = Ok p) (i_variants it) ->
  Forall (fun d => in_range (discr_ty (i_repr it)) d = true) (rustc_discr (i_variants it)) ->
  exists c, gen_from_repr it = Ok c.
Proof. exact gen_from_repr_total. Qed.

(* The body the macro EMITS — `const <V>_DISCRIMINANT: T = 0 | <PREV>_DISCRIMINANT + 1 | <own expression>;` per DECLARED
   variant and one guarded arm per ENABLED variant, as a deep-embedded program (Model/ReprProg.v) that is compared with the
   REAL expansion on every run — is accepted by the compiler whenever the model accepts the item, its constants evaluate
   (in the discriminant type, overflow = compile error) to rustc's numbering of ALL declared variants, and running it is
   run_from_repr, about which the theorems above speak. *)
Theorem C06_program : forall it c, gen_from_repr it = Ok c ->
  exists p, gen_repr_prog it = Ok p /\ rp_ty p = fr_ty c /\ rp_const_fn p = fr_const c /\
            length (rp_consts p) = length (i_variants it) /\
            eval_chain (rp_ty p) None (rp_consts p) = Some (rustc_discr (i_variants it)) /\
            forall x, run_repr_prog p x = Some (run_from_repr c x).
Proof. exact C06_program_proof. Qed.

(* conversely every emitted program that compiles is covered by the model: the theorems speak about every from_repr that exists *)
Theorem C06_program_complete : forall it p env,
  gen_repr_prog it = Ok p -> eval_chain (rp_ty p) None (rp_consts p) = Some env ->
  exists c, gen_from_repr it = Ok c.
Proof. exact C06_program_complete_proof. Qed.

(* the parameter type: the #[repr] scan of from_repr.rs (every hint of every attribute, in source order) returns THE integer hint
   however the attribute is written (before, after or next to C / align(..) / packed, in one attribute or several), usize when there is none *)
Theorem C06_repr_scan : forall attrs,
  scan_repr attrs = last (int_hints (concat attrs)) RUsize /\
  (int_hints (concat attrs) = [] -> scan_repr attrs = RUsize) /\
  (forall r, int_hints (concat attrs) = [r] -> scan_repr attrs = r).
Proof. exact C06_repr_scan_proof. Qed.

(* non-vacuity: enum E { X, #[strum(disabled)] Y(u8), Z = -3, W } under #[repr(i8)] *)
Definition ex_variant id fs ms d := {| v_ident := s_ id; v_fields := fs; v_metas := ms; v_discr := d; v_dmetas := [] |}.
Definition ex_field := {| f_name := []; f_ty := s_ "u8"; f_is_ref := false; f_dw := [] |}.
Definition ex_item := {| i_kind := KEnum; i_ident := s_ "E"; i_lifetimes := 0; i_tparams := 0; i_cparams := 0;
  i_vis := VInherited; i_metas := []; i_dmetas := []; i_repr := Some RI8;
  i_variants := [ ex_variant "X" FUnit [] None; ex_variant "Y" (FTuple [ex_field]) [MDisabled] None;
                  ex_variant "Z" FUnit [] (Some (-3)); ex_variant "W" FUnit [] None ] |}.
Example C06_nonvacuous :
  exists c, gen_from_repr ex_item = Ok c /\ NoDup (rustc_discr (i_variants ex_item)) /\
            rustc_discr (i_variants ex_item) = [0; 1; -3; -2] /\
            map (run_from_repr c) [0; 1; -3; -2; 2] = [Some (0, 0); None; Some (2, 0); Some (3, 0); None]%nat /\
            (exists p, gen_repr_prog ex_item = Ok p /\ rp_consts p = [CZero; CPrevPlus1; COwn (-3); CPrevPlus1] /\
                       map pa_variant (rp_arms p) = [0; 2; 3]%nat /\
                       map (run_repr_prog p) [0; 1; -3] = [Some (Some (0, 0)); Some None; Some (Some (2, 0))]%nat).
Proof.
  eexists. split; [vm_compute; reflexivity|]. split.
  - vm_compute. repeat constructor; cbn; intuition discriminate.
  - split; [vm_compute; reflexivity|]. split; [vm_compute; reflexivity|].
    eexists. split; [vm_compute; reflexivity|]. repeat split; vm_compute; reflexivity.
Qed.
Example C06_repr_scan_nonvacuous :
  scan_repr [[HOtherHint; HInt RI16]; [HOtherHint]] = RI16 /\ scan_repr [[HOtherHint]; [HOtherHint; HOtherHint]] = RUsize /\
  int_hints (concat [[HOtherHint; HInt RI16]; [HOtherHint]]) = [RI16].
Proof. repeat split. Qed.

Check C06_iff : forall it c, gen_from_repr it = Ok c -> NoDup (rustc_discr (i_variants it)) ->
  forall x i nf, run_from_repr c x = Some (i, nf) <->
  exists v, nth_error (i_variants it) i = Some v /\ enabled_b v = true /\
            nth_error (rustc_discr (i_variants it)) i = Some x /\ nf = nfields v.
Print Assumptions C06_iff.
Print Assumptions C06_none.
Print Assumptions C06_roundtrip.
Print Assumptions C06_const.
Print Assumptions C06_total.
Print Assumptions C06_program.
Print Assumptions C06_program_complete.
Print Assumptions C06_repr_scan.
Print Assumptions C06_nonvacuous.
Print Assumptions C06_repr_scan_nonvacuous.
