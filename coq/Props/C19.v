(* C19 — generated code depends only on ::core and on the configured strum path.
   The theorems are about the reference checker `refs_ok` (Model/Paths.v), which every run applies to the paths,
   macro invocations and `use` declarations extracted from the REAL generated tokens: whenever it accepts a reference
   list, every generator-chosen reference in it (i) resolves identically whatever modules named core / std / alloc the
   caller's scope declares, (ii) never denotes an item of std / alloc and resolves also under #![no_std], (iii) reaches
   strum only through the configured path.  Only statements, `exact`, and assumption audits live here. *)
Require Import Strum.Model.Paths Strum.Proofs.PathsP.
Local Open Scope string_scope.

Theorem C19_shadow_independent : forall c rs sc1 sc2,
  refs_ok c rs = true ->
  (forall x, mem_s x shadowable = false -> sc_items sc1 x = sc_items sc2 x) -> sc_no_std sc1 = sc_no_std sc2 ->
  forall r, In r rs -> user_written c r = false -> resolve c sc1 r = resolve c sc2 r.
Proof. exact refs_ok_shadow. Qed.

Theorem C19_no_std_item : forall c rs sc,
  refs_ok c rs = true -> forall r, In r rs -> user_written c r = false -> resolve c sc r <> Some OStd.
Proof. exact refs_ok_no_std. Qed.

Theorem C19_resolves_without_std : forall c rs sc,
  refs_ok c rs = true ->
  forall r, In r rs -> user_written c r = false -> match r with GUse _ => True | _ => resolve c sc r <> None end.
Proof. exact refs_ok_resolves. Qed.

Theorem C19_strum_through_configured_path : forall c rs,
  refs_ok c rs = true -> mem_str (s_ "strum") (c_binders c) = false ->
  forall r, In r rs -> user_written c r = false -> first_seg (ref_pref r) = Some (s_ "strum") ->
  match r with GMacro p => length (p_segs p) >= 2 | _ => True end ->
  via_strum c (ref_pref r) = true.
Proof. exact refs_ok_strum_path. Qed.

(* non-vacuity: a reference list in the shape the real EnumString expansion produces is accepted, with the default
   path and with a configured one; the pinned Display expansion (format!) and a bare `core::` / `std::` path are rejected *)
Definition mk (abs : bool) (l : list string) : pref := {| p_abs := abs; p_segs := map s_ l |}.
Definition ex_cfg (strum : pref) : pcfg :=
  {| c_strum := strum; c_binders := map s_ ["E"; "s"; "phf"; "PHF"; "value"]; c_user := [mk false ["u8"]] |}.
Definition ex_refs (strum : list string) (abs : bool) : list gref :=
  [ GPath (mk true ["core"; "str"; "FromStr"]); GPath (mk true ["core"; "result"; "Result"; "Ok"]);
    GPath (mk abs (strum ++ ["ParseError"; "VariantNotFound"])); GPath (mk false ["E"; "Red"]); GPath (mk false ["Self"]);
    GPath (mk false ["Default"; "default"]); GPath (mk false ["phf"; "Map"]); GMacro (mk false ["phf"; "phf_map"]);
    GUse (mk abs (strum ++ ["_private_phf_reexport_for_macro_if_phf_feature"])); GPath (mk false ["u8"]);
    GMacro (mk false ["panic"]); GMacro (mk false ["format_args"]) ].
Example C19_nonvacuous :
  refs_ok (ex_cfg (mk true ["strum"])) (ex_refs ["strum"] true) = true /\
  refs_ok (ex_cfg (mk false ["crate"; "reexport"; "inner"])) (ex_refs ["crate"; "reexport"; "inner"] false) = true /\
  refs_ok (ex_cfg (mk false ["crate"; "reexport"; "inner"])) (ex_refs ["strum"] true) = false /\
  refs_ok (ex_cfg (mk true ["strum"])) [GMacro (mk false ["format"])] = false /\
  refs_ok (ex_cfg (mk true ["strum"])) [GPath (mk false ["core"; "fmt"; "Display"])] = false /\
  refs_ok (ex_cfg (mk true ["strum"])) [GPath (mk true ["std"; "string"; "String"])] = false /\
  refs_ok (ex_cfg (mk true ["strum"])) [GPath (mk false ["String"])] = false.
Proof. vm_compute. repeat split; reflexivity. Qed.

Print Assumptions C19_shadow_independent.
Print Assumptions C19_no_std_item.
Print Assumptions C19_resolves_without_std.
Print Assumptions C19_strum_through_configured_path.
Print Assumptions C19_nonvacuous.
