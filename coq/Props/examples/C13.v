(* non-vacuity: enum E { HTTPServer(u8, bool), #[strum(disabled)] Off, Blue2Go, A1b2 { x: u8 } } *)
Require Import Strum.Model.Misc.
Local Open Scope string_scope.
Definition c13_f n := {| f_name := s_ n; f_ty := s_ "u8"; f_is_ref := false; f_dw := [] |}.
Definition c13_v id fs ms := {| v_ident := s_ id; v_fields := fs; v_metas := ms; v_discr := None; v_dmetas := [] |}.
Definition c13_item := {| i_kind := KEnum; i_ident := s_ "E"; i_lifetimes := 0; i_tparams := 0; i_cparams := 0; i_vis := VPub;
  i_metas := []; i_dmetas := []; i_repr := None;
  i_variants := [ c13_v "HTTPServer" (FTuple [c13_f ""; c13_f ""]) []; c13_v "Off" FUnit [MDisabled]; c13_v "Blue2Go" FUnit [];
                  c13_v "A1b2" (FNamed [c13_f "x"]) [] ] |}.
Example C13_nonvacuous :
  exists ms ts, gen_is c13_item = Ok ms /\ gen_try_as c13_item = Ok ts /\
    map (fun m => show (im_name m)) ms = ["is_http_server"; "is_blue_2_go"; "is_a_1b_2"] /\
    map (fun vi => map (fun m => run_is m vi) ms) [0; 1; 2; 3]%nat =
      [[true; false; false]; [false; false; false]; [false; true; false]; [false; false; true]] /\
    map (fun m => show (tm_base m)) ts = ["try_as_http_server"] /\
    map (fun vi => map (fun m => run_try_as m vi) ts) [0; 2]%nat = [[Some [0; 1]]; [None]]%nat.
Proof. do 2 eexists. repeat (split; [vm_compute; reflexivity|]). vm_compute; reflexivity. Qed.
