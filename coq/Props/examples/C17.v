(* non-vacuity / golden values: Formatter::pad on "héllo" (5 chars, 6 bytes) as Rust formats it, and strum's capture on
   format strings with escapes *)
Require Import Strum.Model.Display.
Local Open Scope string_scope.
Definition c17_sp fill al w p := {| sp_fill := s_ fill; sp_align := al; sp_width := w; sp_prec := p |}.
(* "h\303\251llo" is the UTF-8 encoding of héllo *)
Definition hello : str := (s_ "h" ++ [ascii_of_nat 195; ascii_of_nat 169] ++ s_ "llo")%list.
Example C17_nonvacuous :
  fmt_pad (c17_sp " " None (Some 8) None) hello = (hello ++ s_ "   ")%list /\                     (* {:8}    *)
  fmt_pad (c17_sp "*" (Some ARight) (Some 8) None) hello = (s_ "***" ++ hello)%list /\            (* {:*>8}  *)
  fmt_pad (c17_sp "*" (Some ACenter) (Some 8) None) hello = (s_ "*" ++ hello ++ s_ "**")%list /\  (* {:*^8}  *)
  fmt_pad (c17_sp " " None (Some 4) (Some 2)) hello = (s_ "h" ++ [ascii_of_nat 195; ascii_of_nat 169] ++ s_ "  ")%list /\   (* {:4.2} *)
  fmt_pad (c17_sp " " None (Some 3) None) hello = hello /\
  capture (s_ "a {x} {{y}} {0:>4} }}{{ {name :?}") = Ok (map s_ ["x"; "0"; "name"]) /\
  capture (s_ "{{only}} escapes") = Ok [] /\
  capture (s_ "{a{b}") = Err GBracket /\ capture (s_ "a}b") = Err GBracket.
Proof. repeat (split; [vm_compute; reflexivity|]). vm_compute; reflexivity. Qed.
