(* non-vacuity: the C01 example enum without its default variant derives the printers; every enabled variant's printed
   name parses back to it *)
Require Import Strum.Spec.FromStrSpec Strum.Model.Display Strum.Model.Misc.
Local Open Scope string_scope.
Definition c02_f n dw := {| f_name := s_ n; f_ty := s_ "u8"; f_is_ref := false; f_dw := map s_ dw |}.
Definition c02_v id fs ms := {| v_ident := s_ id; v_fields := fs; v_metas := ms; v_discr := None; v_dmetas := [] |}.
Definition c02_item := {| i_kind := KEnum; i_ident := s_ "E"; i_lifetimes := 0; i_tparams := 0; i_cparams := 0; i_vis := VPub;
  i_metas := [ESerializeAll (s_ "SCREAMING-KEBAB-CASE")]; i_dmetas := []; i_repr := None;
  i_variants := [ c02_v "Red" FUnit [MSerialize (s_ "red"); MSerialize (s_ "R")];
                  c02_v "GreenApple" (FTuple [c02_f "" []]) [MAci true];
                  c02_v "Off" FUnit [MDisabled; MSerialize (s_ "off")];
                  c02_v "Blue" (FNamed [c02_f "x" ["f"]]) [MToString (s_ "b l u e"); MSerialize (s_ "blue")] ] |}.
Definition c02_print (d : match_code dbody) (i : nat) : str := match run_display d i nospec with OutStr s => s | _ => [] end.
Example C02_nonvacuous :
  exists c d m, gen_from_str c02_item = Ok c /\ gen_display c02_item = Ok d /\ gen_message c02_item = Ok m /\
    non_overlap_b c02_item = true /\
    map (fun i => show (c02_print d i)) [0; 1; 3]%nat = ["red"; "GREEN-APPLE"; "b l u e"] /\
    map (fun i => run_from_str c (c02_print d i)) [0; 1; 3]%nat
      = [OVariant 0 PUnit; OVariant 1 (PTuple [PDefault]); OVariant 3 (PNamed [(s_ "x", PWith (s_ "f"))])]%nat /\
    option_map (map (run_from_str c)) (run_serializations m 3) = Some [OVariant 3 (PNamed [(s_ "x", PWith (s_ "f"))]); OVariant 3 (PNamed [(s_ "x", PWith (s_ "f"))])]%nat.
Proof. do 3 eexists. repeat (split; [vm_compute; reflexivity|]). vm_compute; reflexivity. Qed.
