(* non-vacuity: enum E { #[strum(props(color = "red", color = 7))] #[strum(props(color = true, w = -5))] A,
                         #[strum(disabled, props(color = "never"))] B, C } *)
Require Import Strum.Model.Misc.
Local Open Scope string_scope.
Definition c15_v id ms := {| v_ident := s_ id; v_fields := FUnit; v_metas := ms; v_discr := None; v_dmetas := [] |}.
Definition c15_item := {| i_kind := KEnum; i_ident := s_ "E"; i_lifetimes := 0; i_tparams := 0; i_cparams := 0; i_vis := VPub;
  i_metas := []; i_dmetas := []; i_repr := None;
  i_variants := [ c15_v "A" [MProps [(s_ "color", LStr (s_ "red")); (s_ "color", LInt 7)]; MProps [(s_ "color", LBool true); (s_ "w", LInt (-5))]];
                  c15_v "B" [MDisabled; MProps [(s_ "color", LStr (s_ "never"))]]; c15_v "C" [] ] |}.
Example C15_nonvacuous :
  exists c, gen_props c15_item = Ok c /\
    run_get_str c 0 (s_ "color") = Some (Some (s_ "red")) /\ run_get_int c 0 (s_ "color") = Some (Some 7%Z) /\
    run_get_bool c 0 (s_ "color") = Some (Some true) /\ run_get_int c 0 (s_ "w") = Some (Some (-5)%Z) /\
    run_get_str c 0 (s_ "w") = Some None /\ run_get_str c 0 (s_ "Color") = Some None /\
    run_get_str c 1 (s_ "color") = Some None /\ run_get_int c 2 (s_ "w") = Some None.
Proof. eexists. repeat (split; [vm_compute; reflexivity|]). vm_compute; reflexivity. Qed.
