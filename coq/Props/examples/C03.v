(* non-vacuity: #[strum(prefix = "p/", serialize_all = "snake_case")] enum E {
     #[strum(serialize = "a", serialize = "lo-ng", serialize = "bcd")] GreenApple(u8),   // longest, not last
     #[strum(to_string = "T", serialize = "longer-than-to-string")] Blue,
     HTTPServer { x: u8 },
     #[strum(disabled)] Off } *)
Require Import Strum.Model.Display.
Local Open Scope string_scope.
Definition c03_f := {| f_name := []; f_ty := s_ "u8"; f_is_ref := false; f_dw := [] |}.
Definition c03_v id fs ms := {| v_ident := s_ id; v_fields := fs; v_metas := ms; v_discr := None; v_dmetas := [] |}.
Definition c03_item := {| i_kind := KEnum; i_ident := s_ "E"; i_lifetimes := 0; i_tparams := 0; i_cparams := 0; i_vis := VPub;
  i_metas := [EPrefix (s_ "p/"); ESerializeAll (s_ "snake_case")]; i_dmetas := []; i_repr := None;
  i_variants := [ c03_v "GreenApple" (FTuple [c03_f]) [MSerialize (s_ "a"); MSerialize (s_ "lo-ng"); MSerialize (s_ "bcd")];
                  c03_v "Blue" FUnit [MToString (s_ "T"); MSerialize (s_ "longer-than-to-string")];
                  c03_v "HTTPServer" (FNamed [{| f_name := s_ "x"; f_ty := s_ "u8"; f_is_ref := false; f_dw := [] |}]) [];
                  c03_v "Off" FUnit [MDisabled] ] |}.
Definition c03_show_d (o : dout) := match o with OutStr s => show s | OutPanic => "<panic>" | _ => "<other>" end.
Definition c03_show_a (o : aout) := match o with AOutStr s => show s | AOutPanic => "<panic>" | _ => "<other>" end.
Example C03_nonvacuous :
  exists d a ns, gen_display c03_item = Ok d /\ gen_as_ref c03_item = Ok a /\ gen_variant_names c03_item = Ok ns /\
    map (fun i => c03_show_d (run_display d i nospec)) [0; 1; 2; 3]%nat = ["p/lo-ng"; "p/T"; "p/http_server"; "<panic>"] /\
    map (fun i => c03_show_a (run_as_ref a i)) [0; 1; 2; 3]%nat = ["p/lo-ng"; "p/T"; "p/http_server"; "<panic>"] /\
    map show ns = ["p/lo-ng"; "p/T"; "p/http_server"; "p/off"].
Proof. do 3 eexists. repeat (split; [vm_compute; reflexivity|]). vm_compute; reflexivity. Qed.
