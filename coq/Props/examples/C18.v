(* non-vacuity: #[strum(parse_err_ty = MyErr, parse_err_fn = my_err)] enum E { Red, #[strum(ascii_case_insensitive)] Blue } *)
Require Import Strum.Spec.FromStrSpec.
Local Open Scope string_scope.
Definition c18_v id ms := {| v_ident := s_ id; v_fields := FUnit; v_metas := ms; v_discr := None; v_dmetas := [] |}.
Definition c18_item := {| i_kind := KEnum; i_ident := s_ "E"; i_lifetimes := 0; i_tparams := 0; i_cparams := 0; i_vis := VPub;
  i_metas := [EParseErrFn (s_ "my_err"); EParseErrTy (s_ "MyErr")]; i_dmetas := []; i_repr := None;
  i_variants := [ c18_v "Red" []; c18_v "Blue" [MAci true] ] |}.
Example C18_nonvacuous :
  exists c, gen_from_str c18_item = Ok c /\ fs_custom_err c = true /\ find_default 0 (i_variants c18_item) = None /\
    map (fun s => run_from_str c (s_ s)) ["Red"; "bLUE"; "red"; " Red"; ""]
    = [OVariant 0 PUnit; OVariant 1 PUnit; OCustom (s_ "my_err") (s_ "red"); OCustom (s_ "my_err") (s_ " Red");
       OCustom (s_ "my_err") (s_ "")]%nat.
Proof. eexists. repeat (split; [vm_compute; reflexivity|]). vm_compute; reflexivity. Qed.
