(* non-vacuity: enum E { Red, #[strum(serialize = "b")] Blue, GreenApple } (no disabled variant) under snake_case *)
Require Import Strum.Model.Iter Strum.Model.Display.
Local Open Scope string_scope.
Definition c08_v id ms := {| v_ident := s_ id; v_fields := FUnit; v_metas := ms; v_discr := None; v_dmetas := [] |}.
Definition c08_item := {| i_kind := KEnum; i_ident := s_ "E"; i_lifetimes := 0; i_tparams := 0; i_cparams := 0; i_vis := VPub;
  i_metas := [ESerializeAll (s_ "snake_case")]; i_dmetas := []; i_repr := None;
  i_variants := [ c08_v "Red" []; c08_v "Blue" [MSerialize (s_ "b")]; c08_v "GreenApple" [] ] |}.
Example C08_nonvacuous :
  exists c ns arr, gen_iter c08_item = Ok c /\ gen_variant_names c08_item = Ok ns /\ gen_variant_array c08_item = Ok arr /\
    gen_count c08_item = Ok 3%nat /\ map ct_variant (ic_table c) = [0; 1; 2]%nat /\ arr = [0; 1; 2]%nat /\
    map show ns = ["red"; "b"; "green_apple"].
Proof. do 3 eexists. repeat (split; [vm_compute; reflexivity|]). vm_compute; reflexivity. Qed.
