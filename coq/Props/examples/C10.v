(* non-vacuity: enum E { Red, #[strum(disabled)] Off, GreenApple, HTTPServer } *)
Require Import Strum.Model.Table.
Local Open Scope string_scope.
Definition c10_v id ms := {| v_ident := s_ id; v_fields := FUnit; v_metas := ms; v_discr := None; v_dmetas := [] |}.
Definition c10_item := {| i_kind := KEnum; i_ident := s_ "E"; i_lifetimes := 0; i_tparams := 0; i_cparams := 0;
  i_vis := VPub; i_metas := []; i_dmetas := []; i_repr := None;
  i_variants := [ c10_v "Red" []; c10_v "Off" [MDisabled]; c10_v "GreenApple" []; c10_v "HTTPServer" [] ] |}.
Example C10_nonvacuous :
  exists c, gen_table c10_item = Ok c /\
    map (fun s => (fst s, show (snd s))) (tb_slots c) = [(0, "_red"); (2, "_green_apple"); (3, "_http_server")]%nat /\
    tb_disabled c = [1%nat] /\ NoDup (map fst (tb_slots c)) /\
    (let t := apply_writes c (tb_new nat [10; 20; 30]%nat) [(2, 7); (1, 9); (0, 5); (2, 8)]%nat in
     map (tb_index nat c t) [0; 1; 2; 3]%nat = [TOk 5; TPanic; TOk 8; TOk 30]%nat).
Proof.
  eexists. split; [vm_compute; reflexivity|]. split; [vm_compute; reflexivity|]. split; [vm_compute; reflexivity|]. split.
  - vm_compute. repeat constructor; cbn; intuition discriminate.
  - vm_compute. reflexivity.
Qed.
