(* non-vacuity: enum E { A, #[strum(disabled)] B(u8), C { x: u8, y: u8 }, D } *)
Require Import Strum.Model.Iter.
Local Open Scope string_scope.
Definition c04_f := {| f_name := []; f_ty := s_ "u8"; f_is_ref := false; f_dw := [] |}.
Definition c04_v id fs ms := {| v_ident := s_ id; v_fields := fs; v_metas := ms; v_discr := None; v_dmetas := [] |}.
Definition c04_item := {| i_kind := KEnum; i_ident := s_ "E"; i_lifetimes := 0; i_tparams := 0; i_cparams := 0; i_vis := VPub;
  i_metas := []; i_dmetas := []; i_repr := None;
  i_variants := [ c04_v "A" FUnit []; c04_v "B" (FTuple [c04_f]) [MDisabled]; c04_v "C" (FNamed [c04_f; c04_f]) []; c04_v "D" FUnit [] ] |}.
Example C04_nonvacuous :
  exists c, gen_iter c04_item = Ok c /\ gen_count c04_item = Ok 3%nat /\
    map (fun x => (ct_variant x, ct_nfields x)) (ic_table c) = [(0, 0); (2, 2); (3, 0)]%nat /\
    it_drain (2 ^ 64) Debug (iter_count c) 5 ist0 OpNext = [0; 1; 2]%Z /\
    it_drain (2 ^ 64) Release (iter_count c) 5 ist0 OpNextBack = [2; 1; 0]%Z.
Proof. eexists. repeat (split; [vm_compute; reflexivity|]). vm_compute; reflexivity. Qed.
