(* non-vacuity: enum E { Known, #[strum(default)] Other(String), #[strum(transparent)] T { inner: &'static str } } *)
Require Import Strum.Spec.FromStrSpec Strum.Model.Display.
Local Open Scope string_scope.
Definition c11_v id fs ms := {| v_ident := s_ id; v_fields := fs; v_metas := ms; v_discr := None; v_dmetas := [] |}.
Definition c11_item := {| i_kind := KEnum; i_ident := s_ "E"; i_lifetimes := 0; i_tparams := 0; i_cparams := 0; i_vis := VPub;
  i_metas := []; i_dmetas := []; i_repr := None;
  i_variants := [ c11_v "Known" FUnit [];
                  c11_v "Other" (FTuple [{| f_name := []; f_ty := s_ "String"; f_is_ref := false; f_dw := [] |}]) [MDefault];
                  c11_v "T" (FNamed [{| f_name := s_ "inner"; f_ty := s_ "&'static str"; f_is_ref := true; f_dw := [] |}]) [MTransparent] ] |}.
Example C11_nonvacuous :
  exists c d a, gen_from_str c11_item = Ok c /\ gen_display c11_item = Ok d /\ gen_as_ref c11_item = Ok a /\
    find_default 0 (i_variants c11_item) = Some (1%nat, None) /\
    run_from_str c (s_ " known ") = OCapture 1 None (s_ " known ") /\
    run_display d 1 {| sp_fill := s_ "*"; sp_align := Some ACenter; sp_width := Some 9%nat; sp_prec := Some 2%nat |} = OutInner (SingleTuple false) /\
    run_display d 2 nospec = OutInner (SingleNamed (s_ "inner") true) /\ run_as_ref a 2 = AOutInner (SingleNamed (s_ "inner") true).
Proof. do 3 eexists. repeat (split; [vm_compute; reflexivity|]). vm_compute; reflexivity. Qed.
