(* non-vacuity: #[strum(serialize_all = "kebab-case")] enum E {
     #[strum(serialize = "red", serialize = "R")] Red,
     #[strum(ascii_case_insensitive)] GreenApple(u8),              // spelling green-apple, folded
     #[strum(disabled, serialize = "off")] Off,
     #[strum(default)] Other(String),
     #[strum(to_string = "b l u e")] Blue { #[strum(default_with = "f")] x: u8 } }
   satisfies the hypotheses of the C01 theorems, and the model parses as the real derive does *)
Require Import Strum.Spec.FromStrSpec.
Local Open Scope string_scope.
Definition c01_f n dw := {| f_name := s_ n; f_ty := s_ "u8"; f_is_ref := false; f_dw := map s_ dw |}.
Definition c01_v id fs ms := {| v_ident := s_ id; v_fields := fs; v_metas := ms; v_discr := None; v_dmetas := [] |}.
Definition c01_item := {| i_kind := KEnum; i_ident := s_ "E"; i_lifetimes := 0; i_tparams := 0; i_cparams := 0; i_vis := VPub;
  i_metas := [ESerializeAll (s_ "kebab-case")]; i_dmetas := []; i_repr := None;
  i_variants := [ c01_v "Red" FUnit [MSerialize (s_ "red"); MSerialize (s_ "R")];
                  c01_v "GreenApple" (FTuple [c01_f "" []]) [MAci true];
                  c01_v "Off" FUnit [MDisabled; MSerialize (s_ "off")];
                  c01_v "Other" (FTuple [c01_f "" []]) [MDefault];
                  c01_v "Blue" (FNamed [c01_f "x" ["f"]]) [MToString (s_ "b l u e")] ] |}.
Example C01_nonvacuous :
  exists c, gen_from_str c01_item = Ok c /\ non_overlap_b c01_item = true /\
    map (fun s => run_from_str c (s_ s)) ["red"; "R"; "Red"; "GREEN-apple"; "green_apple"; "off"; "b l u e"; ""]
    = [ OVariant 0 PUnit; OVariant 0 PUnit; OCapture 3 None (s_ "Red"); OVariant 1 (PTuple [PDefault]);
        OCapture 3 None (s_ "green_apple"); OCapture 3 None (s_ "off"); OVariant 4 (PNamed [(s_ "x", PWith (s_ "f"))]);
        OCapture 3 None (s_ "") ]%nat.
Proof. eexists. repeat (split; [vm_compute; reflexivity|]). vm_compute; reflexivity. Qed.
