(* the byte-level core (C12_fold_ascii_only) and the Unicode look-alikes of the property: Kelvin sign (E2 84 AA) vs K,
   long s (C5 BF) vs s, dotless i (C4 B1) vs i, sharp s (C3 9F) vs ss never match; é (C3 A9) only matches itself *)
Require Import Strum.Proofs.BytesP.
Local Open Scope string_scope.
Theorem C12_fold_ascii_only : forall a b, eq_ic a b = fold_spec a b.
Proof. exact eq_ic_spec. Qed.
Definition bytes (l : list nat) : str := map ascii_of_nat l.
Example C12_unicode_examples :
  eq_ic_str (bytes [226; 132; 170]) (s_ "K") = false /\ eq_ic_str (bytes [226; 132; 170]) (s_ "k") = false /\
  eq_ic_str (bytes [197; 191]) (s_ "s") = false /\ eq_ic_str (bytes [196; 177]) (s_ "i") = false /\
  eq_ic_str (bytes [195; 159]) (s_ "ss") = false /\ eq_ic_str (bytes [195; 169]) (bytes [195; 137]) = false /\
  eq_ic_str (bytes [195; 169]) (bytes [195; 169]) = true /\ eq_ic_str (s_ "sTraSSe") (s_ "StrAssE") = true.
Proof. repeat (split; [vm_compute; reflexivity|]). vm_compute; reflexivity. Qed.
Require Import Strum.Spec.FromStrSpec.
Definition c12_v id ms := {| v_ident := s_ id; v_fields := FUnit; v_metas := ms; v_discr := None; v_dmetas := [] |}.
Definition c12_item := {| i_kind := KEnum; i_ident := s_ "E"; i_lifetimes := 0; i_tparams := 0; i_cparams := 0; i_vis := VPub;
  i_metas := [EAci]; i_dmetas := []; i_repr := None;
  i_variants := [ c12_v "Kelvin" []; c12_v "Exact" [MAci false]; c12_v "Cafe" [MSerialize (bytes [99; 97; 102; 195; 169])] ] |}.
Example C12_nonvacuous :
  exists c, gen_from_str c12_item = Ok c /\ non_overlap_b c12_item = true /\
    map (fun s => run_from_str c s) [s_ "kELVIN"; s_ "exact"; s_ "Exact"; bytes [67; 65; 70; 195; 169]; bytes [67; 65; 70; 195; 137];
                                     (bytes [226; 132; 170] ++ s_ "elvin")%list]
    = [OVariant 0 PUnit; ONotFound; OVariant 1 PUnit; OVariant 2 PUnit; ONotFound; ONotFound]%nat.
Proof. eexists. repeat (split; [vm_compute; reflexivity|]). vm_compute; reflexivity. Qed.
Print Assumptions C12_fold_ascii_only.
Print Assumptions C12_unicode_examples.
