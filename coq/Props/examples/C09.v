(* non-vacuity: #[repr(i8)] #[strum_discriminants(name(Kind), vis(pub(crate)), derive(Hash))] enum E { A(u8) = -2, B, C { x: u8 } = 5 } *)
Require Import Strum.Model.Misc Strum.Model.Repr.
Local Open Scope string_scope.
Definition c09_f n := {| f_name := s_ n; f_ty := s_ "u8"; f_is_ref := false; f_dw := [] |}.
Definition c09_v id fs d := {| v_ident := s_ id; v_fields := fs; v_metas := []; v_discr := d; v_dmetas := [] |}.
Definition c09_item := {| i_kind := KEnum; i_ident := s_ "E"; i_lifetimes := 0; i_tparams := 0; i_cparams := 0; i_vis := VPub;
  i_metas := []; i_dmetas := [DName (s_ "Kind"); DVis VPubCrate; DDerive [s_ "Hash"]]; i_repr := Some RI8;
  i_variants := [ c09_v "A" (FTuple [c09_f ""]) (Some (-2)%Z); c09_v "B" FUnit None; c09_v "C" (FNamed [c09_f "x"]) (Some 5%Z) ] |}.
Example C09_nonvacuous :
  exists c, gen_discriminants c09_item = Ok c /\ show (i_ident (dc_item c)) = "Kind" /\ i_vis (dc_item c) = VPubCrate /\
    i_repr (dc_item c) = Some RI8 /\ dc_into_discriminant c = false /\
    map show (dc_derives c) = ["Clone"; "Copy"; "Debug"; "PartialEq"; "Eq"; "Hash"] /\
    rustc_discr (i_variants (dc_item c)) = [-2; -1; 5]%Z /\ map (run_discr_from c) [0; 1; 2; 3]%nat = [Some 0; Some 1; Some 2; None]%nat.
Proof. eexists. repeat (split; [vm_compute; reflexivity|]). vm_compute; reflexivity. Qed.
