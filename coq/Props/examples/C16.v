(* non-vacuity: #[strum(ascii_case_insensitive)] enum E { #[strum(serialize = "blue")] Blue, #[strum(serialize = "UP", serialize = "42")] Up,
                                                          #[strum(disabled)] Off, #[strum(default)] Other(String) }
   — the definition on which the pinned generator emitted duplicate phf_map! keys ("blue" is its own lower-case form) *)
Require Import Strum.Spec.Statements.
Local Open Scope string_scope.
Definition c16_v id fs ms := {| v_ident := s_ id; v_fields := fs; v_metas := ms; v_discr := None; v_dmetas := [] |}.
Definition c16_item := {| i_kind := KEnum; i_ident := s_ "E"; i_lifetimes := 0; i_tparams := 0; i_cparams := 0; i_vis := VPub;
  i_metas := [EAci]; i_dmetas := []; i_repr := None;
  i_variants := [ c16_v "Blue" FUnit [MSerialize (s_ "blue")]; c16_v "Up" FUnit [MSerialize (s_ "UP"); MSerialize (s_ "42")];
                  c16_v "Off" FUnit [MDisabled];
                  c16_v "Other" (FTuple [{| f_name := []; f_ty := s_ "String"; f_is_ref := false; f_dw := [] |}]) [MDefault] ] |}.
Example C16_nonvacuous :
  exists c c', gen_from_str c16_item = Ok c /\ gen_from_str (with_phf c16_item) = Ok c' /\
    has_phf c16_item = false /\ non_overlap_b c16_item = true /\
    map (fun kv => show (fst kv)) (fs_phf c') = ["blue"; "BLUE"; "UP"; "up"; "42"] /\ fs_phf c = [] /\
    map (fun s => run_from_str c' (s_ s)) ["blue"; "bLuE"; "Up"; "42"; "Off"; ""] = map (fun s => run_from_str c (s_ s)) ["blue"; "bLuE"; "Up"; "42"; "Off"; ""] /\
    (* the pinned generator pushed every key unconditionally: "blue" twice *)
    has_dup (fs_serialization_legacy_keys true (s_ "blue")) = true.
Proof. do 2 eexists. repeat (split; [vm_compute; reflexivity|]). vm_compute; reflexivity. Qed.
