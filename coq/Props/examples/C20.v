(* non-vacuity: every rule has an item to which it applies (and which the generator model rejects), a well-formed
   control is accepted by all 17 derives that apply to it *)
Require Import Strum.Model.Reject.
Local Open Scope string_scope.
Definition c20_v id fs ms := {| v_ident := s_ id; v_fields := fs; v_metas := ms; v_discr := None; v_dmetas := [] |}.
Definition c20_f := {| f_name := []; f_ty := s_ "u8"; f_is_ref := false; f_dw := [] |}.
Definition c20_item kind lt metas vs := {| i_kind := kind; i_ident := s_ "E"; i_lifetimes := lt; i_tparams := 0; i_cparams := 0; i_vis := VPub;
  i_metas := metas; i_dmetas := []; i_repr := None; i_variants := vs |}.
Definition c20_ok := c20_item KEnum 0 [] [c20_v "A" FUnit []; c20_v "B" FUnit [MSerialize (s_ "b")]].
Definition c20_cases : list (rule * derive * item) :=
  [ (RNonEnum, DvEnumCount, c20_item KStruct 0 [] []);
    (RNonUnit, DvVariantArray, c20_item KEnum 0 [] [c20_v "A" (FTuple [c20_f]) []]);
    (RNonUnit, DvEnumTable, c20_item KEnum 0 [] [c20_v "A" FUnit []; c20_v "B" (FTuple [c20_f]) []]);
    (RLifetime, DvEnumIter, c20_item KEnum 1 [] [c20_v "A" FUnit []]);
    (RDupVariantAttr, DvEnumIs, c20_item KEnum 0 [] [c20_v "A" FUnit [MDisabled; MDisabled]]);
    (RDupEnumAttr, DvDisplay, c20_item KEnum 0 [EPrefix (s_ "a"); EPrefix (s_ "b")] [c20_v "A" FUnit []]);
    (RTwoDefaults, DvEnumString, c20_item KEnum 0 [] [c20_v "A" (FTuple [c20_f]) [MDefault]; c20_v "B" (FTuple [c20_f]) [MDefault]]);
    (RDefaultArity, DvEnumString, c20_item KEnum 0 [] [c20_v "A" FUnit [MDefault]]);
    (RTransparentArity, DvAsRefStr, c20_item KEnum 0 [] [c20_v "A" (FTuple [c20_f; c20_f]) [MTransparent]]);
    (RUnitPlaceholder, DvDisplay, c20_item KEnum 0 [] [c20_v "A" FUnit [MToString (s_ "{x}")]]);
    (RUnknownStyle, DvVariantNames, c20_item KEnum 0 [ESerializeAll (s_ "Snake_Case")] [c20_v "A" FUnit []]);
    (ROneParseErr, DvEnumString, c20_item KEnum 0 [EParseErrTy (s_ "T")] [c20_v "A" FUnit []]);
    (RBadPropLiteral, DvEnumProperty, c20_item KEnum 0 [] [c20_v "A" FUnit [MProps [(s_ "k", LOther)]]]) ].
Definition is_err {A} (r : res A) := match r with Err _ => true | _ => false end.
Example C20_nonvacuous :
  forallb (fun c => let '(r, dv, it) := c in rule_applies r dv it && is_err (outcome dv it)) c20_cases = true /\
  forallb (fun dv => match outcome dv c20_ok with Ok _ => true | _ => false end) all_derives = true /\
  forallb (fun r => forallb (fun dv => negb (rule_applies r dv c20_ok)) all_derives) all_rules = true.
Proof. repeat (split; [vm_compute; reflexivity|]). vm_compute; reflexivity. Qed.
