(* non-vacuity: enum E { /// One line.
                         #[strum(message = "m", detailed_message = "d")] A,
                         ///  two
                         /// lines
                         #[strum(message = "only")] B(u8),
                         #[strum(disabled, message = "never")] C, D } *)
Require Import Strum.Model.Misc.
Local Open Scope string_scope.
Definition c14_v id fs ms := {| v_ident := s_ id; v_fields := fs; v_metas := ms; v_discr := None; v_dmetas := [] |}.
Definition c14_item := {| i_kind := KEnum; i_ident := s_ "E"; i_lifetimes := 0; i_tparams := 0; i_cparams := 0; i_vis := VPub;
  i_metas := []; i_dmetas := []; i_repr := None;
  i_variants := [ c14_v "A" FUnit [MDoc (s_ " One line."); MMessage (s_ "m"); MDetailed (s_ "d")];
                  c14_v "B" (FTuple [{| f_name := []; f_ty := s_ "u8"; f_is_ref := false; f_dw := [] |}])
                            [MDoc (s_ "  two"); MDoc (s_ " lines"); MMessage (s_ "only")];
                  c14_v "C" FUnit [MDisabled; MMessage (s_ "never")]; c14_v "D" FUnit [] ] |}.
Definition c14_o (x : option (option str)) := match x with Some (Some s) => Some s | _ => None end.
Definition nl : str := [ascii_of_nat 10].
Example C14_nonvacuous :
  exists m, gen_message c14_item = Ok m /\
    map (fun i => c14_o (run_message m i)) [0; 1; 2; 3]%nat = [Some (s_ "m"); Some (s_ "only"); None; None] /\
    map (fun i => c14_o (run_detailed m i)) [0; 1; 2; 3]%nat = [Some (s_ "d"); Some (s_ "only"); None; None] /\
    map (fun i => c14_o (run_documentation m i)) [0; 1; 2; 3]%nat
      = [Some (s_ "One line."); Some (s_ " two" ++ nl ++ s_ "lines" ++ nl)%list; None; None] /\
    map (fun i => option_map (map show) (run_serializations m i)) [0; 2]%nat = [Some ["A"]; Some ["C"]].
Proof. eexists. repeat (split; [vm_compute; reflexivity|]). vm_compute; reflexivity. Qed.
