(* non-vacuity: a history with a clone fork and extreme arguments on a 3-variant iterator; the generated arithmetic
   (both overflow modes) and the abstract iterator agree, nothing panics *)
Require Import Strum.Model.Iter.
From Coq Require Import Lia.
Local Open Scope Z_scope.
Definition c05_hist : list hop :=
  [HOp 0 OpNext; HClone 0; HOp 1 (OpNth (2 ^ 64 - 1)); HOp 1 OpNext; HOp 1 OpLen; HOp 0 OpNextBack; HOp 0 (OpNthBack (2 ^ 64 - 1));
   HOp 0 OpSizeHint; HOp 0 OpNext; HOp 1 OpNextBack].
Example C05_nonvacuous :
  Forall (hop_ok (2 ^ 64)) c05_hist /\ 2 * 3 + 1 < 2 ^ 64 /\
  run_hist (it_step (2 ^ 64) Debug 3) [ist0] c05_hist = spec_run_hist [{| lo := 0; hi := 3 |}] c05_hist /\
  run_hist (it_step (2 ^ 64) Release 3) [ist0] c05_hist =
    [Some (ObsItem (Some 0)); None; Some (ObsItem None); Some (ObsItem None); Some (ObsLen 0); Some (ObsItem (Some 2));
     Some (ObsItem None); Some (ObsHint 0 0); Some (ObsItem None); Some (ObsItem None)].
Proof.
  split; [|split; [|split]].
  - unfold c05_hist. repeat constructor; cbn; lia.
  - lia.
  - vm_compute. reflexivity.
  - vm_compute. reflexivity.
Qed.
