(* non-vacuity / golden values: what the REAL strum_macros 0.27.1 + heck 0.5.0 produce for `HTTPServer2Go_x`
   (obtained through harness/genprobe), evaluated in the model inside Coq *)
Require Import Strum.Model.Heck.
Local Open Scope string_scope.
Example C07_nonvacuous :
  map (fun st => show (convert_case (Some st) (s_ "HTTPServer2Go_x")))
      [CamelCase; PascalCase; KebabCase; SnakeCase; ShoutySnakeCase; ScreamingKebabCase; LowerCase; UpperCase; TitleCase;
       MixedCase; TrainCase]
  = ["httpServer2GoX"; "HttpServer2GoX"; "http-server2-go-x"; "http_server2_go_x"; "HTTP_SERVER2_GO_X"; "HTTP-SERVER2-GO-X";
     "httpserver2go_x"; "HTTPSERVER2GO_X"; "Http Server2 Go X"; "httpServer2GoX"; "Http-Server2-Go-X"]
  /\ show (snakify (s_ "HTTPServer2Go_x")) = "http_server_2_go_x"
  /\ map show (spec_words (s_ "HTTPServer2Go_x")) = ["HTTP"; "Server2"; "Go"; "x"].
Proof. repeat (split; [vm_compute; reflexivity|]). vm_compute; reflexivity. Qed.

(* the same for an identifier outside ASCII, `ÉlanİVital9`, in the Unicode-parametric model: the character table is the one
   harness/genprobe `chartab` printed from Rust's `char` methods, the expected values are what the REAL convert_case / snakify
   return (İ = U+0130 lower-cases to two scalar values, so SCREAMING-KEBAB-CASE is not the upper-casing of the words) *)
Require Import Strum.Spec.StatementsU.
Local Open Scope N_scope.
Definition C07u_example_table : list uentry :=
  let mk := fun cp lo up al l u => {| e_cp := cp; e_lower := lo; e_upper := up; e_alnum := al; e_lo := l; e_up := u |} in
  [mk 32 false false false [32] [32];
   mk 45 false false false [45] [45];
   mk 57 false false true [57] [57];
   mk 65 false true true [97] [65];
   mk 73 false true true [105] [73];
   mk 76 false true true [108] [76];
   mk 78 false true true [110] [78];
   mk 84 false true true [116] [84];
   mk 86 false true true [118] [86];
   mk 95 false false false [95] [95];
   mk 97 true false true [97] [65];
   mk 105 true false true [105] [73];
   mk 108 true false true [108] [76];
   mk 110 true false true [110] [78];
   mk 116 true false true [116] [84];
   mk 118 true false true [118] [86];
   mk 201 false true true [233] [201];
   mk 233 true false true [233] [201];
   mk 304 false true true [105; 775] [304];
   mk 775 false false false [775] [775]].
Example C07u_nonvacuous :
  let id := [201; 108; 97; 110; 304; 86; 105; 116; 97; 108; 57] in
  let U := ucd_of_table C07u_example_table in
  table_disjoint C07u_example_table = true /\ table_closed C07u_example_table id = true /\ sigma_free id = true /\
  lower_upper_disjoint U /\
  uconvert_case U (Some SnakeCase) id = [233; 108; 97; 110; 95; 105; 775; 95; 118; 105; 116; 97; 108; 57] /\
  uconvert_case U (Some CamelCase) id = [233; 108; 97; 110; 304; 86; 105; 116; 97; 108; 57] /\
  uconvert_case U (Some ScreamingKebabCase) id = [201; 76; 65; 78; 45; 73; 775; 45; 86; 73; 84; 65; 76; 57] /\
  usnakify U id = [233; 108; 97; 110; 95; 105; 775; 95; 118; 105; 116; 97; 108; 95; 57] /\
  uspec_words U id = [[201; 108; 97; 110]; [304]; [86; 105; 116; 97; 108; 57]].
Proof.
  cbv zeta. repeat (split; [vm_compute; reflexivity|]).
  split; [apply C07u_table_disjoint_proof; vm_compute; reflexivity|].
  repeat (split; [vm_compute; reflexivity|]). vm_compute; reflexivity.
Qed.
Print Assumptions C07u_nonvacuous.
