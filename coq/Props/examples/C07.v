(* non-vacuity / golden values: what the REAL strum_macros 0.27.1 + heck 0.5.0 produce for `HTTPServer2Go_x`
   (obtained through harness/genprobe), evaluated in the model inside Coq *)
Require Import Strum.Model.Heck.
Local Open Scope string_scope.
Example C07_nonvacuous :
  map (fun st => show (convert_case (Some st) (s_ "HTTPServer2Go_x")))
      [CamelCase; PascalCase; KebabCase; SnakeCase; ShoutySnakeCase; ScreamingKebabCase; LowerCase; UpperCase; TitleCase;
       MixedCase; TrainCase]
  = ["httpServer2GoX"; "HttpServer2GoX"; "http-server2-go-x"; "http_server2_go_x"; "HTTP_SERVER2_GO_X"; "HTTP-SERVER2-GO-X";
     "httpserver2go_x"; "HTTPSERVER2GO_X"; "Http Server2 Go X"; "httpServer2GoX"; "Http-Server2-Go-X"]
  /\ show (snakify (s_ "HTTPServer2Go_x")) = "http_server_2_go_x"
  /\ map show (spec_words (s_ "HTTPServer2Go_x")) = ["HTTP"; "Server2"; "Go"; "x"].
Proof. repeat (split; [vm_compute; reflexivity|]). vm_compute; reflexivity. Qed.
