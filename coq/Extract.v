(* Extract.v — extraction of the executable model to OCaml.
   Only ExtrOcamlBasic is used (bool, option, unit, list, prod, sumbool, sumor mapped to OCaml's own
   types; andb/orb inlined).  No Extract Constant / Extract Inductive directive of our own:
   nat, positive, N, Z, ascii stay the extracted inductives. *)
Require Import Strum.Model.Bytes Strum.Model.Defs Strum.Model.Heck Strum.Model.Meta Strum.Model.Repr.
From Coq Require Extraction ExtrOcamlBasic.
Extraction Language OCaml.
Extraction "../extract/model.ml"
  Z.add Z.mul Z.sub Z.div_eucl Z.opp Z.leb Z.ltb Z.eqb Z.of_nat Z.to_nat N.of_nat N.to_nat
  str_eqb
  convert_case style_of_string snakify
  vprops_of tprops_of
  gen_from_repr gen_from_repr_legacy run_from_repr rustc_discr repr_range discr_ty.
