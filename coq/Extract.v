(* Extract.v — extraction of the executable model to OCaml.
   Only ExtrOcamlBasic is used (bool, option, unit, list, prod, sumbool, sumor mapped to OCaml's own
   types; andb/orb inlined).  No Extract Constant / Extract Inductive directive of our own:
   nat, positive, N, Z, ascii stay the extracted inductives. *)
Require Import Strum.Model.Bytes Strum.Model.Defs Strum.Model.Heck Strum.Model.HeckU Strum.Model.Meta Strum.Model.Names
               Strum.Model.FromStr Strum.Model.Display Strum.Model.Iter Strum.Model.IterProg Strum.Model.Table Strum.Model.Misc
               Strum.Model.Repr Strum.Model.ReprProg Strum.Model.Reject Strum.Spec.FromStrSpec Strum.Model.Paths.
From Coq Require Extraction ExtrOcamlBasic.
Extraction Language OCaml.
Extraction "../extract/model.ml"
  Z.add Z.mul Z.sub Z.div_eucl Z.opp Z.leb Z.ltb Z.eqb Z.of_nat Z.to_nat N.of_nat N.to_nat Z.pow
  str_eqb eq_ic_str lower_str upper_str char_count
  convert_case style_of_string snakify heck_words
  uconvert_case usnakify ucd_of_table table_closed table_disjoint sigma_free
  vprops_of tprops_of preferred_name serializations
  gen_from_str run_from_str run_try_from path_ok ident_ok
  gen_display run_display fmt_pad capture capture_idents gen_as_ref run_as_ref gen_into_static gen_to_string run_match
  gen_variant_names
  show_stmt prog_nth prog_next_back prog_size_hint exec
  gen_iter iter_get iter_count it_step it_step_legacy run_hist ist0 gen_count gen_variant_array
  gen_table tb_index tb_set tb_new tb_filled tb_from_closure tb_transform tb_all tb_all_ok
  gen_is run_is gen_try_as run_try_as
  gen_message run_message run_detailed run_documentation run_serializations
  gen_props run_get_str run_get_int run_get_bool
  gen_discriminants run_discr_from
  vspell vci matches_b eligible_b non_overlap_b all_vprops
  refs_ok ref_ok
  outcome rule_applies all_rules all_derives
  gen_from_repr gen_from_repr_legacy run_from_repr rustc_discr repr_range discr_ty
  gen_repr_prog eval_chain run_repr_prog scan_repr.
