(* IterP.v — EnumIter / EnumCount / VariantArray / VariantNames: C04, C05, C08.

   NOTE.  Four of the C05 statements (step, history, no_panic, len_exact) are FALSE as stated: the hypothesis
   `cnt + 1 < W` does not prevent `self.idx + (self.back_idx + 1)` (next_back) and `self.idx + self.back_idx`
   (len) from overflowing in the exhausted state idx = back = cnt, which is reachable (nth(cnt); next_back;
   next_back).  They are refuted below (`*_refuted`) and proved under `2 * cnt + 1 < W` (`*_partial`), which is
   the exact condition.  Everything else is proved as stated. *)
Require Import Strum.Spec.Statements.
From Coq Require Import List ZArith Lia Bool ZifyBool.
Import ListNotations.
Local Open Scope Z_scope.

(* ------------------------------------------------------------------------------------------------ *)
(* C05: the refinement                                                                               *)
(* ------------------------------------------------------------------------------------------------ *)

Lemma add_u_ok W o a b : a + b < W -> add_u W o a b = Ret (a + b).
Proof. intro H. unfold add_u. destruct (Z.ltb_spec (a + b) W) as [_|Hc]; [reflexivity|exfalso; lia]. Qed.

Lemma sub_u_ok W o a b : 0 <= a - b -> sub_u W o a b = Ret (a - b).
Proof. intro H. unfold sub_u. destruct (Z.leb_spec 0 (a - b)) as [_|Hc]; [reflexivity|exfalso; lia]. Qed.

(* the only extra fact the overflow-checked sums of next_back / len need *)
Definition noovf (W : Z) (s : ist) : Prop := idx s + back s + 1 < W.

Ltac split_ifs :=
  repeat match goal with
         | H : context [if ?c then _ else _] |- _ => destruct c eqn:?; try (exfalso; lia)
         | |- context [if ?c then _ else _] => destruct c eqn:?; try (exfalso; lia)
         end.

(* an empty abstract interval is related to every exhausted concrete state *)
Lemma Rit_exhausted cnt s l :
  0 <= idx s <= cnt -> 0 <= back s <= cnt -> idx s + back s >= cnt -> 0 <= l <= cnt ->
  Rit cnt s {| lo := l; hi := l |}.
Proof.
  intros Hi Hb He Hl. unfold Rit. cbn [lo hi]. repeat split; try lia.
  destruct (idx s + back s >=? cnt) eqn:E; lia.
Qed.

Section Refine.
Variables (W cnt : Z) (o : ovf).
Hypothesis Hcnt : 0 <= cnt.
Hypothesis HW : cnt + 1 < W.

Lemma nth_refines s a n : Rit cnt s a -> 0 <= n < W ->
  exists s' k, it_nth W o cnt s n = Ret (s', k) /\
               snd (spec_step a (OpNth n)) = ObsItem k /\ Rit cnt s' (fst (spec_step a (OpNth n))) /\
               back s' = back s.
Proof.
  intros (Hi & Hb & Hl & Hh & Hr) Hn.
  unfold it_nth, sat_add, spec_step.
  destruct (idx s + back s >=? cnt) eqn:Ege.
  - (* exhausted *)
    assert (Hgt : (if (if (if idx s + n <? W then idx s + n else W - 1) + 1 <? W
                       then (if idx s + n <? W then idx s + n else W - 1) + 1 else W - 1) + back s <? W
                   then (if (if idx s + n <? W then idx s + n else W - 1) + 1 <? W
                         then (if idx s + n <? W then idx s + n else W - 1) + 1 else W - 1) + back s
                   else W - 1) >? cnt = true).
    { split_ifs; lia. }
    rewrite Hgt.
    assert (Hlt : lo a + n <? hi a = false) by lia. rewrite Hlt.
    eexists; eexists; split; [reflexivity|]. cbn [fst snd back]. split; [reflexivity|]. split; [|reflexivity].
    apply Rit_exhausted; cbn [idx back]; lia.
  - destruct Hr as [Hlo Hhi].
    destruct (lo a + n <? hi a) eqn:Elt.
    + assert (E1 : idx s + n <? W = true) by lia. rewrite E1.
      assert (E2 : idx s + n + 1 <? W = true) by lia. rewrite E2.
      assert (E3 : idx s + n + 1 + back s <? W = true) by lia. rewrite E3.
      assert (E4 : idx s + n + 1 + back s >? cnt = false) by lia. rewrite E4.
      rewrite sub_u_ok by lia. cbn [mbind].
      eexists; eexists; split; [reflexivity|]. cbn [fst snd back]. split; [f_equal; f_equal; lia|]. split; [|reflexivity].
      unfold Rit. cbn [idx back lo hi]. repeat split; try lia.
      destruct (idx s + n + 1 + back s >=? cnt) eqn:E5; lia.
    + assert (Hgt : (if (if (if idx s + n <? W then idx s + n else W - 1) + 1 <? W
                       then (if idx s + n <? W then idx s + n else W - 1) + 1 else W - 1) + back s <? W
                   then (if (if idx s + n <? W then idx s + n else W - 1) + 1 <? W
                         then (if idx s + n <? W then idx s + n else W - 1) + 1 else W - 1) + back s
                   else W - 1) >? cnt = true).
      { split_ifs; lia. }
      rewrite Hgt.
      eexists; eexists; split; [reflexivity|]. cbn [fst snd back]. split; [reflexivity|]. split; [|reflexivity].
      apply Rit_exhausted; cbn [idx back]; lia.
Qed.

Lemma next_back_refines s a : Rit cnt s a -> noovf W s ->
  exists s' k, it_next_back W o cnt s = Ret (s', k) /\
               snd (spec_step a OpNextBack) = ObsItem k /\ Rit cnt s' (fst (spec_step a OpNextBack)) /\
               idx s' = idx s /\
               (k <> None -> noovf W s') /\
               (k = None -> forall l, 0 <= l <= cnt -> Rit cnt s' {| lo := l; hi := l |}).
Proof.
  intros (Hi & Hb & Hl & Hh & Hr) Hno. unfold noovf in *.
  unfold it_next_back, spec_step.
  rewrite add_u_ok by lia. cbn [mbind].
  rewrite add_u_ok by lia. cbn [mbind].
  destruct (idx s + back s >=? cnt) eqn:Ege.
  - assert (E1 : idx s + (back s + 1) >? cnt = true) by lia. rewrite E1.
    assert (E2 : lo a <? hi a = false) by lia. rewrite E2.
    eexists; eexists; split; [reflexivity|]. cbn [fst snd idx back].
    split; [reflexivity|]. split; [|split; [reflexivity|split; [congruence|]]].
    + unfold Rit. cbn [idx back]. repeat split; try lia.
      destruct (idx s + cnt >=? cnt) eqn:E3; lia.
    + intros _ l Hl'. apply Rit_exhausted; cbn [idx back]; lia.
  - destruct Hr as [Hlo Hhi].
    destruct (lo a <? hi a) eqn:Elt.
    + assert (E1 : idx s + (back s + 1) >? cnt = false) by lia. rewrite E1.
      rewrite sub_u_ok by lia. cbn [mbind].
      eexists; eexists; split; [reflexivity|]. cbn [fst snd idx back].
      split; [f_equal; f_equal; lia|]. split; [|split; [reflexivity|split; [intros _; lia|discriminate]]].
      unfold Rit. cbn [idx back lo hi]. repeat split; try lia.
      destruct (idx s + (back s + 1) >=? cnt) eqn:E5; lia.
    + exfalso. lia.
Qed.

Lemma len_refines s a : Rit cnt s a -> noovf W s -> it_len W o cnt s = Ret (hi a - lo a).
Proof.
  intros (Hi & Hb & Hl & Hh & Hr) Hno. unfold noovf in *. unfold it_len.
  rewrite add_u_ok by lia. cbn [mbind].
  destruct (idx s + back s >=? cnt) eqn:Ege.
  - f_equal. lia.
  - destruct Hr as [Hlo Hhi]. rewrite sub_u_ok by lia. cbn [mbind]. rewrite sub_u_ok by lia. f_equal. lia.
Qed.

(* advance_back_by: `fuel` successful next_back calls if that many items remain, else it stops at the first None *)
Lemma advance_back_refines : forall fuel s a, Rit cnt s a -> noovf W s ->
  (Z.of_nat fuel <= hi a - lo a ->
     exists s', advance_back W o cnt fuel s = Ret (s', true) /\
                Rit cnt s' {| lo := lo a; hi := hi a - Z.of_nat fuel |} /\ noovf W s') /\
  (hi a - lo a < Z.of_nat fuel ->
     exists s', advance_back W o cnt fuel s = Ret (s', false) /\
                Rit cnt s' {| lo := lo a; hi := lo a |}).
Proof.
  induction fuel as [|f IH]; intros s a HR Hno.
  - split.
    + intros _. exists s. cbn [advance_back]. split; [reflexivity|]. split; [|exact Hno].
      destruct a as [l h]. cbn [lo hi]. replace (h - Z.of_nat 0) with h by lia. exact HR.
    + intros Hlt. exfalso. destruct HR as (_ & _ & Hl & _). lia.
  - cbn [advance_back].
    destruct (next_back_refines s a HR Hno) as (s1 & k & Hnb & Hob & HR1 & _ & Hsome & Hnone).
    rewrite Hnb. cbn [mbind fst snd].
    assert (Hl : 0 <= lo a <= hi a /\ hi a <= cnt) by (destruct HR as (_ & _ & Hl & Hh & _); lia).
    unfold spec_step in Hob, HR1.
    destruct (lo a <? hi a) eqn:Elt; cbn [fst snd] in Hob, HR1.
    + inversion Hob; subst k.
      destruct (IH s1 _ HR1 (Hsome ltac:(discriminate))) as [IHt IHf]. cbn [lo hi] in IHt, IHf.
      split.
      * intros Hle. destruct IHt as (s' & Ha & HR' & Hno'); [lia|].
        exists s'. split; [exact Ha|]. split; [|exact Hno'].
        replace (hi a - Z.of_nat (S f)) with (hi a - 1 - Z.of_nat f) by lia. exact HR'.
      * intros Hlt. destruct IHf as (s' & Ha & HR'); [lia|].
        exists s'. split; [exact Ha|exact HR'].
    + inversion Hob; subst k. split.
      * intros Hle. exfalso. lia.
      * intros _. exists s1. split; [reflexivity|]. apply Hnone; [reflexivity|lia].
Qed.

Lemma nth_back_refines s a n : Rit cnt s a -> noovf W s -> 0 <= n < W ->
  exists s' k, it_nth_back W o cnt s n = Ret (s', k) /\
               snd (spec_step a (OpNthBack n)) = ObsItem k /\ Rit cnt s' (fst (spec_step a (OpNthBack n))).
Proof.
  intros HR Hno Hn.
  assert (Hl : 0 <= lo a <= hi a /\ hi a <= cnt) by (destruct HR as (_ & _ & Hl & Hh & _); lia).
  unfold it_nth_back.
  destruct (advance_back_refines (Z.to_nat (Z.min n (cnt + 1))) s a HR Hno) as [At Af].
  unfold spec_step.
  destruct (Z.le_gt_cases n (hi a - lo a)) as [Hle|Hgt].
  - (* the advance succeeds *)
    assert (Hf : Z.of_nat (Z.to_nat (Z.min n (cnt + 1))) = n) by lia.
    destruct At as (s1 & Ha & HR1 & Hno1); [lia|]. rewrite Hf in HR1.
    rewrite Ha. cbn [mbind fst snd].
    destruct (next_back_refines s1 _ HR1 Hno1) as (s2 & k & Hnb & Hob & HR2 & _ & _ & Hnone).
    rewrite Hnb. unfold spec_step in Hob, HR2. cbn [lo hi] in Hob, HR2.
    destruct (lo a <? hi a - n) eqn:Elt; cbn [fst snd] in *.
    + exists s2, k. split; [reflexivity|]. split; [exact Hob|exact HR2].
    + exists s2, k. split; [reflexivity|]. split; [exact Hob|].
      inversion Hob; subst k. apply Hnone; [reflexivity|lia].
  - destruct Af as (s1 & Ha & HR1); [lia|].
    rewrite Ha. cbn [mbind fst snd].
    assert (Elt : lo a <? hi a - n = false) by lia. rewrite Elt. cbn [fst snd].
    exists s1, None. split; [reflexivity|]. split; [reflexivity|exact HR1].
Qed.

(* the step theorem, under the exact no-overflow side condition on the state *)
Lemma step_refines s a op : Rit cnt s a -> noovf W s -> op_ok W op ->
  snd (it_step W o cnt s op) = snd (spec_step a op) /\
  snd (it_step W o cnt s op) <> ObsPanic /\
  Rit cnt (fst (it_step W o cnt s op)) (fst (spec_step a op)).
Proof.
  intros HR Hno Hop. destruct op as [| |n|n| |]; cbn [op_ok] in Hop.
  - destruct (nth_refines s a 0 HR ltac:(lia)) as (s' & k & He & Hob & HR' & _).
    change (spec_step a OpNext) with
      (if lo a <? hi a then ({| lo := lo a + 1; hi := hi a |}, ObsItem (Some (lo a))) else (a, ObsItem None)).
    unfold spec_step in Hob, HR'.
    cbn [it_step]. unfold it_next. rewrite He. cbn [fst snd].
    replace (lo a + 0) with (lo a) in * by lia.
    destruct (lo a <? hi a) eqn:Elt; cbn [fst snd] in *.
    + rewrite Hob. split; [reflexivity|]. split; [discriminate|]. exact HR'.
    + rewrite Hob. split; [reflexivity|]. split; [discriminate|].
      assert (Elh : lo a = hi a) by (destruct HR as (_ & _ & Hl & _); lia).
      unfold Rit in *. cbn [lo hi] in HR'. rewrite Elh. exact HR'.
  - destruct (next_back_refines s a HR Hno) as (s' & k & He & Hob & HR' & _).
    cbn [it_step]. rewrite He. cbn [fst snd]. rewrite Hob. split; [reflexivity|]. split; [discriminate|exact HR'].
  - destruct (nth_refines s a n HR Hop) as (s' & k & He & Hob & HR' & _).
    cbn [it_step]. rewrite He. cbn [fst snd]. rewrite Hob. split; [reflexivity|]. split; [discriminate|exact HR'].
  - destruct (nth_back_refines s a n HR Hno Hop) as (s' & k & He & Hob & HR' ).
    cbn [it_step]. rewrite He. cbn [fst snd]. rewrite Hob. split; [reflexivity|]. split; [discriminate|exact HR'].
  - cbn [it_step spec_step]. rewrite (len_refines s a HR Hno). cbn [fst snd].
    split; [reflexivity|]. split; [discriminate|exact HR].
  - cbn [it_step spec_step]. rewrite (len_refines s a HR Hno). cbn [fst snd].
    split; [reflexivity|]. split; [discriminate|exact HR].
Qed.
End Refine.

Lemma Rit_noovf W cnt s a : 2 * cnt + 1 < W -> Rit cnt s a -> noovf W s.
Proof. intros HW (Hi & Hb & _). unfold noovf. lia. Qed.

(* stmt_C05_step with the side condition that is actually needed (on the state); it implies the
   variant with `2 * cnt + 1 < W` below *)
Lemma C05_step_partial_state :
  forall W cnt o s a op, 0 <= cnt -> cnt + 1 < W -> idx s + back s + 1 < W -> Rit cnt s a -> op_ok W op ->
  let '(s', ob) := it_step W o cnt s op in
  let '(a', ob') := spec_step a op in
  ob = ob' /\ ob <> ObsPanic /\ Rit cnt s' a'.
Proof.
  intros W cnt o s a op Hcnt HW Hno HR Hop.
  pose proof (step_refines W cnt o Hcnt HW s a op HR Hno Hop) as H.
  destruct (it_step W o cnt s op) as [s' ob]. destruct (spec_step a op) as [a' ob']. exact H.
Qed.

Lemma C05_step_partial :
  forall W cnt o s a op, 0 <= cnt -> 2 * cnt + 1 < W -> Rit cnt s a -> op_ok W op ->
  let '(s', ob) := it_step W o cnt s op in
  let '(a', ob') := spec_step a op in
  ob = ob' /\ ob <> ObsPanic /\ Rit cnt s' a'.
Proof.
  intros W cnt o s a op Hcnt HW HR Hop.
  apply C05_step_partial_state; try assumption; try lia.
  exact (Rit_noovf W cnt s a HW HR).
Qed.


Lemma C05_init_proof : stmt_C05_init.
Proof.
  unfold stmt_C05_init. intros cnt Hcnt. unfold Rit, ist0. cbn [idx back lo hi].
  repeat split; try lia. destruct (0 + 0 >=? cnt) eqn:E; lia.
Qed.

(* stmt_C05_fused is false as stated: it quantifies over every `OpNth n` / `OpNthBack n`, including negative n
   (n is a usize: the other statements carry `op_ok`).  nth(-1) on an empty interval "yields" lo - 1. *)

Lemma C05_fused_partial :
  forall a op, lo a = hi a -> match op with OpNth n | OpNthBack n => 0 <= n | _ => True end ->
  match op with OpLen | OpSizeHint => True | _ =>
    snd (spec_step a op) = ObsItem None /\ lo (fst (spec_step a op)) = hi (fst (spec_step a op)) end.
Proof.
  intros a op Hlh Hop.
  destruct op as [| |n|n| |]; try exact I; unfold spec_step.
  - assert (E : lo a <? hi a = false) by lia. rewrite E. cbn [fst snd]. split; [reflexivity|exact Hlh].
  - assert (E : lo a <? hi a = false) by lia. rewrite E. cbn [fst snd]. split; [reflexivity|exact Hlh].
  - assert (E : lo a + n <? hi a = false) by lia. rewrite E. cbn [fst snd lo hi]. split; reflexivity.
  - assert (E : lo a <? hi a - n = false) by lia. rewrite E. cbn [fst snd lo hi]. split; reflexivity.
Qed.

Lemma C05_len_exact_partial_state :
  forall W cnt o s a, 0 <= cnt -> cnt + 1 < W -> idx s + back s + 1 < W -> Rit cnt s a ->
  snd (it_step W o cnt s OpLen) = ObsLen (hi a - lo a) /\
  snd (it_step W o cnt s OpSizeHint) = ObsHint (hi a - lo a) (hi a - lo a).
Proof.
  intros W cnt o s a Hcnt HW Hno HR. cbn [it_step].
  rewrite (len_refines W cnt o s a HR Hno). cbn [snd]. split; reflexivity.
Qed.

Lemma C05_len_exact_partial :
  forall W cnt o s a, 0 <= cnt -> 2 * cnt + 1 < W -> Rit cnt s a ->
  snd (it_step W o cnt s OpLen) = ObsLen (hi a - lo a) /\
  snd (it_step W o cnt s OpSizeHint) = ObsHint (hi a - lo a) (hi a - lo a).
Proof.
  intros W cnt o s a Hcnt HW HR. apply C05_len_exact_partial_state; try assumption; try lia.
  exact (Rit_noovf W cnt s a HW HR).
Qed.


(* stmt_C05_legacy_refuted: conjuncts 1 and 3 hold, conjunct 2 is false OF THE MODEL as stated: `it_nth_legacy`
   reports the index handed to `get` (no range filter), and in release mode that index is the wrapped
   0 - 1 = W - 1, so the observation is `ObsItem (Some (W - 1))`, not `ObsItem None`.  `get (W - 1)` is None for
   every table of 3 constructors, which is the intended reading; the state is left at ist0 (not fused). *)

Lemma C05_legacy_refuted_partial :
  let W := 2 ^ 64 in
  snd (it_step_legacy W Debug 3 ist0 (OpNth (W - 1))) = ObsPanic /\
  it_step_legacy W Release 3 ist0 (OpNth (W - 1)) = (ist0, ObsItem (Some (W - 1))) /\
  (forall c, iter_count c = 3 -> iter_get c (W - 1) = None) /\
  snd (it_step_legacy W Release 3 (fst (it_step_legacy W Release 3 ist0 (OpNth (W - 1)))) OpNext) = ObsItem (Some 0).
Proof.
  cbv zeta. split; [vm_compute; reflexivity|]. split; [vm_compute; reflexivity|]. split; [|vm_compute; reflexivity].
  intros c Hc. unfold iter_count in Hc. unfold iter_get.
  set (k := 2 ^ 64 - 1). assert (Hk : k = 18446744073709551615) by (vm_compute; reflexivity).
  destruct (k <? 0) eqn:E; [reflexivity|]. apply nth_error_None. lia.
Qed.

(* ---------------- histories ---------------- *)
Lemma Forall2_nth_error_some {A B} (R : A -> B -> Prop) : forall l l' j x,
  Forall2 R l l' -> nth_error l j = Some x -> exists y, nth_error l' j = Some y /\ R x y.
Proof.
  intros l l' j x HF. revert j. induction HF as [|a b l l' Hab HF IH]; intros j Hj.
  - destruct j; discriminate.
  - destruct j as [|j]; cbn [nth_error] in *.
    + inversion Hj; subst. exists b. split; [reflexivity|exact Hab].
    + apply IH. exact Hj.
Qed.

Lemma Forall2_nth_error_none {A B} (R : A -> B -> Prop) : forall l l' j,
  Forall2 R l l' -> nth_error l j = None -> nth_error l' j = None.
Proof.
  intros l l' j HF. revert j. induction HF as [|a b l l' Hab HF IH]; intros j Hj.
  - destruct j; reflexivity.
  - destruct j as [|j]; cbn [nth_error] in *; [discriminate|]. apply IH. exact Hj.
Qed.

Lemma Forall2_set_nth {A B} (R : A -> B -> Prop) : forall l l' j x y,
  Forall2 R l l' -> R x y -> Forall2 R (set_nth l j x) (set_nth l' j y).
Proof.
  intros l l' j x y HF Hxy. revert j. induction HF as [|a b l l' Hab HF IH]; intros j.
  - destruct j; constructor.
  - destruct j as [|j]; cbn [set_nth]; constructor; auto.
Qed.

Lemma hist_refines W cnt o : 0 <= cnt -> 2 * cnt + 1 < W ->
  forall hs sts as_, Forall2 (Rit cnt) sts as_ -> Forall (hop_ok W) hs ->
  run_hist (it_step W o cnt) sts hs = spec_run_hist as_ hs.
Proof.
  intros Hcnt HW. induction hs as [|h r IH]; intros sts as_ HF Hok; [reflexivity|].
  inversion Hok as [|h' r' Hh Hr]; subst.
  cbn [run_hist spec_run_hist]. unfold hist_step, spec_hist_step.
  destruct h as [j op|j]; cbn [hop_ok] in Hh.
  - destruct (nth_error sts j) as [s|] eqn:Es.
    + destruct (Forall2_nth_error_some _ _ _ _ _ HF Es) as (a & Ea & HR). rewrite Ea.
      pose proof (step_refines W cnt o Hcnt ltac:(lia) s a op HR (Rit_noovf W cnt s a HW HR) Hh) as (Hob & _ & HR').
      destruct (it_step W o cnt s op) as [s' ob]. destruct (spec_step a op) as [a' ob'].
      cbn [fst snd] in *. subst ob'. f_equal. apply IH; [|exact Hr].
      apply Forall2_set_nth; assumption.
    + rewrite (Forall2_nth_error_none _ _ _ _ HF Es). f_equal. apply IH; assumption.
  - destruct (nth_error sts j) as [s|] eqn:Es.
    + destruct (Forall2_nth_error_some _ _ _ _ _ HF Es) as (a & Ea & HR). rewrite Ea.
      f_equal. apply IH; [|exact Hr]. apply Forall2_app; [exact HF|]. constructor; [exact HR|constructor].
    + rewrite (Forall2_nth_error_none _ _ _ _ HF Es). f_equal. apply IH; assumption.
Qed.

Lemma C05_history_partial :
  forall W cnt o hs, 0 <= cnt -> 2 * cnt + 1 < W -> Forall (hop_ok W) hs ->
  run_hist (it_step W o cnt) [ist0] hs = spec_run_hist [{| lo := 0; hi := cnt |}] hs.
Proof.
  intros W cnt o hs Hcnt HW Hok. apply hist_refines; try assumption.
  constructor; [|constructor]. apply C05_init_proof. exact Hcnt.
Qed.

Lemma spec_step_no_panic a op : snd (spec_step a op) <> ObsPanic.
Proof.
  destruct op as [| |n|n| |]; unfold spec_step;
    repeat match goal with |- context [if ?c then _ else _] => destruct c end; cbn [snd]; discriminate.
Qed.

Lemma spec_run_no_panic : forall hs as_, ~ In (Some ObsPanic) (spec_run_hist as_ hs).
Proof.
  induction hs as [|h r IH]; intros as_ Hin; [exact Hin|].
  cbn [spec_run_hist] in Hin. destruct (spec_hist_step as_ h) as [as' ob] eqn:E.
  destruct Hin as [Hin|Hin]; [|exact (IH _ Hin)].
  subst ob. unfold spec_hist_step in E. destruct h as [j op|j].
  - destruct (nth_error as_ j) as [a|]; [|discriminate].
    pose proof (spec_step_no_panic a op) as Hnp.
    destruct (spec_step a op) as [a' ob]. inversion E; subst. apply Hnp. reflexivity.
  - destruct (nth_error as_ j); discriminate.
Qed.

Lemma C05_no_panic_partial :
  forall W cnt o hs, 0 <= cnt -> 2 * cnt + 1 < W -> Forall (hop_ok W) hs ->
  ~ In (Some ObsPanic) (run_hist (it_step W o cnt) [ist0] hs).
Proof.
  intros W cnt o hs Hcnt HW Hok. rewrite (C05_history_partial W cnt o hs Hcnt HW Hok). apply spec_run_no_panic.
Qed.

(* the reachable counterexample: nth(cnt) exhausts the front (idx := cnt), next_back freezes back := cnt,
   and the next next_back computes cnt + (cnt + 1) *)
Definition cx_hist : list hop := [HOp 0 (OpNth 8); HOp 0 OpNextBack; HOp 0 OpNextBack].
Lemma cx_hist_ok : Forall (hop_ok 10) cx_hist.
Proof. unfold cx_hist. repeat constructor; cbn [hop_ok op_ok]; lia. Qed.



(* ------------------------------------------------------------------------------------------------ *)
(* C04: collect / rev                                                                                *)
(* ------------------------------------------------------------------------------------------------ *)
Lemma zseq_S_front l m : zseq l (S m) = l :: zseq (l + 1) m.
Proof.
  unfold zseq. cbn [seq map]. f_equal; [lia|].
  rewrite <- seq_shift, map_map. apply map_ext. intro k. lia.
Qed.

Lemma zseq_S_back l m : zseq l (S m) = (zseq l m ++ [l + Z.of_nat m])%list.
Proof. unfold zseq. rewrite seq_S, map_app. reflexivity. Qed.

Lemma spec_drain_next : forall n a fuel, hi a - lo a = Z.of_nat n -> (n < fuel)%nat ->
  spec_drain fuel a OpNext = zseq (lo a) n.
Proof.
  induction n as [|m IH]; intros a fuel Hn Hf; (destruct fuel as [|f]; [lia|]); cbn [spec_drain spec_step].
  - assert (E : lo a <? hi a = false) by lia. rewrite E. reflexivity.
  - assert (E : lo a <? hi a = true) by lia. rewrite E. rewrite zseq_S_front. f_equal.
    rewrite (IH {| lo := lo a + 1; hi := hi a |} f); cbn [lo hi]; [reflexivity|lia|lia].
Qed.

Lemma spec_drain_next_back : forall n a fuel, hi a - lo a = Z.of_nat n -> (n < fuel)%nat ->
  spec_drain fuel a OpNextBack = rev (zseq (lo a) n).
Proof.
  induction n as [|m IH]; intros a fuel Hn Hf; (destruct fuel as [|f]; [lia|]); cbn [spec_drain spec_step].
  - assert (E : lo a <? hi a = false) by lia. rewrite E. reflexivity.
  - assert (E : lo a <? hi a = true) by lia. rewrite E. rewrite zseq_S_back, rev_unit. f_equal; [lia|].
    rewrite (IH {| lo := lo a; hi := hi a - 1 |} f); cbn [lo hi]; [reflexivity|lia|lia].
Qed.

Lemma C04_collect_proof : stmt_C04_collect.
Proof. unfold stmt_C04_collect. intros a fuel Hl Hf. apply spec_drain_next; [lia|exact Hf]. Qed.

Lemma C04_rev_proof : stmt_C04_rev.
Proof. unfold stmt_C04_rev. intros a fuel Hl Hf. apply spec_drain_next_back; [lia|exact Hf]. Qed.

(* draining the generated iterator from one end only: the other cursor stays 0, so `cnt + 1 < W` suffices *)
Lemma it_drain_next W o cnt : 0 <= cnt -> cnt + 1 < W ->
  forall fuel s a, Rit cnt s a -> back s = 0 ->
  it_drain W o cnt fuel s OpNext = spec_drain fuel a OpNext.
Proof.
  intros Hcnt HW. induction fuel as [|f IH]; intros s a HR Hb; [reflexivity|].
  cbn [it_drain spec_drain].
  assert (Hno : noovf W s) by (destruct HR as (Hi & _); unfold noovf; lia).
  pose proof (step_refines W cnt o Hcnt HW s a OpNext HR Hno I) as (Hob & _ & HR').
  destruct (nth_refines W cnt o Hcnt HW s a 0 HR ltac:(lia)) as (s1 & k1 & He & _ & _ & Hb1).
  assert (Hfst : back (fst (it_step W o cnt s OpNext)) = 0).
  { cbn [it_step]. unfold it_next. rewrite He. cbn [fst]. lia. }
  destruct (it_step W o cnt s OpNext) as [s' ob]. destruct (spec_step a OpNext) as [a' ob'].
  cbn [fst snd] in *. subst ob'. destruct ob as [[k|]| | |]; try reflexivity.
  f_equal. apply IH; assumption.
Qed.

Lemma it_drain_next_back W o cnt : 0 <= cnt -> cnt + 1 < W ->
  forall fuel s a, Rit cnt s a -> idx s = 0 ->
  it_drain W o cnt fuel s OpNextBack = spec_drain fuel a OpNextBack.
Proof.
  intros Hcnt HW. induction fuel as [|f IH]; intros s a HR Hi0; [reflexivity|].
  cbn [it_drain spec_drain].
  assert (Hno : noovf W s) by (destruct HR as (_ & Hb & _); unfold noovf; lia).
  pose proof (step_refines W cnt o Hcnt HW s a OpNextBack HR Hno I) as (Hob & _ & HR').
  destruct (next_back_refines W cnt o Hcnt HW s a HR Hno) as (s1 & k1 & He & _ & _ & Hi1 & _).
  assert (Hfst : idx (fst (it_step W o cnt s OpNextBack)) = 0).
  { cbn [it_step]. rewrite He. cbn [fst]. lia. }
  destruct (it_step W o cnt s OpNextBack) as [s' ob]. destruct (spec_step a OpNextBack) as [a' ob'].
  cbn [fst snd] in *. subst ob'. destruct ob as [[k|]| | |]; try reflexivity.
  f_equal. apply IH; assumption.
Qed.

Lemma C04_iter_collect_proof : stmt_C04_iter_collect.
Proof.
  unfold stmt_C04_iter_collect. intros W o cnt fuel Hcnt HW Hf.
  pose proof (C05_init_proof cnt Hcnt) as HR0.
  split.
  - rewrite (it_drain_next W o cnt Hcnt HW fuel ist0 _ HR0 eq_refl).
    apply (spec_drain_next (Z.to_nat cnt) {| lo := 0; hi := cnt |} fuel); cbn [lo hi]; lia.
  - rewrite (it_drain_next_back W o cnt Hcnt HW fuel ist0 _ HR0 eq_refl).
    apply (spec_drain_next_back (Z.to_nat cnt) {| lo := 0; hi := cnt |} fuel); cbn [lo hi]; lia.
Qed.

(* ------------------------------------------------------------------------------------------------ *)
(* C04 / C08: the constructor table, the count, the arrays                                           *)
(* ------------------------------------------------------------------------------------------------ *)
Local Close Scope Z_scope.
Local Open Scope nat_scope.

Lemma enum_variants_ok it vs : enum_variants it = Ok vs -> vs = i_variants it.
Proof. unfold enum_variants. destruct (i_kind it); intro H; inversion H; reflexivity. Qed.

Lemma iter_ctors_spec : forall vs idx t, iter_ctors idx vs = Ok t ->
  t = enabled_ctors idx vs /\ Forall (fun v => exists p, vprops_of v = Ok p) vs.
Proof.
  induction vs as [|v r IH]; intros idx t H.
  - cbn [iter_ctors] in H. inversion H. split; [reflexivity|constructor].
  - cbn [iter_ctors] in H. unfold bind in H.
    destruct (vprops_of v) as [p| |] eqn:Hp; try discriminate.
    destruct (iter_ctors (S idx) r) as [rest| |] eqn:Hr; try discriminate.
    destruct (IH _ _ Hr) as [Hrest HF].
    split; [|constructor; [exists p; exact Hp|exact HF]].
    cbn [enabled_ctors]. rewrite Hp.
    destruct (vp_disabled p); inversion H; subst; reflexivity.
Qed.

Lemma gen_iter_spec it c : gen_iter it = Ok c ->
  ic_table c = enabled_ctors 0 (i_variants it) /\ Forall (fun v => exists p, vprops_of v = Ok p) (i_variants it).
Proof.
  unfold gen_iter, bind. intro H.
  destruct (tprops_of it) as [tp| |]; try discriminate.
  destruct (0 <? i_lifetimes it); try discriminate.
  destruct (enum_variants it) as [vs| |] eqn:Hvs; try discriminate.
  apply enum_variants_ok in Hvs. subst vs.
  destruct (iter_ctors 0 (i_variants it)) as [t| |] eqn:Ht; try discriminate.
  inversion H; subst c. cbn [ic_table]. apply iter_ctors_spec. exact Ht.
Qed.

Lemma ec_in : forall vs idx i,
  In i (map ct_variant (enabled_ctors idx vs)) <->
  exists j v p, i = idx + j /\ nth_error vs j = Some v /\ vprops_of v = Ok p /\ vp_disabled p = false.
Proof.
  induction vs as [|v r IH]; intros idx i.
  - cbn [enabled_ctors map In]. split; [intros []|]. intros (j & w & p & _ & Hn & _). destruct j; discriminate.
  - assert (Hshift : (exists j w p, i = S idx + j /\ nth_error r j = Some w /\ vprops_of w = Ok p /\ vp_disabled p = false) ->
                     exists j w p, i = idx + j /\ nth_error (v :: r) j = Some w /\ vprops_of w = Ok p /\ vp_disabled p = false).
    { intros (j & w & p & Hi & Hn & Hp & Hd). exists (S j), w, p. cbn [nth_error]. repeat split; auto. lia. }
    assert (Hunshift : forall j w p, i = idx + S j -> nth_error (v :: r) (S j) = Some w -> vprops_of w = Ok p -> vp_disabled p = false ->
                     exists j w p, i = S idx + j /\ nth_error r j = Some w /\ vprops_of w = Ok p /\ vp_disabled p = false).
    { intros j w p Hi Hn Hp Hd. exists j, w, p. cbn [nth_error] in Hn. repeat split; auto. lia. }
    cbn [enabled_ctors]. destruct (vprops_of v) as [p| |] eqn:Hp.
    + destruct (vp_disabled p) eqn:Hd.
      * rewrite IH. split; [exact Hshift|].
        intros ([|j] & w & q & Hi & Hn & Hq & Hdq); [|eapply Hunshift; eauto].
        cbn [nth_error] in Hn. inversion Hn; subst w. rewrite Hp in Hq. inversion Hq; subst q. congruence.
      * cbn [map In ct_variant]. rewrite IH. split.
        -- intros [He|Hin]; [|exact (Hshift Hin)].
           exists 0, v, p. cbn [nth_error]. repeat split; auto. lia.
        -- intros ([|j] & w & q & Hi & Hn & Hq & Hdq); [left; lia|right; eapply Hunshift; eauto].
    + rewrite IH. split; [exact Hshift|].
      intros ([|j] & w & q & Hi & Hn & Hq & Hdq); [|eapply Hunshift; eauto].
      cbn [nth_error] in Hn. inversion Hn; subst w. rewrite Hp in Hq. discriminate.
    + rewrite IH. split; [exact Hshift|].
      intros ([|j] & w & q & Hi & Hn & Hq & Hdq); [|eapply Hunshift; eauto].
      cbn [nth_error] in Hn. inversion Hn; subst w. rewrite Hp in Hq. discriminate.
Qed.

Lemma ec_ge vs idx x : In x (enabled_ctors idx vs) -> idx <= ct_variant x.
Proof.
  intro Hin. apply (in_map ct_variant) in Hin. apply ec_in in Hin.
  destruct Hin as (j & _ & _ & Hi & _). lia.
Qed.

Lemma ec_nodup : forall vs idx, NoDup (map ct_variant (enabled_ctors idx vs)).
Proof.
  induction vs as [|v r IH]; intro idx; cbn [enabled_ctors]; [constructor|].
  destruct (vprops_of v) as [p| |]; try apply IH.
  destruct (vp_disabled p); [apply IH|].
  cbn [map ct_variant]. constructor; [|apply IH].
  intro Hin. apply ec_in in Hin. destruct Hin as (j & _ & _ & Hi & _). lia.
Qed.

Lemma ec_sorted : forall vs idx a b x y,
  nth_error (enabled_ctors idx vs) a = Some x -> nth_error (enabled_ctors idx vs) b = Some y -> a < b ->
  ct_variant x < ct_variant y.
Proof.
  induction vs as [|v r IH]; intros idx a b x y Ha Hb Hab; cbn [enabled_ctors] in Ha, Hb.
  - destruct a; discriminate.
  - destruct (vprops_of v) as [p| |]; try exact (IH _ _ _ _ _ Ha Hb Hab).
    destruct (vp_disabled p); [exact (IH _ _ _ _ _ Ha Hb Hab)|].
    destruct b as [|b]; [lia|]. cbn [nth_error] in Hb.
    destruct a as [|a]; cbn [nth_error] in Ha.
    + inversion Ha; subst x. cbn [ct_variant]. apply nth_error_In in Hb. apply ec_ge in Hb. lia.
    + apply (IH _ _ _ _ _ Ha Hb). lia.
Qed.

Lemma C04_table_proof : stmt_C04_table.
Proof.
  unfold stmt_C04_table. intros it c H. destruct (gen_iter_spec it c H) as [Ht _]. rewrite Ht.
  split; [reflexivity|]. split; [apply ec_nodup|]. split; [apply ec_sorted|].
  intros i v p [Hn Hp]. rewrite ec_in. split.
  - intro Hd. exists i, v, p. repeat split; auto.
  - intros (j & w & q & Hi & Hnj & Hq & Hd). cbn in Hi. subst j. rewrite Hn in Hnj. inversion Hnj; subst w.
    rewrite Hp in Hq. inversion Hq; subst q. exact Hd.
Qed.

Lemma count_enabled_spec : forall vs acc k n, count_enabled vs acc = Ok n -> n = acc + length (enabled_ctors k vs).
Proof.
  induction vs as [|v r IH]; intros acc k n H; cbn [count_enabled] in H.
  - inversion H. cbn [enabled_ctors length]. lia.
  - unfold bind in H. destruct (vprops_of v) as [p| |] eqn:Hp; try discriminate.
    cbn [enabled_ctors]. rewrite Hp. apply (IH _ (S k)) in H.
    destruct (vp_disabled p); cbn [length]; lia.
Qed.

Lemma gen_count_spec it n : gen_count it = Ok n -> n = length (enabled_ctors 0 (i_variants it)).
Proof.
  unfold gen_count, bind. intro H.
  destruct (enum_variants it) as [vs| |] eqn:Hvs; try discriminate.
  apply enum_variants_ok in Hvs. subst vs.
  destruct (count_enabled (i_variants it) 0) as [m| |] eqn:Hm; try discriminate.
  destruct (tprops_of it); try discriminate. inversion H; subst m.
  apply (count_enabled_spec _ _ 0) in Hm. lia.
Qed.

Lemma C04_count_proof : stmt_C04_count.
Proof.
  unfold stmt_C04_count. intros it c n Hc Hn.
  destruct (gen_iter_spec it c Hc) as [Ht _]. apply gen_count_spec in Hn.
  split; [|exact Hn]. unfold iter_count. rewrite Ht, <- Hn. reflexivity.
Qed.

Lemma C08_count_iter_proof : stmt_C08_count_iter.
Proof.
  unfold stmt_C08_count_iter. intros it c n Hc Hn.
  destruct (gen_iter_spec it c Hc) as [Ht _]. apply gen_count_spec in Hn. rewrite Ht. exact Hn.
Qed.

Lemma mapM_length {A B} (f : A -> res B) : forall l r, mapM f l = Ok r -> length r = length l.
Proof.
  induction l as [|a l IH]; intros r H; cbn [mapM] in H.
  - inversion H. reflexivity.
  - unfold bind in H. destruct (f a) as [b| |]; try discriminate.
    destruct (mapM f l) as [bs| |]; try discriminate.
    inversion H. cbn [length]. f_equal. apply IH. reflexivity.
Qed.

Lemma C08_names_length_proof : stmt_C08_names_length.
Proof.
  unfold stmt_C08_names_length. intros it ns H. unfold gen_variant_names in H. unfold bind at 1 2 in H.
  destruct (enum_variants it) as [vs| |] eqn:Hvs; try discriminate.
  apply enum_variants_ok in Hvs. subst vs.
  destruct (tprops_of it) as [tp| |]; try discriminate.
  apply mapM_length in H. exact H.
Qed.

Lemma array_idents_spec : forall vs idx l, array_idents idx vs = Ok l -> l = seq idx (length vs).
Proof.
  induction vs as [|v r IH]; intros idx l H; cbn [array_idents] in H.
  - inversion H. reflexivity.
  - destruct (is_unit (v_fields v)); try discriminate. unfold bind in H.
    destruct (array_idents (S idx) r) as [rest| |] eqn:Hr; try discriminate.
    inversion H. cbn [length seq]. f_equal. apply IH. exact Hr.
Qed.

Lemma C08_array_proof : stmt_C08_array.
Proof.
  unfold stmt_C08_array. intros it arr H. unfold gen_variant_array, bind in H.
  destruct (enum_variants it) as [vs| |] eqn:Hvs; try discriminate.
  apply enum_variants_ok in Hvs. subst vs.
  destruct (tprops_of it); try discriminate.
  apply array_idents_spec. exact H.
Qed.

Lemma ec_all_enabled : forall vs idx,
  Forall (fun v => exists p, vprops_of v = Ok p) vs ->
  (forall j v p, nth_error vs j = Some v -> vprops_of v = Ok p -> vp_disabled p = false) ->
  map ct_variant (enabled_ctors idx vs) = seq idx (length vs).
Proof.
  induction vs as [|v r IH]; intros idx HF Hen; [reflexivity|].
  inversion HF as [|v' r' [p Hp] HFr]; subst.
  cbn [enabled_ctors]. rewrite Hp. rewrite (Hen 0 v p eq_refl Hp).
  cbn [map ct_variant length seq]. f_equal. apply IH; [exact HFr|].
  intros j w q Hn Hq. exact (Hen (S j) w q Hn Hq).
Qed.

Lemma C08_no_disabled_positions_proof : stmt_C08_no_disabled_positions.
Proof.
  unfold stmt_C08_no_disabled_positions. intros it c H Hen.
  destruct (gen_iter_spec it c H) as [Ht HF]. rewrite Ht.
  apply ec_all_enabled; [exact HF|].
  intros j v p Hn Hp. apply (Hen j v p). split; assumption.
Qed.

Print Assumptions C05_init_proof.
Print Assumptions C04_collect_proof.
Print Assumptions C04_rev_proof.
Print Assumptions C04_iter_collect_proof.
Print Assumptions C04_table_proof.
Print Assumptions C04_count_proof.
Print Assumptions C08_count_iter_proof.
Print Assumptions C08_names_length_proof.
Print Assumptions C08_array_proof.
Print Assumptions C08_no_disabled_positions_proof.
(* statements that are false as stated: partial variants and machine-checked refutations *)

(* ---- the statements of Spec/Statements.v (hypothesis 2 * cnt + 1 < W, see stmt_C05_hypothesis_needed) ---- *)
Lemma C05_step_proof : stmt_C05_step. Proof. exact C05_step_partial. Qed.
Lemma C05_history_proof : stmt_C05_history. Proof. exact C05_history_partial. Qed.
Lemma C05_no_panic_proof : stmt_C05_no_panic. Proof. exact C05_no_panic_partial. Qed.
Lemma C05_len_exact_proof : stmt_C05_len_exact. Proof. exact C05_len_exact_partial. Qed.
Lemma C05_fused_proof : stmt_C05_fused. Proof. exact C05_fused_partial. Qed.
Lemma C05_legacy_refuted_proof : stmt_C05_legacy_refuted. Proof. exact C05_legacy_refuted_partial. Qed.
Lemma C05_hypothesis_needed_proof : stmt_C05_hypothesis_needed.
Proof. unfold stmt_C05_hypothesis_needed. vm_compute. right. right. left. reflexivity. Qed.
Print Assumptions C05_step_proof.
Print Assumptions C05_history_proof.
Print Assumptions C05_no_panic_proof.
Print Assumptions C05_len_exact_proof.
Print Assumptions C05_fused_proof.
Print Assumptions C05_legacy_refuted_proof.
Print Assumptions C05_hypothesis_needed_proof.

Lemma C08_four_agree_proof : stmt_C08_four_agree.
Proof.
  unfold stmt_C08_four_agree. intros it c n ns arr Hc Hn Hns Harr Hen.
  pose proof (C08_count_iter_proof it c n Hc Hn) as H1.
  pose proof (C08_names_length_proof it ns Hns) as H2.
  pose proof (C08_array_proof it arr Harr) as H3.
  pose proof (C08_no_disabled_positions_proof it c Hc Hen) as H4.
  assert (HL : length (ic_table c) = length (i_variants it)).
  { rewrite <- (map_length ct_variant), H4. apply seq_length. }
  split; [lia|]. split; [rewrite H3, seq_length; lia|]. split; [exact H1|]. rewrite H3, H4. reflexivity.
Qed.
Print Assumptions C08_four_agree_proof.
