(* ReprProgP.v — the deep-embedded from_repr program (Model/ReprProg.v: constant chain + guarded arms, the shape the
   token reader extracts from the REAL expansion) compiles exactly when gen_from_repr succeeds, its constants evaluate
   to rustc's discriminants of ALL declared variants, and running it is run_from_repr. *)
Require Import Strum.Model.ReprProg Strum.Proofs.ReprP.
From Coq Require Import Lia.
Open Scope Z_scope.

Definition parm_of (a : repr_arm) : parm :=
  {| pa_const := ra_variant a; pa_variant := ra_variant a; pa_nfields := ra_nfields a |}.

Lemma walk_spec ty : forall vs idx prevz first arms,
  repr_arms ty idx prevz vs = Ok arms ->
  (first = true -> prevz = None) -> (first = false -> prevz <> None) ->
  exists cs, prog_walk idx first vs = Ok (cs, map parm_of arms) /\
             eval_chain ty prevz cs = Some (rustc_discr_from prevz vs) /\
             length cs = length vs.
Proof.
  induction vs as [|v r IH]; intros idx prevz first arms H Ht Hf.
  - cbn in H. inversion H; subst. exists []. cbn. auto.
  - cbn [repr_arms] in H. unfold bind in H at 1.
    destruct (vprops_of v) as [p| |] eqn:Hp; try discriminate.
    set (c := match v_discr v with Some z => z | None => match prevz with Some q => q + 1 | None => 0 end end) in *.
    destruct (negb (in_range ty c)) eqn:Hr; [discriminate|].
    apply Bool.negb_false_iff in Hr.
    unfold bind in H. destruct (repr_arms ty (S idx) (Some c) r) as [rest| |] eqn:Hrest; try discriminate.
    destruct (IH (S idx) (Some c) false rest Hrest) as (cs & Hw & He & Hl); [discriminate|discriminate|].
    set (ce := match v_discr v with Some z => COwn z | None => if first then CZero else CPrevPlus1 end).
    assert (Hce : eval_chain ty prevz (ce :: cs) = Some (rustc_discr_from prevz (v :: r))).
    { cbn [eval_chain rustc_discr_from]. fold c.
      assert (Hv : match ce with CZero => Some 0 | COwn z => Some z | CPrevPlus1 => option_map (fun p => p + 1) prevz end = Some c).
      { unfold ce, c. destruct (v_discr v) as [z|]; [reflexivity|].
        destruct first.
        - rewrite (Ht eq_refl). reflexivity.
        - destruct prevz as [q|]; [reflexivity|]. exfalso. apply (Hf eq_refl). reflexivity. }
      rewrite Hv, Hr, He. reflexivity. }
    exists (ce :: cs). cbn [prog_walk]. rewrite Hp. cbn [bind]. rewrite Hw. cbn [bind].
    fold ce. split; [|split; [exact Hce | cbn; lia]].
    destruct (vp_disabled p); inversion H; subst arms; reflexivity.
Qed.

Lemma run_parms_spec env x : forall arms,
  (forall a, In a arms -> nth_error env (ra_variant a) = Some (ra_const a)) ->
  run_parms env (map parm_of arms) x =
  match find (fun a => ra_const a =? x) arms with Some a => Some (ra_variant a, ra_nfields a) | None => None end.
Proof.
  induction arms as [|a r IH]; intros H; [reflexivity|].
  cbn [map run_parms find parm_of pa_const pa_variant pa_nfields].
  rewrite (H a (or_introl eq_refl)). destruct (ra_const a =? x); [reflexivity|].
  apply IH. intros b Hb. apply H. right. exact Hb.
Qed.

Theorem C06_program_proof : forall it c, gen_from_repr it = Ok c ->
  exists p, gen_repr_prog it = Ok p /\ rp_ty p = fr_ty c /\ rp_const_fn p = fr_const c /\
            length (rp_consts p) = length (i_variants it) /\
            eval_chain (rp_ty p) None (rp_consts p) = Some (rustc_discr (i_variants it)) /\
            forall x, run_repr_prog p x = Some (run_from_repr c x).
Proof.
  intros it c Hgen. destruct (gen_arms it c Hgen) as (Ha & Hk & Hty & Hc).
  destruct (walk_spec _ _ 0%nat None true _ Ha) as (cs & Hw & He & Hl); [reflexivity|discriminate|].
  unfold gen_from_repr in Hgen. unfold gen_repr_prog, enum_variants in *.
  destruct (0 <? i_lifetimes it)%nat; [discriminate|]. rewrite Hk in *. cbn [bind] in *.
  rewrite <- Hty. rewrite Hw. cbn [bind fst snd].
  eexists. split; [reflexivity|]. cbn [rp_ty rp_consts rp_arms rp_const_fn].
  split; [reflexivity|]. split.
  { rewrite Hc. clear. induction (fr_arms c) as [|a r IH]; [reflexivity|]. cbn [map forallb parm_of pa_nfields]. rewrite IH. reflexivity. }
  split; [exact Hl|]. split; [exact He|].
  intro x. unfold run_repr_prog. cbn [rp_ty rp_consts rp_arms]. rewrite He. f_equal.
  unfold run_from_repr. apply run_parms_spec.
  intros a Hin. apply (repr_arms_spec _ _ _ _ _ Ha) in Hin as [j (v & _ & _ & Hv & Hd & _)].
  cbn in Hv. rewrite Hv. exact Hd.
Qed.

(* conversely: whenever the emitted program compiles (the generator accepts the item and rustc can evaluate every
   constant in the discriminant type), the model of Repr.v succeeds as well — so C06_iff / C06_none speak about every
   from_repr that exists *)
Lemma walk_complete ty : forall vs idx prevz first cs pa env,
  prog_walk idx first vs = Ok (cs, pa) -> eval_chain ty prevz cs = Some env ->
  (first = true -> prevz = None) -> (first = false -> prevz <> None) ->
  exists arms, repr_arms ty idx prevz vs = Ok arms.
Proof.
  induction vs as [|v r IH]; intros idx prevz first cs pa env Hw He Ht Hf; [eexists; reflexivity|].
  cbn [prog_walk] in Hw. unfold bind in Hw at 1.
  destruct (vprops_of v) as [p| |] eqn:Hp; try discriminate.
  unfold bind in Hw. destruct (prog_walk (S idx) false r) as [[cs' pa']| |] eqn:Hrest; try discriminate.
  set (ce := match v_discr v with Some z => COwn z | None => if first then CZero else CPrevPlus1 end) in *.
  assert (Hcs : cs = ce :: cs') by (destruct (vp_disabled p); inversion Hw; reflexivity).
  subst cs. cbn [eval_chain] in He.
  set (c := match v_discr v with Some z => z | None => match prevz with Some q => q + 1 | None => 0 end end).
  assert (Hv : match ce with CZero => Some 0 | COwn z => Some z | CPrevPlus1 => option_map (fun p => p + 1) prevz end = Some c).
  { unfold ce, c. destruct (v_discr v) as [z|]; [reflexivity|]. destruct first.
    - rewrite (Ht eq_refl). reflexivity.
    - destruct prevz as [q|]; [reflexivity|]. exfalso. apply (Hf eq_refl). reflexivity. }
  rewrite Hv in He. destruct (in_range ty c) eqn:Hr; [|discriminate].
  destruct (eval_chain ty (Some c) cs') as [env'|] eqn:He'; [|discriminate].
  destruct (IH (S idx) (Some c) false cs' pa' env' Hrest He') as [rest Hrest']; [discriminate|discriminate|].
  cbn [repr_arms]. rewrite Hp. cbn [bind]. fold c. rewrite Hr. cbn [negb]. rewrite Hrest'. cbn [bind].
  destruct (vp_disabled p); eexists; reflexivity.
Qed.

Theorem C06_program_complete_proof : forall it p env,
  gen_repr_prog it = Ok p -> eval_chain (rp_ty p) None (rp_consts p) = Some env ->
  exists c, gen_from_repr it = Ok c.
Proof.
  intros it p env Hg He. unfold gen_repr_prog, gen_from_repr, enum_variants in *.
  destruct (0 <? i_lifetimes it)%nat; [discriminate|].
  destruct (i_kind it); try discriminate. cbn [bind] in *. unfold bind in Hg.
  destruct (prog_walk 0 true (i_variants it)) as [[cs pa]| |] eqn:Hw; try discriminate.
  inversion Hg; subst p. cbn [rp_ty rp_consts fst] in He.
  destruct (walk_complete _ _ _ _ _ _ _ _ Hw He) as [arms Ha]; [reflexivity|discriminate|].
  rewrite Ha. cbn [bind]. eexists; reflexivity.
Qed.

(* the #[repr] scan: the LAST integer hint of all attributes wins, usize when there is none — so for every way of writing a
   rustc-accepted #[repr] (rustc rejects two different integer hints) the parameter type is THE integer type of the enum *)
Lemma last_nonempty_indep {A} (l : list A) e1 e2 : l <> [] -> last l e1 = last l e2.
Proof.
  induction l as [|x [|y t] IH]; intro Hne; [congruence|reflexivity|].
  change (last (y :: t) e1 = last (y :: t) e2). apply IH. discriminate.
Qed.
Lemma last_cons {A} (x : A) (l : list A) d : last (x :: l) d = last l x.
Proof. destruct l as [|y t]; [reflexivity|]. change (last (y :: t) d = last (y :: t) x). apply last_nonempty_indep. discriminate. Qed.

Lemma scan_attr_last : forall hs acc, scan_attr acc hs = last (int_hints hs) acc.
Proof.
  induction hs as [|h r IH]; intro acc; [reflexivity|].
  unfold scan_attr in *. cbn [fold_left]. rewrite IH.
  destruct h as [x|]; cbn [scan_hint]; [|reflexivity].
  change (int_hints (HInt x :: r)) with (x :: int_hints r). rewrite last_cons. reflexivity.
Qed.

Lemma last_app_default {A} (l1 l2 : list A) d : last (l1 ++ l2) d = last l2 (last l1 d).
Proof.
  revert d; induction l1 as [|a r IH]; intro d; [reflexivity|].
  change ((a :: r) ++ l2) with (a :: (r ++ l2)). rewrite !last_cons. apply IH.
Qed.

Theorem C06_repr_scan_proof : forall attrs,
  scan_repr attrs = last (int_hints (concat attrs)) RUsize /\
  (int_hints (concat attrs) = [] -> scan_repr attrs = RUsize) /\
  (forall r, int_hints (concat attrs) = [r] -> scan_repr attrs = r).
Proof.
  assert (G : forall attrs acc, fold_left scan_attr attrs acc = last (int_hints (concat attrs)) acc).
  { induction attrs as [|hs r IH]; intro acc; [reflexivity|].
    cbn [fold_left concat]. rewrite IH, scan_attr_last. unfold int_hints. rewrite flat_map_app. fold (int_hints hs). fold (int_hints (concat r)).
    symmetry. apply last_app_default. }
  intro attrs. unfold scan_repr. rewrite G. split; [reflexivity|]. split.
  - intros ->. reflexivity.
  - intros r ->. reflexivity.
Qed.
