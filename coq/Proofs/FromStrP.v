(* FromStrP.v — EnumString (C01 / C11 / C12 / C18): the generated from_str returns exactly the eligible
   variant whose declared spellings match the input, and the specified fall-through otherwise. *)
Require Import Strum.Spec.Statements Strum.Proofs.BytesP.
From Coq Require Import Lia.
Local Open Scope list_scope.

(* ------------------------------------------------------------------ *)
(* association lists                                                   *)
(* ------------------------------------------------------------------ *)
Lemma assoc_key_some {A} (k : str) (l : list (str * A)) x : assoc_key k l = Some x -> In (k, x) l.
Proof.
  induction l as [|[k' y] r IH]; cbn; [discriminate|].
  destruct (str_eqb k k') eqn:E.
  - intros [= ->]. apply str_eqb_spec in E. subst. left. reflexivity.
  - intro H. right. apply IH. exact H.
Qed.
Lemma assoc_key_none {A} (k : str) (l : list (str * A)) : assoc_key k l = None -> ~ In k (map fst l).
Proof.
  induction l as [|[k' y] r IH]; cbn; [intros _ []|].
  destruct (str_eqb k k') eqn:E; [discriminate|].
  intros H [H1|H1].
  - subst. rewrite str_eqb_refl in E. discriminate.
  - exact (IH H H1).
Qed.
Lemma assoc_key_in {A} (k : str) (l : list (str * A)) : In k (map fst l) -> assoc_key k l <> None.
Proof. intros H E. exact (assoc_key_none k l E H). Qed.

Lemma find_app_none {A} (f : A -> bool) l1 l2 : find f l1 = None -> find f (l1 ++ l2) = find f l2.
Proof. induction l1 as [|x xs IH]; cbn; auto. destruct (f x); [discriminate|auto]. Qed.
Lemma find_app_some {A} (f : A -> bool) l1 l2 a : find f l1 = Some a -> find f (l1 ++ l2) = Some a.
Proof. induction l1 as [|x xs IH]; cbn; [discriminate|]. destruct (f x); auto. Qed.

(* ------------------------------------------------------------------ *)
(* the phf side of the state: keys only grow, keys = keys of the map,  *)
(* every new entry satisfies Q                                         *)
(* ------------------------------------------------------------------ *)
Definition keys_ok (st : fs_state) : Prop := forall k, In k (st_keys st) <-> In k (map fst (st_phf st)).

(* a key is accounted for: it is in the map, or an earlier case-insensitive spelling matches it *)
Definition covered (k : str) (st : fs_state) : Prop := In k (st_keys st) \/ shadowed k st = true.
(* every recorded case-insensitive spelling has its guard arm *)
Definition ci_ok (st : fs_state) : Prop :=
  forall c, In c (st_ci st) -> exists j ps, In (ArmGuard c j ps) (st_arms st).

Record ext (Q : str -> nat * params -> Prop) (st st' : fs_state) : Prop := {
  e_keys : forall k, covered k st -> covered k st';
  e_ok : keys_ok st -> keys_ok st';
  e_ci : ci_ok st -> ci_ok st';
  e_phf : forall k tgt, In (k, tgt) (st_phf st') -> In (k, tgt) (st_phf st) \/ Q k tgt
}.

Lemma ext_refl Q st : ext Q st st.
Proof. constructor; auto. Qed.
Lemma ext_mono (Q Q' : str -> nat * params -> Prop) st st' :
  (forall k t, Q k t -> Q' k t) -> ext Q st st' -> ext Q' st st'.
Proof. intros HQ [A B D C]. constructor; auto. intros k t H. destruct (C k t H); auto. Qed.
Lemma ext_trans Q st1 st2 st3 : ext Q st1 st2 -> ext Q st2 st3 -> ext Q st1 st3.
Proof. intros [A B D C] [A' B' D' C']. constructor; auto.
  intros k t H. destruct (C' k t H) as [H1|H1]; auto. Qed.

(* fields untouched by the per-spelling step *)
Definition same_fall (st st' : fs_state) : Prop :=
  st_default_seen st' = st_default_seen st /\ st_fall st' = st_fall st /\ st_custom_err st' = st_custom_err st.
Lemma same_fall_refl st : same_fall st st.
Proof. repeat split. Qed.
Lemma same_fall_trans a b c : same_fall a b -> same_fall b c -> same_fall a c.
Proof. unfold same_fall. intros (A1 & A2 & A3) (B1 & B2 & B3). repeat split; congruence. Qed.

Lemma add_key_props k tgt st :
  ext (fun k' t' => k' = k /\ t' = tgt) st (fs_add_key k tgt st) /\
  covered k (fs_add_key k tgt st) /\
  st_arms (fs_add_key k tgt st) = st_arms st /\
  same_fall st (fs_add_key k tgt st).
Proof.
  unfold fs_add_key. destruct (shadowed k st) eqn:S; cbn [orb].
  { split; [apply ext_refl|]. split; [right; exact S|]. split; [reflexivity|apply same_fall_refl]. }
  destruct (mem_str k (st_keys st)) eqn:M.
  - split; [apply ext_refl|]. split; [left; apply mem_str_In; exact M|]. split; [reflexivity|apply same_fall_refl].
  - split; [|split; [left; cbn; auto|split; [reflexivity|repeat split]]].
    constructor; cbn [st_keys st_phf].
    + intros k' [H|H]; [left; cbn [st_keys]; right; exact H|right; exact H].
    + intros OK k'. cbn [st_keys st_phf]. rewrite map_app, in_app_iff. cbn. rewrite <- (OK k'). tauto.
    + intros H c Hc. exact (H c Hc).
    + intros k' t' H. apply in_app_iff in H as [H|[H|[]]]; [left; exact H|right]. inversion H; auto.
Qed.

Lemma add_arm_props a st :
  ext (fun _ _ => False) st (fs_add_arm a st) /\
  st_arms (fs_add_arm a st) = st_arms st ++ [a] /\
  same_fall st (fs_add_arm a st).
Proof.
  unfold fs_add_arm. split; [|split; [reflexivity|repeat split]].
  constructor; cbn [st_keys st_phf]; auto.
  intros H c Hc. destruct (H c Hc) as (j & ps & I). exists j, ps. cbn [st_arms]. apply in_app_iff. left. exact I.
Qed.

(* recording a case-insensitive spelling together with its guard arm *)
Lemma add_ci_arm_props lit idx ps st :
  let st' := fs_add_arm (ArmGuard lit idx ps) (fs_add_ci lit st) in
  ext (fun _ _ => False) st st' /\
  covered lit st' /\
  st_arms st' = st_arms st ++ [ArmGuard lit idx ps] /\
  same_fall st st'.
Proof.
  cbv zeta. unfold fs_add_arm, fs_add_ci. cbn [st_default_seen st_fall st_custom_err st_keys st_ci st_phf st_arms].
  split; [|split; [|split; [reflexivity|repeat split]]].
  - constructor; cbn [st_keys st_phf]; auto.
    + intros k [H|H]; [left; exact H|right]. unfold shadowed in *. cbn [st_ci]. rewrite existsb_app, H. reflexivity.
    + intros H c Hc. cbn [st_ci st_arms] in *. apply in_app_iff in Hc as [Hc|[<-|[]]].
      * destruct (H c Hc) as (j & qs & I). exists j, qs. apply in_app_iff. left. exact I.
      * exists idx, ps. apply in_app_iff. right. left. reflexivity.
  - right. unfold shadowed. cbn [st_ci]. rewrite existsb_app. cbn [existsb]. rewrite eq_ic_str_refl, orb_true_r. reflexivity.
Qed.

(* the arms one variant contributes *)
Definition arm_of (use_phf ci : bool) (idx : nat) (ps : params) (l : str) : list fs_arm :=
  if use_phf then (if ci then [ArmGuard l idx ps] else [])
  else [if ci then ArmGuard l idx ps else ArmExact l idx ps].
Definition arms_of (use_phf ci : bool) (idx : nat) (ps : params) (lits : list str) : list fs_arm :=
  flat_map (arm_of use_phf ci idx ps) lits.

Definition QS (use_phf ci : bool) (idx : nat) (ps : params) (lits : list str) (k : str) (t : nat * params) : Prop :=
  use_phf = true /\ t = (idx, ps) /\ exists l, In l lits /\ lit_matches ci k l = true.

Lemma lit_matches_refl ci l : lit_matches ci l l = true.
Proof. unfold lit_matches. destruct ci; [apply eq_ic_str_refl|apply str_eqb_refl]. Qed.

Lemma ser_step use_phf ci idx ps st lit :
  let st' := fs_serialization use_phf ci idx ps st lit in
  ext (QS use_phf ci idx ps [lit]) st st' /\
  (use_phf = true -> covered lit st') /\
  st_arms st' = st_arms st ++ arm_of use_phf ci idx ps lit /\
  same_fall st st'.
Proof.
  unfold fs_serialization, arm_of. destruct use_phf.
  - destruct (add_key_props lit (idx, ps) st) as (E1 & I1 & A1 & F1).
    set (st1 := fs_add_key lit (idx, ps) st) in *.
    assert (E1' : ext (QS true ci idx ps [lit]) st st1).
    { eapply ext_mono; [|exact E1]. intros k t [-> ->]. split; [reflexivity|]. split; [reflexivity|].
      exists lit. split; [left; reflexivity|apply lit_matches_refl]. }
    destruct ci; cbn zeta.
    + destruct (add_key_props (lower_str lit) (idx, ps) st1) as (E2 & I2 & A2 & F2).
      set (st2 := fs_add_key (lower_str lit) (idx, ps) st1) in *.
      destruct (add_key_props (upper_str lit) (idx, ps) st2) as (E3 & I3 & A3 & F3).
      set (st3 := fs_add_key (upper_str lit) (idx, ps) st2) in *.
      destruct (add_ci_arm_props lit idx ps st3) as (E4 & _ & A4 & F4). cbv zeta in E4, A4, F4.
      split; [|split; [|split]].
      * eapply ext_trans; [exact E1'|]. eapply ext_trans; [|eapply ext_trans].
        -- eapply ext_mono; [|exact E2]. intros k t [-> ->]. split; [reflexivity|]. split; [reflexivity|].
           exists lit. split; [left; reflexivity|]. cbn. apply eq_ic_lower_str.
        -- eapply ext_mono; [|exact E3]. intros k t [-> ->]. split; [reflexivity|]. split; [reflexivity|].
           exists lit. split; [left; reflexivity|]. cbn. apply eq_ic_upper_str.
        -- eapply ext_mono; [|exact E4]. intros k t [].
      * intros _. apply (e_keys _ _ _ E4). apply (e_keys _ _ _ E3). apply (e_keys _ _ _ E2). exact I1.
      * rewrite A4, A3, A2, A1. reflexivity.
      * eapply same_fall_trans; [exact F1|]. eapply same_fall_trans; [exact F2|].
        eapply same_fall_trans; [exact F3|exact F4].
    + split; [exact E1'|]. split; [intros _; exact I1|]. split; [rewrite A1, app_nil_r; reflexivity|exact F1].
  - cbn zeta. set (a := if ci then ArmGuard lit idx ps else ArmExact lit idx ps).
    destruct (add_arm_props a st) as (E4 & A4 & F4).
    split; [|split; [discriminate|split; [exact A4|exact F4]]].
    eapply ext_mono; [|exact E4]. intros k t [].
Qed.

Lemma ser_fold use_phf ci idx ps lits : forall st,
  let st' := fold_left (fs_serialization use_phf ci idx ps) lits st in
  ext (QS use_phf ci idx ps lits) st st' /\
  (use_phf = true -> forall l, In l lits -> covered l st') /\
  st_arms st' = st_arms st ++ arms_of use_phf ci idx ps lits /\
  same_fall st st'.
Proof.
  induction lits as [|lit r IH]; intro st; cbn [fold_left].
  - split; [apply ext_refl|]. split; [intros _ l []|]. split; [cbn; rewrite app_nil_r; reflexivity|apply same_fall_refl].
  - destruct (ser_step use_phf ci idx ps st lit) as (E1 & I1 & A1 & F1).
    set (st1 := fs_serialization use_phf ci idx ps st lit) in *.
    destruct (IH st1) as (E2 & I2 & A2 & F2). cbn zeta in *.
    set (st2 := fold_left (fs_serialization use_phf ci idx ps) r st1) in *.
    split; [|split; [|split]].
    + eapply ext_trans.
      * eapply ext_mono; [|exact E1]. intros k t (U & T & l & [<-|[]] & M).
        split; [exact U|]. split; [exact T|]. exists lit. split; [left; reflexivity|exact M].
      * eapply ext_mono; [|exact E2]. intros k t (U & T & l & Hl & M).
        split; [exact U|]. split; [exact T|]. exists l. split; [right; exact Hl|exact M].
    + intros U l [<-|Hl]; [apply (e_keys _ _ _ E2); apply I1; exact U|apply I2; assumption].
    + rewrite A2, A1. unfold arms_of. cbn [flat_map]. rewrite app_assoc. reflexivity.
    + eapply same_fall_trans; eassumption.
Qed.

(* ------------------------------------------------------------------ *)
(* one iteration of the variant loop                                   *)
(* ------------------------------------------------------------------ *)
Definition sf_fld (sg : single) : option str :=
  match sg with SingleTuple _ => None | SingleNamed n _ => Some n end.

Definition set_default (st : fs_state) (idx : nat) (fld : option str) : fs_state :=
  {| st_default_seen := true; st_fall := FDefault idx fld; st_custom_err := false;
     st_keys := st_keys st; st_ci := st_ci st; st_phf := st_phf st; st_arms := st_arms st |}.

Lemma fs_variant_shape tp st idx v st' : fs_variant tp st idx v = Ok st' ->
  exists p, vprops_of v = Ok p /\
  ( (vp_disabled p = true /\ st' = st)
  \/ (vp_disabled p = false /\ vp_default p = true /\ st_default_seen st = false /\
      exists sg, single_field (v_fields v) = Some sg /\ st' = set_default st idx (sf_fld sg))
  \/ (eligible_b p = true /\ exists ps, fs_params p (v_fields v) = Ok ps /\
      st' = fold_left (fs_serialization (tp_phf tp) (vci tp p) idx ps) (vspell tp p) st)).
Proof.
  unfold fs_variant, bind. destruct (vprops_of v) as [p| |] eqn:Hp; try discriminate.
  intro H. exists p. split; [reflexivity|].
  destruct (vp_disabled p) eqn:D.
  - left. inversion H. auto.
  - destruct (vp_default p) eqn:Df.
    + right. left. destruct (st_default_seen st) eqn:Sn; [discriminate|].
      destruct (single_field (v_fields v)) as [[r|n r]|] eqn:SF; try discriminate; inversion H; subst;
        repeat split; eexists; (split; [reflexivity|reflexivity]).
    + right. right. destruct (fs_params p (v_fields v)) as [ps| |] eqn:P; try discriminate.
      inversion H. split; [unfold eligible_b; rewrite D, Df; reflexivity|]. exists ps. split; reflexivity.
Qed.

Lemma eligible_inv p : eligible_b p = true -> vp_disabled p = false /\ vp_default p = false.
Proof. unfold eligible_b. destruct (vp_disabled p), (vp_default p); cbn; auto; discriminate. Qed.

Definition varms (tp : tprops) (idx : nat) (v : variant) : list fs_arm :=
  match vprops_of v with
  | Ok p => if eligible_b p then
              match fs_params p (v_fields v) with
              | Ok ps => arms_of (tp_phf tp) (vci tp p) idx ps (vspell tp p)
              | _ => []
              end
            else []
  | _ => []
  end.
Fixpoint all_arms (tp : tprops) (idx : nat) (vs : list variant) : list fs_arm :=
  match vs with [] => [] | v :: r => varms tp idx v ++ all_arms tp (S idx) r end.

(* where a phf entry comes from *)
Definition QL (tp : tprops) (idx : nat) (vs : list variant) (k : str) (t : nat * params) : Prop :=
  tp_phf tp = true /\
  exists n v p l, fst t = idx + n /\ nth_error vs n = Some v /\ vprops_of v = Ok p /\ eligible_b p = true /\
    fs_params p (v_fields v) = Ok (snd t) /\ In l (vspell tp p) /\ lit_matches (vci tp p) k l = true.

Lemma fs_loop_main tp : forall vs st idx st', fs_loop tp st idx vs = Ok st' ->
  ext (QL tp idx vs) st st' /\
  st_arms st' = st_arms st ++ all_arms tp idx vs /\
  (forall n v p, nth_error vs n = Some v -> vprops_of v = Ok p -> eligible_b p = true ->
     exists ps, fs_params p (v_fields v) = Ok ps /\
       (tp_phf tp = true -> forall l, In l (vspell tp p) -> covered l st')).
Proof.
  induction vs as [|v r IH]; intros st idx st' H; cbn [fs_loop] in H.
  - inversion H; subst. split; [apply ext_refl|]. split; [cbn; rewrite app_nil_r; reflexivity|].
    intros [|n] ? ? Hn; discriminate.
  - unfold bind in H. destruct (fs_variant tp st idx v) as [st1| |] eqn:Hv; try discriminate.
    destruct (IH _ _ _ H) as (E2 & A2 & C2).
    destruct (fs_variant_shape _ _ _ _ _ Hv) as (p & Hp & Hs).
    assert (E2' : ext (QL tp idx (v :: r)) st1 st').
    { eapply ext_mono; [|exact E2]. intros k t (U & n & v' & p' & l & H1 & H2 & H3).
      split; [exact U|]. exists (S n), v', p', l. split; [lia|]. split; [exact H2|exact H3]. }
    assert (K : ext (QL tp idx (v :: r)) st st1 /\ st_arms st1 = st_arms st ++ varms tp idx v /\
                (eligible_b p = true -> exists ps, fs_params p (v_fields v) = Ok ps /\
                   (tp_phf tp = true -> forall l, In l (vspell tp p) -> covered l st1))).
    { unfold varms. rewrite Hp. destruct Hs as [(D & ->) | [(D & Df & Sn & sg & SF & ->) | (El & ps & P & ->)]].
      - split; [apply ext_refl|]. unfold eligible_b. rewrite D. cbn. rewrite app_nil_r. split; [reflexivity|discriminate].
      - split; [constructor; unfold keys_ok, covered, shadowed, ci_ok, set_default; cbn [st_keys st_phf st_ci st_arms]; auto|].
        unfold eligible_b. rewrite D, Df. cbn. rewrite app_nil_r. split; [reflexivity|discriminate].
      - rewrite El, P. destruct (ser_fold (tp_phf tp) (vci tp p) idx ps (vspell tp p) st) as (E1 & I1 & A1 & _).
        cbn zeta in *. split; [|split; [exact A1|]].
        + eapply ext_mono; [|exact E1]. intros k t (U & -> & l & Hl & M). split; [exact U|].
          exists 0, v, p, l. cbn. repeat split; auto.
        + intros _. exists ps. split; [reflexivity|exact I1]. }
    destruct K as (E1 & A1 & C1).
    split; [eapply ext_trans; eassumption|].
    split; [rewrite A2, A1; cbn [all_arms]; rewrite app_assoc; reflexivity|].
    intros [|n] v' p' Hn Hp' El'; cbn in Hn.
    + inversion Hn; subst v'. rewrite Hp in Hp'. inversion Hp'; subst p'.
      destruct (C1 El') as (ps & P & I). exists ps. split; [exact P|].
      intros U l Hl. apply (e_keys _ _ _ E2). apply I; assumption.
    + eapply C2; eassumption.
Qed.

(* ---- the fall-through ---- *)
Lemma fs_loop_seen tp : forall vs st idx st',
  fs_loop tp st idx vs = Ok st' -> st_default_seen st = true -> same_fall st st'.
Proof.
  induction vs as [|v r IH]; intros st idx st' H Sn; cbn [fs_loop] in H.
  - inversion H. apply same_fall_refl.
  - unfold bind in H. destruct (fs_variant tp st idx v) as [st1| |] eqn:Hv; try discriminate.
    destruct (fs_variant_shape _ _ _ _ _ Hv) as (p & Hp & [(D & ->) | [(D & Df & Sn' & _) | (El & ps & P & ->)]]).
    + eapply IH; eassumption.
    + congruence.
    + destruct (ser_fold (tp_phf tp) (vci tp p) idx ps (vspell tp p) st) as (_ & _ & _ & F1). cbn zeta in F1.
      eapply same_fall_trans; [exact F1|]. eapply IH; [exact H|]. destruct F1 as (F1 & _). congruence.
Qed.

Definition fall_of_default (d : option (nat * option str)) (st : fs_state) : fallthrough * bool :=
  match d with Some (k, fld) => (FDefault k fld, false) | None => (st_fall st, st_custom_err st) end.

Lemma fs_loop_fall tp : forall vs st idx st',
  fs_loop tp st idx vs = Ok st' -> st_default_seen st = false ->
  (st_fall st', st_custom_err st') = fall_of_default (find_default idx vs) st.
Proof.
  induction vs as [|v r IH]; intros st idx st' H Sn; cbn [fs_loop find_default] in *.
  - inversion H. reflexivity.
  - unfold bind in H. destruct (fs_variant tp st idx v) as [st1| |] eqn:Hv; try discriminate.
    destruct (fs_variant_shape _ _ _ _ _ Hv) as (p & Hp & [(D & ->) | [(D & Df & Sn' & sg & SF & ->) | (El & ps & P & ->)]]);
      rewrite Hp.
    + rewrite D. cbn [negb andb]. eapply IH; eassumption.
    + rewrite D, Df, SF. cbn [negb andb].
      destruct (fs_loop_seen _ _ _ _ _ H eq_refl) as (_ & F2 & F3). rewrite F2, F3.
      destruct sg; reflexivity.
    + destruct (eligible_inv _ El) as (D & Df). rewrite D, Df. cbn [negb andb].
      destruct (ser_fold (tp_phf tp) (vci tp p) idx ps (vspell tp p) st) as (_ & _ & _ & F1 & F2 & F3). cbn zeta in *.
      rewrite (IH _ _ _ H); [|congruence].
      unfold fall_of_default. destruct (find_default (S idx) r) as [[k fld]|]; [reflexivity|]. rewrite F2, F3. reflexivity.
Qed.

Lemma find_default_some : forall vs idx k fld, find_default idx vs = Some (k, fld) ->
  exists n v p, k = idx + n /\ nth_error vs n = Some v /\ vprops_of v = Ok p /\ vp_disabled p = false.
Proof.
  induction vs as [|v r IH]; intros idx k fld H; cbn [find_default] in H; [discriminate|].
  destruct (vprops_of v) as [p| |] eqn:Hp; try discriminate.
  destruct (negb (vp_disabled p) && vp_default p) eqn:E.
  - apply andb_true_iff in E as [E _]. apply negb_true_iff in E.
    assert (k = idx) as ->.
    { destruct (single_field (v_fields v)) as [[?|? ?]|]; inversion H; reflexivity. }
    exists 0, v, p. repeat split; auto.
  - destruct (IH _ _ _ H) as (n & v' & p' & -> & Hn & Hp' & D). exists (S n), v', p'. repeat split; auto. lia.
Qed.

(* ------------------------------------------------------------------ *)
(* the arms, in declaration order                                      *)
(* ------------------------------------------------------------------ *)
Definition armable (tp : tprops) (p : vprops) : bool := negb (tp_phf tp) || vci tp p.

Lemma find_arms_of tp idx ps p s :
  (find (arm_matches s) (arms_of (tp_phf tp) (vci tp p) idx ps (vspell tp p)) = None /\
   armable tp p && matches_b tp p s = false)
  \/ ((exists a, find (arm_matches s) (arms_of (tp_phf tp) (vci tp p) idx ps (vspell tp p)) = Some a /\
                 arm_target a = (idx, ps)) /\ armable tp p = true /\ matches_b tp p s = true).
Proof.
  unfold armable, matches_b, arms_of. generalize (vspell tp p) as lits.
  destruct (tp_phf tp), (vci tp p); cbn [negb orb andb]; intro lits;
    induction lits as [|l r IH]; cbn [flat_map arm_of existsb find app lit_matches arm_matches];
    try (left; split; reflexivity).
  - destruct (eq_ic_str s l); [right; repeat split; eauto|exact IH].
  - destruct IH as [[A _]|[_ [B _]]]; [left; split; [exact A|reflexivity]|discriminate].
  - destruct (eq_ic_str s l); [right; repeat split; eauto|exact IH].
  - destruct (str_eqb s l); [right; repeat split; eauto|exact IH].
Qed.

Definition fsp_ok (vs : list variant) : Prop :=
  forall n v p, nth_error vs n = Some v -> vprops_of v = Ok p -> eligible_b p = true ->
  exists ps, fs_params p (v_fields v) = Ok ps.

Definition arms_res (tp : tprops) (s : str) (idx : nat) (vs : list variant) (o : option fs_arm) : Prop :=
  match o with
  | Some a => exists n v p, nth_error vs n = Some v /\ vprops_of v = Ok p /\ eligible_b p = true /\
        matches_b tp p s = true /\ fs_params p (v_fields v) = Ok (snd (arm_target a)) /\
        fst (arm_target a) = idx + n /\
        forall m vm pm, m < n -> nth_error vs m = Some vm -> vprops_of vm = Ok pm ->
                        eligible_b pm && (armable tp pm && matches_b tp pm s) = false
  | None => forall n v p, nth_error vs n = Some v -> vprops_of v = Ok p ->
                          eligible_b p && (armable tp p && matches_b tp p s) = false
  end.

Lemma arms_res_skip tp s idx v r o :
  (forall p, vprops_of v = Ok p -> eligible_b p && (armable tp p && matches_b tp p s) = false) ->
  arms_res tp s (S idx) r o -> arms_res tp s idx (v :: r) o.
Proof.
  intros Hv. destruct o as [a|]; cbn [arms_res].
  - intros (n & v' & p' & Hn & Hp & El & Mt & P & T & Lt). exists (S n), v', p'.
    split; [exact Hn|]. split; [exact Hp|]. split; [exact El|]. split; [exact Mt|]. split; [exact P|].
    split; [lia|]. intros [|m] vm pm Hm Hnm Hpm; cbn in Hnm.
    + inversion Hnm; subst. auto.
    + eapply Lt; eauto. lia.
  - intros H [|n] v' p' Hn Hp; cbn in Hn.
    + inversion Hn; subst. auto.
    + eapply H; eauto.
Qed.

Lemma all_arms_first tp s : forall vs idx, fsp_ok vs ->
  arms_res tp s idx vs (find (arm_matches s) (all_arms tp idx vs)).
Proof.
  induction vs as [|v r IH]; intros idx OK; cbn [all_arms].
  - cbn. intros [|n] ? ? Hn; discriminate.
  - assert (OK' : fsp_ok r). { intros n v' p' Hn. apply (OK (S n)). exact Hn. }
    specialize (IH (S idx) OK'). unfold varms.
    destruct (vprops_of v) as [p| |] eqn:Hp; cbn [app];
      try (apply arms_res_skip; [intros; congruence|exact IH]).
    destruct (eligible_b p) eqn:El; cbn [app];
      [|apply arms_res_skip; [intros p' Hp'; rewrite Hp in Hp'; inversion Hp'; subst p'; rewrite El; reflexivity|exact IH]].
    destruct (OK 0 v p eq_refl Hp El) as (ps & P). rewrite P.
    destruct (find_arms_of tp idx ps p s) as [[Hn Hf] | [[a [Hf Ht]] [Ha Hm]]].
    + rewrite (find_app_none _ _ _ Hn). apply arms_res_skip; [|exact IH].
      intros p' Hp'. rewrite Hp in Hp'. inversion Hp'; subst p'. rewrite Hf. apply andb_false_r.
    + rewrite (find_app_some _ _ _ _ Hf). cbn [arms_res]. exists 0, v, p. rewrite Ht. cbn [fst snd nth_error].
      repeat split; auto. intros m vm pm Hlt. lia.
Qed.

(* ------------------------------------------------------------------ *)
(* the whole generator                                                 *)
(* ------------------------------------------------------------------ *)
Definition init_ok (tp : tprops) (st0 : fs_state) : Prop :=
  (tp_err_ty tp = None /\ tp_err_fn tp = None /\ st_fall st0 = FNotFound /\ st_custom_err st0 = false) \/
  (exists t f, tp_err_ty tp = Some t /\ tp_err_fn tp = Some f /\ st_fall st0 = FCustom f /\ st_custom_err st0 = true).

Lemma gen_char it c : gen_from_str it = Ok c ->
  exists tp st0 st, tprops_of it = Ok tp /\ init_ok tp st0 /\
    st_default_seen st0 = false /\ st_keys st0 = [] /\ st_phf st0 = [] /\ st_arms st0 = [] /\ st_ci st0 = [] /\
    fs_loop tp st0 0 (i_variants it) = Ok st /\
    fs_phf c = st_phf st /\ fs_arms c = st_arms st /\ fs_fall c = st_fall st /\ fs_custom_err c = st_custom_err st.
Proof.
  unfold gen_from_str, enum_variants, bind. destruct (i_kind it); try discriminate.
  destruct (tprops_of it) as [tp| |]; try discriminate.
  destruct (tp_err_ty tp) as [t|] eqn:Ty, (tp_err_fn tp) as [f|] eqn:Fn; try discriminate;
  match goal with |- match fs_loop ?tp ?st0 _ _ with _ => _ end = _ -> _ =>
    destruct (fs_loop tp st0 0 (i_variants it)) as [st| |] eqn:L; try discriminate;
    intros [= <-]; exists tp, st0, st end; cbn; unfold init_ok; cbn.
  - repeat split; auto. right. exists t, f. auto.
  - repeat split; auto.
Qed.

Record gen_facts (it : item) (c : from_str_code) (tp : tprops) : Prop := {
  gf_arms : fs_arms c = all_arms tp 0 (i_variants it);
  gf_phf : forall k j ps, In (k, (j, ps)) (fs_phf c) -> tp_phf tp = true /\
      exists v p l, nth_error (i_variants it) j = Some v /\ vprops_of v = Ok p /\ eligible_b p = true /\
        fs_params p (v_fields v) = Ok ps /\ In l (vspell tp p) /\ lit_matches (vci tp p) k l = true;
  gf_params : fsp_ok (i_variants it);
  gf_keys : tp_phf tp = true -> forall n v p, nth_error (i_variants it) n = Some v -> vprops_of v = Ok p ->
      eligible_b p = true -> forall l, In l (vspell tp p) ->
      assoc_key l (fs_phf c) <> None \/ exists a, In a (fs_arms c) /\ arm_matches l a = true;
  gf_fall : (fs_fall c, fs_custom_err c) =
      match find_default 0 (i_variants it) with
      | Some (k, fld) => (FDefault k fld, false)
      | None => match tp_err_ty tp, tp_err_fn tp with
                | Some _, Some f => (FCustom f, true)
                | _, _ => (FNotFound, false)
                end
      end;
  gf_err : is_some (tp_err_ty tp) = is_some (tp_err_fn tp)
}.

Lemma gen_facts_of it c tp : gen_from_str it = Ok c -> tprops_of it = Ok tp -> gen_facts it c tp.
Proof.
  intros G T. destruct (gen_char it c G) as (tp' & st0 & st & T' & I & Sn & K0 & P0 & A0 & C0 & L & Ep & Ea & Ef & Ec).
  rewrite T in T'. inversion T'; subst tp'. clear T'.
  destruct (fs_loop_main tp _ _ _ _ L) as (E & A & C).
  pose proof (fs_loop_fall tp _ _ _ _ L Sn) as F.
  assert (OK : keys_ok st). { apply (e_ok _ _ _ E). intro k. rewrite K0, P0. cbn. tauto. }
  assert (CI : ci_ok st). { apply (e_ci _ _ _ E). intros k Hk. rewrite C0 in Hk. destruct Hk. }
  constructor.
  - rewrite Ea, A, A0. reflexivity.
  - intros k j ps H. rewrite Ep in H. destruct (e_phf _ _ _ E _ _ H) as [H1|H1]; [rewrite P0 in H1; destruct H1|].
    destruct H1 as (U & n & v & p & l & H1 & H2 & H3 & H4 & H5 & H6 & H7). cbn [fst snd] in *. subst j.
    split; [exact U|]. exists v, p, l. repeat split; auto.
  - intros n v p Hn Hp El. destruct (C n v p Hn Hp El) as (ps & P & _). eauto.
  - intros U n v p Hn Hp El l Hl. destruct (C n v p Hn Hp El) as (ps & P & I'). rewrite Ep.
    destruct (I' U l Hl) as [K|S].
    + left. apply assoc_key_in. apply OK. exact K.
    + right. unfold shadowed in S. apply existsb_exists in S as (k & Hk & M).
      destruct (CI k Hk) as (j & qs & Ia). exists (ArmGuard k j qs). rewrite Ea. split; [exact Ia|].
      cbn [arm_matches]. rewrite eq_ic_str_sym. exact M.
  - rewrite Ef, Ec, F. unfold fall_of_default. destruct (find_default 0 (i_variants it)) as [[k fld]|]; [reflexivity|].
    destruct I as [(I1 & I2 & I3 & I4) | (t & f & I1 & I2 & I3 & I4)]; rewrite I1, ?I2, I3, I4; reflexivity.
  - destruct I as [(-> & -> & _) | (t & f & -> & -> & _)]; reflexivity.
Qed.

(* ------------------------------------------------------------------ *)
(* NonOverlap                                                          *)
(* ------------------------------------------------------------------ *)
Lemma lit_matches_eq_ic ci s l : lit_matches ci s l = true -> eq_ic_str s l = true.
Proof. destruct ci; cbn; [auto|apply str_eqb_eq_ic]. Qed.

Lemma clash_of_match tp p q s : matches_b tp p s = true -> matches_b tp q s = true -> clash tp p q = true.
Proof.
  unfold matches_b, clash. intros Hp Hq.
  apply existsb_exists in Hp as (a & Ha & Ma). apply existsb_exists in Hq as (b & Hb & Mb).
  apply existsb_exists. exists a. split; [exact Ha|]. apply existsb_exists. exists b. split; [exact Hb|].
  destruct (vci tp p || vci tp q) eqn:E.
  - cbn. apply lit_matches_eq_ic in Ma, Mb. rewrite eq_ic_str_sym in Ma. eapply eq_ic_str_trans; eassumption.
  - apply orb_false_iff in E as [E1 E2]. rewrite E1 in Ma. rewrite E2 in Mb. cbn in *.
    apply str_eqb_spec in Ma, Mb. apply str_eqb_spec. congruence.
Qed.

Lemma no_clash_with_nth tp p : forall l n q, no_clash_with tp p l = true -> nth_error l n = Some q ->
  eligible_b p = true -> eligible_b q = true -> clash tp p q = false.
Proof.
  induction l as [|x r IH]; intros [|n] q H Hn Ep Eq; cbn in Hn; try discriminate;
    cbn [no_clash_with] in H; apply andb_true_iff in H as [H1 H2].
  - inversion Hn; subst. rewrite Ep, Eq in H1. cbn in H1. apply negb_true_iff in H1. exact H1.
  - eapply IH; eassumption.
Qed.

Lemma non_overlap_list_nth tp : forall l i j p q, non_overlap_list tp l = true -> i < j ->
  nth_error l i = Some p -> nth_error l j = Some q -> eligible_b p = true -> eligible_b q = true ->
  clash tp p q = false.
Proof.
  induction l as [|x r IH]; intros i j p q H Lt Hi Hj Ep Eq; [destruct i; discriminate|].
  cbn [non_overlap_list] in H. apply andb_true_iff in H as [H1 H2].
  destruct j as [|j]; [lia|]. cbn in Hj. destruct i as [|i]; cbn in Hi.
  - inversion Hi; subst. eapply no_clash_with_nth; eassumption.
  - eapply (IH i j); eauto. lia.
Qed.

Lemma mapM_nth {A B} (f : A -> res B) : forall l l' i a b,
  mapM f l = Ok l' -> nth_error l i = Some a -> f a = Ok b -> nth_error l' i = Some b.
Proof.
  induction l as [|x r IH]; intros l' i a b H Hi Hf; [destruct i; discriminate|].
  cbn [mapM] in H. unfold bind in H. destruct (f x) as [y| |] eqn:Fx; try discriminate.
  destruct (mapM f r) as [ys| |] eqn:Mr; try discriminate. inversion H; subst.
  destruct i as [|i]; cbn in *.
  - inversion Hi; subst. congruence.
  - eapply IH; eauto.
Qed.

Lemma non_overlap_unique it tp s i j vi pi vj pj :
  tprops_of it = Ok tp -> non_overlap_b it = true ->
  variant_at it i vi pi -> variant_at it j vj pj ->
  eligible_b pi = true -> eligible_b pj = true ->
  matches_b tp pi s = true -> matches_b tp pj s = true -> i = j.
Proof.
  intros T NO [Hi Pi] [Hj Pj] Ei Ej Mi Mj. unfold non_overlap_b in NO. rewrite T in NO.
  unfold all_vprops in NO. destruct (mapM vprops_of (i_variants it)) as [pl| |] eqn:M; try discriminate.
  pose proof (mapM_nth _ _ _ _ _ _ M Hi Pi) as Ni. pose proof (mapM_nth _ _ _ _ _ _ M Hj Pj) as Nj.
  destruct (Nat.lt_trichotomy i j) as [Lt|[E|Lt]]; [|exact E|]; exfalso.
  - pose proof (non_overlap_list_nth tp pl i j pi pj NO Lt Ni Nj Ei Ej) as C.
    rewrite (clash_of_match tp pi pj s Mi Mj) in C. discriminate.
  - pose proof (non_overlap_list_nth tp pl j i pj pi NO Lt Nj Ni Ej Ei) as C.
    rewrite (clash_of_match tp pj pi s Mj Mi) in C. discriminate.
Qed.

(* ------------------------------------------------------------------ *)
(* run_from_str against the specification                              *)
(* ------------------------------------------------------------------ *)
Lemma matches_b_intro tp p s l : In l (vspell tp p) -> lit_matches (vci tp p) s l = true -> matches_b tp p s = true.
Proof. intros Hl M. unfold matches_b. apply existsb_exists. exists l. auto. Qed.

(* a returned variant is eligible and matches; without phf it is the first such *)
Lemma run_sound it c tp s i ps :
  gen_from_str it = Ok c -> tprops_of it = Ok tp -> run_from_str c s = OVariant i ps ->
  (exists v p, variant_at it i v p /\ eligible_b p = true /\ matches_b tp p s = true /\
               fs_params p (v_fields v) = Ok ps) /\
  (tp_phf tp = false ->
   forall j v p, j < i -> variant_at it j v p -> eligible_b p && matches_b tp p s = false).
Proof.
  intros G T. destruct (gen_facts_of it c tp G T) as [FA FP FS FK FF FE].
  unfold run_from_str. destruct (assoc_key s (fs_phf c)) as [[j qs]|] eqn:A.
  - intros [= -> ->]. apply assoc_key_some in A. destruct (FP _ _ _ A) as (U & v & p & l & Hn & Hp & El & P & Hl & M).
    split; [|intros U'; congruence]. exists v, p. split; [split; assumption|]. split; [exact El|].
    split; [eapply matches_b_intro; eassumption|exact P].
  - rewrite FA. pose proof (all_arms_first tp s (i_variants it) 0 FS) as R.
    destruct (find (arm_matches s) (all_arms tp 0 (i_variants it))) as [a|].
    + destruct (arm_target a) as [j qs] eqn:Ta. intros [= -> ->]. cbn [arms_res] in R. rewrite Ta in R.
      cbn [fst snd] in R. destruct R as (n & v & p & Hn & Hp & El & Mt & P & -> & Lt). cbn [plus] in *.
      split; [exists v, p; repeat split; assumption|].
      intros U j vj pj Hj [Hnj Hpj]. specialize (Lt j vj pj Hj Hnj Hpj).
      unfold armable in Lt. rewrite U in Lt. cbn in Lt. exact Lt.
    + destruct (fs_fall c); cbn; discriminate.
Qed.

(* an input matching an eligible variant never falls through *)
Lemma run_complete it c tp s i v p :
  gen_from_str it = Ok c -> tprops_of it = Ok tp ->
  variant_at it i v p -> eligible_b p = true -> matches_b tp p s = true ->
  exists j ps, run_from_str c s = OVariant j ps.
Proof.
  intros G T [Hn Hp] El Mt. destruct (gen_facts_of it c tp G T) as [FA FP FS FK FF FE].
  unfold run_from_str. destruct (assoc_key s (fs_phf c)) as [[j qs]|] eqn:A; [eauto|].
  rewrite FA. pose proof (all_arms_first tp s (i_variants it) 0 FS) as R.
  destruct (find (arm_matches s) (all_arms tp 0 (i_variants it))) as [a|] eqn:Fd.
  - destruct (arm_target a) as [j qs]. eauto.
  - exfalso. cbn [arms_res] in R. specialize (R i v p Hn Hp). rewrite El, Mt in R. cbn in R.
    rewrite andb_true_r in R. unfold armable in R. apply orb_false_iff in R as [U Ci].
    apply negb_false_iff in U. unfold matches_b in Mt. apply existsb_exists in Mt as (l & Hl & M).
    rewrite Ci in M. cbn in M. apply str_eqb_spec in M. subst l.
    destruct (FK U i v p Hn Hp El s Hl) as [K|(a & Ia & Ma)]; [exact (K A)|].
    rewrite FA in Ia. rewrite (find_none _ _ Fd a Ia) in Ma. discriminate.
Qed.

Lemma run_fallthrough it c tp s :
  gen_from_str it = Ok c -> tprops_of it = Ok tp ->
  (forall i v p, variant_at it i v p -> eligible_b p && matches_b tp p s = false) ->
  run_from_str c s = spec_fallthrough it tp s.
Proof.
  intros G T NM. pose proof (gen_facts_of it c tp G T) as [FA FP FS FK FF FE].
  destruct (run_from_str c s) as [i ps| | |] eqn:R.
  1: { exfalso. destruct (run_sound it c tp s i ps G T R) as [(v & p & Hv & El & Mt & _) _].
       specialize (NM i v p Hv). rewrite El, Mt in NM. discriminate. }
  all: revert R; unfold run_from_str; destruct (assoc_key s (fs_phf c)) as [[j qs]|]; try discriminate;
    destruct (find (arm_matches s) (fs_arms c)) as [a|]; [destruct (arm_target a); discriminate|];
    unfold spec_fallthrough; destruct (find_default 0 (i_variants it)) as [[k fld]|];
    [|destruct (tp_err_ty tp), (tp_err_fn tp); try discriminate];
    inversion FF as [[F1 F2]]; rewrite F1; cbn [run_fall]; auto.
Qed.

Lemma variant_at_fun it i v p v' p' : variant_at it i v p -> variant_at it i v' p' -> v = v' /\ p = p'.
Proof. intros [H1 H2] [H3 H4]. rewrite H1 in H3. inversion H3; subst v'. rewrite H2 in H4. inversion H4. auto. Qed.

(* ======================= C01 ======================= *)
Lemma C01_sound_complete_proof : stmt_C01_sound_complete.
Proof.
  unfold stmt_C01_sound_complete. intros it c tp G T NO s i ps. split.
  - intro R. exact (proj1 (run_sound it c tp s i ps G T R)).
  - intros (v & p & Hv & El & Mt & P).
    destruct (run_complete it c tp s i v p G T Hv El Mt) as (j & qs & R).
    destruct (run_sound it c tp s j qs G T R) as [(v' & p' & Hv' & El' & Mt' & P') _].
    assert (i = j) by (eapply non_overlap_unique; eassumption). subst j.
    destruct (variant_at_fun _ _ _ _ _ _ Hv Hv') as [<- <-]. rewrite P in P'. inversion P'; subst qs. exact R.
Qed.

Lemma C01_fallthrough_proof : stmt_C01_fallthrough.
Proof. unfold stmt_C01_fallthrough. intros it c tp G T s NM. apply run_fallthrough; assumption. Qed.

Lemma C01_match_is_variant_proof : stmt_C01_match_is_variant.
Proof. unfold stmt_C01_match_is_variant. intros it c tp G T s i v p Hv El Mt. eapply run_complete; eassumption. Qed.

Lemma C01_disabled_never_proof : stmt_C01_disabled_never.
Proof.
  unfold stmt_C01_disabled_never. intros it c G s i H.
  destruct (gen_char it c G) as (tp & _ & _ & T & _).
  destruct H as [[ps R] | (f & x & R)].
  - destruct (run_sound it c tp s i ps G T R) as [(v & p & Hv & El & _) _].
    exists v, p. split; [exact Hv|]. apply eligible_inv in El. tauto.
  - pose proof (gen_facts_of it c tp G T) as [FA FP FS FK FF FE].
    revert R. unfold run_from_str. destruct (assoc_key s (fs_phf c)) as [[j qs]|]; try discriminate.
    destruct (find (arm_matches s) (fs_arms c)) as [a|]; [destruct (arm_target a); discriminate|].
    destruct (find_default 0 (i_variants it)) as [[k fld]|] eqn:FD.
    + injection FF as F1 F2. rewrite F1. cbn [run_fall]. intros [= -> -> ->].
      destruct (find_default_some _ _ _ _ FD) as (n & v & p & -> & Hn & Hp & D).
      exists v, p. split; [split; assumption|exact D].
    + destruct (tp_err_ty tp), (tp_err_fn tp); injection FF as F1 F2; rewrite F1; cbn [run_fall]; discriminate.
Qed.

Lemma C01_first_match_proof : stmt_C01_first_match.
Proof.
  unfold stmt_C01_first_match. intros it c tp G T U s i ps R.
  destruct (run_sound it c tp s i ps G T R) as [H1 H2]. split; [exact H1|]. exact (H2 U).
Qed.

Lemma C01_try_from_agrees_proof : stmt_C01_try_from_agrees.
Proof. unfold stmt_C01_try_from_agrees. reflexivity. Qed.

(* ======================= C12 ======================= *)
Lemma C12_flag_proof : stmt_C12_flag.
Proof. unfold stmt_C12_flag. reflexivity. Qed.

Lemma run_variant_iff it c tp i v p s :
  gen_from_str it = Ok c -> tprops_of it = Ok tp -> non_overlap_b it = true ->
  variant_at it i v p -> eligible_b p = true ->
  ((exists ps, run_from_str c s = OVariant i ps) <-> matches_b tp p s = true).
Proof.
  intros G T NO Hv El. split.
  - intros [ps R]. destruct (run_sound it c tp s i ps G T R) as [(v' & p' & Hv' & _ & Mt & _) _].
    destruct (variant_at_fun _ _ _ _ _ _ Hv Hv') as [<- <-]. exact Mt.
  - intro Mt. pose proof (gen_facts_of it c tp G T) as [FA FP FS FK FF FE].
    destruct Hv as [Hn Hp]. destruct (FS i v p Hn Hp El) as (ps & P). exists ps.
    apply (C01_sound_complete_proof it c tp G T NO s i ps). exists v, p. repeat split; assumption.
Qed.

Lemma C12_insensitive_iff_proof : stmt_C12_insensitive_iff.
Proof.
  unfold stmt_C12_insensitive_iff. intros it c tp G T NO i v p Hv El Ci s.
  rewrite (run_variant_iff it c tp i v p s G T NO Hv El). unfold matches_b. rewrite Ci, existsb_exists.
  cbn [lit_matches]. tauto.
Qed.

Lemma C12_sensitive_exact_proof : stmt_C12_sensitive_exact.
Proof.
  unfold stmt_C12_sensitive_exact. intros it c tp G T NO i v p Hv El Ci s.
  rewrite (run_variant_iff it c tp i v p s G T NO Hv El). unfold matches_b. rewrite Ci, existsb_exists.
  cbn [lit_matches]. split.
  - intros (l & Hl & E). apply str_eqb_spec in E. subst. exact Hl.
  - intro Hs. exists s. split; [exact Hs|apply str_eqb_refl].
Qed.

(* ======================= C18 ======================= *)
Lemma C18_custom_err_proof : stmt_C18_custom_err.
Proof.
  unfold stmt_C18_custom_err. intros it c tp t f G T Ty Fn FD s NM.
  rewrite (run_fallthrough it c tp s G T NM). unfold spec_fallthrough. rewrite FD, Ty, Fn. reflexivity.
Qed.

Lemma C18_not_called_on_match_proof : stmt_C18_not_called_on_match.
Proof.
  unfold stmt_C18_not_called_on_match. intros it c tp G T s i v p Hv El Mt f x.
  destruct (run_complete it c tp s i v p G T Hv El Mt) as (j & ps & R). rewrite R. discriminate.
Qed.

Lemma C18_standard_proof : stmt_C18_standard.
Proof.
  unfold stmt_C18_standard. intros it c tp G T Ty Fn FD s NM.
  rewrite (run_fallthrough it c tp s G T NM). unfold spec_fallthrough. rewrite FD, Ty. reflexivity.
Qed.

Lemma C18_err_type_proof : stmt_C18_err_type.
Proof.
  unfold stmt_C18_err_type. intros it c tp G T.
  pose proof (gen_facts_of it c tp G T) as [FA FP FS FK FF FE].
  destruct (find_default 0 (i_variants it)) as [[k fld]|].
  - injection FF as F1 F2. rewrite F2. split; [discriminate|]. intros (_ & _ & H). discriminate.
  - destruct (tp_err_ty tp), (tp_err_fn tp); cbn in FE; try discriminate; injection FF as F1 F2; rewrite F2; cbn;
      split; auto; try discriminate; intros (H1 & H2 & _); discriminate.
Qed.

(* ======================= C11 ======================= *)
Lemma C11_capture_proof : stmt_C11_capture.
Proof.
  unfold stmt_C11_capture. intros it c tp k fld G T FD s NM.
  rewrite (run_fallthrough it c tp s G T NM). unfold spec_fallthrough. rewrite FD. reflexivity.
Qed.

Print Assumptions C01_sound_complete_proof.
Print Assumptions C01_fallthrough_proof.
Print Assumptions C01_match_is_variant_proof.
Print Assumptions C01_disabled_never_proof.
Print Assumptions C01_first_match_proof.
Print Assumptions C01_try_from_agrees_proof.
Print Assumptions C12_flag_proof.
Print Assumptions C12_insensitive_iff_proof.
Print Assumptions C12_sensitive_exact_proof.
Print Assumptions C18_custom_err_proof.
Print Assumptions C18_not_called_on_match_proof.
Print Assumptions C18_standard_proof.
Print Assumptions C18_err_type_proof.
Print Assumptions C11_capture_proof.
