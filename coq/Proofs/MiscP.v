(* MiscP.v — EnumIs / EnumTryAs (C13), EnumMessage (C14), EnumProperty (C15), EnumDiscriminants (C09):
   every generated match has exactly one arm per enabled variant (keyed by the variant's index),
   and the wildcard arm is present whenever some variant has no arm. *)
Require Import Strum.Spec.Statements Strum.Proofs.BytesP.
From Coq Require Import Lia.
Local Open Scope list_scope.

(* ---------------- generic helpers ---------------- *)
Lemma bind_ok {A B} (m : res A) (f : A -> res B) b :
  bind m f = Ok b -> exists a, m = Ok a /\ f a = Ok b.
Proof.
  destruct m as [a| |]; cbn [bind]; intro H; try discriminate H.
  exists a. split; [reflexivity|exact H].
Qed.

Lemma enum_variants_ok it vs : enum_variants it = Ok vs -> vs = i_variants it.
Proof. unfold enum_variants. destruct (i_kind it); intro H; inversion H; reflexivity. Qed.

Lemma foldM_inv {A B} (f : A -> B -> res A) (P : A -> Prop) :
  (forall a b a', P a -> f a b = Ok a' -> P a') ->
  forall l a a', P a -> foldM f a l = Ok a' -> P a'.
Proof.
  intros Hstep. induction l as [|b r IH]; intros a a' Ha H; cbn [foldM] in H.
  - inversion H; subst. exact Ha.
  - apply bind_ok in H as (a1 & H1 & H). eapply IH; [|exact H]. eapply Hstep; eauto.
Qed.

(* ---------------- the shape of every arm list: one optional arm per variant, keyed by index ------------- *)
Section Sel.
Context {A : Type} (f : variant -> option A).

Fixpoint sel (idx : nat) (vs : list variant) : list (nat * A) :=
  match vs with
  | [] => []
  | v :: r => match f v with Some x => (idx, x) :: sel (S idx) r | None => sel (S idx) r end
  end.

Lemma sel_lt : forall vs idx k, k < idx -> assoc_nat k (sel idx vs) = None.
Proof.
  induction vs as [|v r IH]; intros idx k Hk; cbn [sel]; [reflexivity|].
  destruct (f v).
  - cbn [assoc_nat]. destruct (Nat.eqb_spec k idx); [lia|]. apply IH. lia.
  - apply IH. lia.
Qed.

Lemma sel_assoc : forall vs idx j v, nth_error vs j = Some v -> assoc_nat (idx + j) (sel idx vs) = f v.
Proof.
  induction vs as [|w r IH]; intros idx j v Hn; [destruct j; discriminate|].
  destruct j as [|j]; cbn [nth_error] in Hn.
  - inversion Hn; subst w. cbn [sel]. rewrite Nat.add_0_r. destruct (f v) eqn:E.
    + cbn [assoc_nat]. rewrite Nat.eqb_refl. reflexivity.
    + apply sel_lt. lia.
  - cbn [sel]. replace (idx + S j) with (S idx + j) by lia. destruct (f w).
    + cbn [assoc_nat]. destruct (Nat.eqb_spec (S idx + j) idx); [lia|]. apply IH. exact Hn.
    + apply IH. exact Hn.
Qed.

Lemma sel_len : forall vs idx, length (sel idx vs) <= length vs.
Proof.
  induction vs as [|v r IH]; intro idx; cbn [sel length]; [lia|].
  specialize (IH (S idx)). destruct (f v); cbn [length]; lia.
Qed.

Lemma sel_len_lt : forall vs idx j v, nth_error vs j = Some v -> f v = None -> length (sel idx vs) < length vs.
Proof.
  induction vs as [|w r IH]; intros idx j v Hn Hf; [destruct j; discriminate|].
  destruct j as [|j]; cbn [nth_error] in Hn.
  - inversion Hn; subst w. cbn [sel length]. rewrite Hf. pose proof (sel_len r (S idx)). lia.
  - cbn [sel length]. specialize (IH (S idx) j v Hn Hf). destruct (f w); cbn [length]; lia.
Qed.

Lemma sel_in : forall vs idx k x,
  In (k, x) (sel idx vs) <-> exists j v, nth_error vs j = Some v /\ f v = Some x /\ k = idx + j.
Proof.
  induction vs as [|w r IH]; intros idx k x.
  - cbn [sel In]. split; [intros []|]. intros (j & v & Hn & _). destruct j; discriminate.
  - cbn [sel]. destruct (f w) eqn:E.
    + cbn [In]. rewrite IH. split.
      * intros [Heq | (j & v & Hn & Hf & Hk)].
        -- inversion Heq; subst. exists 0, w. cbn [nth_error]. repeat split; auto; lia.
        -- exists (S j), v. cbn [nth_error]. repeat split; auto; lia.
      * intros (j & v & Hn & Hf & Hk). destruct j as [|j]; cbn [nth_error] in Hn.
        -- inversion Hn; subst w. left. rewrite E in Hf. inversion Hf; subst. f_equal. lia.
        -- right. exists j, v. repeat split; auto; lia.
    + rewrite IH. split.
      * intros (j & v & Hn & Hf & Hk). exists (S j), v. cbn [nth_error]. repeat split; auto; lia.
      * intros (j & v & Hn & Hf & Hk). destruct j as [|j]; cbn [nth_error] in Hn.
        -- inversion Hn; subst w. congruence.
        -- exists j, v. repeat split; auto; lia.
Qed.
End Sel.

Lemma sel_assoc0 {A} (f : variant -> option A) vs i v :
  nth_error vs i = Some v -> assoc_nat i (sel f 0 vs) = f v.
Proof. intro Hn. exact (sel_assoc f vs 0 i v Hn). Qed.

Lemma run_getter_sel f vs i v : nth_error vs i = Some v ->
  run_getter (sel f 0 vs) (length (sel f 0 vs) <? length vs) i = Some (f v).
Proof.
  intro Hn. unfold run_getter. rewrite (sel_assoc0 f vs i v Hn).
  destruct (f v) eqn:E; [reflexivity|].
  pose proof (sel_len_lt f vs 0 i v Hn E) as Hl.
  destruct (Nat.ltb_spec (length (sel f 0 vs)) (length vs)); [reflexivity|lia].
Qed.

(* an arm exists only for enabled variants *)
Definition en {A} (g : variant -> vprops -> option A) (v : variant) : option A :=
  match vprops_of v with Ok p => if vp_disabled p then None else g v p | _ => None end.

Lemma en_at {A} (g : variant -> vprops -> option A) v p :
  vprops_of v = Ok p -> en g v = if vp_disabled p then None else g v p.
Proof. intro H. unfold en. rewrite H. reflexivity. Qed.

Lemma en_some {A} (g : variant -> vprops -> option A) v x :
  en g v = Some x -> exists p, vprops_of v = Ok p /\ vp_disabled p = false /\ g v p = Some x.
Proof.
  unfold en. destruct (vprops_of v) as [p| |]; try discriminate.
  destruct (vp_disabled p) eqn:Hd; try discriminate. intro H. exists p. auto.
Qed.

(* ======================= C13: EnumIs ======================= *)
Definition g_is (v : variant) (_ : vprops) : option str := Some (s_ "is_" ++ snakify (v_ident v)).
Definition mk_is (kx : nat * str) : is_method := {| im_name := snd kx; im_variant := fst kx |}.

Lemma is_methods_sel : forall vs idx ms, is_methods idx vs = Ok ms -> ms = map mk_is (sel (en g_is) idx vs).
Proof.
  induction vs as [|v r IH]; intros idx ms H; cbn [is_methods] in H.
  - inversion H. reflexivity.
  - apply bind_ok in H as (p & Hp & H). apply bind_ok in H as (rest & Hr & H).
    apply IH in Hr. cbn [sel]. rewrite (en_at _ _ _ Hp).
    destruct (vp_disabled p); inversion H; subst; reflexivity.
Qed.

Lemma is_methods_variants : forall vs idx ms, is_methods idx vs = Ok ms ->
  map im_variant ms = map ct_variant (enabled_ctors idx vs).
Proof.
  induction vs as [|v r IH]; intros idx ms H; cbn [is_methods] in H.
  - inversion H. reflexivity.
  - apply bind_ok in H as (p & Hp & H). apply bind_ok in H as (rest & Hr & H).
    apply IH in Hr. cbn [enabled_ctors]. rewrite Hp.
    destruct (vp_disabled p); inversion H; subst; cbn [map im_variant ct_variant]; congruence.
Qed.

Lemma gen_is_inv it ms : gen_is it = Ok ms -> is_methods 0 (i_variants it) = Ok ms.
Proof.
  unfold gen_is. intro H. apply bind_ok in H as (vs & Hv & H).
  apply enum_variants_ok in Hv. subst vs. exact H.
Qed.

(* membership in the method list *)
Lemma gen_is_in it ms m : gen_is it = Ok ms ->
  (In m ms <-> exists j v p, variant_at it j v p /\ vp_disabled p = false /\
                 m = {| im_name := s_ "is_" ++ snakify (v_ident v); im_variant := j |}).
Proof.
  intro H. apply gen_is_inv in H. apply is_methods_sel in H. subst ms. split.
  - intro Hin. apply in_map_iff in Hin as ([k x] & Hm & Hin).
    apply sel_in in Hin as (j & v & Hn & Hf & Hk). apply en_some in Hf as (p & Hp & Hd & Hg).
    unfold g_is in Hg. inversion Hg; subst x. cbn [Nat.add] in Hk. subst k.
    exists j, v, p. repeat split; auto.
  - intros (j & v & p & [Hn Hp] & Hd & Hm). subst m.
    apply in_map_iff. exists (j, s_ "is_" ++ snakify (v_ident v)). split; [reflexivity|].
    apply sel_in. exists j, v. repeat split; auto.
    rewrite (en_at _ _ _ Hp), Hd. reflexivity.
Qed.

Lemma C13_methods_proof : stmt_C13_methods.
Proof.
  unfold stmt_C13_methods. intros it ms H. split.
  - apply is_methods_variants. apply gen_is_inv. exact H.
  - intros m Hin. apply (gen_is_in it ms m H) in Hin as (j & v & p & [Hn Hp] & Hd & Hm).
    subst m. cbn [im_variant im_name]. exists v. auto.
Qed.

Lemma C13_partition_proof : stmt_C13_partition.
Proof.
  unfold stmt_C13_partition. intros it ms i v p H Hat Hd.
  exists {| im_name := s_ "is_" ++ snakify (v_ident v); im_variant := i |}. split; [|split].
  - apply (gen_is_in it ms _ H). exists i, v, p. auto.
  - reflexivity.
  - intros m' _. unfold run_is. apply Nat.eqb_eq.
Qed.

Lemma C13_disabled_proof : stmt_C13_disabled.
Proof.
  unfold stmt_C13_disabled. intros it ms i v p H [Hn Hp] Hd m Hin.
  apply (gen_is_in it ms m H) in Hin as (j & w & q & [Hn' Hq] & Hd' & Hm).
  subst m. unfold run_is. cbn [im_variant]. apply Nat.eqb_neq. intro E. subst j.
  rewrite Hn in Hn'. inversion Hn'; subst w. rewrite Hp in Hq. inversion Hq; subst q. congruence.
Qed.

(* ======================= C13: EnumTryAs ======================= *)
Definition g_ta (v : variant) (_ : vprops) : option (str * nat) :=
  match v_fields v with
  | FTuple fs => Some (s_ "try_as_" ++ snakify (v_ident v), length fs)
  | _ => None
  end.
Definition mk_ta (kx : nat * (str * nat)) : tryas_method :=
  {| tm_base := fst (snd kx); tm_variant := fst kx; tm_nfields := snd (snd kx) |}.

Lemma tryas_methods_sel : forall vs idx ms, tryas_methods idx vs = Ok ms -> ms = map mk_ta (sel (en g_ta) idx vs).
Proof.
  induction vs as [|v r IH]; intros idx ms H; cbn [tryas_methods] in H.
  - inversion H. reflexivity.
  - apply bind_ok in H as (p & Hp & H). apply bind_ok in H as (rest & Hr & H).
    apply IH in Hr. cbn [sel]. rewrite (en_at _ _ _ Hp). unfold g_ta.
    destruct (vp_disabled p); [inversion H; subst; reflexivity|].
    destruct (v_fields v); inversion H; subst; reflexivity.
Qed.

Lemma C13_try_as_proof : stmt_C13_try_as.
Proof.
  unfold stmt_C13_try_as. intros it ms H.
  unfold gen_try_as in H. apply bind_ok in H as (vs & Hv & H).
  apply enum_variants_ok in Hv. subst vs. apply tryas_methods_sel in H. subst ms.
  split; [|split].
  - intros m Hin. apply in_map_iff in Hin as ([k [b n]] & Hm & Hin).
    apply sel_in in Hin as (j & v & Hn & Hf & Hk). apply en_some in Hf as (p & Hp & Hd & Hg).
    unfold g_ta in Hg. destruct (v_fields v) as [|fs|fs] eqn:Hf; try discriminate.
    inversion Hg; subst b n. cbn [Nat.add] in Hk. subst k m. cbn [mk_ta fst snd tm_variant tm_nfields tm_base].
    exists v, p, fs. unfold variant_at. repeat split; auto.
  - intros i v p fs [Hn Hp] Hd Hf.
    exists (mk_ta (i, (s_ "try_as_" ++ snakify (v_ident v), length fs))). split; [|reflexivity].
    apply in_map. apply sel_in. exists i, v. repeat split; auto.
    rewrite (en_at _ _ _ Hp), Hd. unfold g_ta. rewrite Hf. reflexivity.
  - intros m i _. reflexivity.
Qed.

(* ======================= C14: EnumMessage ======================= *)
Definition g_msg (_ : variant) (p : vprops) : option str := vp_message p.
Definition g_det (_ : variant) (p : vprops) : option str :=
  match vp_detailed p with Some d => Some d | None => vp_message p end.
Definition g_doc (_ : variant) (p : vprops) : option str :=
  match vp_docs p with [] => None | ds => Some (doc_text ds) end.
Definition f_ser (tp : tprops) (v : variant) : option (list str) :=
  match vprops_of v with Ok p => Some (serializations (tp_style tp) p) | _ => None end.

Lemma msg_loop_sel tp : forall vs idx st, msg_loop tp idx vs = Ok st ->
  ms_msg st = sel (en g_msg) idx vs /\ ms_det st = sel (en g_det) idx vs /\
  ms_doc st = sel (en g_doc) idx vs /\ ms_ser st = sel (f_ser tp) idx vs.
Proof.
  induction vs as [|v r IH]; intros idx st H; cbn [msg_loop] in H.
  - inversion H. cbn. auto.
  - apply bind_ok in H as (p & Hp & H). apply bind_ok in H as (rest & Hr & H).
    apply IH in Hr. destruct Hr as (I1 & I2 & I3 & I4).
    cbn [sel]. rewrite !(en_at _ _ _ Hp). unfold f_ser at 1. rewrite Hp.
    cbv zeta in H. destruct (vp_disabled p).
    + inversion H; subst st. cbn [ms_msg ms_det ms_doc ms_ser]. rewrite I1, I2, I3, I4. auto.
    + inversion H; subst st. cbn [ms_msg ms_det ms_doc ms_ser]. rewrite I1, I2, I3, I4.
      unfold g_msg, g_det, g_doc.
      destruct (vp_message p), (vp_detailed p), (vp_docs p); repeat split; reflexivity.
Qed.

Lemma gen_message_inv it m : gen_message it = Ok m ->
  exists tp, tprops_of it = Ok tp /\
  m = {| mg_msg := sel (en g_msg) 0 (i_variants it);
         mg_msg_wild := length (sel (en g_msg) 0 (i_variants it)) <? length (i_variants it);
         mg_det := sel (en g_det) 0 (i_variants it);
         mg_det_wild := length (sel (en g_det) 0 (i_variants it)) <? length (i_variants it);
         mg_doc := sel (en g_doc) 0 (i_variants it);
         mg_doc_wild := length (sel (en g_doc) 0 (i_variants it)) <? length (i_variants it);
         mg_ser := sel (f_ser tp) 0 (i_variants it) |}.
Proof.
  unfold gen_message. intro H. apply bind_ok in H as (vs & Hv & H).
  apply enum_variants_ok in Hv. subst vs. apply bind_ok in H as (tp & Ht & H).
  apply bind_ok in H as (st & Hs & H). apply msg_loop_sel in Hs as (I1 & I2 & I3 & I4).
  exists tp. split; [exact Ht|]. cbv zeta in H. rewrite I1, I2, I3, I4 in H. inversion H. reflexivity.
Qed.

Lemma C14_message_proof : stmt_C14_message.
Proof.
  unfold stmt_C14_message. intros it m i v p H [Hn Hp].
  apply gen_message_inv in H as (tp & _ & ->). unfold run_message. cbn [mg_msg mg_msg_wild].
  rewrite (run_getter_sel _ _ _ _ Hn), (en_at _ _ _ Hp). reflexivity.
Qed.

Lemma C14_detailed_proof : stmt_C14_detailed.
Proof.
  unfold stmt_C14_detailed. intros it m i v p H [Hn Hp].
  apply gen_message_inv in H as (tp & _ & ->). unfold run_detailed. cbn [mg_det mg_det_wild].
  rewrite (run_getter_sel _ _ _ _ Hn), (en_at _ _ _ Hp). reflexivity.
Qed.

Lemma C14_documentation_proof : stmt_C14_documentation.
Proof.
  unfold stmt_C14_documentation. intros it m i v p H [Hn Hp].
  apply gen_message_inv in H as (tp & _ & ->). unfold run_documentation. cbn [mg_doc mg_doc_wild].
  rewrite (run_getter_sel _ _ _ _ Hn), (en_at _ _ _ Hp). reflexivity.
Qed.

Lemma C14_serializations_proof : stmt_C14_serializations.
Proof.
  unfold stmt_C14_serializations. intros it m tp i v p H Ht [Hn Hp].
  apply gen_message_inv in H as (tp' & Ht' & ->). rewrite Ht in Ht'. inversion Ht'; subst tp'.
  unfold run_serializations. cbn [mg_ser]. rewrite (sel_assoc0 _ _ _ _ Hn).
  unfold f_ser. rewrite Hp. reflexivity.
Qed.

Lemma flat_map_map {A B C} (f : B -> list C) (g : A -> B) l :
  flat_map f (map g l) = flat_map (fun x => f (g x)) l.
Proof. induction l as [|a r IH]; cbn [map flat_map]; [reflexivity|]. rewrite IH. reflexivity. Qed.

Lemma C14_doc_text_proof : stmt_C14_doc_text.
Proof.
  unfold stmt_C14_doc_text. split; [|split; [|split]].
  - intro d. reflexivity.
  - intros d1 d2 ds. exact (flat_map_map (fun l => l ++ ["010"%char]) strip1 (d1 :: d2 :: ds)).
  - intro r. reflexivity.
  - intros c r Hc. unfold strip1.
    destruct c as [[] [] [] [] [] [] [] []]; try reflexivity.
    exfalso. apply Hc. reflexivity.
Qed.

(* ======================= C15: EnumProperty ======================= *)
Lemma bucket_spec : forall kvs a, bucket kvs = Ok a ->
  pa_str a = flat_map (fun kv : str * lit => match snd kv with LStr s => [(fst kv, s)] | _ => [] end) kvs /\
  pa_int a = flat_map (fun kv : str * lit => match snd kv with LInt z => [(fst kv, z)] | _ => [] end) kvs /\
  pa_bool a = flat_map (fun kv : str * lit => match snd kv with LBool b => [(fst kv, b)] | _ => [] end) kvs.
Proof.
  induction kvs as [|[k l] r IH]; intros a H; cbn [bucket] in H.
  - inversion H. cbn. auto.
  - destruct l; cbv beta iota in H; try discriminate H;
      apply bind_ok in H as (rest & Hr & H); destruct (IH rest Hr) as (I1 & I2 & I3);
      inversion H; subst a; cbn [pa_str pa_int pa_bool flat_map snd fst app];
      rewrite <- I1, <- I2, <- I3; auto.
Qed.

Definition g_props (_ : variant) (p : vprops) : option prop_arms :=
  match bucket (vp_props p) with Ok a => Some a | _ => None end.

Lemma props_loop_sel : forall vs idx arms, props_loop idx vs = Ok arms ->
  arms = sel (en g_props) idx vs /\
  Forall (fun v => forall p, vprops_of v = Ok p -> vp_disabled p = false -> exists a, bucket (vp_props p) = Ok a) vs.
Proof.
  induction vs as [|v r IH]; intros idx arms H; cbn [props_loop] in H.
  - inversion H. split; [reflexivity|constructor].
  - apply bind_ok in H as (p & Hp & H). cbn [sel]. rewrite (en_at _ _ _ Hp).
    destruct (vp_disabled p) eqn:Hd.
    + apply IH in H as (I1 & I2). split; [exact I1|]. constructor; [|exact I2].
      intros q Hq Hdq. rewrite Hp in Hq. inversion Hq; subst q. congruence.
    + apply bind_ok in H as (a & Ha & H). apply bind_ok in H as (rest & Hr & H).
      apply IH in Hr as (I1 & I2). unfold g_props. rewrite Ha. inversion H; subst arms rest.
      split; [reflexivity|]. constructor; [|exact I2].
      intros q Hq Hdq. rewrite Hp in Hq. inversion Hq; subst q. exists a. exact Ha.
Qed.

Lemma gen_props_inv it c : gen_props it = Ok c ->
  c = {| pc_arms := sel (en g_props) 0 (i_variants it);
         pc_wild := length (sel (en g_props) 0 (i_variants it)) <? length (i_variants it) |} /\
  Forall (fun v => forall p, vprops_of v = Ok p -> vp_disabled p = false -> exists a, bucket (vp_props p) = Ok a)
         (i_variants it).
Proof.
  unfold gen_props. intro H. apply bind_ok in H as (vs & Hv & H).
  apply enum_variants_ok in Hv. subst vs. apply bind_ok in H as (tp & Ht & H).
  apply bind_ok in H as (arms & Ha & H). apply props_loop_sel in Ha as (I1 & I2). subst arms.
  inversion H. auto.
Qed.

Lemma C15_get_proof : stmt_C15_get.
Proof.
  unfold stmt_C15_get. intros it c i v p k H [Hn Hp].
  apply gen_props_inv in H as (-> & Hall).
  unfold run_get_str, run_get_int, run_get_bool. cbn [pc_arms pc_wild].
  rewrite (sel_assoc0 _ _ _ _ Hn), (en_at _ _ _ Hp).
  destruct (vp_disabled p) eqn:Hd.
  - assert (E : en g_props v = None) by (rewrite (en_at _ _ _ Hp), Hd; reflexivity).
    pose proof (sel_len_lt _ _ 0 _ _ Hn E) as Hl.
    destruct (Nat.ltb_spec (length (sel (en g_props) 0 (i_variants it))) (length (i_variants it))); [|lia].
    auto.
  - rewrite Forall_forall in Hall.
    destruct (Hall v (nth_error_In _ _ Hn) p Hp Hd) as [a Ha].
    unfold g_props. rewrite Ha. destruct (bucket_spec _ _ Ha) as (B1 & B2 & B3).
    rewrite B1, B2, B3. auto.
Qed.

Lemma assoc_key_In {A} k (x : A) : forall l, NoDup (map fst l) -> (assoc_key k l = Some x <-> In (k, x) l).
Proof.
  induction l as [|[k' y] r IH]; intro Hnd; cbn [assoc_key In].
  - split; [discriminate|intros []].
  - cbn [map fst] in Hnd. inversion Hnd as [|? ? Hni Hnd']; subst.
    destruct (str_eqb k k') eqn:E.
    + apply str_eqb_spec in E. subst k'. split.
      * intro H. inversion H; subst. left. reflexivity.
      * intros [H|H]; [inversion H; reflexivity|].
        exfalso. apply Hni. apply in_map_iff. exists (k, x). split; [reflexivity|exact H].
    + rewrite (IH Hnd'). split; [intro H; right; exact H|].
      intros [H|H]; [|exact H]. inversion H; subst. rewrite str_eqb_refl in E. discriminate.
Qed.

Lemma C15_get_str_iff_proof : stmt_C15_get_str_iff.
Proof.
  unfold stmt_C15_get_str_iff. intros it c i v p k x H Hat Hd Hnd.
  destruct (C15_get_proof it c i v p k H Hat) as (G & _ & _). rewrite G, Hd.
  split.
  - intro E. inversion E as [E']. apply (assoc_key_In k x _ Hnd) in E'.
    apply in_flat_map in E' as ([k' l] & Hin & Hx). cbn [fst snd] in Hx.
    destruct l; cbn [In] in Hx; try contradiction. destruct Hx as [Hx|[]]. inversion Hx; subst. exact Hin.
  - intro Hin. f_equal. apply (assoc_key_In k x _ Hnd). apply in_flat_map.
    exists (k, LStr x). split; [exact Hin|]. cbn [fst snd In]. left. reflexivity.
Qed.

Definition props_of_meta (m : vmeta) : list (str * lit) := match m with MProps kv => kv | _ => [] end.

Lemma vp_step_props p m p' : vp_step p m = Ok p' -> vp_props p' = vp_props p ++ props_of_meta m.
Proof.
  intro H. destruct m; cbn [vp_step] in H;
    try (match type of H with (if ?b then _ else _) = _ => destruct b; [discriminate H|] end);
    inversion H; subst p'; cbn [vp_props props_of_meta]; rewrite ?app_nil_r; reflexivity.
Qed.

Lemma foldM_vp_props : forall l p0 p, foldM vp_step p0 l = Ok p ->
  vp_props p = vp_props p0 ++ flat_map props_of_meta l.
Proof.
  induction l as [|m r IH]; intros p0 p H; cbn [foldM] in H.
  - inversion H; subst. cbn [flat_map]. rewrite app_nil_r. reflexivity.
  - apply bind_ok in H as (p1 & H1 & H). apply IH in H. apply vp_step_props in H1.
    rewrite H, H1. cbn [flat_map]. rewrite app_assoc. reflexivity.
Qed.

Lemma flat_map_props_docs ms : flat_map props_of_meta (filter is_doc ms) = [].
Proof. induction ms as [|m r IH]; [reflexivity|]. destruct m; exact IH. Qed.
Lemma flat_map_props_nondocs ms :
  flat_map props_of_meta (filter (fun m => negb (is_doc m)) ms) = flat_map props_of_meta ms.
Proof.
  induction ms as [|m r IH]; [reflexivity|].
  destruct m; cbn [filter is_doc negb flat_map props_of_meta app]; rewrite ?IH; reflexivity.
Qed.
Lemma flat_map_get_metadata ms : flat_map props_of_meta (get_metadata ms) = flat_map props_of_meta ms.
Proof.
  unfold get_metadata. rewrite flat_map_app, flat_map_props_docs, app_nil_r. apply flat_map_props_nondocs.
Qed.

Lemma C15_merge_groups_proof : stmt_C15_merge_groups.
Proof.
  unfold stmt_C15_merge_groups. intros id ms p H. unfold vprops_of_metas in H.
  apply foldM_vp_props in H. rewrite H. cbn [vp_init vp_props app].
  apply flat_map_get_metadata.
Qed.

(* ======================= C09: EnumDiscriminants ======================= *)
Ltac step_inv H :=
  repeat match type of H with
  | (if ?b then _ else _) = Ok _ => destruct b; [discriminate H|]
  | match ?x with Some _ => _ | None => _ end = Ok _ => destruct x; [|discriminate H]
  end.

Lemma tp_step_repr p m p' : tp_step p m = Ok p' -> tp_repr p' = tp_repr p.
Proof. intro H. destruct m; cbn [tp_step] in H; step_inv H; inversion H; subst p'; reflexivity. Qed.
Lemma td_step_repr p m p' : td_step p m = Ok p' -> tp_repr p' = tp_repr p.
Proof. intro H. destruct m; cbn [td_step] in H; step_inv H; inversion H; subst p'; reflexivity. Qed.

Lemma tprops_of_repr it tp : tprops_of it = Ok tp -> tp_repr tp = i_repr it.
Proof.
  unfold tprops_of. destruct (negb (forallb emeta_parse_ok (i_metas it))); [discriminate|].
  intro H. apply bind_ok in H as (p1 & H1 & H2).
  apply (foldM_inv tp_step (fun p => tp_repr p = i_repr it)) in H1; [| |reflexivity].
  - apply (foldM_inv td_step (fun p => tp_repr p = i_repr it)) in H2; [exact H2| |exact H1].
    intros a b a' Ha Hs. apply td_step_repr in Hs. congruence.
  - intros a b a' Ha Hs. apply tp_step_repr in Hs. congruence.
Qed.

Lemma rustc_discr_from_discr_variant : forall vs prev,
  rustc_discr_from prev (map discr_variant vs) = rustc_discr_from prev vs.
Proof.
  induction vs as [|v r IH]; intro prev; cbn [map rustc_discr_from]; [reflexivity|].
  change (v_discr (discr_variant v)) with (v_discr v). cbv zeta. rewrite IH. reflexivity.
Qed.

Lemma gen_discriminants_inv it c : gen_discriminants it = Ok c ->
  exists tp, tprops_of it = Ok tp /\
  i_variants (dc_item c) = map discr_variant (i_variants it) /\
  i_repr (dc_item c) = tp_repr tp /\
  i_ident (dc_item c) = (match tp_dname tp with Some n => n | None => i_ident it ++ s_ "Discriminants" end) /\
  i_vis (dc_item c) = (match tp_dvis tp with Some x => x | None => i_vis it end) /\
  dc_derives c = default_derives ++ tp_dderives tp /\
  dc_from c = map (fun k => (k, k)) (seq 0 (length (i_variants it))) /\
  dc_into_discriminant c = match tp_dvis tp with None | Some VPub => true | _ => false end.
Proof.
  unfold gen_discriminants. intro H. apply bind_ok in H as (vs & Hv & H).
  apply enum_variants_ok in Hv. subst vs. apply bind_ok in H as (tp & Ht & H).
  exists tp. split; [exact Ht|]. cbv zeta in H. inversion H. cbn. repeat split; reflexivity.
Qed.

Lemma C09_mirror_proof : stmt_C09_mirror.
Proof.
  unfold stmt_C09_mirror. intros it c H.
  apply gen_discriminants_inv in H as (tp & Ht & Hv & Hr & _). rewrite Hv, Hr.
  split; [|split; [|split; [|split]]].
  - rewrite map_map. apply map_ext. reflexivity.
  - rewrite map_map. apply map_ext. reflexivity.
  - apply Forall_forall. intros x Hin. apply in_map_iff in Hin as (v & <- & _). reflexivity.
  - apply tprops_of_repr. exact Ht.
  - unfold rustc_discr. apply rustc_discr_from_discr_variant.
Qed.

Lemma assoc_nat_diag : forall n s i, s <= i < s + n -> assoc_nat i (map (fun k => (k, k)) (seq s n)) = Some i.
Proof.
  induction n as [|n IH]; intros s i Hi; [lia|].
  cbn [seq map assoc_nat]. destruct (Nat.eqb_spec i s) as [->|Hne]; [reflexivity|].
  apply IH. lia.
Qed.

Lemma C09_from_agree_proof : stmt_C09_from_agree.
Proof.
  unfold stmt_C09_from_agree. intros it c i v H Hn.
  apply gen_discriminants_inv in H as (tp & _ & _ & _ & _ & _ & _ & Hf & _).
  unfold run_discr_from. rewrite Hf. apply assoc_nat_diag.
  assert (i < length (i_variants it)) by (apply nth_error_Some; congruence). lia.
Qed.

Lemma C09_name_vis_proof : stmt_C09_name_vis.
Proof.
  unfold stmt_C09_name_vis. intros it c tp H Ht.
  apply gen_discriminants_inv in H as (tp' & Ht' & _ & _ & Hi & Hvis & Hd & _ & Hinto).
  rewrite Ht in Ht'. inversion Ht'; subst tp'.
  split; [exact Hi|]. split; [exact Hvis|]. split; [exact Hd|].
  rewrite Hinto. destruct (tp_dvis tp) as [[]|]; split; intro G; auto; try discriminate G;
    destruct G as [G|G]; discriminate G.
Qed.

Print Assumptions C13_methods_proof.
Print Assumptions C13_partition_proof.
Print Assumptions C13_disabled_proof.
Print Assumptions C13_try_as_proof.
Print Assumptions C14_message_proof.
Print Assumptions C14_detailed_proof.
Print Assumptions C14_documentation_proof.
Print Assumptions C14_serializations_proof.
Print Assumptions C14_doc_text_proof.
Print Assumptions C15_get_proof.
Print Assumptions C15_get_str_iff_proof.
Print Assumptions C15_merge_groups_proof.
Print Assumptions C09_mirror_proof.
Print Assumptions C09_from_agree_proof.
Print Assumptions C09_name_vis_proof.

Require Strum.Proofs.IterP.
Lemma C13_one_per_iterated_proof : stmt_C13_one_per_iterated.
Proof.
  unfold stmt_C13_one_per_iterated. intros it ms ic n Hm Hi Hc.
  destruct (C13_methods_proof it ms Hm) as (Hs & _).
  destruct (IterP.C04_table_proof it ic Hi) as (Ht & _).
  split; [rewrite Hs, Ht; reflexivity|].
  rewrite <- (map_length im_variant), Hs, map_length. symmetry. exact (IterP.gen_count_spec it n Hc).
Qed.
Print Assumptions C13_one_per_iterated_proof.
