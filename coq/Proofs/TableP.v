(* TableP.v — EnumTable (C10): the slots are the enabled variants, Index/IndexMut behave as a
   finite map keyed by the slots, constructors / transform / all / all_ok. *)
Require Import Strum.Spec.Statements Strum.Proofs.IterP.
From Coq Require Import Lia List Arith Bool.
Import ListNotations.
Local Open Scope list_scope.

(* ---------------------------------------------------------------- slot_pos *)

Lemma slot_pos_none : forall slots k, slot_pos slots k = None <-> ~ In k (map fst slots).
Proof.
  induction slots as [|[a s] r IH]; intros k; cbn [slot_pos map fst In].
  - split; [intros _ H; exact H | reflexivity].
  - destruct (Nat.eqb a k) eqn:E.
    + apply Nat.eqb_eq in E. split; [discriminate | intros H; exfalso; apply H; left; exact E].
    + apply Nat.eqb_neq in E. specialize (IH k).
      destruct (slot_pos r k) as [q|]; cbn [option_map].
      * split; [discriminate|]. intros H. exfalso.
        assert (Hn : ~ In k (map fst r)) by (intros Hi; apply H; right; exact Hi).
        apply IH in Hn. discriminate.
      * split; [|reflexivity]. intros _ [H|H]; [exact (E H)|].
        destruct IH as [IH _]. exact (IH eq_refl H).
Qed.

Lemma slot_pos_some_gen : forall (A : Type) (g : nat -> A) slots k p,
  slot_pos slots k = Some p -> nth_error (map (fun s => g (fst s)) slots) p = Some (g k).
Proof.
  intros A g. induction slots as [|[a s] r IH]; intros k p; cbn [slot_pos map fst].
  - discriminate.
  - destruct (Nat.eqb a k) eqn:E.
    + apply Nat.eqb_eq in E. intros H; injection H as <-. subst a. reflexivity.
    + destruct (slot_pos r k) as [q|] eqn:Eq; cbn [option_map]; [|discriminate].
      intros H; injection H as <-. cbn [nth_error]. apply IH. exact Eq.
Qed.

Lemma slot_pos_some_nth : forall slots k p,
  slot_pos slots k = Some p -> nth_error (map fst slots) p = Some k.
Proof.
  intros slots k p H. apply (slot_pos_some_gen nat (fun x => x)) in H.
  rewrite <- H. f_equal.
Qed.

Lemma nth_slot_pos : forall slots k p, NoDup (map fst slots) ->
  nth_error (map fst slots) p = Some k -> slot_pos slots k = Some p.
Proof.
  induction slots as [|[a s] r IH]; intros k p ND; cbn [slot_pos map fst] in *.
  - destruct p; discriminate.
  - inversion ND as [|a' l' Hnin ND']; subst.
    destruct p as [|p]; cbn [nth_error].
    + intros H; injection H as ->. rewrite Nat.eqb_refl. reflexivity.
    + intros H. destruct (Nat.eqb a k) eqn:E.
      * apply Nat.eqb_eq in E. subst a. exfalso. apply Hnin. eapply nth_error_In; exact H.
      * rewrite (IH k p ND' H). reflexivity.
Qed.

Lemma slot_pos_iff : forall slots k p, NoDup (map fst slots) ->
  (slot_pos slots k = Some p <-> nth_error (map fst slots) p = Some k).
Proof. intros; split; [apply slot_pos_some_nth | apply nth_slot_pos; assumption]. Qed.

Lemma slot_pos_lt : forall slots k p, slot_pos slots k = Some p -> p < length slots.
Proof.
  intros slots k p H. apply slot_pos_some_nth in H.
  rewrite <- (map_length fst slots). apply nth_error_Some. rewrite H. discriminate.
Qed.

Lemma slot_pos_in : forall slots k, In k (map fst slots) -> exists p, slot_pos slots k = Some p.
Proof.
  intros slots k H. destruct (slot_pos slots k) as [p|] eqn:E; [eauto|].
  apply slot_pos_none in E. contradiction.
Qed.

(* ---------------------------------------------------------------- set_at *)

Lemma set_at_length : forall (T : Type) (t : list T) p x, length (set_at T t p x) = length t.
Proof.
  intros T. induction t as [|a r IH]; intros p x; cbn [set_at]; [reflexivity|].
  destruct p; cbn [length]; [reflexivity|]. rewrite IH. reflexivity.
Qed.

Lemma set_at_same : forall (T : Type) (t : list T) p x, p < length t ->
  nth_error (set_at T t p x) p = Some x.
Proof.
  intros T. induction t as [|a r IH]; intros p x Hp; cbn [length] in Hp; [lia|].
  destruct p; cbn [set_at nth_error]; [reflexivity|]. apply IH. lia.
Qed.

Lemma set_at_other : forall (T : Type) (t : list T) p q x, q <> p ->
  nth_error (set_at T t p x) q = nth_error t q.
Proof.
  intros T. induction t as [|a r IH]; intros p q x Hq; cbn [set_at]; [reflexivity|].
  destruct p; destruct q; cbn [nth_error]; try reflexivity; try lia.
  apply IH. lia.
Qed.

(* ---------------------------------------------------------------- get / set *)

Lemma tb_set_ok : forall (T : Type) c (t : list T) vi x t',
  tb_set T c t vi x = TOk t' -> exists p, slot_pos (tb_slots c) vi = Some p /\ t' = set_at T t p x.
Proof.
  intros T c t vi x t'. unfold tb_set.
  destruct (slot_pos (tb_slots c) vi) as [p|].
  - intros H; injection H as <-. eauto.
  - destruct (existsb (Nat.eqb vi) (tb_disabled c)); discriminate.
Qed.

Lemma C10_get_set_same_proof : stmt_C10_get_set_same.
Proof.
  unfold stmt_C10_get_set_same, well_sized.
  intros T c t vi x t' _ WS H.
  apply tb_set_ok in H. destruct H as [p [Hp ->]]. split.
  - unfold tb_index. rewrite Hp. rewrite set_at_same; [reflexivity|].
    rewrite WS. eapply slot_pos_lt; exact Hp.
  - rewrite set_at_length. exact WS.
Qed.

Lemma C10_get_set_other_proof : stmt_C10_get_set_other.
Proof.
  unfold stmt_C10_get_set_other, well_sized.
  intros T c t vi vj x t' ND WS Hne H.
  apply tb_set_ok in H. destruct H as [p [Hp ->]].
  unfold tb_index. destruct (slot_pos (tb_slots c) vj) as [q|] eqn:Hq; [|reflexivity].
  rewrite set_at_other; [reflexivity|].
  intros ->. apply slot_pos_some_nth in Hp. apply slot_pos_some_nth in Hq. congruence.
Qed.

(* ---------------------------------------------------------------- history *)

Lemma last_write_acc : forall (T : Type) k (ws : list (nat * T)) acc,
  last_write k ws acc = match last_write k ws None with Some y => Some y | None => acc end.
Proof.
  intros T k. induction ws as [|[k' x] r IH]; intros acc; cbn [last_write]; [reflexivity|].
  rewrite (IH (if Nat.eqb k k' then Some x else acc)).
  rewrite (IH (if Nat.eqb k k' then Some x else None)).
  destruct (last_write k r None); [reflexivity|].
  destruct (Nat.eqb k k'); reflexivity.
Qed.

Lemma C10_history_proof : stmt_C10_history.
Proof.
  unfold stmt_C10_history.
  intros T c t ws k ND WS Hin. revert t WS.
  induction ws as [|[k' x] r IH]; intros t WS; cbn [apply_writes last_write]; [reflexivity|].
  rewrite last_write_acc.
  destruct (Nat.eqb k k') eqn:E.
  - apply Nat.eqb_eq in E. subst k'.
    destruct (slot_pos_in _ _ Hin) as [p Hp].
    assert (Hset : tb_set T c t k x = TOk (set_at T t p x)) by (unfold tb_set; rewrite Hp; reflexivity).
    rewrite Hset.
    destruct (C10_get_set_same_proof T c t k x _ ND WS Hset) as [Hidx WS'].
    rewrite (IH _ WS'). rewrite Hidx.
    destruct (last_write k r None); reflexivity.
  - apply Nat.eqb_neq in E.
    destruct (tb_set T c t k' x) as [t'| |] eqn:Hset.
    + assert (WS' : well_sized c t').
      { destruct (tb_set_ok _ _ _ _ _ _ Hset) as [p [_ ->]]. unfold well_sized in *.
        rewrite set_at_length. exact WS. }
      rewrite (IH _ WS').
      rewrite (C10_get_set_other_proof T c t k' k x t' ND WS (fun H => E (eq_sym H)) Hset).
      destruct (last_write k r None); reflexivity.
    + rewrite (IH _ WS). destruct (last_write k r None); reflexivity.
    + rewrite (IH _ WS). destruct (last_write k r None); reflexivity.
Qed.

(* ---------------------------------------------------------------- constructors *)

Lemma C10_constructors_proof : stmt_C10_constructors.
Proof.
  unfold stmt_C10_constructors. intros T c ND. split; [|split].
  - intros x k Hin. destruct (slot_pos_in _ _ Hin) as [p Hp].
    unfold tb_index, tb_filled. rewrite Hp.
    rewrite (slot_pos_some_gen T (fun _ => x) _ _ _ Hp). reflexivity.
  - intros f k Hin. destruct (slot_pos_in _ _ Hin) as [p Hp].
    unfold tb_index, tb_from_closure. rewrite Hp.
    rewrite (slot_pos_some_gen T f _ _ _ Hp). reflexivity.
  - intros args p k _ Hnth. unfold tb_index, tb_new.
    rewrite (nth_slot_pos _ _ _ ND Hnth). reflexivity.
Qed.

(* ---------------------------------------------------------------- transform *)

Lemma zip_slots_nth : forall (T : Type) slots (t : list T) p k x,
  nth_error (map fst slots) p = Some k -> nth_error t p = Some x ->
  nth_error (zip_slots T slots t) p = Some (k, x).
Proof.
  intros T. induction slots as [|[a s] r IH]; intros t p k x Hk Hx; cbn [map fst] in Hk.
  - destruct p; discriminate.
  - destruct t as [|y t']; [destruct p; discriminate|].
    cbn [zip_slots]. destruct p as [|p]; cbn [nth_error] in *.
    + congruence.
    + apply IH; assumption.
Qed.

Lemma C10_transform_proof : stmt_C10_transform.
Proof.
  unfold stmt_C10_transform. intros T U c t f k x _ _ H.
  unfold tb_index in H.
  destruct (slot_pos (tb_slots c) k) as [p|] eqn:Hp.
  - destruct (nth_error t p) as [y|] eqn:Hy; [|discriminate]. injection H as ->.
    unfold tb_index, tb_transform. rewrite Hp.
    rewrite nth_error_map.
    rewrite (zip_slots_nth T _ _ _ _ _ (slot_pos_some_nth _ _ _ Hp) Hy). reflexivity.
  - destruct (existsb (Nat.eqb k) (tb_disabled c)); discriminate.
Qed.

(* ---------------------------------------------------------------- all / all_ok *)

Lemma C10_all_proof : stmt_C10_all.
Proof.
  unfold stmt_C10_all. intros T. induction t as [|[x|] r IH]; cbn [tb_all].
  - split.
    + intros l. split.
      * intros H; injection H as <-. reflexivity.
      * intros H. destruct l; [reflexivity|discriminate].
    + split; [discriminate | intros []].
  - destruct IH as [IH1 IH2]. split.
    + intros l. destruct (tb_all r) as [l'|]; cbn [option_map].
      * split.
        -- intros H; injection H as <-. cbn [map]. f_equal. apply IH1. reflexivity.
        -- intros H. destruct l as [|y l]; [discriminate|]. cbn [map] in H.
           injection H as -> Hr. apply IH1 in Hr. congruence.
      * split; [discriminate|]. intros H. destruct l as [|y l]; [discriminate|].
        cbn [map] in H. injection H as -> Hr. apply IH1 in Hr. discriminate.
    + destruct (tb_all r) as [l'|]; cbn [option_map].
      * split; [discriminate|]. intros [H|H]; [discriminate|]. apply IH2 in H. discriminate.
      * split; [|reflexivity]. intros _. right. apply IH2. reflexivity.
  - split.
    + intros l. split; [discriminate|]. intros H. destruct l; discriminate.
    + split; [|reflexivity]. intros _. left. reflexivity.
Qed.

Lemma C10_all_ok_proof : stmt_C10_all_ok.
Proof.
  unfold stmt_C10_all_ok. intros T E. induction t as [|[x|e0] r IH]; cbn [tb_all_ok].
  - split.
    + intros l. split.
      * intros H; injection H as <-. reflexivity.
      * intros H. destruct l; [reflexivity|discriminate].
    + intros e. split; [discriminate|]. intros [pre [post H]].
      destruct pre; discriminate.
  - destruct IH as [IH1 IH2]. split.
    + intros l. destruct (tb_all_ok r) as [l'|e'].
      * split.
        -- intros H; injection H as <-. cbn [map]. f_equal. apply IH1. reflexivity.
        -- intros H. destruct l as [|y l]; [discriminate|]. cbn [map] in H.
           injection H as -> Hr. apply IH1 in Hr. congruence.
      * split; [discriminate|]. intros H. destruct l as [|y l]; [discriminate|].
        cbn [map] in H. injection H as -> Hr. apply IH1 in Hr. discriminate.
    + intros e. destruct (tb_all_ok r) as [l'|e'].
      * split; [discriminate|]. intros [pre [post H]].
        destruct pre as [|y pre]; cbn [map app] in H; [discriminate|].
        injection H as -> Hr.
        assert (Hex : exists pre post, r = map inl pre ++ inr e :: post) by eauto.
        apply IH2 in Hex. discriminate.
      * split.
        -- intros H; injection H as ->.
           destruct (proj1 (IH2 e) eq_refl) as [pre [post Hr]].
           exists (x :: pre), post. cbn [map app]. rewrite Hr. reflexivity.
        -- intros [pre [post H]].
           destruct pre as [|y pre]; cbn [map app] in H; [discriminate|].
           injection H as -> Hr.
           assert (Hex : exists pre post, r = map inl pre ++ inr e :: post) by eauto.
           apply IH2 in Hex. exact Hex.
  - split.
    + intros l. split; [discriminate|]. intros H. destruct l; discriminate.
    + intros e. split.
      * intros H; injection H as ->. exists [], r. reflexivity.
      * intros [pre [post H]]. destruct pre as [|y pre]; cbn [map app] in H; [|discriminate].
        injection H as -> _. reflexivity.
Qed.

(* ---------------------------------------------------------------- disabled *)

Lemma C10_disabled_panics_proof : stmt_C10_disabled_panics.
Proof.
  unfold stmt_C10_disabled_panics. intros T c t k x Hd Hn.
  apply slot_pos_none in Hn.
  assert (He : existsb (Nat.eqb k) (tb_disabled c) = true).
  { apply existsb_exists. exists k. split; [exact Hd | apply Nat.eqb_refl]. }
  unfold tb_index, tb_set. rewrite Hn, He. split; reflexivity.
Qed.

(* ---------------------------------------------------------------- the generator *)

Lemma table_loop_spec : forall vs idx st, table_loop idx vs = Ok st ->
  map fst (ts_slots st) = map ct_variant (enabled_ctors idx vs) /\
  (forall k, In k (map fst (ts_slots st)) -> idx <= k) /\
  NoDup (map fst (ts_slots st)) /\
  (forall k, In k (ts_disabled st) -> idx <= k) /\
  (forall j v p, nth_error vs j = Some v -> vprops_of v = Ok p ->
                 (vp_disabled p = true <-> In (idx + j) (ts_disabled st))) /\
  (forall k n, In (k, n) (ts_slots st) ->
               exists j v, k = idx + j /\ nth_error vs j = Some v /\ n = ("_"%char :: snakify (v_ident v))).
Proof.
  induction vs as [|v r IH]; intros idx st; cbn [table_loop enabled_ctors].
  - intros H; injection H as <-. cbn [ts_slots ts_disabled map].
    split; [reflexivity|]. split; [intros k []|]. split; [constructor|]. split; [intros k []|].
    split; [intros j v p Hj; destruct j; discriminate | intros k n []].
  - unfold bind at 1. destruct (vprops_of v) as [p| |] eqn:Hp; try discriminate.
    destruct (vp_disabled p) eqn:Hd.
    + unfold bind. destruct (table_loop (S idx) r) as [rest| |] eqn:Hr; try discriminate.
      intros H; injection H as <-. cbn [ts_slots ts_disabled].
      destruct (IH _ _ Hr) as (I1 & I2 & I3 & I4 & I5 & I6).
      split; [exact I1|]. split; [intros k Hk; apply I2 in Hk; lia|]. split; [exact I3|].
      split; [intros k [Hk|Hk]; [lia | apply I4 in Hk; lia]|]. split.
      * intros j v0 p0 Hj Hp0. destruct j as [|j]; cbn [nth_error] in Hj.
        -- injection Hj as <-. rewrite Hp in Hp0. injection Hp0 as <-.
           split; [intros _; left; lia | intros _; exact Hd].
        -- rewrite (I5 j v0 p0 Hj Hp0). replace (idx + S j) with (S idx + j) by lia.
           split; [intros H; right; exact H | intros [H|H]; [lia | exact H]].
      * intros k n Hk. destruct (I6 k n Hk) as (j & v0 & -> & Hj & ->).
        exists (S j), v0. split; [lia|]. split; [exact Hj | reflexivity].
    + destruct (negb (is_unit (v_fields v))) eqn:Hu; [discriminate|].
      unfold bind. destruct (table_loop (S idx) r) as [rest| |] eqn:Hr; try discriminate.
      intros H; injection H as <-. cbn [ts_slots ts_disabled map fst ct_variant].
      destruct (IH _ _ Hr) as (I1 & I2 & I3 & I4 & I5 & I6).
      split; [rewrite I1; reflexivity|].
      split; [intros k [Hk|Hk]; [lia | apply I2 in Hk; lia]|].
      split; [constructor; [intros Hk; apply I2 in Hk; lia | exact I3]|].
      split; [intros k Hk; apply I4 in Hk; lia|]. split.
      * intros j v0 p0 Hj Hp0. destruct j as [|j]; cbn [nth_error] in Hj.
        -- injection Hj as <-. rewrite Hp in Hp0. injection Hp0 as <-.
           split; [congruence | intros H; apply I4 in H; lia].
        -- rewrite (I5 j v0 p0 Hj Hp0). replace (idx + S j) with (S idx + j) by lia. reflexivity.
      * intros k n [Hk|Hk].
        -- injection Hk as <- <-. exists 0, v. split; [lia|]. split; reflexivity.
        -- destruct (I6 k n Hk) as (j & v0 & -> & Hj & ->).
           exists (S j), v0. split; [lia|]. split; [exact Hj | reflexivity].
Qed.

Lemma C10_slots_proof : stmt_C10_slots.
Proof.
  unfold stmt_C10_slots. intros it c. unfold gen_table.
  destruct (0 <? i_lifetimes it)%nat; [discriminate|].
  unfold enum_variants. destruct (i_kind it); cbn [bind]; try discriminate.
  unfold bind. destruct (table_loop 0 (i_variants it)) as [st| |] eqn:Hl; try discriminate.
  destruct (ts_slots st) as [|s0 sl] eqn:Hs; [discriminate|].
  intros H; injection H as <-. cbn [tb_slots tb_disabled].
  destruct (table_loop_spec _ _ _ Hl) as (I1 & _ & I3 & _ & I5 & I6).
  rewrite Hs in I1, I3, I6.
  split; [exact I1|]. split; [exact I3|]. split.
  - intros i v p [Hn Hp]. exact (I5 i v p Hn Hp).
  - intros k n Hk. destruct (I6 k n Hk) as (j & v & -> & Hj & ->).
    exists v. split; [exact Hj | reflexivity].
Qed.

Print Assumptions C10_slots_proof.
Print Assumptions C10_get_set_same_proof.
Print Assumptions C10_get_set_other_proof.
Print Assumptions C10_history_proof.
Print Assumptions C10_constructors_proof.
Print Assumptions C10_transform_proof.
Print Assumptions C10_all_proof.
Print Assumptions C10_all_ok_proof.
Print Assumptions C10_disabled_panics_proof.

(* ---------------------------------------------------------------- totality, end to end (generator + Index/IndexMut) *)

Lemma table_loop_enabled : forall vs idx st, table_loop idx vs = Ok st ->
  forall j v p, nth_error vs j = Some v -> vprops_of v = Ok p -> vp_disabled p = false ->
  In (idx + j) (map fst (ts_slots st)).
Proof.
  induction vs as [|v r IH]; intros idx st; cbn [table_loop].
  - intros _ j v p Hj; destruct j; discriminate.
  - unfold bind at 1. destruct (vprops_of v) as [p| |] eqn:Hp; try discriminate.
    destruct (vp_disabled p) eqn:Hd.
    + unfold bind. destruct (table_loop (S idx) r) as [rest| |] eqn:Hr; try discriminate.
      intros H; injection H as <-. cbn [ts_slots].
      intros j v0 p0 Hj Hp0 Hd0. destruct j as [|j]; cbn [nth_error] in Hj.
      * injection Hj as <-. rewrite Hp in Hp0. injection Hp0 as <-. congruence.
      * replace (idx + S j) with (S idx + j) by lia. exact (IH _ _ Hr j v0 p0 Hj Hp0 Hd0).
    + destruct (negb (is_unit (v_fields v))) eqn:Hu; [discriminate|].
      unfold bind. destruct (table_loop (S idx) r) as [rest| |] eqn:Hr; try discriminate.
      intros H; injection H as <-. cbn [ts_slots map fst In].
      intros j v0 p0 Hj Hp0 Hd0. destruct j as [|j]; cbn [nth_error] in Hj.
      * left. lia.
      * right. replace (idx + S j) with (S idx + j) by lia. exact (IH _ _ Hr j v0 p0 Hj Hp0 Hd0).
Qed.

Lemma gen_table_enabled_in it c i v p :
  gen_table it = Ok c -> variant_at it i v p -> vp_disabled p = false -> In i (map fst (tb_slots c)).
Proof.
  unfold gen_table. destruct (0 <? i_lifetimes it)%nat; [discriminate|].
  unfold enum_variants. destruct (i_kind it); cbn [bind]; try discriminate.
  unfold bind. destruct (table_loop 0 (i_variants it)) as [st| |] eqn:Hl; try discriminate.
  destruct (ts_slots st) as [|s0 sl] eqn:Hs; [discriminate|].
  intros H; injection H as <-. cbn [tb_slots]. intros [Hn Hp] Hd.
  rewrite <- Hs. exact (table_loop_enabled _ _ _ Hl i v p Hn Hp Hd).
Qed.

Lemma C10_total_map_proof : stmt_C10_total_map.
Proof.
  unfold stmt_C10_total_map. intros T it c t i v p Hg WS Hv.
  destruct (C10_slots_proof it c Hg) as (_ & ND & Hdis & _). split.
  - intros Hd. pose proof (gen_table_enabled_in it c i v p Hg Hv Hd) as Hin.
    destruct (slot_pos_in _ _ Hin) as [k Hk].
    assert (Hlt : k < length t). { unfold well_sized in WS. rewrite WS. exact (slot_pos_lt _ _ _ Hk). }
    destruct (nth_error t k) as [x|] eqn:Hx; [|apply nth_error_None in Hx; lia].
    split.
    + exists x. unfold tb_index. rewrite Hk, Hx. reflexivity.
    + intros y. exists (set_at T t k y).
      assert (Hset : tb_set T c t i y = TOk (set_at T t k y)) by (unfold tb_set; rewrite Hk; reflexivity).
      split; [exact Hset|]. exact (C10_get_set_same_proof T c t i y _ ND WS Hset).
  - intros Hd.
    assert (Hi : In i (tb_disabled c)) by (apply (Hdis i v p Hv); exact Hd).
    assert (Hn0 : ~ In i (map fst (tb_slots c))).
    { intros Hin. rewrite (proj1 (C10_slots_proof it c Hg)) in Hin.
      apply ec_in in Hin. destruct Hin as (j & v' & p' & Hj & Hn' & Hp' & Hd'). cbn in Hj. subst j.
      destruct Hv as [Hn Hp]. rewrite Hn in Hn'. injection Hn' as <-. rewrite Hp in Hp'. injection Hp' as <-. congruence. }
    apply slot_pos_none in Hn0.
    assert (He : existsb (Nat.eqb i) (tb_disabled c) = true).
    { apply existsb_exists. exists i. split; [exact Hi | apply Nat.eqb_refl]. }
    unfold tb_index, tb_set. rewrite Hn0, He. split; [reflexivity | intros y; reflexivity].
Qed.
Print Assumptions C10_total_map_proof.

Lemma C10_keys_are_iter_proof : stmt_C10_keys_are_iter.
Proof.
  unfold stmt_C10_keys_are_iter. intros it c ic n Hg Hi Hc.
  destruct (C10_slots_proof it c Hg) as (Hs & _).
  destruct (C04_table_proof it ic Hi) as (Ht & _).
  split; [rewrite Hs, Ht; reflexivity|].
  rewrite <- (map_length fst), Hs, map_length. symmetry. exact (gen_count_spec it n Hc).
Qed.
Print Assumptions C10_keys_are_iter_proof.
