(* DisplayP.v — Display / AsRefStr / IntoStaticStr / ToString / VariantNames: the generated match
   prints the preferred name (C03), Formatter::pad (C17), capture_format_strings (C17),
   transparent / default forwarding (C11), preferred name among the spellings (C02). *)
Require Import Strum.Spec.Statements Strum.Proofs.BytesP.
From Coq Require Import Lia.
Local Open Scope list_scope.

(* ------------------------------------------------------------------ *)
(* generic arm builder and its alignment with the variant list          *)
(* ------------------------------------------------------------------ *)
Section Arms.
Context {B : Type} (f : variant -> vprops -> res B).

Fixpoint gen_arms (idx : nat) (vs : list variant) : res (list (nat * B)) :=
  match vs with
  | [] => Ok []
  | v :: r =>
    p <- vprops_of v ;;
    if vp_disabled p then gen_arms (S idx) r else
    b <- f v p ;;
    rest <- gen_arms (S idx) r ;;
    Ok ((idx, b) :: rest)
  end.

Lemma gen_arms_ge : forall vs k arms, gen_arms k vs = Ok arms -> forall a, In a arms -> k <= fst a.
Proof.
  induction vs as [|v r IH]; intros k arms H a Ha.
  - cbn in H. inversion H; subst. destruct Ha.
  - cbn [gen_arms] in H. unfold bind in H at 1.
    destruct (vprops_of v) as [p| |]; try discriminate.
    destruct (vp_disabled p).
    + specialize (IH _ _ H a Ha). lia.
    + unfold bind in H. destruct (f v p) as [b| |]; try discriminate.
      destruct (gen_arms (S k) r) as [rest| |] eqn:Hr; try discriminate.
      inversion H; subst arms. destruct Ha as [<-|Ha]; [cbn; lia|].
      specialize (IH _ _ Hr a Ha). lia.
Qed.

Lemma gen_arms_find : forall vs k arms, gen_arms k vs = Ok arms ->
  forall j v p, nth_error vs j = Some v -> vprops_of v = Ok p -> vp_disabled p = false ->
  exists b, f v p = Ok b /\ find (fun a => Nat.eqb (fst a) (k + j)) arms = Some (k + j, b).
Proof.
  induction vs as [|w r IH]; intros k arms H j v p Hn Hp Hd.
  - destruct j; discriminate.
  - cbn [gen_arms] in H. unfold bind in H at 1.
    destruct (vprops_of w) as [q| |] eqn:Hq; try discriminate.
    destruct j as [|j].
    + cbn in Hn. inversion Hn; subst w. rewrite Hp in Hq. inversion Hq; subst q.
      rewrite Hd in H. unfold bind in H. destruct (f v p) as [b| |]; try discriminate.
      destruct (gen_arms (S k) r) as [rest| |]; try discriminate.
      inversion H; subst arms. exists b. split; [reflexivity|].
      cbn [find fst]. rewrite Nat.add_0_r, Nat.eqb_refl. reflexivity.
    + cbn [nth_error] in Hn. replace (k + S j) with (S k + j) by lia.
      destruct (vp_disabled q).
      * eapply IH; eauto.
      * unfold bind in H. destruct (f w q) as [b0| |]; try discriminate.
        destruct (gen_arms (S k) r) as [rest| |] eqn:Hr; try discriminate.
        inversion H; subst arms.
        destruct (IH _ _ Hr j v p Hn Hp Hd) as (b & Hb & Hf). exists b. split; [exact Hb|].
        cbn [find fst]. assert (Nat.eqb k (S k + j) = false) as -> by (apply Nat.eqb_neq; lia). exact Hf.
Qed.
End Arms.

Definition asref_arm (tp : tprops) (v : variant) (p : vprops) : res abody :=
  if vp_transparent p then
    match single_field (v_fields v) with Some s => Ok (AInner s) | None => Err GNonSingleField end
  else Ok (AStr (preferred_name (tp_style tp) (tp_prefix tp) p)).
Definition tostring_arm (tp : tprops) (v : variant) (p : vprops) : res tbody :=
  if negb (is_some (vp_to_string p)) && vp_default p then
    match v_fields v with FTuple [_] => Ok TInnerString | _ => Err GDefaultField end
  else Ok (TStr (preferred_name (tp_style tp) (tp_prefix tp) p)).

Lemma display_arms_gen tp : forall vs k, display_arms tp k vs = gen_arms (display_arm tp) k vs.
Proof.
  induction vs as [|v r IH]; intro k; [reflexivity|]. cbn [display_arms gen_arms].
  destruct (vprops_of v) as [p| |]; cbn [bind]; try reflexivity.
  destruct (vp_disabled p); [apply IH|]. rewrite IH. reflexivity.
Qed.
Lemma asref_arms_gen tp : forall vs k, asref_arms tp k vs = gen_arms (asref_arm tp) k vs.
Proof.
  induction vs as [|v r IH]; intro k; [reflexivity|]. cbn [asref_arms gen_arms].
  destruct (vprops_of v) as [p| |]; cbn [bind]; try reflexivity.
  destruct (vp_disabled p); [apply IH|]. rewrite IH. reflexivity.
Qed.
Lemma tostring_arms_gen tp : forall vs k, tostring_arms tp k vs = gen_arms (tostring_arm tp) k vs.
Proof.
  induction vs as [|v r IH]; intro k; [reflexivity|]. cbn [tostring_arms gen_arms].
  destruct (vprops_of v) as [p| |]; cbn [bind]; try reflexivity.
  destruct (vp_disabled p); [apply IH|]. rewrite IH. reflexivity.
Qed.

(* the arm the generated match runs for an enabled variant *)
Lemma gen_display_arm it d tp i v p :
  gen_display it = Ok d -> tprops_of it = Ok tp -> variant_at it i v p -> vp_disabled p = false ->
  exists b, display_arm tp v p = Ok b /\ run_match d i = MArm b.
Proof.
  unfold gen_display, variant_at, enum_variants. intros H Ht [Hn Hp] Hd.
  destruct (i_kind it); cbn [bind] in H; try discriminate.
  rewrite Ht in H. cbn [bind] in H.
  destruct (display_arms tp 0 (i_variants it)) as [arms| |] eqn:Ha; cbn [bind] in H; try discriminate.
  inversion H; subst d. rewrite display_arms_gen in Ha.
  destruct (gen_arms_find _ _ _ _ Ha i v p Hn Hp Hd) as (b & Hb & Hf).
  exists b. split; [exact Hb|]. unfold run_match. cbn [mc_arms]. cbn [Nat.add] in Hf. rewrite Hf. reflexivity.
Qed.
Lemma gen_as_ref_arm it d tp i v p :
  gen_as_ref it = Ok d -> tprops_of it = Ok tp -> variant_at it i v p -> vp_disabled p = false ->
  exists b, asref_arm tp v p = Ok b /\ run_match d i = MArm b.
Proof.
  unfold gen_as_ref, variant_at, enum_variants. intros H Ht [Hn Hp] Hd.
  destruct (i_kind it); cbn [bind] in H; try discriminate.
  rewrite Ht in H. cbn [bind] in H.
  destruct (asref_arms tp 0 (i_variants it)) as [arms| |] eqn:Ha; cbn [bind] in H; try discriminate.
  inversion H; subst d. rewrite asref_arms_gen in Ha.
  destruct (gen_arms_find _ _ _ _ Ha i v p Hn Hp Hd) as (b & Hb & Hf).
  exists b. split; [exact Hb|]. unfold run_match. cbn [mc_arms]. cbn [Nat.add] in Hf. rewrite Hf. reflexivity.
Qed.
Lemma gen_to_string_arm it d tp i v p :
  gen_to_string it = Ok d -> tprops_of it = Ok tp -> variant_at it i v p -> vp_disabled p = false ->
  exists b, tostring_arm tp v p = Ok b /\ run_match d i = MArm b.
Proof.
  unfold gen_to_string, variant_at, enum_variants. intros H Ht [Hn Hp] Hd.
  destruct (i_kind it); cbn [bind] in H; try discriminate.
  rewrite Ht in H. cbn [bind] in H.
  destruct (tostring_arms tp 0 (i_variants it)) as [arms| |] eqn:Ha; cbn [bind] in H; try discriminate.
  inversion H; subst d. rewrite tostring_arms_gen in Ha.
  destruct (gen_arms_find _ _ _ _ Ha i v p Hn Hp Hd) as (b & Hb & Hf).
  exists b. split; [exact Hb|]. unfold run_match. cbn [mc_arms]. cbn [Nat.add] in Hf. rewrite Hf. reflexivity.
Qed.
(* gen_display succeeding implies tprops_of succeeds *)
Lemma gen_display_tp it d : gen_display it = Ok d -> exists tp, tprops_of it = Ok tp.
Proof.
  unfold gen_display. intro H. destruct (enum_variants it); cbn [bind] in H; try discriminate.
  destruct (tprops_of it) as [tp| |]; cbn [bind] in H; try discriminate. exists tp. reflexivity.
Qed.
Lemma gen_as_ref_tp it d : gen_as_ref it = Ok d -> exists tp, tprops_of it = Ok tp.
Proof.
  unfold gen_as_ref. intro H. destruct (enum_variants it); cbn [bind] in H; try discriminate.
  destruct (tprops_of it) as [tp| |]; cbn [bind] in H; try discriminate. exists tp. reflexivity.
Qed.
Lemma gen_into_static_inv it a :
  gen_into_static it = Ok a ->
  exists tp, gen_as_ref it = Ok (is_arms a) /\ tprops_of it = Ok tp /\ is_const a = tp_const_into_str tp.
Proof.
  unfold gen_into_static. intro H. destruct (gen_as_ref it) as [arms| |]; cbn [bind] in H; try discriminate.
  destruct (tprops_of it) as [tp| |]; cbn [bind] in H; try discriminate.
  inversion H; subst a. exists tp. cbn. auto.
Qed.

(* ------------------------------------------------------------------ *)
(* C03: max_by_len, canonical name                                      *)
(* ------------------------------------------------------------------ *)
Definition mbl_step (acc : option str) (s : str) : option str :=
  match acc with
  | None => Some s
  | Some a => if (length s <? length a)%nat then Some a else Some s
  end.

Lemma fold_max : forall (l : list str) (a : str), exists x,
  fold_left mbl_step l (Some a) = Some x /\ In x (a :: l) /\ forall y, In y (a :: l) -> length y <= length x.
Proof.
  induction l as [|b r IH]; intro a.
  - exists a. cbn. split; [reflexivity|]. split; [auto|]. intros y [<-|[]]. lia.
  - cbn [fold_left mbl_step]. destruct (length b <? length a) eqn:E.
    + apply Nat.ltb_lt in E. destruct (IH a) as (x & Hx & Hi & Hm). exists x. split; [exact Hx|]. split.
      * destruct Hi as [<-|Hi]; [left; reflexivity|right; right; exact Hi].
      * assert (length a <= length x) by (apply Hm; left; reflexivity).
        intros y [<-|[<-|Hy]]; [assumption|lia|apply Hm; right; exact Hy].
    + apply Nat.ltb_ge in E. destruct (IH b) as (x & Hx & Hi & Hm). exists x. split; [exact Hx|]. split.
      * right. exact Hi.
      * assert (length b <= length x) by (apply Hm; left; reflexivity).
        intros y [<-|[<-|Hy]]; [lia|assumption|apply Hm; right; exact Hy].
Qed.

Lemma max_by_len_longest l : l <> [] -> exists x, max_by_len l = Some x /\ longest l x.
Proof.
  destruct l as [|a r]; [congruence|]. intros _. unfold max_by_len. cbn [fold_left].
  destruct (fold_max r a) as (x & Hx & Hi & Hm). exists x. split; [exact Hx|]. split; assumption.
Qed.

Lemma NoDup_map_inj {A B} (f : A -> B) (l : list A) x y :
  NoDup (map f l) -> In x l -> In y l -> f x = f y -> x = y.
Proof.
  induction l as [|a r IH]; intros Hnd Hx Hy E; [destruct Hx|].
  cbn in Hnd. inversion Hnd as [|? ? Hni Hnd']; subst.
  destruct Hx as [<-|Hx], Hy as [<-|Hy]; auto.
  - exfalso. apply Hni. rewrite E. apply in_map. exact Hy.
  - exfalso. apply Hni. rewrite <- E. apply in_map. exact Hx.
Qed.

Lemma C03_longest_unique_proof : stmt_C03_longest_unique.
Proof.
  unfold stmt_C03_longest_unique. intros l Hnd x. destruct l as [|a r].
  - cbn. split; [discriminate|]. intros [[] _].
  - destruct (max_by_len_longest (a :: r)) as (m & Hm & Hl); [discriminate|]. rewrite Hm. split.
    + intros [= <-]. exact Hl.
    + intros [Hi Hx]. f_equal. destruct Hl as [Hi' Hm'].
      apply (NoDup_map_inj (@length ascii) (a :: r)); auto.
      apply Nat.le_antisymm; auto.
Qed.

Lemma C03_canonical_proof : stmt_C03_canonical.
Proof.
  unfold stmt_C03_canonical, canonical, preferred_name. intros st pf p _.
  eexists. split; [reflexivity|].
  destruct (vp_to_string p) as [t|]; [reflexivity|].
  destruct (vp_serialize p) as [|a r] eqn:E; [reflexivity|].
  destruct (max_by_len_longest (a :: r)) as (m & Hm & Hl); [discriminate|]. rewrite Hm. exact Hl.
Qed.

Lemma C02_preferred_in_spellings_proof : stmt_C02_preferred_in_spellings.
Proof.
  unfold stmt_C02_preferred_in_spellings, preferred_name, serializations. intros st p.
  destruct (vp_to_string p) as [t|].
  - destruct (vp_serialize p ++ [t]) as [|a r] eqn:E.
    + apply app_eq_nil in E as [_ E]. discriminate.
    + rewrite <- E. apply in_or_app. right. left. reflexivity.
  - rewrite app_nil_r. destruct (vp_serialize p) as [|a r] eqn:E; [left; reflexivity|].
    destruct (max_by_len_longest (a :: r)) as (m & Hm & Hl); [discriminate|]. rewrite Hm. apply Hl.
Qed.

(* ------------------------------------------------------------------ *)
(* the arm of a plain variant                                           *)
(* ------------------------------------------------------------------ *)
Lemma nodefault_flag p : (vp_default p = false \/ vp_to_string p <> None) ->
  negb (is_some (vp_to_string p)) && vp_default p = false.
Proof.
  intros [H|H]; [rewrite H; apply andb_false_r|].
  destruct (vp_to_string p); [reflexivity|congruence].
Qed.

Lemma display_arm_plain tp v p : plain_variant tp p ->
  display_arm tp v p = Ok (DStr (preferred_name (tp_style tp) (tp_prefix tp) p)).
Proof.
  intros (Hd & Ht & Hdf & Hc). unfold display_arm. rewrite Ht, (nodefault_flag p Hdf).
  unfold capture_idents. rewrite Hc. cbn [bind forallb existsb]. destruct (v_fields v); reflexivity.
Qed.

Lemma C17_fixed_proof : stmt_C17_fixed.
Proof.
  unfold stmt_C17_fixed. intros it d tp i v p Hg Ht Hv Hpl sp.
  destruct (gen_display_arm it d tp i v p Hg Ht Hv (proj1 Hpl)) as (b & Hb & Hr).
  rewrite (display_arm_plain tp v p Hpl) in Hb. inversion Hb; subst b.
  unfold run_display. rewrite Hr. reflexivity.
Qed.

Lemma C03_display_proof : stmt_C03_display.
Proof.
  unfold stmt_C03_display. intros it d tp i v p Hg Ht Hv Hpl.
  rewrite (C17_fixed_proof it d tp i v p Hg Ht Hv Hpl nospec). reflexivity.
Qed.

Lemma C03_as_ref_proof : stmt_C03_as_ref.
Proof.
  unfold stmt_C03_as_ref. intros it a tp i v p Hg Ht Hv Hd Htr.
  destruct (gen_as_ref_arm it a tp i v p Hg Ht Hv Hd) as (b & Hb & Hr).
  unfold asref_arm in Hb. rewrite Htr in Hb. inversion Hb; subst b.
  unfold run_as_ref. rewrite Hr. reflexivity.
Qed.

Lemma C03_into_static_proof : stmt_C03_into_static.
Proof.
  unfold stmt_C03_into_static. intros it a tp i v p Hg Ht Hv Hd Htr.
  destruct (gen_into_static_inv it a Hg) as (tp' & Ha & Ht' & Hc).
  rewrite Ht in Ht'. inversion Ht'; subst tp'. split; [|exact Hc].
  exact (C03_as_ref_proof it (is_arms a) tp i v p Ha Ht Hv Hd Htr).
Qed.

Lemma C03_to_string_proof : stmt_C03_to_string.
Proof.
  unfold stmt_C03_to_string. intros it t tp i v p Hg Ht Hv Hd Hdf.
  destruct (gen_to_string_arm it t tp i v p Hg Ht Hv Hd) as (b & Hb & Hr).
  unfold tostring_arm in Hb. rewrite (nodefault_flag p Hdf) in Hb. inversion Hb; subst b. exact Hr.
Qed.

Lemma mapM_nth {A B} (g : A -> res B) : forall l bs, mapM g l = Ok bs ->
  length bs = length l /\ forall i a, nth_error l i = Some a -> exists b, g a = Ok b /\ nth_error bs i = Some b.
Proof.
  induction l as [|x r IH]; intros bs H.
  - cbn in H. inversion H; subst. split; [reflexivity|]. intros [|i] a Hn; discriminate.
  - cbn [mapM] in H. unfold bind in H. destruct (g x) as [b| |] eqn:Hg; try discriminate.
    destruct (mapM g r) as [bs'| |] eqn:Hm; try discriminate. inversion H; subst bs.
    destruct (IH _ eq_refl) as [Hl Hn]. split; [cbn; lia|].
    intros [|i] a Ha; cbn [nth_error] in *.
    + inversion Ha; subst a. exists b. auto.
    + apply Hn. exact Ha.
Qed.

Lemma C03_variant_names_proof : stmt_C03_variant_names.
Proof.
  unfold stmt_C03_variant_names, gen_variant_names, enum_variants, variant_at. intros it ns tp H Ht.
  destruct (i_kind it); cbn [bind] in H; try discriminate. rewrite Ht in H. cbn [bind] in H.
  apply mapM_nth in H as [Hl Hn]. split; [exact Hl|].
  intros i v p [Hi Hp]. destruct (Hn i v Hi) as (b & Hb & Hnb). rewrite Hp in Hb. cbn [bind] in Hb.
  inversion Hb; subst b. exact Hnb.
Qed.

(* ------------------------------------------------------------------ *)
(* C11: transparent / default forwarding                                *)
(* ------------------------------------------------------------------ *)
Lemma C11_display_default_proof : stmt_C11_display_default.
Proof.
  unfold stmt_C11_display_default. intros it d i v p sg Hg Hv Hd Htr Hdf Hts Hs sp.
  destruct (gen_display_tp it d Hg) as [tp Ht].
  destruct (gen_display_arm it d tp i v p Hg Ht Hv Hd) as (b & Hb & Hr).
  unfold display_arm in Hb. rewrite Htr, Hts, Hdf, Hs in Hb. cbn in Hb. inversion Hb; subst b.
  unfold run_display. rewrite Hr. reflexivity.
Qed.

Lemma C11_transparent_display_proof : stmt_C11_transparent_display.
Proof.
  unfold stmt_C11_transparent_display. intros it d i v p sg Hg Hv Hd Htr Hs sp.
  destruct (gen_display_tp it d Hg) as [tp Ht].
  destruct (gen_display_arm it d tp i v p Hg Ht Hv Hd) as (b & Hb & Hr).
  unfold display_arm in Hb. rewrite Htr, Hs in Hb. inversion Hb; subst b.
  unfold run_display. rewrite Hr. reflexivity.
Qed.

Lemma C11_transparent_as_ref_proof : stmt_C11_transparent_as_ref.
Proof.
  unfold stmt_C11_transparent_as_ref. intros it a i v p sg Hg Hv Hd Htr Hs.
  destruct (gen_as_ref_tp it a Hg) as [tp Ht].
  destruct (gen_as_ref_arm it a tp i v p Hg Ht Hv Hd) as (b & Hb & Hr).
  unfold asref_arm in Hb. rewrite Htr, Hs in Hb. inversion Hb; subst b.
  unfold run_as_ref. rewrite Hr. reflexivity.
Qed.

Lemma C11_transparent_into_static_proof : stmt_C11_transparent_into_static.
Proof.
  unfold stmt_C11_transparent_into_static. intros it a i v p sg Hg Hv Hd Htr Hs.
  destruct (gen_into_static_inv it a Hg) as (tp & Ha & _ & _).
  exact (C11_transparent_as_ref_proof it (is_arms a) i v p sg Ha Hv Hd Htr Hs).
Qed.

(* ------------------------------------------------------------------ *)
(* C17: named / positional bindings                                     *)
(* ------------------------------------------------------------------ *)
Lemma C17_named_binding_proof : stmt_C17_named_binding.
Proof.
  unfold stmt_C17_named_binding. intros it d tp i v p fs used Hg Ht Hv Hd Htr Hdf Hf Hc Hne sp.
  destruct (gen_display_arm it d tp i v p Hg Ht Hv Hd) as (b & Hb & Hr).
  unfold display_arm in Hb. rewrite Htr, (nodefault_flag p Hdf), Hf, Hc in Hb. cbn [bind] in Hb.
  destruct used as [|u us]; [congruence|]. inversion Hb; subst b.
  eexists. split.
  - unfold run_display. rewrite Hr. reflexivity.
  - intro n. rewrite filter_In. cbv beta. rewrite <- (mem_str_In n (u :: us)). reflexivity.
Qed.

Lemma C17_positional_binding_proof : stmt_C17_positional_binding.
Proof.
  unfold stmt_C17_positional_binding. intros it d tp i v p fs used Hg Ht Hv Hd Htr Hdf Hf Hc Hne Hnil sp.
  destruct (gen_display_arm it d tp i v p Hg Ht Hv Hd) as (b & Hb & Hr).
  unfold display_arm in Hb. rewrite Htr, (nodefault_flag p Hdf), Hf, Hc in Hb. cbn [bind] in Hb.
  destruct (existsb (fun u : list ascii => match u with [] => true | _ :: _ => false end) used) eqn:E.
  { exfalso. apply existsb_exists in E as (u & Hu & Hu'). destruct u; [|discriminate]. exact (Hnil Hu). }
  destruct used as [|u us]; [congruence|]. inversion Hb; subst b.
  unfold run_display. rewrite Hr. reflexivity.
Qed.

(* ------------------------------------------------------------------ *)
(* C17: Formatter::pad                                                  *)
(* ------------------------------------------------------------------ *)
Lemma char_count_cons c r : char_count (c :: r) = if is_cont c then char_count r else S (char_count r).
Proof. unfold char_count. cbn [filter]. destruct (is_cont c); reflexivity. Qed.
Lemma char_count_app a b : char_count (a ++ b) = char_count a + char_count b.
Proof. unfold char_count. rewrite filter_app, app_length. reflexivity. Qed.
Lemma char_count_repeat n f : char_count (repeat_str n f) = n * char_count f.
Proof. induction n as [|n IH]; cbn [repeat_str]; [reflexivity|]. rewrite char_count_app, IH. lia. Qed.
(* continuation bytes do not count, so no hypothesis on the first byte is needed *)
Lemma char_count_take : forall s q, char_count (take_chars q s) = Nat.min q (char_count s).
Proof.
  induction s as [|c r IH]; intro q.
  - cbn. lia.
  - cbn [take_chars]. rewrite (char_count_cons c r). destruct (is_cont c) eqn:Ec.
    + rewrite char_count_cons, Ec. apply IH.
    + destruct q as [|q]; [reflexivity|]. rewrite char_count_cons, Ec, IH. reflexivity.
Qed.
Lemma half_sum d : d / 2 + (d + 1) / 2 = d.
Proof.
  pose proof (Nat.div_mod d 2). pose proof (Nat.div_mod (d + 1) 2).
  pose proof (Nat.mod_upper_bound d 2). pose proof (Nat.mod_upper_bound (d + 1) 2).
  assert (Hm : (d + 1) mod 2 = (d mod 2 + 1) mod 2).
  { rewrite Nat.add_mod_idemp_l by lia. reflexivity. }
  destruct (d mod 2) as [|[|k]] eqn:E; cbn in Hm; lia.
Qed.

Lemma C17_pad_length_proof : stmt_C17_pad_length.
Proof.
  unfold stmt_C17_pad_length. intros sp s _ Hfill. cbv zeta. unfold fmt_pad.
  set (s1 := match sp_prec sp with Some p => take_chars p s | None => s end).
  assert (Hn : char_count s1 =
               match sp_prec sp with Some q => Nat.min q (char_count s) | None => char_count s end).
  { subst s1. destruct (sp_prec sp); [apply char_count_take|reflexivity]. }
  rewrite <- Hn. destruct (sp_width sp) as [w|]; [|reflexivity].
  destruct (w <=? char_count s1) eqn:Hw.
  - apply Nat.leb_le in Hw. lia.
  - apply Nat.leb_gt in Hw.
    destruct (sp_align sp) as [[| |]|]; rewrite !char_count_app, !char_count_repeat, Hfill; try lia.
    pose proof (half_sum (w - char_count s1)). lia.
Qed.

Lemma C17_pad_identity_proof : stmt_C17_pad_identity.
Proof.
  unfold stmt_C17_pad_identity, fmt_pad. intros sp s Hp [Hw|(w & Hw & Hle)]; rewrite Hp, Hw; [reflexivity|].
  apply Nat.leb_le in Hle. rewrite Hle. reflexivity.
Qed.

(* ------------------------------------------------------------------ *)
(* C17: capture_format_strings against the token structure             *)
(* ------------------------------------------------------------------ *)
Definition not_esc_o t := match t with FEscOpen => false | _ => true end.
Definition not_esc_c t := match t with FEscClose => false | _ => true end.

Lemma rm2_ne x a t : a <> x -> rm2 x (a :: t) = a :: rm2 x t.
Proof. intro H. destruct t as [|b r]; [reflexivity|]. cbn [rm2].
  assert (Ascii.eqb a x = false) as -> by (apply Ascii.eqb_neq; exact H). reflexivity. Qed.
Lemma rm2_ne2 x a b r : b <> x -> rm2 x (a :: b :: r) = a :: rm2 x (b :: r).
Proof. intro H. cbn [rm2]. assert (Ascii.eqb b x = false) as -> by (apply Ascii.eqb_neq; exact H).
  rewrite andb_false_r. reflexivity. Qed.
Lemma rm2_pair x r : rm2 x (x :: x :: r) = rm2 x r.
Proof. cbn [rm2]. rewrite Ascii.eqb_refl. reflexivity. Qed.
Lemma rm2_skip x pre rest : Forall (fun c => c <> x) pre -> rm2 x (pre ++ rest) = pre ++ rm2 x rest.
Proof. induction 1 as [|a p Ha _ IH]; [reflexivity|]. cbn [app]. rewrite rm2_ne by exact Ha. f_equal. exact IH. Qed.
Lemma ob_ne_cb : ob <> cb. Proof. discriminate. Qed.
Lemma cb_ne_ob : cb <> ob. Proof. discriminate. Qed.

Lemma rm_open ts : Forall wf_ftok ts -> rm2 ob (render_ftoks ts) = render_ftoks (filter not_esc_o ts).
Proof.
  induction 1 as [|t ts Ht _ IH]; [reflexivity|]. unfold render_ftoks in *. cbn [map concat filter].
  destruct t as [c| | |i]; cbn [render_ftok not_esc_o app map concat].
  - rewrite rm2_ne by apply Ht. f_equal. exact IH.
  - rewrite rm2_pair. exact IH.
  - rewrite rm2_ne by exact cb_ne_ob. rewrite rm2_ne by exact cb_ne_ob. rewrite IH. reflexivity.
  - rewrite <- app_assoc. cbn [app].
    assert (H2 : rm2 ob (i ++ cb :: concat (map render_ftok ts)) = i ++ cb :: rm2 ob (concat (map render_ftok ts))).
    { rewrite rm2_skip. - rewrite rm2_ne by exact cb_ne_ob. reflexivity.
      - eapply Forall_impl; [|exact Ht]. intros a Ha; apply Ha. }
    destruct i as [|a i'].
    + cbn [app] in *. rewrite rm2_ne2 by exact cb_ne_ob. rewrite H2. rewrite IH. reflexivity.
    + cbn [app] in *. rewrite rm2_ne2 by (inversion Ht; subst; match goal with H : nobrace a |- _ => apply H end).
      rewrite H2, IH. rewrite <- app_assoc. reflexivity.
Qed.

Definition no_esc_o ts := Forall (fun t => not_esc_o t = true) ts.

Lemma rm_close ts : Forall wf_ftok ts -> no_esc_o ts ->
  rm2 cb (render_ftoks ts) = render_ftoks (filter not_esc_c ts) /\
  rm2 cb (cb :: render_ftoks ts) = cb :: render_ftoks (filter not_esc_c ts).
Proof.
  intros Hw Hn. induction Hw as [|t ts Ht Hw IH]; [split; reflexivity|].
  inversion Hn as [|? ? Hnt Hnts]; subst. specialize (IH Hnts) as [IHa IHb].
  unfold render_ftoks in *. cbn [map concat filter].
  destruct t as [c| | |i]; cbn [render_ftok not_esc_c app map concat]; try discriminate Hnt.
  - split.
    + rewrite rm2_ne by apply Ht. f_equal. exact IHa.
    + rewrite rm2_ne2 by apply Ht. rewrite rm2_ne by apply Ht. rewrite IHa. reflexivity.
  - split.
    + rewrite rm2_pair. exact IHa.
    + rewrite rm2_pair. exact IHb.
  - assert (H2 : rm2 cb (ob :: (i ++ [cb]) ++ concat (map render_ftok ts)) =
                 ob :: (i ++ [cb]) ++ concat (map render_ftok (filter not_esc_c ts))).
    { rewrite rm2_ne by exact ob_ne_cb. f_equal. rewrite <- !app_assoc. cbn [app].
      rewrite rm2_skip by (eapply Forall_impl; [|exact Ht]; intros a Ha; apply Ha).
      rewrite IHb. reflexivity. }
    split; [exact H2|]. rewrite rm2_ne2 by exact ob_ne_cb. rewrite H2. reflexivity.
Qed.

Definition plain_toks ts := Forall (fun t => not_esc_o t = true /\ not_esc_c t = true) ts.
Lemma scan_plain ts : Forall wf_ftok ts -> plain_toks ts -> forall acc,
  cap_scan (render_ftoks ts) None acc = inl (rev acc ++ ftok_args ts).
Proof.
  intros Hw Hp. induction Hw as [|t ts Ht Hw IH]; intro acc.
  - cbn. rewrite app_nil_r. reflexivity.
  - inversion Hp as [|? ? [Ho Hc] Hps]; subst. specialize (IH Hps).
    unfold render_ftoks in *. cbn [map concat ftok_args flat_map].
    destruct t as [c| | |i]; cbn [render_ftok app] in *; try discriminate.
    + cbn [cap_scan]. destruct Ht as [H1 H2].
      assert (Ascii.eqb c ob = false) as -> by (apply Ascii.eqb_neq; exact H1).
      assert (Ascii.eqb c cb = false) as -> by (apply Ascii.eqb_neq; exact H2).
      rewrite IH. reflexivity.
    + cbn [cap_scan]. rewrite Ascii.eqb_refl.
      assert (Hin : forall pre cur, Forall nobrace pre ->
                 cap_scan ((pre ++ [cb]) ++ concat (map render_ftok ts)) (Some cur) acc =
                 cap_scan (concat (map render_ftok ts)) None (name_of (rev cur ++ pre) :: acc)).
      { induction pre as [|a p IHp]; intros cur Hf.
        - cbn [app cap_scan]. assert (Ascii.eqb cb ob = false) as -> by reflexivity. rewrite Ascii.eqb_refl.
          rewrite app_nil_r. reflexivity.
        - inversion Hf as [|? ? [H1 H2] Hf']; subst. cbn [app cap_scan].
          assert (Ascii.eqb a ob = false) as -> by (apply Ascii.eqb_neq; exact H1).
          assert (Ascii.eqb a cb = false) as -> by (apply Ascii.eqb_neq; exact H2).
          rewrite IHp by exact Hf'. cbn [rev]. rewrite <- app_assoc. reflexivity. }
      rewrite Hin by exact Ht. rewrite IH. cbn [rev app]. rewrite <- app_assoc. reflexivity.
Qed.

Lemma args_filter ts : ftok_args (filter not_esc_c (filter not_esc_o ts)) = ftok_args ts.
Proof. induction ts as [|t ts IH]; [reflexivity|]. destruct t; cbn; try exact IH. f_equal. exact IH. Qed.

Lemma C17_capture_proof : stmt_C17_capture.
Proof.
  unfold stmt_C17_capture. intros ts Hw. unfold capture. rewrite rm_open by exact Hw.
  assert (Hw1 : Forall wf_ftok (filter not_esc_o ts)).
  { apply Forall_forall. intros t Ht. apply filter_In in Ht as [Ht _]. eapply Forall_forall in Hw; eauto. }
  assert (Hn1 : no_esc_o (filter not_esc_o ts)).
  { apply Forall_forall. intros t Ht. apply filter_In in Ht as [_ Ht]. exact Ht. }
  destruct (rm_close _ Hw1 Hn1) as [-> _].
  rewrite scan_plain.
  - cbn [rev app]. rewrite args_filter. reflexivity.
  - apply Forall_forall. intros t Ht. apply filter_In in Ht as [Ht _]. eapply Forall_forall in Hw1; eauto.
  - apply Forall_forall. intros t Ht. apply filter_In in Ht as [Ht Hc]. split; [|exact Hc].
    apply filter_In in Ht as [_ Ho]. exact Ho.
Qed.

Print Assumptions C03_longest_unique_proof.
Print Assumptions C03_canonical_proof.
Print Assumptions C03_display_proof.
Print Assumptions C03_as_ref_proof.
Print Assumptions C03_into_static_proof.
Print Assumptions C03_to_string_proof.
Print Assumptions C03_variant_names_proof.
Print Assumptions C17_fixed_proof.
Print Assumptions C17_pad_length_proof.
Print Assumptions C17_pad_identity_proof.
Print Assumptions C17_capture_proof.
Print Assumptions C17_named_binding_proof.
Print Assumptions C17_positional_binding_proof.
Print Assumptions C11_display_default_proof.
Print Assumptions C11_transparent_display_proof.
Print Assumptions C11_transparent_as_ref_proof.
Print Assumptions C11_transparent_into_static_proof.
Print Assumptions C02_preferred_in_spellings_proof.
