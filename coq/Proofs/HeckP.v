(* HeckP.v — C07 (case styles: heck's word splitter against its position-local specification, the
   separator/capitalisation shape of each style, the style-name table), C12 (ASCII case folding of
   strings) and C13 (snakify). *)
Require Import Strum.Spec.Statements Strum.Proofs.BytesP.
From Coq Require Import Lia.
Local Open Scope char_scope.
Local Open Scope list_scope.

(* ======================= byte facts ======================= *)
Lemma lower_not_upper c : is_lower c = true -> is_upper c = false.
Proof.
  assert (G : forall x, implb (is_lower x) (negb (is_upper x)) = true)
    by (apply forall1_ascii; vm_compute; reflexivity).
  intro H. specialize (G c). rewrite H in G. cbn in G. apply negb_true_iff in G. exact G.
Qed.
Lemma to_lower_to_upper c : to_lower (to_upper c) = to_lower c.
Proof.
  apply Ascii.eqb_eq. revert c. apply forall1_ascii. vm_compute. reflexivity.
Qed.
Lemma to_upper_to_lower c : to_upper (to_lower c) = to_upper c.
Proof.
  apply Ascii.eqb_eq. revert c. apply forall1_ascii. vm_compute. reflexivity.
Qed.
Lemma non_alpha_to_lower c : is_alpha c = false -> to_lower c = c.
Proof.
  assert (G : forall x, implb (negb (is_alpha x)) (Ascii.eqb (to_lower x) x) = true)
    by (apply forall1_ascii; vm_compute; reflexivity).
  intro H. specialize (G c). rewrite H in G. cbn in G. apply Ascii.eqb_eq. exact G.
Qed.
Lemma non_alpha_to_upper c : is_alpha c = false -> to_upper c = c.
Proof.
  assert (G : forall x, implb (negb (is_alpha x)) (Ascii.eqb (to_upper x) x) = true)
    by (apply forall1_ascii; vm_compute; reflexivity).
  intro H. specialize (G c). rewrite H in G. cbn in G. apply Ascii.eqb_eq. exact G.
Qed.
Lemma eq_ic_to_lower c : eq_ic (to_lower c) c = true.
Proof. revert c. apply forall1_ascii. vm_compute. reflexivity. Qed.
Lemma eq_ic_to_upper c : eq_ic (to_upper c) c = true.
Proof. revert c. apply forall1_ascii. vm_compute. reflexivity. Qed.

(* ======================= C07: seg_words = spec_seg_words ======================= *)
Definition lc_eqb (a b : lastcase) : bool :=
  match a, b with LCnone, LCnone | LClower, LClower | LCupper, LCupper => true | _, _ => false end.

(* intermediate: the algorithm with reset-free state *)
Fixpoint spec_after (w : str) (l : lastcase) (cur : str) : list str :=
  match w with
  | [] => []
  | c :: rest =>
    let l' := lc_upd l c in
    match rest with
    | [] => [rev (c :: cur)]
    | next :: _ =>
      if lc_eqb l' LClower && is_upper next then rev (c :: cur) :: spec_after rest l' []
      else if lc_eqb l LCupper && is_upper c && is_lower next then rev cur :: spec_after rest l' [c]
      else spec_after rest l' (c :: cur)
    end
  end.

Definition mode_of (l : lastcase) : mode :=
  match l with LCnone => MBoundary | LClower => MLower | LCupper => MUpper end.
Definition compat (m : mode) (l : lastcase) (c : ascii) : Prop :=
  m = mode_of l \/ (m = MBoundary /\ is_lower c = true) \/ (m = MBoundary /\ is_upper c = true /\ l = LClower).

Lemma seg_words_after : forall rest c m l cur,
  compat m l c -> seg_words (c :: rest) m cur = spec_after (c :: rest) l cur.
Proof.
  induction rest as [|next rest IH]; intros c m l cur Hc; [reflexivity|].
  cbn [seg_words spec_after].
  set (nm := if is_lower c then MLower else if is_upper c then MUpper else m).
  assert (Hnm : mode_eqb nm MLower = lc_eqb (lc_upd l c) LClower).
  { unfold nm, lc_upd. destruct (is_lower c) eqn:Hl; [reflexivity|].
    destruct (is_upper c) eqn:Hu; [reflexivity|].
    destruct Hc as [-> | [[_ H] | [_ [H _]]]]; try congruence. destruct l; reflexivity. }
  assert (Hr2 : mode_eqb m MUpper && is_upper c = lc_eqb l LCupper && is_upper c).
  { destruct Hc as [-> | [[-> H] | [-> [H ->]]]].
    - destruct l; reflexivity.
    - rewrite (lower_not_upper _ H), !andb_false_r. reflexivity.
    - reflexivity. }
  rewrite Hnm, Hr2.
  destruct (lc_eqb (lc_upd l c) LClower && is_upper next) eqn:R1.
  - f_equal. apply IH. right. right. apply andb_true_iff in R1 as [A B].
    repeat split; auto. destruct (lc_upd l c); cbn in A; congruence.
  - destruct (lc_eqb l LCupper && is_upper c && is_lower next) eqn:R2.
    + f_equal. apply IH. right. left. apply andb_true_iff in R2 as [_ B]. auto.
    + apply IH. left. unfold nm, lc_upd.
      destruct (is_lower c) eqn:Hl; [reflexivity|]. destruct (is_upper c) eqn:Hu; [reflexivity|].
      destruct Hc as [-> | [[_ H] | [_ [H _]]]]; congruence.
Qed.

Definition bnd2 (l : lastcase) (c : ascii) (next : option ascii) : bool :=
  is_upper c && lc_eqb l LCupper && match next with Some n => is_lower n | None => false end.
Definition spec_cut_first (w : str) (l : lastcase) (cur : str) : list str :=
  match w with
  | [] => [rev cur]
  | c :: rest => if bnd2 l c (hd_error rest) then rev cur :: spec_cut rest (lc_upd l c) [c]
                 else spec_cut rest (lc_upd l c) (c :: cur)
  end.

Lemma cut_first_eq : forall w l cur,
  (match w with c :: _ => lc_eqb l LClower && is_upper c = false | [] => True end) ->
  spec_cut_first w l cur = spec_cut w l cur.
Proof.
  intros [|c rest] l cur H; [reflexivity|]. cbn [spec_cut_first spec_cut].
  replace (bnd2 l c (hd_error rest)) with (boundary_before l c (hd_error rest)); [reflexivity|].
  unfold boundary_before, bnd2. destruct (is_upper c); [|reflexivity].
  destruct l; cbn in *; try congruence; try reflexivity.
Qed.

Lemma spec_after_cons2 c next rest l cur :
  spec_after (c :: next :: rest) l cur =
      if lc_eqb (lc_upd l c) LClower && is_upper next then rev (c :: cur) :: spec_after (next :: rest) (lc_upd l c) []
      else if lc_eqb l LCupper && is_upper c && is_lower next then rev cur :: spec_after (next :: rest) (lc_upd l c) [c]
      else spec_after (next :: rest) (lc_upd l c) (c :: cur).
Proof. reflexivity. Qed.

Lemma after_cut_first : forall rest c l cur,
  spec_after (c :: rest) l cur = spec_cut_first (c :: rest) l cur.
Proof.
  induction rest as [|next rest IH]; intros c l cur.
  - cbn. unfold bnd2. cbn. rewrite andb_false_r. reflexivity.
  - rewrite spec_after_cons2. cbn [spec_cut_first hd_error].
    destruct (lc_eqb (lc_upd l c) LClower && is_upper next) eqn:R1.
    + apply andb_true_iff in R1 as [A B].
      assert (bnd2 l c (Some next) = false) as ->.
      { unfold bnd2. destruct (is_lower next) eqn:Hl; [|apply andb_false_r].
        rewrite (lower_not_upper _ Hl) in B. discriminate. }
      cbn [spec_cut]. assert (boundary_before (lc_upd l c) next (hd_error rest) = true) as ->.
      { unfold boundary_before. rewrite B. destruct (lc_upd l c); cbn in A; try discriminate A; reflexivity. }
      f_equal. rewrite IH. cbn [spec_cut_first].
      assert (bnd2 (lc_upd l c) next (hd_error rest) = false) as ->; [|reflexivity].
      unfold bnd2. destruct (lc_upd l c); cbn in A; try discriminate A. cbn. rewrite andb_false_r. reflexivity.
    + destruct (lc_eqb l LCupper && is_upper c && is_lower next) eqn:R2.
      * assert (bnd2 l c (Some next) = true) as ->.
        { unfold bnd2. apply andb_true_iff in R2 as [R2 C]. apply andb_true_iff in R2 as [A B].
          rewrite A, B, C. reflexivity. }
        f_equal. rewrite IH. apply cut_first_eq.
        apply andb_true_iff in R2 as [_ C]. rewrite (lower_not_upper _ C). apply andb_false_r.
      * assert (bnd2 l c (Some next) = false) as ->.
        { unfold bnd2. rewrite <- R2. rewrite (andb_comm (is_upper c)). reflexivity. }
        rewrite IH. apply cut_first_eq. exact R1.
Qed.

Lemma C07_words_spec_proof : stmt_C07_words_spec.
Proof.
  unfold stmt_C07_words_spec. intros [|c rest]; [reflexivity|]. unfold spec_seg_words.
  rewrite (seg_words_after rest c MBoundary LCnone []); [|left; reflexivity].
  rewrite after_cut_first. apply cut_first_eq. reflexivity.
Qed.

Lemma heck_words_spec id : heck_words id = spec_words id.
Proof. unfold heck_words, spec_words. apply flat_map_ext. intro w. apply C07_words_spec_proof. Qed.

(* ======================= words are never empty ======================= *)
Lemma seg_words_cons2 c next rest m cur :
  seg_words (c :: next :: rest) m cur =
    let next_mode := if is_lower c then MLower else if is_upper c then MUpper else m in
    if mode_eqb next_mode MLower && is_upper next then rev (c :: cur) :: seg_words (next :: rest) MBoundary []
    else if mode_eqb m MUpper && is_upper c && is_lower next then rev cur :: seg_words (next :: rest) MBoundary [c]
    else seg_words (next :: rest) next_mode (c :: cur).
Proof. reflexivity. Qed.

Lemma seg_words_nonempty : forall w m cur, (cur = [] -> m = MBoundary) ->
  Forall (fun x => x <> []) (seg_words w m cur).
Proof.
  assert (NE : forall (c : ascii) cur, rev (c :: cur) <> []).
  { intros c cur E. apply (f_equal (@length ascii)) in E. rewrite rev_length in E. discriminate E. }
  induction w as [|c rest IH]; intros m cur Hinv; [constructor|].
  destruct rest as [|next rest'].
  - cbn [seg_words]. constructor; [apply NE|constructor].
  - rewrite seg_words_cons2. cbv zeta.
    destruct (mode_eqb (if is_lower c then MLower else if is_upper c then MUpper else m) MLower && is_upper next).
    + constructor; [apply NE|]. apply IH. reflexivity.
    + destruct (mode_eqb m MUpper && is_upper c && is_lower next) eqn:R2.
      * constructor; [|apply IH; discriminate].
        destruct cur as [|x cur']; [|apply NE].
        rewrite (Hinv eq_refl) in R2. discriminate R2.
      * apply IH. discriminate.
Qed.

Lemma heck_words_nonempty id : Forall (fun x => x <> []) (heck_words id).
Proof.
  unfold heck_words. induction (split_alnum id []) as [|seg segs IH]; cbn [flat_map]; [constructor|].
  apply Forall_app. split; [apply seg_words_nonempty; reflexivity|exact IH].
Qed.

(* ======================= join ======================= *)
Lemma join_cons2 sep w w' r : join sep (w :: w' :: r) = w ++ sep ++ join sep (w' :: r).
Proof. reflexivity. Qed.
Lemma join_nil_cons w r : join [] (w :: r) = w ++ join [] r.
Proof. destruct r as [|w' r]; [cbn; rewrite app_nil_r; reflexivity|reflexivity]. Qed.
Lemma map_join (f : ascii -> ascii) sep : forall l, map f (join sep l) = join (map f sep) (map (map f) l).
Proof.
  induction l as [|w r IH]; [reflexivity|].
  destruct r as [|w' r]; [reflexivity|].
  rewrite join_cons2. cbn [map]. rewrite join_cons2. rewrite !map_app. rewrite IH. reflexivity.
Qed.

(* ======================= C07: camelCase = mixed_case ======================= *)
Lemma C07_camel_is_mixed_proof : stmt_C07_camel_is_mixed.
Proof.
  unfold stmt_C07_camel_is_mixed. intro id.
  cbn [convert_case]. unfold to_upper_camel, to_lower_camel.
  pose proof (heck_words_nonempty id) as NE.
  destruct (heck_words id) as [|w rest]; [reflexivity|].
  cbn [map]. rewrite !join_nil_cons.
  inversion NE as [|? ? Hw _]; subst.
  destruct w as [|c r]; [congruence|].
  cbn [capitalize lowercase map app]. rewrite to_lower_to_upper. reflexivity.
Qed.

(* ======================= C07: shape of every style ======================= *)
Lemma first_rest_same (g : str -> str) (l : list str) :
  match l with [] => [] | w :: r => g w :: map g r end = map g l.
Proof. destruct l; reflexivity. Qed.

Lemma styled_same sep wc id : styled sep wc wc id = join sep (map (apply_case wc) (heck_words id)).
Proof. unfold styled. rewrite first_rest_same, heck_words_spec. reflexivity. Qed.

Lemma C07_style_proof : stmt_C07_style.
Proof.
  unfold stmt_C07_style. intros st id.
  destruct st; cbn [style_shape]; try rewrite styled_same; try reflexivity.
  - (* CamelCase *)
    rewrite C07_camel_is_mixed_proof. cbn [convert_case]. unfold to_lower_camel, styled.
    rewrite heck_words_spec. reflexivity.
  - (* MixedCase *)
    cbn [convert_case]. unfold to_lower_camel, styled. rewrite heck_words_spec. reflexivity.
  - (* ScreamingKebabCase *)
    cbn [convert_case apply_case]. unfold to_kebab, uppercase. rewrite map_join, map_map.
    cbn [map]. replace (to_upper "-") with "-" by (vm_compute; reflexivity).
    f_equal. apply map_ext. intro w. unfold lowercase. rewrite map_map.
    apply map_ext. intro c. apply to_upper_to_lower.
Qed.

(* ======================= C07: table, lower/upper ======================= *)
Lemma C07_table_proof : stmt_C07_table.
Proof. unfold stmt_C07_table. vm_compute. reflexivity. Qed.

Lemma C07_lower_upper_proof : stmt_C07_lower_upper.
Proof.
  unfold stmt_C07_lower_upper. intro id. cbn [convert_case]. unfold lowercase, uppercase.
  rewrite !map_length. split; [reflexivity|]. split; [reflexivity|].
  intros i c Hi. split; [apply map_nth_error; exact Hi|]. split; [apply map_nth_error; exact Hi|].
  split; [intro Ha; split; [apply non_alpha_to_lower|apply non_alpha_to_upper]; exact Ha|].
  split; [apply eq_ic_to_lower|apply eq_ic_to_upper].
Qed.

(* ======================= C07: uniform / explicit names ======================= *)
Lemma C07_uniform_proof : stmt_C07_uniform.
Proof.
  unfold stmt_C07_uniform. intros st pf p Hs Ht.
  unfold preferred_name, serializations, ident_as_str. rewrite Hs, Ht. cbn. split; reflexivity.
Qed.

Definition mbl_step (acc : option str) (s : str) : option str :=
  match acc with
  | None => Some s
  | Some a => if (length s <? length a)%nat then Some a else Some s
  end.
Lemma max_by_len_step_some : forall l a, exists b, fold_left mbl_step l (Some a) = Some b.
Proof.
  induction l as [|x l IH]; intro a; cbn [fold_left]; [exists a; reflexivity|].
  unfold mbl_step at 2. destruct (length x <? length a)%nat; apply IH.
Qed.
Lemma max_by_len_none l : max_by_len l = None -> l = [].
Proof.
  destruct l as [|x l]; [reflexivity|]. intro H.
  change (fold_left mbl_step l (Some x) = None) in H.
  destruct (max_by_len_step_some l x) as [b Hb]. rewrite Hb in H. discriminate H.
Qed.

Lemma C07_explicit_not_recased_proof : stmt_C07_explicit_not_recased.
Proof.
  unfold stmt_C07_explicit_not_recased. intros st st' pf p H.
  unfold preferred_name, serializations.
  destruct (vp_to_string p) as [t|] eqn:Et.
  - split; [reflexivity|].
    destruct (vp_serialize p) as [|x l]; reflexivity.
  - destruct H as [H|H]; [|congruence].
    destruct (max_by_len (vp_serialize p)) as [m|] eqn:Em.
    + split; [reflexivity|]. destruct (vp_serialize p) as [|x l]; [congruence|reflexivity].
    + apply max_by_len_none in Em. contradiction.
Qed.

(* ======================= C12 ======================= *)
Lemma C12_str_fold_proof : stmt_C12_str_fold.
Proof. unfold stmt_C12_str_fold. intros s l. apply eq_ic_str_spec. Qed.

Lemma C12_non_ascii_exact_proof : stmt_C12_non_ascii_exact.
Proof.
  unfold stmt_C12_non_ascii_exact.
  induction s as [|x s IH]; intros [|y l] H i a Hi Ha; cbn [eq_ic_str] in H; try discriminate H.
  - destruct i; discriminate Hi.
  - apply andb_true_iff in H as [H1 H2]. destruct i as [|i]; cbn [nth_error] in *.
    + injection Hi as ->. apply (eq_ic_non_ascii _ _ Ha) in H1. subst. reflexivity.
    + eapply IH; eassumption.
Qed.

(* ======================= C13 ======================= *)
Lemma C13_snakify_digits_proof : stmt_C13_snakify_digits.
Proof. unfold stmt_C13_snakify_digits. intro id. reflexivity. Qed.

Print Assumptions C07_words_spec_proof.
Print Assumptions C07_style_proof.
Print Assumptions C07_camel_is_mixed_proof.
Print Assumptions C07_table_proof.
Print Assumptions C07_lower_upper_proof.
Print Assumptions C07_uniform_proof.
Print Assumptions C07_explicit_not_recased_proof.
Print Assumptions C12_str_fold_proof.
Print Assumptions C12_non_ascii_exact_proof.
Print Assumptions C13_snakify_digits_proof.
