(* RoundtripP.v — C02 (what Display / AsRefStr / IntoStaticStr / ToString / get_serializations print parses
   back to the same variant) and C16 (use_phf: accepted whenever the plain derive is, keys pairwise distinct,
   observationally equivalent on every input, with or without NonOverlap). *)
Require Import Strum.Spec.Statements Strum.Proofs.BytesP Strum.Proofs.FromStrP Strum.Proofs.DisplayP
               Strum.Proofs.MiscP.
From Coq Require Import Lia.
Local Open Scope list_scope.

(* ------------------------------------------------------------------ *)
(* a string that matches an eligible variant parses to that variant    *)
(* ------------------------------------------------------------------ *)
Lemma match_roundtrip it c tp i v p s :
  gen_from_str it = Ok c -> tprops_of it = Ok tp -> non_overlap_b it = true ->
  variant_at it i v p -> eligible_b p = true -> matches_b tp p s = true ->
  exists ps, run_from_str c s = OVariant i ps /\ fs_params p (v_fields v) = Ok ps.
Proof.
  intros G T NO Hv El Mt.
  pose proof (gen_facts_of it c tp G T) as [FA FP FS FK FF FE].
  destruct Hv as [Hn Hp]. destruct (FS i v p Hn Hp El) as (ps & P). exists ps. split; [|exact P].
  apply (C01_sound_complete_proof it c tp G T NO s i ps). exists v, p.
  split; [split; assumption|]. split; [exact El|]. split; [exact Mt|exact P].
Qed.

Lemma self_matches tp p s : In s (vspell tp p) -> matches_b tp p s = true.
Proof. intro H. eapply matches_b_intro; [exact H|apply lit_matches_refl]. Qed.

Lemma preferred_matches tp p : tp_prefix tp = None ->
  matches_b tp p (preferred_name (tp_style tp) (tp_prefix tp) p) = true.
Proof.
  intro H. rewrite H. apply self_matches. unfold vspell.
  exact (C02_preferred_in_spellings_proof (tp_style tp) p).
Qed.

Lemma roundtrip_pref it c tp i v p name : roundtrip_hyps it c tp i v p ->
  name = preferred_name (tp_style tp) (tp_prefix tp) p ->
  exists ps, run_from_str c name = OVariant i ps /\ fs_params p (v_fields v) = Ok ps.
Proof.
  intros (G & T & NO & Pf & Hv & El) ->.
  apply (match_roundtrip it c tp i v p _ G T NO Hv El). apply preferred_matches. exact Pf.
Qed.

(* ------------------------------------------------------------------ *)
(* the only arms that print a fixed string print the preferred name    *)
(* ------------------------------------------------------------------ *)
Lemma display_arm_DStr tp v p lit : display_arm tp v p = Ok (DStr lit) ->
  lit = preferred_name (tp_style tp) (tp_prefix tp) p.
Proof.
  unfold display_arm. cbv zeta. destruct (vp_transparent p).
  - destruct (single_field (v_fields v)); discriminate.
  - destruct (negb (is_some (vp_to_string p)) && vp_default p).
    + destruct (single_field (v_fields v)); discriminate.
    + destruct (v_fields v) as [|fs|fs]; unfold bind.
      * destruct (capture (preferred_name (tp_style tp) (tp_prefix tp) p)) as [[|u us]| |]; try discriminate.
        intros [= <-]. reflexivity.
      * destruct (capture (preferred_name (tp_style tp) (tp_prefix tp) p)) as [used| |]; try discriminate.
        match goal with |- context [existsb ?f used] => destruct (existsb f used) end; try discriminate.
        destruct used; try discriminate.
        intros [= <-]. reflexivity.
      * destruct (capture_idents (preferred_name (tp_style tp) (tp_prefix tp) p)) as [[|u us]| |]; try discriminate.
        intros [= <-]. reflexivity.
Qed.

Lemma asref_arm_AStr tp v p lit : asref_arm tp v p = Ok (AStr lit) ->
  lit = preferred_name (tp_style tp) (tp_prefix tp) p.
Proof.
  unfold asref_arm. destruct (vp_transparent p).
  - destruct (single_field (v_fields v)); discriminate.
  - intros [= <-]. reflexivity.
Qed.

Lemma tostring_arm_TStr tp v p lit : tostring_arm tp v p = Ok (TStr lit) ->
  lit = preferred_name (tp_style tp) (tp_prefix tp) p.
Proof.
  unfold tostring_arm. destruct (negb (is_some (vp_to_string p)) && vp_default p).
  - destruct (v_fields v) as [|[|f [|g r]]|fs]; discriminate.
  - intros [= <-]. reflexivity.
Qed.

(* ======================= C02 ======================= *)
Lemma C02_roundtrip_display_proof : stmt_C02_roundtrip_display.
Proof.
  unfold stmt_C02_roundtrip_display. intros it c d tp i v p name RH Hg Hr.
  pose proof RH as (G & T & NO & Pf & Hv & El).
  destruct (eligible_inv _ El) as (Hd & _).
  destruct (gen_display_arm it d tp i v p Hg T Hv Hd) as (b & Hb & Hm).
  unfold run_display in Hr. rewrite Hm in Hr. destruct b as [lit|sg|lit bd|lit n]; try discriminate.
  injection Hr as <-. apply display_arm_DStr in Hb.
  apply (roundtrip_pref it c tp i v p _ RH). exact Hb.
Qed.

Lemma roundtrip_as_ref it c a tp i v p name : roundtrip_hyps it c tp i v p -> gen_as_ref it = Ok a ->
  run_as_ref a i = AOutStr name ->
  exists ps, run_from_str c name = OVariant i ps /\ fs_params p (v_fields v) = Ok ps.
Proof.
  intros RH Hg Hr. pose proof RH as (G & T & NO & Pf & Hv & El).
  destruct (eligible_inv _ El) as (Hd & _).
  destruct (gen_as_ref_arm it a tp i v p Hg T Hv Hd) as (b & Hb & Hm).
  unfold run_as_ref in Hr. rewrite Hm in Hr. destruct b as [lit|sg]; try discriminate.
  injection Hr as <-. apply asref_arm_AStr in Hb.
  apply (roundtrip_pref it c tp i v p _ RH). exact Hb.
Qed.

Lemma C02_roundtrip_as_ref_proof : stmt_C02_roundtrip_as_ref.
Proof. unfold stmt_C02_roundtrip_as_ref. intros. eapply roundtrip_as_ref; eassumption. Qed.

Lemma C02_roundtrip_into_static_proof : stmt_C02_roundtrip_into_static.
Proof.
  unfold stmt_C02_roundtrip_into_static. intros it c a tp i v p name RH Hg Hr.
  destruct (gen_into_static_inv it a Hg) as (tp' & Ha & _ & _).
  exact (roundtrip_as_ref it c (is_arms a) tp i v p name RH Ha Hr).
Qed.

Lemma C02_roundtrip_to_string_proof : stmt_C02_roundtrip_to_string.
Proof.
  unfold stmt_C02_roundtrip_to_string. intros it c t tp i v p name RH Hg Hr.
  pose proof RH as (G & T & NO & Pf & Hv & El).
  destruct (eligible_inv _ El) as (Hd & _).
  destruct (gen_to_string_arm it t tp i v p Hg T Hv Hd) as (b & Hb & Hm).
  rewrite Hm in Hr. injection Hr as ->. apply tostring_arm_TStr in Hb.
  apply (roundtrip_pref it c tp i v p _ RH). exact Hb.
Qed.

Lemma C02_serializations_proof : stmt_C02_serializations.
Proof.
  unfold stmt_C02_serializations. intros it c m tp i v p l G T NO Hv El Hm Hr.
  rewrite (C14_serializations_proof it m tp i v p Hm T Hv) in Hr. injection Hr as <-.
  split; [reflexivity|]. intros s Hs.
  apply (match_roundtrip it c tp i v p s G T NO Hv El). apply self_matches. exact Hs.
Qed.

(* ======================= C16: keys pairwise distinct ======================= *)
Definition phf_inv (st : fs_state) : Prop := keys_ok st /\ NoDup (map fst (st_phf st)).

Lemma NoDup_snoc {A} (l : list A) x : NoDup l -> ~ In x l -> NoDup (l ++ [x]).
Proof.
  induction 1 as [|a r Ha Hr IH]; intro Hx; cbn [app].
  - constructor; [intros []|constructor].
  - constructor.
    + rewrite in_app_iff. intros [H|[H|[]]]; [exact (Ha H)|]. apply Hx. left. symmetry. exact H.
    + apply IH. intro H. apply Hx. right. exact H.
Qed.

Lemma add_key_inv k tgt st : phf_inv st -> phf_inv (fs_add_key k tgt st).
Proof.
  intros [OK ND]. unfold fs_add_key. destruct (shadowed k st); cbn [orb]; [split; assumption|].
  destruct (mem_str k (st_keys st)) eqn:M; [split; assumption|].
  split.
  - intro k'. cbn [st_keys st_phf]. rewrite map_app, in_app_iff. cbn. rewrite <- (OK k'). tauto.
  - cbn [st_phf]. rewrite map_app. cbn [map fst]. apply NoDup_snoc; [exact ND|].
    intro H. apply OK in H. apply mem_str_In in H. congruence.
Qed.

Lemma add_arm_inv a st : phf_inv st -> phf_inv (fs_add_arm a st).
Proof. intros [OK ND]. split; [exact OK|exact ND]. Qed.

Lemma add_ci_inv l st : phf_inv st -> phf_inv (fs_add_ci l st).
Proof. intros [OK ND]. split; [exact OK|exact ND]. Qed.

Lemma ser_inv u ci idx ps st lit : phf_inv st -> phf_inv (fs_serialization u ci idx ps st lit).
Proof.
  intro H. unfold fs_serialization. destruct u; [|apply add_arm_inv; exact H].
  cbv zeta. destruct ci; [|apply add_key_inv; exact H].
  apply add_arm_inv. apply add_ci_inv. apply add_key_inv. apply add_key_inv. apply add_key_inv. exact H.
Qed.

Lemma ser_fold_inv u ci idx ps lits : forall st, phf_inv st -> phf_inv (fold_left (fs_serialization u ci idx ps) lits st).
Proof.
  induction lits as [|l r IH]; intros st H; cbn [fold_left]; [exact H|]. apply IH. apply ser_inv. exact H.
Qed.

Lemma fs_loop_inv tp : forall vs st idx st', fs_loop tp st idx vs = Ok st' -> phf_inv st -> phf_inv st'.
Proof.
  induction vs as [|v r IH]; intros st idx st' H I; cbn [fs_loop] in H.
  - inversion H; subst. exact I.
  - unfold bind in H. destruct (fs_variant tp st idx v) as [st1| |] eqn:Hv; try discriminate.
    apply (IH _ _ _ H).
    destruct (fs_variant_shape _ _ _ _ _ Hv) as (p & Hp & [(D & ->) | [(D & Df & Sn & sg & SF & ->) | (El & ps & P & ->)]]).
    + exact I.
    + exact I.
    + apply ser_fold_inv. exact I.
Qed.

Lemma C16_keys_distinct_proof : stmt_C16_keys_distinct.
Proof.
  unfold stmt_C16_keys_distinct. intros it c G.
  destruct (gen_char it c G) as (tp & st0 & st & T & I & Sn & K0 & P0 & A0 & C0 & L & Ep & _).
  rewrite Ep. apply (fs_loop_inv tp _ _ _ _ L). split.
  - intro k. rewrite K0, P0. cbn. tauto.
  - rewrite P0. constructor.
Qed.

(* ======================= C16: adding use_phf ======================= *)
Definition set_phf (p : tprops) : tprops :=
  {| tp_err_ty := tp_err_ty p; tp_err_fn := tp_err_fn p; tp_style := tp_style p; tp_aci := tp_aci p;
     tp_crate := tp_crate p; tp_phf := true; tp_prefix := tp_prefix p;
     tp_const_into_str := tp_const_into_str p; tp_dderives := tp_dderives p; tp_dname := tp_dname p;
     tp_dvis := tp_dvis p; tp_ddocs := tp_ddocs p; tp_dothers := tp_dothers p; tp_repr := tp_repr p |}.

Lemma foldM_app {A B} (f : A -> B -> res A) l1 l2 : forall a,
  foldM f a (l1 ++ l2) = bind (foldM f a l1) (fun a' => foldM f a' l2).
Proof.
  induction l1 as [|b r IH]; intro a; cbn [foldM app bind]; [reflexivity|].
  destruct (f a b) as [a1| |]; cbn [bind]; [apply IH|reflexivity|reflexivity].
Qed.

Definition is_phf (m : emeta) : bool := match m with EUsePhf => true | _ => false end.

Lemma tp_step_phf p m q : tp_step p m = Ok q -> tp_phf q = tp_phf p || is_phf m.
Proof.
  destruct m; cbn [tp_step is_phf];
    repeat match goal with |- context [if ?b then _ else _] => destruct b eqn:? end;
    try (destruct (style_of_string style)); intro H; inversion H; cbn [tp_phf];
    rewrite ?orb_false_r; reflexivity.
Qed.

Lemma foldM_tp_phf : forall ms p0 p, foldM tp_step p0 ms = Ok p -> tp_phf p = tp_phf p0 || existsb is_phf ms.
Proof.
  induction ms as [|m r IH]; intros p0 p H; cbn [foldM existsb] in *.
  - inversion H. rewrite orb_false_r. reflexivity.
  - apply bind_ok in H as (p1 & H1 & H). rewrite (IH _ _ H), (tp_step_phf _ _ _ H1), orb_assoc. reflexivity.
Qed.

Lemma td_step_set_phf p m q : td_step p m = Ok q -> td_step (set_phf p) m = Ok (set_phf q).
Proof.
  destruct m; cbn [td_step set_phf tp_dname tp_dvis];
    repeat match goal with |- context [if ?b then _ else _] => destruct b eqn:? end;
    intro H; inversion H; reflexivity.
Qed.

Lemma foldM_td_set_phf : forall ds p q, foldM td_step p ds = Ok q -> foldM td_step (set_phf p) ds = Ok (set_phf q).
Proof.
  induction ds as [|m r IH]; intros p q H; cbn [foldM] in *.
  - inversion H. reflexivity.
  - apply bind_ok in H as (p1 & H1 & H). rewrite (td_step_set_phf _ _ _ H1). cbn [bind]. apply IH. exact H.
Qed.

Lemma tprops_with_phf it tp : has_phf it = false -> tprops_of it = Ok tp ->
  tprops_of (with_phf it) = Ok (set_phf tp).
Proof.
  unfold tprops_of, has_phf. intros HP H. cbn [with_phf i_metas i_dmetas i_repr].
  rewrite forallb_app. cbn [forallb emeta_parse_ok]. rewrite andb_true_r.
  destruct (negb (forallb emeta_parse_ok (i_metas it))); [discriminate|].
  apply bind_ok in H as (p & Hp & Hd).
  rewrite foldM_app, Hp. cbn [bind foldM tp_step].
  pose proof (foldM_tp_phf _ _ _ Hp) as F. cbn [tp_init tp_phf orb] in F.
  change (existsb is_phf (i_metas it)) with
    (existsb (fun m => match m with EUsePhf => true | _ => false end) (i_metas it)) in F.
  rewrite HP in F. rewrite F. cbn [bind].
  apply (foldM_td_set_phf _ _ _ Hd).
Qed.

(* success of the variant loop depends neither on the type properties nor on the phf / arm part of the state *)
Lemma ser_fold_seen u ci idx ps lits st :
  st_default_seen (fold_left (fs_serialization u ci idx ps) lits st) = st_default_seen st.
Proof. destruct (ser_fold u ci idx ps lits st) as (_ & _ & _ & F & _). exact F. Qed.

Lemma fs_variant_indep tp tp' st st' idx v st1 :
  st_default_seen st' = st_default_seen st -> fs_variant tp st idx v = Ok st1 ->
  exists st1', fs_variant tp' st' idx v = Ok st1' /\ st_default_seen st1' = st_default_seen st1.
Proof.
  intros Sn H. unfold fs_variant, bind in *.
  destruct (vprops_of v) as [p| |]; try discriminate.
  destruct (vp_disabled p).
  { inversion H; subst. eexists. split; [reflexivity|exact Sn]. }
  destruct (vp_default p).
  - rewrite Sn. destruct (st_default_seen st); [discriminate|].
    destruct (single_field (v_fields v)) as [[r|n r]|]; try discriminate;
      inversion H; subst; eexists; (split; [reflexivity|reflexivity]).
  - destruct (fs_params p (v_fields v)) as [ps| |]; try discriminate. inversion H; subst.
    eexists. split; [reflexivity|]. rewrite !ser_fold_seen. exact Sn.
Qed.

Lemma fs_loop_indep tp tp' : forall vs st st' idx r,
  st_default_seen st' = st_default_seen st -> fs_loop tp st idx vs = Ok r ->
  exists r', fs_loop tp' st' idx vs = Ok r'.
Proof.
  induction vs as [|v vs IH]; intros st st' idx r Sn H; cbn [fs_loop] in *.
  - eexists. reflexivity.
  - unfold bind in *. destruct (fs_variant tp st idx v) as [st1| |] eqn:Hv; try discriminate.
    destruct (fs_variant_indep tp tp' st st' idx v st1 Sn Hv) as (st1' & Hv' & Sn').
    rewrite Hv'. eapply IH; eassumption.
Qed.

Lemma C16_accepts_proof : stmt_C16_accepts.
Proof.
  unfold stmt_C16_accepts. intros it c HP G.
  destruct (gen_char it c G) as (tp & _ & _ & T & _).
  pose proof (tprops_with_phf it tp HP T) as T'.
  unfold gen_from_str in G |- *. rewrite T'. rewrite T in G.
  unfold enum_variants in *. cbn [with_phf i_kind i_variants].
  destruct (i_kind it); try discriminate. cbn [bind] in *.
  change (tp_err_ty (set_phf tp)) with (tp_err_ty tp). change (tp_err_fn (set_phf tp)) with (tp_err_fn tp).
  destruct (tp_err_ty tp) as [t|], (tp_err_fn tp) as [f|]; cbn [bind] in *; try discriminate.
  - match type of G with context [fs_loop tp ?s 0 ?vs] =>
      destruct (fs_loop tp s 0 vs) as [st| |] eqn:L; try discriminate;
      destruct (fs_loop_indep tp (set_phf tp) vs s s 0 st eq_refl L) as (r' & L') end.
    rewrite L'. cbn [bind]. eexists. reflexivity.
  - match type of G with context [fs_loop tp ?s 0 ?vs] =>
      destruct (fs_loop tp s 0 vs) as [st| |] eqn:L; try discriminate;
      destruct (fs_loop_indep tp (set_phf tp) vs s s 0 st eq_refl L) as (r' & L') end.
    rewrite L'. cbn [bind]. eexists. reflexivity.
Qed.

(* ======================= C16: observational equivalence ======================= *)
Lemma no_clash_with_set_phf tp p : forall l, no_clash_with (set_phf tp) p l = no_clash_with tp p l.
Proof. induction l as [|q r IH]; cbn [no_clash_with]; [reflexivity|]. rewrite IH. reflexivity. Qed.

Lemma non_overlap_list_set_phf tp : forall l, non_overlap_list (set_phf tp) l = non_overlap_list tp l.
Proof.
  induction l as [|q r IH]; cbn [non_overlap_list]; [reflexivity|].
  rewrite IH, no_clash_with_set_phf. reflexivity.
Qed.

Lemma non_overlap_with_phf it tp : has_phf it = false -> tprops_of it = Ok tp ->
  non_overlap_b (with_phf it) = non_overlap_b it.
Proof.
  intros HP T. unfold non_overlap_b. rewrite (tprops_with_phf it tp HP T), T.
  unfold all_vprops. cbn [with_phf i_variants].
  destruct (mapM vprops_of (i_variants it)); [apply non_overlap_list_set_phf|reflexivity|reflexivity].
Qed.

(* without the use_phf item the flag is off *)
Lemma td_step_phf p m q : td_step p m = Ok q -> tp_phf q = tp_phf p.
Proof.
  destruct m; cbn [td_step];
    repeat match goal with |- context [if ?b then _ else _] => destruct b eqn:? end;
    intro H; inversion H; reflexivity.
Qed.

Lemma foldM_td_phf : forall ds p q, foldM td_step p ds = Ok q -> tp_phf q = tp_phf p.
Proof.
  induction ds as [|m r IH]; intros p q H; cbn [foldM] in *.
  - inversion H. reflexivity.
  - apply bind_ok in H as (p1 & H1 & H). rewrite (IH _ _ H). exact (td_step_phf _ _ _ H1).
Qed.

Lemma tprops_phf_false it tp : has_phf it = false -> tprops_of it = Ok tp -> tp_phf tp = false.
Proof.
  unfold tprops_of, has_phf. intros HP H.
  destruct (negb (forallb emeta_parse_ok (i_metas it))); [discriminate|].
  apply bind_ok in H as (p & Hp & Hd).
  pose proof (foldM_tp_phf _ _ _ Hp) as F. cbn [tp_init tp_phf orb] in F.
  change (existsb is_phf (i_metas it)) with
    (existsb (fun m => match m with EUsePhf => true | _ => false end) (i_metas it)) in F.
  rewrite HP in F. rewrite (foldM_td_phf _ _ _ Hd). exact F.
Qed.

(* ---- the phf state against the arm list L of the plain `match` built from the same prefix ----
   L : the plain arms emitted so far; P : plain arms whose keys are being offered (not yet in L).  *)
Definition is_guard (a : fs_arm) : bool := match a with ArmGuard _ _ _ => true | ArmExact _ _ _ => false end.
Definition arm_lit (a : fs_arm) : str := match a with ArmExact l _ _ | ArmGuard l _ _ => l end.

Record sim (L P : list fs_arm) (st : fs_state) : Prop := {
  (* the phf match keeps exactly the guard arms, in order *)
  s_arms : st_arms st = filter is_guard L;
  s_ci : st_ci st = map arm_lit (filter is_guard L);
  (* the map answers a key as the plain match does *)
  s_sound : forall k tgt, In (k, tgt) (st_phf st) ->
            exists a, find (arm_matches k) (L ++ P) = Some a /\ arm_target a = tgt;
  (* an input whose first plain match is an exact arm is a key *)
  s_compl : forall s a, find (arm_matches s) L = Some a -> is_guard a = false -> In s (st_keys st);
  s_keys : keys_ok st
}.

Lemma find_filter {A} (f g : A -> bool) : forall l,
  (forall a, find f l = Some a -> g a = true) -> find f (filter g l) = find f l.
Proof.
  induction l as [|x r IH]; intro H; cbn [filter find]; [reflexivity|].
  cbn [find] in H. destruct (f x) eqn:Fx.
  - rewrite (H x eq_refl). cbn [find]. rewrite Fx. reflexivity.
  - destruct (g x); cbn [find]; rewrite ?Fx; apply IH; exact H.
Qed.

Lemma shadowed_find L P st k : sim L P st -> shadowed k st = true ->
  exists a, find (arm_matches k) L = Some a.
Proof.
  intros Sm H. unfold shadowed in H. apply existsb_exists in H as (c & Hc & M).
  rewrite (s_ci _ _ _ Sm) in Hc. apply in_map_iff in Hc as (a & <- & Ha). apply filter_In in Ha as [Ha G].
  destruct (find (arm_matches k) L) as [b|] eqn:F; [eauto|].
  exfalso. pose proof (find_none _ _ F a Ha) as N. destruct a as [l j ps|l j ps]; [discriminate|].
  cbn [arm_matches arm_lit] in *. rewrite eq_ic_str_sym in N. congruence.
Qed.

Lemma fresh_find L P st k : sim L P st -> shadowed k st = false -> mem_str k (st_keys st) = false ->
  find (arm_matches k) L = None.
Proof.
  intros Sm Sh M. destruct (find (arm_matches k) L) as [a|] eqn:F; [exfalso|reflexivity].
  destruct (is_guard a) eqn:G.
  - apply find_some in F as [Ia Ma]. destruct a as [l j ps|l j ps]; [discriminate|]. cbn [arm_matches] in Ma.
    assert (X : shadowed k st = true); [|congruence].
    unfold shadowed. apply existsb_exists. exists l. split; [|rewrite eq_ic_str_sym; exact Ma].
    rewrite (s_ci _ _ _ Sm). apply in_map_iff. exists (ArmGuard l j ps). split; [reflexivity|].
    apply filter_In. split; [exact Ia|reflexivity].
  - pose proof (s_compl _ _ _ Sm k a F G) as I. apply mem_str_In in I. congruence.
Qed.

Lemma add_key_sim L P st k tgt a0 : find (arm_matches k) P = Some a0 -> arm_target a0 = tgt ->
  sim L P st -> sim L P (fs_add_key k tgt st).
Proof.
  intros FP TP Sm. unfold fs_add_key. destruct (shadowed k st) eqn:Sh; cbn [orb]; [exact Sm|].
  destruct (mem_str k (st_keys st)) eqn:M; [exact Sm|].
  pose proof Sm as [SA SC SS SK SO]. constructor; cbn [st_arms st_ci st_phf st_keys].
  - exact SA.
  - exact SC.
  - intros k' t' H. apply in_app_iff in H as [H|[H|[]]]; [exact (SS _ _ H)|]. inversion H; subst k' t'.
    exists a0. split; [|exact TP]. rewrite find_app_none; [exact FP|].
    exact (fresh_find L P st k Sm Sh M).
  - intros s a F G. right. exact (SK s a F G).
  - intro k'. cbn [st_keys st_phf]. rewrite map_app, in_app_iff. cbn. rewrite <- (SO k'). tauto.
Qed.

Lemma sim_pend L P st : sim L [] st -> sim L P st.
Proof.
  intros [SA SC SS SK SO]. constructor; auto. intros k t H. destruct (SS k t H) as (a & F & T).
  exists a. split; [|exact T]. rewrite app_nil_r in F. apply find_app_some. exact F.
Qed.

Lemma commit_exact L st lit idx ps : sim L [ArmExact lit idx ps] st -> covered lit st ->
  sim (L ++ [ArmExact lit idx ps]) [] st.
Proof.
  intros Sm C. pose proof Sm as [SA SC SS SK SO]. constructor; auto.
  - rewrite filter_app. cbn [filter is_guard]. rewrite app_nil_r. exact SA.
  - rewrite filter_app. cbn [filter is_guard]. rewrite app_nil_r. exact SC.
  - intros k t H. rewrite app_nil_r. exact (SS k t H).
  - intros s a F G. destruct (find (arm_matches s) L) as [b|] eqn:FL.
    + rewrite (find_app_some _ _ _ _ FL) in F. inversion F; subst b. exact (SK s a FL G).
    + rewrite (find_app_none _ _ _ FL) in F. cbn [find arm_matches] in F.
      destruct (str_eqb s lit) eqn:E; [|discriminate].
      apply str_eqb_spec in E. subst s. destruct C as [C|C]; [exact C|].
      destruct (shadowed_find _ _ _ _ Sm C) as (b & Fb). congruence.
Qed.

Lemma commit_guard L st lit idx ps : sim L [ArmGuard lit idx ps] st ->
  sim (L ++ [ArmGuard lit idx ps]) [] (fs_add_arm (ArmGuard lit idx ps) (fs_add_ci lit st)).
Proof.
  intros [SA SC SS SK SO]. unfold fs_add_arm, fs_add_ci. constructor; cbn [st_arms st_ci st_phf st_keys].
  - rewrite filter_app. cbn [filter is_guard]. rewrite SA. reflexivity.
  - rewrite filter_app, map_app. cbn [filter is_guard map arm_lit]. rewrite SC. reflexivity.
  - intros k t H. rewrite app_nil_r. exact (SS k t H).
  - intros s a F G. destruct (find (arm_matches s) L) as [b|] eqn:FL.
    + rewrite (find_app_some _ _ _ _ FL) in F. inversion F; subst b. exact (SK s a FL G).
    + rewrite (find_app_none _ _ _ FL) in F. cbn [find] in F.
      destruct (arm_matches s (ArmGuard lit idx ps)); [|discriminate]. inversion F; subst a. discriminate.
  - exact SO.
Qed.

Lemma ser_sim L ci idx ps st lit : sim L [] st ->
  sim (L ++ arm_of false ci idx ps lit) [] (fs_serialization true ci idx ps st lit).
Proof.
  intro Sm. unfold fs_serialization, arm_of. destruct ci; cbv beta iota zeta.
  - apply commit_guard.
    apply (add_key_sim _ _ _ _ _ (ArmGuard lit idx ps));
      [cbn [find arm_matches]; rewrite eq_ic_upper_str; reflexivity|reflexivity|].
    apply (add_key_sim _ _ _ _ _ (ArmGuard lit idx ps));
      [cbn [find arm_matches]; rewrite eq_ic_lower_str; reflexivity|reflexivity|].
    apply (add_key_sim _ _ _ _ _ (ArmGuard lit idx ps));
      [cbn [find arm_matches]; rewrite eq_ic_str_refl; reflexivity|reflexivity|].
    apply sim_pend. exact Sm.
  - apply commit_exact.
    + apply (add_key_sim _ _ _ _ _ (ArmExact lit idx ps));
        [cbn [find arm_matches]; rewrite str_eqb_refl; reflexivity|reflexivity|].
      apply sim_pend. exact Sm.
    + apply add_key_props.
Qed.

Lemma ser_fold_sim ci idx ps lits : forall L st, sim L [] st ->
  sim (L ++ arms_of false ci idx ps lits) [] (fold_left (fs_serialization true ci idx ps) lits st).
Proof.
  induction lits as [|lit r IH]; intros L st Sm; cbn [fold_left]; unfold arms_of; cbn [flat_map].
  - rewrite app_nil_r. exact Sm.
  - rewrite app_assoc. apply IH. apply ser_sim. exact Sm.
Qed.

Lemma sim_same L P st st' :
  st_arms st' = st_arms st -> st_ci st' = st_ci st -> st_phf st' = st_phf st -> st_keys st' = st_keys st ->
  sim L P st -> sim L P st'.
Proof.
  intros A C Ph K [SA SC SS SK SO].
  constructor; [congruence|congruence|rewrite Ph; exact SS|rewrite K; exact SK|].
  intro k. rewrite K, Ph. apply SO.
Qed.

(* the variant loop with use_phf, against the arms the plain loop emits for the same variants *)
Lemma loop_sim tp : tp_phf tp = false -> forall vs L st idx st', sim L [] st ->
  fs_loop (set_phf tp) st idx vs = Ok st' -> sim (L ++ all_arms tp idx vs) [] st'.
Proof.
  intros U. induction vs as [|v r IH]; intros L st idx st' Sm H; cbn [fs_loop all_arms] in *.
  - inversion H; subst. rewrite app_nil_r. exact Sm.
  - unfold bind in H. destruct (fs_variant (set_phf tp) st idx v) as [st1| |] eqn:Hv; try discriminate.
    rewrite app_assoc. apply (IH _ st1 (S idx) st'); [|exact H].
    destruct (fs_variant_shape _ _ _ _ _ Hv) as (p & Hp & [(D & ->) | [(D & Df & Sn & sg & SF & ->) | (El & ps & P & ->)]]);
      unfold varms; rewrite Hp.
    + unfold eligible_b. rewrite D. cbn [negb andb]. rewrite app_nil_r. exact Sm.
    + unfold eligible_b. rewrite D, Df. cbn [negb andb]. rewrite app_nil_r.
      apply (sim_same L [] st); try reflexivity. exact Sm.
    + rewrite El, P, U.
      exact (ser_fold_sim (vci tp p) idx ps (vspell tp p) L st Sm).
Qed.

(* at full strength: every input, no NonOverlap *)
Lemma C16_equiv_all_proof : stmt_C16_equiv_all.
Proof.
  unfold stmt_C16_equiv_all. intros it c c' HP G G' s.
  destruct (gen_char it c G) as (tp & _ & _ & T & _).
  pose proof (tprops_phf_false it tp HP T) as U.
  pose proof (tprops_with_phf it tp HP T) as T'.
  pose proof (gen_facts_of it c tp G T) as [FA FP _ _ FF _].
  pose proof (gen_facts_of (with_phf it) c' (set_phf tp) G' T') as [_ _ _ _ FF' _].
  destruct (gen_char (with_phf it) c' G') as (tp2 & st0 & st & T2 & _ & _ & K0 & P0 & A0 & C0 & L & Ep & Ea & _).
  rewrite T' in T2. inversion T2; subst tp2. clear T2.
  cbn [with_phf i_variants] in L.
  assert (S0 : sim [] [] st0).
  { constructor.
    - rewrite A0. reflexivity.
    - rewrite C0. reflexivity.
    - intros k t H. rewrite P0 in H. destruct H.
    - intros s0 a F. discriminate.
    - intro k. rewrite K0, P0. cbn. tauto. }
  pose proof (loop_sim tp U _ _ _ _ _ S0 L) as Sm. cbn [app] in Sm.
  assert (Hfall : fs_fall c' = fs_fall c).
  { assert (X : (fs_fall c', fs_custom_err c') = (fs_fall c, fs_custom_err c)) by (rewrite FF; exact FF').
    injection X as X1 X2. exact X1. }
  assert (Hphf : assoc_key s (fs_phf c) = None).
  { destruct (assoc_key s (fs_phf c)) as [[j qs]|] eqn:A; [|reflexivity].
    apply assoc_key_some in A. destruct (FP _ _ _ A) as (U' & _). congruence. }
  unfold run_from_str. rewrite Hphf, FA, Ep, Ea, Hfall, (s_arms _ _ _ Sm).
  destruct (assoc_key s (st_phf st)) as [[j qs]|] eqn:A.
  - apply assoc_key_some in A. destruct (s_sound _ _ _ Sm _ _ A) as (a & F & Ta).
    rewrite app_nil_r in F. rewrite F, Ta. reflexivity.
  - rewrite find_filter; [reflexivity|]. intros a F. destruct (is_guard a) eqn:Gd; [reflexivity|exfalso].
    pose proof (s_compl _ _ _ Sm s a F Gd) as I. apply (s_keys _ _ _ Sm) in I.
    exact (assoc_key_none _ _ A I).
Qed.

Lemma C16_equiv_proof : stmt_C16_equiv.
Proof.
  unfold stmt_C16_equiv. intros it c c' HP _ G G' s.
  exact (C16_equiv_all_proof it c c' HP G G' s).
Qed.

Print Assumptions C02_roundtrip_display_proof.
Print Assumptions C02_roundtrip_as_ref_proof.
Print Assumptions C02_roundtrip_into_static_proof.
Print Assumptions C02_roundtrip_to_string_proof.
Print Assumptions C02_serializations_proof.
Print Assumptions C16_accepts_proof.
Print Assumptions C16_keys_distinct_proof.
Print Assumptions C16_equiv_proof.
Print Assumptions C16_equiv_all_proof.
