(* RoundtripP.v — C02 (what Display / AsRefStr / IntoStaticStr / ToString / get_serializations print parses
   back to the same variant) and C16 (use_phf: accepted whenever the plain derive is, keys pairwise distinct,
   observationally equivalent under NonOverlap). *)
Require Import Strum.Spec.Statements Strum.Proofs.BytesP Strum.Proofs.FromStrP Strum.Proofs.DisplayP
               Strum.Proofs.MiscP.
From Coq Require Import Lia.
Local Open Scope list_scope.

(* ------------------------------------------------------------------ *)
(* a string that matches an eligible variant parses to that variant    *)
(* ------------------------------------------------------------------ *)
Lemma match_roundtrip it c tp i v p s :
  gen_from_str it = Ok c -> tprops_of it = Ok tp -> non_overlap_b it = true ->
  variant_at it i v p -> eligible_b p = true -> matches_b tp p s = true ->
  exists ps, run_from_str c s = OVariant i ps /\ fs_params p (v_fields v) = Ok ps.
Proof.
  intros G T NO Hv El Mt.
  pose proof (gen_facts_of it c tp G T) as [FA FP FS FK FF FE].
  destruct Hv as [Hn Hp]. destruct (FS i v p Hn Hp El) as (ps & P). exists ps. split; [|exact P].
  apply (C01_sound_complete_proof it c tp G T NO s i ps). exists v, p.
  split; [split; assumption|]. split; [exact El|]. split; [exact Mt|exact P].
Qed.

Lemma self_matches tp p s : In s (vspell tp p) -> matches_b tp p s = true.
Proof. intro H. eapply matches_b_intro; [exact H|apply lit_matches_refl]. Qed.

Lemma preferred_matches tp p : tp_prefix tp = None ->
  matches_b tp p (preferred_name (tp_style tp) (tp_prefix tp) p) = true.
Proof.
  intro H. rewrite H. apply self_matches. unfold vspell.
  exact (C02_preferred_in_spellings_proof (tp_style tp) p).
Qed.

Lemma roundtrip_pref it c tp i v p name : roundtrip_hyps it c tp i v p ->
  name = preferred_name (tp_style tp) (tp_prefix tp) p ->
  exists ps, run_from_str c name = OVariant i ps /\ fs_params p (v_fields v) = Ok ps.
Proof.
  intros (G & T & NO & Pf & Hv & El) ->.
  apply (match_roundtrip it c tp i v p _ G T NO Hv El). apply preferred_matches. exact Pf.
Qed.

(* ------------------------------------------------------------------ *)
(* the only arms that print a fixed string print the preferred name    *)
(* ------------------------------------------------------------------ *)
Lemma display_arm_DStr tp v p lit : display_arm tp v p = Ok (DStr lit) ->
  lit = preferred_name (tp_style tp) (tp_prefix tp) p.
Proof.
  unfold display_arm. cbv zeta. destruct (vp_transparent p).
  - destruct (single_field (v_fields v)); discriminate.
  - destruct (negb (is_some (vp_to_string p)) && vp_default p).
    + destruct (single_field (v_fields v)); discriminate.
    + destruct (v_fields v) as [|fs|fs]; unfold bind.
      * destruct (capture (preferred_name (tp_style tp) (tp_prefix tp) p)) as [[|u us]| |]; try discriminate.
        intros [= <-]. reflexivity.
      * destruct (capture (preferred_name (tp_style tp) (tp_prefix tp) p)) as [used| |]; try discriminate.
        match goal with |- context [existsb ?f used] => destruct (existsb f used) end; try discriminate.
        destruct used; try discriminate.
        intros [= <-]. reflexivity.
      * destruct (capture_idents (preferred_name (tp_style tp) (tp_prefix tp) p)) as [[|u us]| |]; try discriminate.
        intros [= <-]. reflexivity.
Qed.

Lemma asref_arm_AStr tp v p lit : asref_arm tp v p = Ok (AStr lit) ->
  lit = preferred_name (tp_style tp) (tp_prefix tp) p.
Proof.
  unfold asref_arm. destruct (vp_transparent p).
  - destruct (single_field (v_fields v)); discriminate.
  - intros [= <-]. reflexivity.
Qed.

Lemma tostring_arm_TStr tp v p lit : tostring_arm tp v p = Ok (TStr lit) ->
  lit = preferred_name (tp_style tp) (tp_prefix tp) p.
Proof.
  unfold tostring_arm. destruct (negb (is_some (vp_to_string p)) && vp_default p).
  - destruct (v_fields v) as [|[|f [|g r]]|fs]; discriminate.
  - intros [= <-]. reflexivity.
Qed.

(* ======================= C02 ======================= *)
Lemma C02_roundtrip_display_proof : stmt_C02_roundtrip_display.
Proof.
  unfold stmt_C02_roundtrip_display. intros it c d tp i v p name RH Hg Hr.
  pose proof RH as (G & T & NO & Pf & Hv & El).
  destruct (eligible_inv _ El) as (Hd & _).
  destruct (gen_display_arm it d tp i v p Hg T Hv Hd) as (b & Hb & Hm).
  unfold run_display in Hr. rewrite Hm in Hr. destruct b as [lit|sg|lit bd|lit n]; try discriminate.
  injection Hr as <-. apply display_arm_DStr in Hb.
  apply (roundtrip_pref it c tp i v p _ RH). exact Hb.
Qed.

Lemma roundtrip_as_ref it c a tp i v p name : roundtrip_hyps it c tp i v p -> gen_as_ref it = Ok a ->
  run_as_ref a i = AOutStr name ->
  exists ps, run_from_str c name = OVariant i ps /\ fs_params p (v_fields v) = Ok ps.
Proof.
  intros RH Hg Hr. pose proof RH as (G & T & NO & Pf & Hv & El).
  destruct (eligible_inv _ El) as (Hd & _).
  destruct (gen_as_ref_arm it a tp i v p Hg T Hv Hd) as (b & Hb & Hm).
  unfold run_as_ref in Hr. rewrite Hm in Hr. destruct b as [lit|sg]; try discriminate.
  injection Hr as <-. apply asref_arm_AStr in Hb.
  apply (roundtrip_pref it c tp i v p _ RH). exact Hb.
Qed.

Lemma C02_roundtrip_as_ref_proof : stmt_C02_roundtrip_as_ref.
Proof. unfold stmt_C02_roundtrip_as_ref. intros. eapply roundtrip_as_ref; eassumption. Qed.

Lemma C02_roundtrip_into_static_proof : stmt_C02_roundtrip_into_static.
Proof.
  unfold stmt_C02_roundtrip_into_static. intros it c a tp i v p name RH Hg Hr.
  destruct (gen_into_static_inv it a Hg) as (tp' & Ha & _ & _).
  exact (roundtrip_as_ref it c (is_arms a) tp i v p name RH Ha Hr).
Qed.

Lemma C02_roundtrip_to_string_proof : stmt_C02_roundtrip_to_string.
Proof.
  unfold stmt_C02_roundtrip_to_string. intros it c t tp i v p name RH Hg Hr.
  pose proof RH as (G & T & NO & Pf & Hv & El).
  destruct (eligible_inv _ El) as (Hd & _).
  destruct (gen_to_string_arm it t tp i v p Hg T Hv Hd) as (b & Hb & Hm).
  rewrite Hm in Hr. injection Hr as ->. apply tostring_arm_TStr in Hb.
  apply (roundtrip_pref it c tp i v p _ RH). exact Hb.
Qed.

Lemma C02_serializations_proof : stmt_C02_serializations.
Proof.
  unfold stmt_C02_serializations. intros it c m tp i v p l G T NO Hv El Hm Hr.
  rewrite (C14_serializations_proof it m tp i v p Hm T Hv) in Hr. injection Hr as <-.
  split; [reflexivity|]. intros s Hs.
  apply (match_roundtrip it c tp i v p s G T NO Hv El). apply self_matches. exact Hs.
Qed.

(* ======================= C16: keys pairwise distinct ======================= *)
Definition phf_inv (st : fs_state) : Prop := keys_ok st /\ NoDup (map fst (st_phf st)).

Lemma NoDup_snoc {A} (l : list A) x : NoDup l -> ~ In x l -> NoDup (l ++ [x]).
Proof.
  induction 1 as [|a r Ha Hr IH]; intro Hx; cbn [app].
  - constructor; [intros []|constructor].
  - constructor.
    + rewrite in_app_iff. intros [H|[H|[]]]; [exact (Ha H)|]. apply Hx. left. symmetry. exact H.
    + apply IH. intro H. apply Hx. right. exact H.
Qed.

Lemma add_key_inv k tgt st : phf_inv st -> phf_inv (fs_add_key k tgt st).
Proof.
  intros [OK ND]. unfold fs_add_key. destruct (mem_str k (st_keys st)) eqn:M; [split; assumption|].
  split.
  - intro k'. cbn [st_keys st_phf]. rewrite map_app, in_app_iff. cbn. rewrite <- (OK k'). tauto.
  - cbn [st_phf]. rewrite map_app. cbn [map fst]. apply NoDup_snoc; [exact ND|].
    intro H. apply OK in H. apply mem_str_In in H. congruence.
Qed.

Lemma add_arm_inv a st : phf_inv st -> phf_inv (fs_add_arm a st).
Proof. intros [OK ND]. split; [exact OK|exact ND]. Qed.

Lemma ser_inv u ci idx ps st lit : phf_inv st -> phf_inv (fs_serialization u ci idx ps st lit).
Proof.
  intro H. unfold fs_serialization. destruct u; [|apply add_arm_inv; exact H].
  cbv zeta. destruct ci; [|apply add_key_inv; exact H].
  apply add_arm_inv. apply add_key_inv. apply add_key_inv. apply add_key_inv. exact H.
Qed.

Lemma ser_fold_inv u ci idx ps lits : forall st, phf_inv st -> phf_inv (fold_left (fs_serialization u ci idx ps) lits st).
Proof.
  induction lits as [|l r IH]; intros st H; cbn [fold_left]; [exact H|]. apply IH. apply ser_inv. exact H.
Qed.

Lemma fs_loop_inv tp : forall vs st idx st', fs_loop tp st idx vs = Ok st' -> phf_inv st -> phf_inv st'.
Proof.
  induction vs as [|v r IH]; intros st idx st' H I; cbn [fs_loop] in H.
  - inversion H; subst. exact I.
  - unfold bind in H. destruct (fs_variant tp st idx v) as [st1| |] eqn:Hv; try discriminate.
    apply (IH _ _ _ H).
    destruct (fs_variant_shape _ _ _ _ _ Hv) as (p & Hp & [(D & ->) | [(D & Df & Sn & sg & SF & ->) | (El & ps & P & ->)]]).
    + exact I.
    + exact I.
    + apply ser_fold_inv. exact I.
Qed.

Lemma C16_keys_distinct_proof : stmt_C16_keys_distinct.
Proof.
  unfold stmt_C16_keys_distinct. intros it c G.
  destruct (gen_char it c G) as (tp & st0 & st & T & I & Sn & K0 & P0 & A0 & L & Ep & _).
  rewrite Ep. apply (fs_loop_inv tp _ _ _ _ L). split.
  - intro k. rewrite K0, P0. cbn. tauto.
  - rewrite P0. constructor.
Qed.

(* ======================= C16: adding use_phf ======================= *)
Definition set_phf (p : tprops) : tprops :=
  {| tp_err_ty := tp_err_ty p; tp_err_fn := tp_err_fn p; tp_style := tp_style p; tp_aci := tp_aci p;
     tp_crate := tp_crate p; tp_phf := true; tp_prefix := tp_prefix p;
     tp_const_into_str := tp_const_into_str p; tp_dderives := tp_dderives p; tp_dname := tp_dname p;
     tp_dvis := tp_dvis p; tp_ddocs := tp_ddocs p; tp_dothers := tp_dothers p; tp_repr := tp_repr p |}.

Lemma foldM_app {A B} (f : A -> B -> res A) l1 l2 : forall a,
  foldM f a (l1 ++ l2) = bind (foldM f a l1) (fun a' => foldM f a' l2).
Proof.
  induction l1 as [|b r IH]; intro a; cbn [foldM app bind]; [reflexivity|].
  destruct (f a b) as [a1| |]; cbn [bind]; [apply IH|reflexivity|reflexivity].
Qed.

Definition is_phf (m : emeta) : bool := match m with EUsePhf => true | _ => false end.

Lemma tp_step_phf p m q : tp_step p m = Ok q -> tp_phf q = tp_phf p || is_phf m.
Proof.
  destruct m; cbn [tp_step is_phf];
    repeat match goal with |- context [if ?b then _ else _] => destruct b eqn:? end;
    try (destruct (style_of_string style)); intro H; inversion H; cbn [tp_phf];
    rewrite ?orb_false_r; reflexivity.
Qed.

Lemma foldM_tp_phf : forall ms p0 p, foldM tp_step p0 ms = Ok p -> tp_phf p = tp_phf p0 || existsb is_phf ms.
Proof.
  induction ms as [|m r IH]; intros p0 p H; cbn [foldM existsb] in *.
  - inversion H. rewrite orb_false_r. reflexivity.
  - apply bind_ok in H as (p1 & H1 & H). rewrite (IH _ _ H), (tp_step_phf _ _ _ H1), orb_assoc. reflexivity.
Qed.

Lemma td_step_set_phf p m q : td_step p m = Ok q -> td_step (set_phf p) m = Ok (set_phf q).
Proof.
  destruct m; cbn [td_step set_phf tp_dname tp_dvis];
    repeat match goal with |- context [if ?b then _ else _] => destruct b eqn:? end;
    intro H; inversion H; reflexivity.
Qed.

Lemma foldM_td_set_phf : forall ds p q, foldM td_step p ds = Ok q -> foldM td_step (set_phf p) ds = Ok (set_phf q).
Proof.
  induction ds as [|m r IH]; intros p q H; cbn [foldM] in *.
  - inversion H. reflexivity.
  - apply bind_ok in H as (p1 & H1 & H). rewrite (td_step_set_phf _ _ _ H1). cbn [bind]. apply IH. exact H.
Qed.

Lemma tprops_with_phf it tp : has_phf it = false -> tprops_of it = Ok tp ->
  tprops_of (with_phf it) = Ok (set_phf tp).
Proof.
  unfold tprops_of, has_phf. intros HP H. cbn [with_phf i_metas i_dmetas i_repr].
  rewrite forallb_app. cbn [forallb emeta_parse_ok]. rewrite andb_true_r.
  destruct (negb (forallb emeta_parse_ok (i_metas it))); [discriminate|].
  apply bind_ok in H as (p & Hp & Hd).
  rewrite foldM_app, Hp. cbn [bind foldM tp_step].
  pose proof (foldM_tp_phf _ _ _ Hp) as F. cbn [tp_init tp_phf orb] in F.
  change (existsb is_phf (i_metas it)) with
    (existsb (fun m => match m with EUsePhf => true | _ => false end) (i_metas it)) in F.
  rewrite HP in F. rewrite F. cbn [bind].
  apply (foldM_td_set_phf _ _ _ Hd).
Qed.

(* success of the variant loop depends neither on the type properties nor on the phf / arm part of the state *)
Lemma ser_fold_seen u ci idx ps lits st :
  st_default_seen (fold_left (fs_serialization u ci idx ps) lits st) = st_default_seen st.
Proof. destruct (ser_fold u ci idx ps lits st) as (_ & _ & _ & F & _). exact F. Qed.

Lemma fs_variant_indep tp tp' st st' idx v st1 :
  st_default_seen st' = st_default_seen st -> fs_variant tp st idx v = Ok st1 ->
  exists st1', fs_variant tp' st' idx v = Ok st1' /\ st_default_seen st1' = st_default_seen st1.
Proof.
  intros Sn H. unfold fs_variant, bind in *.
  destruct (vprops_of v) as [p| |]; try discriminate.
  destruct (vp_disabled p).
  { inversion H; subst. eexists. split; [reflexivity|exact Sn]. }
  destruct (vp_default p).
  - rewrite Sn. destruct (st_default_seen st); [discriminate|].
    destruct (single_field (v_fields v)) as [[r|n r]|]; try discriminate;
      inversion H; subst; eexists; (split; [reflexivity|reflexivity]).
  - destruct (fs_params p (v_fields v)) as [ps| |]; try discriminate. inversion H; subst.
    eexists. split; [reflexivity|]. rewrite !ser_fold_seen. exact Sn.
Qed.

Lemma fs_loop_indep tp tp' : forall vs st st' idx r,
  st_default_seen st' = st_default_seen st -> fs_loop tp st idx vs = Ok r ->
  exists r', fs_loop tp' st' idx vs = Ok r'.
Proof.
  induction vs as [|v vs IH]; intros st st' idx r Sn H; cbn [fs_loop] in *.
  - eexists. reflexivity.
  - unfold bind in *. destruct (fs_variant tp st idx v) as [st1| |] eqn:Hv; try discriminate.
    destruct (fs_variant_indep tp tp' st st' idx v st1 Sn Hv) as (st1' & Hv' & Sn').
    rewrite Hv'. eapply IH; eassumption.
Qed.

Lemma C16_accepts_proof : stmt_C16_accepts.
Proof.
  unfold stmt_C16_accepts. intros it c HP G.
  destruct (gen_char it c G) as (tp & _ & _ & T & _).
  pose proof (tprops_with_phf it tp HP T) as T'.
  unfold gen_from_str in G |- *. rewrite T'. rewrite T in G.
  unfold enum_variants in *. cbn [with_phf i_kind i_variants].
  destruct (i_kind it); try discriminate. cbn [bind] in *.
  change (tp_err_ty (set_phf tp)) with (tp_err_ty tp). change (tp_err_fn (set_phf tp)) with (tp_err_fn tp).
  destruct (tp_err_ty tp) as [t|], (tp_err_fn tp) as [f|]; cbn [bind] in *; try discriminate.
  - match type of G with context [fs_loop tp ?s 0 ?vs] =>
      destruct (fs_loop tp s 0 vs) as [st| |] eqn:L; try discriminate;
      destruct (fs_loop_indep tp (set_phf tp) vs s s 0 st eq_refl L) as (r' & L') end.
    rewrite L'. cbn [bind]. eexists. reflexivity.
  - match type of G with context [fs_loop tp ?s 0 ?vs] =>
      destruct (fs_loop tp s 0 vs) as [st| |] eqn:L; try discriminate;
      destruct (fs_loop_indep tp (set_phf tp) vs s s 0 st eq_refl L) as (r' & L') end.
    rewrite L'. cbn [bind]. eexists. reflexivity.
Qed.

(* ======================= C16: observational equivalence ======================= *)
Lemma no_clash_with_set_phf tp p : forall l, no_clash_with (set_phf tp) p l = no_clash_with tp p l.
Proof. induction l as [|q r IH]; cbn [no_clash_with]; [reflexivity|]. rewrite IH. reflexivity. Qed.

Lemma non_overlap_list_set_phf tp : forall l, non_overlap_list (set_phf tp) l = non_overlap_list tp l.
Proof.
  induction l as [|q r IH]; cbn [non_overlap_list]; [reflexivity|].
  rewrite IH, no_clash_with_set_phf. reflexivity.
Qed.

Lemma non_overlap_with_phf it tp : has_phf it = false -> tprops_of it = Ok tp ->
  non_overlap_b (with_phf it) = non_overlap_b it.
Proof.
  intros HP T. unfold non_overlap_b. rewrite (tprops_with_phf it tp HP T), T.
  unfold all_vprops. cbn [with_phf i_variants].
  destruct (mapM vprops_of (i_variants it)); [apply non_overlap_list_set_phf|reflexivity|reflexivity].
Qed.

Lemma C16_equiv_proof : stmt_C16_equiv.
Proof.
  unfold stmt_C16_equiv. intros it c c' HP NO G G' s.
  destruct (gen_char it c G) as (tp & _ & _ & T & _).
  pose proof (tprops_with_phf it tp HP T) as T'.
  assert (NO' : non_overlap_b (with_phf it) = true) by (rewrite (non_overlap_with_phf it tp HP T); exact NO).
  assert (D : (exists i ps, run_from_str c s = OVariant i ps) \/ (forall i ps, run_from_str c s <> OVariant i ps)).
  { destruct (run_from_str c s); [left; eauto|right; discriminate..]. }
  destruct D as [(i & ps & R) | NV].
  - rewrite R. destruct (run_sound it c tp s i ps G T R) as [(v & p & Hv & El & Mt & P) _].
    apply (C01_sound_complete_proof (with_phf it) c' (set_phf tp) G' T' NO' s i ps).
    exists v, p. split; [exact Hv|]. split; [exact El|]. split; [exact Mt|exact P].
  - assert (NM : forall i v p, variant_at it i v p -> eligible_b p && matches_b tp p s = false).
    { intros i v p Hv. destruct (eligible_b p && matches_b tp p s) eqn:E; [|reflexivity].
      apply andb_true_iff in E as [El Mt].
      destruct (run_complete it c tp s i v p G T Hv El Mt) as (j & ps & R). exfalso. exact (NV j ps R). }
    rewrite (run_fallthrough it c tp s G T NM).
    rewrite (run_fallthrough (with_phf it) c' (set_phf tp) s G' T' NM). reflexivity.
Qed.

Print Assumptions C02_roundtrip_display_proof.
Print Assumptions C02_roundtrip_as_ref_proof.
Print Assumptions C02_roundtrip_into_static_proof.
Print Assumptions C02_roundtrip_to_string_proof.
Print Assumptions C02_serializations_proof.
Print Assumptions C16_accepts_proof.
Print Assumptions C16_keys_distinct_proof.
Print Assumptions C16_equiv_proof.
