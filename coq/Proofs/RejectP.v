(* RejectP.v — C20: the outcome class of every derive entry point.
   - no generator panics;
   - a repeated single-use variant keyword is exactly what makes vprops_of_metas fail with GOccurrence;
   - every rejection rule of the property yields an Err. *)
From Coq Require Import Lia.
Require Import Strum.Spec.Statements.
Local Open Scope list_scope.

(* ------------------------------------------------------------------ *)
(* 1. never Panic                                                      *)
(* ------------------------------------------------------------------ *)
Definition np {A} (r : res A) : Prop := r <> Panic.

Lemma np_ok {A} (a : A) : np (Ok a).
Proof. unfold np; discriminate. Qed.
Lemma np_err {A} (e : gerr) : np (@Err A e).
Proof. unfold np; discriminate. Qed.
Lemma np_bind {A B} (m : res A) (f : A -> res B) :
  np m -> (forall a, np (f a)) -> np (bind m f).
Proof. unfold np, bind. intros Hm Hf. destruct m; [apply Hf|discriminate|congruence]. Qed.
Lemma np_forget {A} (r : res A) : np r -> np (forget r).
Proof. unfold np, forget. destruct r; congruence. Qed.

Lemma np_mapM {A B} (f : A -> res B) : (forall a, np (f a)) -> forall l, np (mapM f l).
Proof.
  intros Hf. induction l as [|a r IH]; cbn [mapM]; [apply np_ok|].
  apply np_bind; [apply Hf|intros b]. apply np_bind; [apply IH|intros bs]. apply np_ok.
Qed.
Lemma np_foldM {A B} (f : A -> B -> res A) : (forall a b, np (f a b)) -> forall l a, np (foldM f a l).
Proof.
  intros Hf. induction l as [|b r IH]; intros a; cbn [foldM]; [apply np_ok|].
  apply np_bind; [apply Hf|intros a']. apply IH.
Qed.

Create HintDb np.

Ltac npt :=
  repeat first
    [ apply np_ok | apply np_err | assumption
    | solve [auto with np]
    | apply np_bind; [ | intros ? ]
    | match goal with
      | |- np (if ?c then _ else _) => destruct c eqn:?
      | |- np (match ?c with _ => _ end) => destruct c eqn:?
      end ].

Lemma np_vp_step p m : np (vp_step p m).
Proof. destruct m; cbn [vp_step]; npt. Qed.
Lemma np_tp_step p m : np (tp_step p m).
Proof. destruct m; cbn [tp_step]; npt. Qed.
Lemma np_td_step p m : np (td_step p m).
Proof. destruct m; cbn [td_step]; npt. Qed.
#[local] Hint Resolve np_vp_step np_tp_step np_td_step : np.

Lemma np_vprops_of v : np (vprops_of v).
Proof. unfold vprops_of, vprops_of_metas. apply np_foldM. apply np_vp_step. Qed.
Lemma np_tprops_of it : np (tprops_of it).
Proof.
  unfold tprops_of. destruct (negb _); [apply np_err|].
  apply np_bind; [apply np_foldM, np_tp_step|intros p]. apply np_foldM, np_td_step.
Qed.
Lemma np_fprops_of f : np (fprops_of f).
Proof. unfold fprops_of. npt. Qed.
Lemma np_enum_variants it : np (enum_variants it).
Proof. unfold enum_variants. npt. Qed.
#[local] Hint Resolve np_vprops_of np_tprops_of np_fprops_of np_enum_variants : np.

Lemma np_capture s : np (capture s).
Proof. unfold capture. npt. Qed.
#[local] Hint Resolve np_capture : np.
Lemma np_capture_idents s : np (capture_idents s).
Proof. unfold capture_idents. npt. Qed.
#[local] Hint Resolve np_capture_idents : np.

Lemma np_named_param f : np (named_param f).
Proof. unfold named_param. npt. Qed.
#[local] Hint Resolve np_named_param : np.
Lemma np_fs_params p fs : np (fs_params p fs).
Proof.
  unfold fs_params. destruct fs; npt.
  apply np_mapM. apply np_named_param.
Qed.
#[local] Hint Resolve np_fs_params : np.
Lemma np_fs_variant tp st idx v : np (fs_variant tp st idx v).
Proof. unfold fs_variant. npt. Qed.
#[local] Hint Resolve np_fs_variant : np.
Lemma np_fs_loop tp : forall vs st idx, np (fs_loop tp st idx vs).
Proof. induction vs as [|v r IH]; intros st idx; cbn [fs_loop]; npt; try apply IH. Qed.
#[local] Hint Resolve np_fs_loop : np.

Lemma np_display_arm tp v p : np (display_arm tp v p).
Proof. unfold display_arm. npt. Qed.
#[local] Hint Resolve np_display_arm : np.
Lemma np_display_arms tp : forall vs idx, np (display_arms tp idx vs).
Proof. induction vs as [|v r IH]; intros idx; cbn [display_arms]; npt; try apply IH. Qed.
Lemma np_asref_arms tp : forall vs idx, np (asref_arms tp idx vs).
Proof. induction vs as [|v r IH]; intros idx; cbn [asref_arms]; npt; try apply IH. Qed.
Lemma np_tostring_arms tp : forall vs idx, np (tostring_arms tp idx vs).
Proof. induction vs as [|v r IH]; intros idx; cbn [tostring_arms]; npt; try apply IH. Qed.
Lemma np_iter_ctors : forall vs idx, np (iter_ctors idx vs).
Proof. induction vs as [|v r IH]; intros idx; cbn [iter_ctors]; npt; try apply IH. Qed.
Lemma np_count_enabled : forall vs acc, np (count_enabled vs acc).
Proof. induction vs as [|v r IH]; intros acc; cbn [count_enabled]; npt; try apply IH. Qed.
Lemma np_array_idents : forall vs idx, np (array_idents idx vs).
Proof. induction vs as [|v r IH]; intros idx; cbn [array_idents]; npt; try apply IH. Qed.
Lemma np_repr_arms ty : forall vs idx prev, np (repr_arms ty idx prev vs).
Proof. induction vs as [|v r IH]; intros idx prev; cbn [repr_arms]; npt; try apply IH. Qed.
Lemma np_table_loop : forall vs idx, np (table_loop idx vs).
Proof. induction vs as [|v r IH]; intros idx; cbn [table_loop]; npt; try apply IH. Qed.
Lemma np_is_methods : forall vs idx, np (is_methods idx vs).
Proof. induction vs as [|v r IH]; intros idx; cbn [is_methods]; npt; try apply IH. Qed.
Lemma np_tryas_methods : forall vs idx, np (tryas_methods idx vs).
Proof. induction vs as [|v r IH]; intros idx; cbn [tryas_methods]; npt; try apply IH. Qed.
Lemma np_msg_loop tp : forall vs idx, np (msg_loop tp idx vs).
Proof. induction vs as [|v r IH]; intros idx; cbn [msg_loop]; npt; try apply IH. Qed.
Lemma np_bucket : forall kvs, np (bucket kvs).
Proof. induction kvs as [|[k l] r IH]; cbn [bucket]; npt. Qed.
#[local] Hint Resolve np_bucket : np.
Lemma np_props_loop : forall vs idx, np (props_loop idx vs).
Proof. induction vs as [|v r IH]; intros idx; cbn [props_loop]; npt; try apply IH. Qed.
#[local] Hint Resolve np_display_arms np_asref_arms np_tostring_arms np_iter_ctors np_count_enabled
  np_array_idents np_repr_arms np_table_loop np_is_methods np_tryas_methods np_msg_loop np_props_loop : np.

Lemma np_gen_from_str it : np (gen_from_str it).
Proof. unfold gen_from_str. npt. Qed.
Lemma np_gen_display it : np (gen_display it).
Proof. unfold gen_display. npt. Qed.
Lemma np_gen_as_ref it : np (gen_as_ref it).
Proof. unfold gen_as_ref. npt. Qed.
#[local] Hint Resolve np_gen_as_ref : np.
Lemma np_gen_into_static it : np (gen_into_static it).
Proof. unfold gen_into_static. npt. Qed.
Lemma np_gen_to_string it : np (gen_to_string it).
Proof. unfold gen_to_string. npt. Qed.
Lemma np_gen_variant_names it : np (gen_variant_names it).
Proof. unfold gen_variant_names. npt. apply np_mapM. intros v. npt. Qed.
Lemma np_gen_variant_array it : np (gen_variant_array it).
Proof. unfold gen_variant_array. npt. Qed.
Lemma np_gen_iter it : np (gen_iter it).
Proof. unfold gen_iter. npt. Qed.
Lemma np_gen_count it : np (gen_count it).
Proof. unfold gen_count. npt. Qed.
Lemma np_gen_from_repr it : np (gen_from_repr it).
Proof. unfold gen_from_repr. npt. Qed.
Lemma np_gen_table it : np (gen_table it).
Proof. unfold gen_table. npt. Qed.
Lemma np_gen_is it : np (gen_is it).
Proof. unfold gen_is. npt. Qed.
Lemma np_gen_try_as it : np (gen_try_as it).
Proof. unfold gen_try_as. npt. Qed.
Lemma np_gen_message it : np (gen_message it).
Proof. unfold gen_message. npt. Qed.
Lemma np_gen_props it : np (gen_props it).
Proof. unfold gen_props. npt. Qed.
Lemma np_gen_discriminants it : np (gen_discriminants it).
Proof. unfold gen_discriminants. npt. Qed.

Lemma np_outcome dv it : np (outcome dv it).
Proof.
  destruct dv; cbn [outcome]; apply np_forget;
    first [ apply np_gen_from_str | apply np_gen_display | apply np_gen_as_ref | apply np_gen_into_static
          | apply np_gen_to_string | apply np_gen_variant_names | apply np_gen_variant_array
          | apply np_gen_iter | apply np_gen_count | apply np_gen_from_repr | apply np_gen_table
          | apply np_gen_is | apply np_gen_try_as | apply np_gen_message | apply np_gen_props
          | apply np_gen_discriminants ].
Qed.

Lemma C20_no_panic_proof : stmt_C20_no_panic.
Proof. unfold stmt_C20_no_panic. intros dv it. apply np_outcome. Qed.

(* ------------------------------------------------------------------ *)
(* 2. duplicate single-use variant keywords  <->  GOccurrence          *)
(* ------------------------------------------------------------------ *)
Inductive vkind := VKMsg | VKDet | VKTs | VKTr | VKDis | VKDef | VKDw | VKAci.

Definition is_vk (k : vkind) : vmeta -> bool :=
  match k with
  | VKMsg => fun m => match m with MMessage _ => true | _ => false end
  | VKDet => fun m => match m with MDetailed _ => true | _ => false end
  | VKTs => fun m => match m with MToString _ => true | _ => false end
  | VKTr => fun m => match m with MTransparent => true | _ => false end
  | VKDis => fun m => match m with MDisabled => true | _ => false end
  | VKDef => fun m => match m with MDefault => true | _ => false end
  | VKDw => fun m => match m with MDefaultWith _ => true | _ => false end
  | VKAci => fun m => match m with MAci _ => true | _ => false end
  end.

Definition vseen (p : vprops) (k : vkind) : bool :=
  match k with
  | VKMsg => is_some (vp_message p)
  | VKDet => is_some (vp_detailed p)
  | VKTs => is_some (vp_to_string p)
  | VKTr => vp_transparent p
  | VKDis => vp_disabled p
  | VKDef => vp_default p
  | VKDw => is_some (vp_default_with p)
  | VKAci => is_some (vp_aci p)
  end.

Definition vcount (k : vkind) (l : list vmeta) : nat := Reject.count_occ (is_vk k) l.

Lemma cocc_cons {A} (f : A -> bool) a l :
  Reject.count_occ f (a :: l) = ((if f a then 1 else 0) + Reject.count_occ f l)%nat.
Proof. unfold Reject.count_occ. cbn [filter]. destruct (f a); reflexivity. Qed.
Lemma cocc_app {A} (f : A -> bool) l1 l2 :
  Reject.count_occ f (l1 ++ l2) = (Reject.count_occ f l1 + Reject.count_occ f l2)%nat.
Proof. unfold Reject.count_occ. rewrite filter_app, app_length. reflexivity. Qed.
Lemma cocc_partition {A} (f g : A -> bool) l :
  (Reject.count_occ f (filter (fun x => negb (g x)) l) + Reject.count_occ f (filter g l))%nat = Reject.count_occ f l.
Proof.
  induction l as [|a r IH]; [reflexivity|].
  cbn [filter]. destruct (g a); cbn [negb]; rewrite !cocc_cons; lia.
Qed.
Lemma vcount_get_metadata k ms : vcount k (get_metadata ms) = vcount k ms.
Proof. unfold vcount, get_metadata. rewrite cocc_app. apply cocc_partition. Qed.

Definition vbad (p : vprops) (l : list vmeta) : Prop :=
  exists k, (vseen p k = true /\ 1 <= vcount k l) \/ 2 <= vcount k l.

(* the effect of one step on the "already seen" flags *)
Lemma vp_step_cases p m :
  (exists k, is_vk k m = true /\ (forall k', k' <> k -> is_vk k' m = false) /\
     ((vseen p k = true /\ exists a, vp_step p m = Err (GOccurrence a)) \/
      (vseen p k = false /\ exists p', vp_step p m = Ok p' /\ vseen p' k = true /\
                                       forall k', k' <> k -> vseen p' k' = vseen p k')))
  \/ ((forall k, is_vk k m = false) /\ exists p', vp_step p m = Ok p' /\ forall k, vseen p' k = vseen p k).
Proof.
  destruct m;
  try (right; split; [intros k; destruct k; reflexivity|];
       eexists; split; [reflexivity|]; intros k; destruct k; reflexivity);
  left;
  [ exists VKTs | exists VKMsg | exists VKDet | exists VKTr | exists VKDis | exists VKDef | exists VKDw | exists VKAci ];
  (split; [reflexivity|]; split; [intros k' Hk; destruct k'; try reflexivity; congruence|]);
  cbn [vp_step vseen];
  match goal with |- context [if ?c then _ else _] => destruct c eqn:Hc end;
  try (left; split; [reflexivity|]; eexists; reflexivity);
  (right; split; [reflexivity|]; eexists; split; [reflexivity|]; split; [reflexivity|];
   intros k' Hk; destruct k'; try reflexivity; congruence).
Qed.

Lemma foldM_vp_step_iff : forall l p,
  (exists a, foldM vp_step p l = Err (GOccurrence a)) <-> vbad p l.
Proof.
  induction l as [|m r IH]; intros p.
  - cbn [foldM]. split.
    + intros [a Ha]. discriminate.
    + intros [k [[_ H]|H]]; unfold vcount, Reject.count_occ in H; cbn in H; lia.
  - cbn [foldM].
    assert (Hc : forall k, vcount k (m :: r) = ((if is_vk k m then 1 else 0) + vcount k r)%nat)
      by (intros k; apply cocc_cons).
    destruct (vp_step_cases p m) as [(k & Hk & Hother & Hs)|(Hnone & p' & Hp' & Hseen)].
    + destruct Hs as [(Hseen & a & Ha)|(Hseen & p' & Hp' & Hk' & Hrest)].
      * rewrite Ha. cbn [bind]. split; [intros _|intros _; eauto].
        exists k. left. split; [exact Hseen|]. rewrite Hc, Hk. lia.
      * rewrite Hp'. cbn [bind]. rewrite IH. unfold vbad. split.
        -- intros [k0 H0]. exists k0. rewrite Hc.
           destruct (is_vk k0 m) eqn:Hk0.
           ++ assert (k0 = k) by (destruct k0, k; try reflexivity; rewrite Hother in Hk0 by congruence; discriminate).
              subst k0. right. destruct H0 as [[_ H0]|H0]; lia.
           ++ assert (k0 <> k) by congruence.
              rewrite Hrest in H0 by assumption. cbn [plus]. exact H0.
        -- intros [k0 H0]. exists k0. rewrite Hc in H0.
           destruct (is_vk k0 m) eqn:Hk0.
           ++ assert (k0 = k) by (destruct k0, k; try reflexivity; rewrite Hother in Hk0 by congruence; discriminate).
              subst k0. rewrite Hseen in H0. left. split; [exact Hk'|].
              destruct H0 as [[H0 _]|H0]; [discriminate|lia].
           ++ assert (k0 <> k) by congruence.
              rewrite Hrest by assumption. cbn [plus] in H0. exact H0.
    + rewrite Hp'. cbn [bind]. rewrite IH. unfold vbad.
      split; intros [k H0]; exists k; rewrite Hc, Hnone, Hseen in *; cbn [plus] in *; exact H0.
Qed.

Lemma vmeta_dup_iff ms : vmeta_dup ms = true <-> exists k, 2 <= vcount k ms.
Proof.
  unfold vmeta_dup. rewrite !orb_true_iff, !Nat.leb_le. split.
  - intros H.
    destruct H as [[[[[[[H|H]|H]|H]|H]|H]|H]|H];
      [ exists VKMsg | exists VKDet | exists VKTs | exists VKTr | exists VKDis | exists VKDef | exists VKDw | exists VKAci ];
      exact H.
  - intros [k H]. destruct k; unfold vcount in H; cbn [is_vk] in H; tauto.
Qed.

Lemma C20_dup_variant_attr_iff_proof : stmt_C20_dup_variant_attr_iff.
Proof.
  unfold stmt_C20_dup_variant_attr_iff. intros id ms.
  unfold vprops_of_metas. rewrite foldM_vp_step_iff, vmeta_dup_iff. unfold vbad.
  split; intros [k H]; exists k.
  - right. rewrite vcount_get_metadata. exact H.
  - rewrite vcount_get_metadata in H. destruct H as [[H _]|H]; [|exact H].
    destruct k; discriminate.
Qed.

(* ------------------------------------------------------------------ *)
(* 3. the rejection rules                                              *)
(* ------------------------------------------------------------------ *)
Definition nok {A} (r : res A) : Prop := forall a, r <> Ok a.

Lemma nok_err {A} (e : gerr) : nok (@Err A e).
Proof. unfold nok; discriminate. Qed.
Lemma nok_panic {A} : nok (@Panic A).
Proof. unfold nok; discriminate. Qed.
Lemma nok_bind_l {A B} (m : res A) (f : A -> res B) : nok m -> nok (bind m f).
Proof. unfold nok, bind. intros Hm b. destruct m; [elim (Hm a); reflexivity|discriminate|discriminate]. Qed.
Lemma nok_forget {A} (r : res A) : nok r -> nok (forget r).
Proof. unfold nok, forget. intros Hr u. destruct r; [elim (Hr a); reflexivity|discriminate|discriminate]. Qed.
Lemma nok_np_err {A} (r : res A) : nok r -> np r -> exists e, r = Err e.
Proof. unfold nok, np. intros Hn Hp. destruct r; [elim (Hn a); reflexivity|eauto|congruence]. Qed.

Create HintDb nok.
#[local] Hint Resolve nok_bind_l : nok.

Ltac nk_with tac :=
  repeat (cbn [bind];
    first [ apply nok_err | apply nok_panic | assumption | tac
          | match goal with
            | |- nok (bind (bind _ _) _) => apply nok_bind_l
            | H : ?m = _ |- nok (bind ?m _) => rewrite H
            | H : ?c = _ |- nok (if ?c then _ else _) => rewrite H
            | |- nok (bind ?m _) => destruct m eqn:?
            | |- nok (if ?c then _ else _) => destruct c eqn:?
            | |- nok (match ?c with _ => _ end) => destruct c eqn:?
            end ]).
Ltac nk := nk_with ltac:(solve [eauto 3 with nok]).
Ltac nkI IH := nk_with ltac:(first [ apply IH | apply nok_bind_l; apply IH ]).

Lemma existsb_Exists {A} (f : A -> bool) (P : A -> Prop) l :
  (forall a, f a = true -> P a) -> existsb f l = true -> Exists P l.
Proof.
  intros Hf H. apply existsb_exists in H. destruct H as (a & Hin & Ha).
  apply Exists_exists. exists a. split; [exact Hin|apply Hf, Ha].
Qed.

(* -- generic loop lemmas: a variant on which the loop body fails makes the loop fail -- *)
Lemma mapM_nok {A B} (f : A -> res B) l : Exists (fun a => nok (f a)) l -> nok (mapM f l).
Proof. induction 1 as [a r Ha|a r _ IH]; cbn [mapM]; [apply nok_bind_l, Ha|nkI IH]. Qed.

Section Loops.
Variable bad : variant -> Prop.

Lemma fs_loop_nok tp :
  (forall v st idx, bad v -> nok (fs_variant tp st idx v)) ->
  forall vs, Exists bad vs -> forall st idx, nok (fs_loop tp st idx vs).
Proof.
  intros Hb vs Hex. induction Hex as [v r Hv|v r _ IH]; intros st idx; cbn [fs_loop].
  - apply nok_bind_l, Hb, Hv.
  - nkI IH.
Qed.
Lemma display_arms_nok tp :
  (forall v r idx, bad v -> nok (display_arms tp idx (v :: r))) ->
  forall vs, Exists bad vs -> forall idx, nok (display_arms tp idx vs).
Proof.
  intros Hb vs Hex. induction Hex as [v r Hv|v r _ IH]; intros idx; [apply Hb, Hv|].
  cbn [display_arms]. nkI IH.
Qed.
Lemma asref_arms_nok tp :
  (forall v r idx, bad v -> nok (asref_arms tp idx (v :: r))) ->
  forall vs, Exists bad vs -> forall idx, nok (asref_arms tp idx vs).
Proof.
  intros Hb vs Hex. induction Hex as [v r Hv|v r _ IH]; intros idx; [apply Hb, Hv|].
  cbn [asref_arms]. nkI IH.
Qed.
Lemma tostring_arms_nok tp :
  (forall v r idx, bad v -> nok (tostring_arms tp idx (v :: r))) ->
  forall vs, Exists bad vs -> forall idx, nok (tostring_arms tp idx vs).
Proof.
  intros Hb vs Hex. induction Hex as [v r Hv|v r _ IH]; intros idx; [apply Hb, Hv|].
  cbn [tostring_arms]. nkI IH.
Qed.
Lemma iter_ctors_nok :
  (forall v r idx, bad v -> nok (iter_ctors idx (v :: r))) ->
  forall vs, Exists bad vs -> forall idx, nok (iter_ctors idx vs).
Proof.
  intros Hb vs Hex. induction Hex as [v r Hv|v r _ IH]; intros idx; [apply Hb, Hv|].
  cbn [iter_ctors]. nkI IH.
Qed.
Lemma count_enabled_nok :
  (forall v r acc, bad v -> nok (count_enabled (v :: r) acc)) ->
  forall vs, Exists bad vs -> forall acc, nok (count_enabled vs acc).
Proof.
  intros Hb vs Hex. induction Hex as [v r Hv|v r _ IH]; intros acc; [apply Hb, Hv|].
  cbn [count_enabled]. nkI IH.
Qed.
Lemma array_idents_nok :
  (forall v r idx, bad v -> nok (array_idents idx (v :: r))) ->
  forall vs, Exists bad vs -> forall idx, nok (array_idents idx vs).
Proof.
  intros Hb vs Hex. induction Hex as [v r Hv|v r _ IH]; intros idx; [apply Hb, Hv|].
  cbn [array_idents]. nkI IH.
Qed.
Lemma repr_arms_nok ty :
  (forall v r idx prev, bad v -> nok (repr_arms ty idx prev (v :: r))) ->
  forall vs, Exists bad vs -> forall idx prev, nok (repr_arms ty idx prev vs).
Proof.
  intros Hb vs Hex. induction Hex as [v r Hv|v r _ IH]; intros idx prev; [apply Hb, Hv|].
  cbn [repr_arms]. nkI IH.
Qed.
Lemma table_loop_nok :
  (forall v r idx, bad v -> nok (table_loop idx (v :: r))) ->
  forall vs, Exists bad vs -> forall idx, nok (table_loop idx vs).
Proof.
  intros Hb vs Hex. induction Hex as [v r Hv|v r _ IH]; intros idx; [apply Hb, Hv|].
  cbn [table_loop]. nkI IH.
Qed.
Lemma is_methods_nok :
  (forall v r idx, bad v -> nok (is_methods idx (v :: r))) ->
  forall vs, Exists bad vs -> forall idx, nok (is_methods idx vs).
Proof.
  intros Hb vs Hex. induction Hex as [v r Hv|v r _ IH]; intros idx; [apply Hb, Hv|].
  cbn [is_methods]. nkI IH.
Qed.
Lemma tryas_methods_nok :
  (forall v r idx, bad v -> nok (tryas_methods idx (v :: r))) ->
  forall vs, Exists bad vs -> forall idx, nok (tryas_methods idx vs).
Proof.
  intros Hb vs Hex. induction Hex as [v r Hv|v r _ IH]; intros idx; [apply Hb, Hv|].
  cbn [tryas_methods]. nkI IH.
Qed.
Lemma msg_loop_nok tp :
  (forall v r idx, bad v -> nok (msg_loop tp idx (v :: r))) ->
  forall vs, Exists bad vs -> forall idx, nok (msg_loop tp idx vs).
Proof.
  intros Hb vs Hex. induction Hex as [v r Hv|v r _ IH]; intros idx; [apply Hb, Hv|].
  cbn [msg_loop]. nkI IH.
Qed.
Lemma props_loop_nok :
  (forall v r idx, bad v -> nok (props_loop idx (v :: r))) ->
  forall vs, Exists bad vs -> forall idx, nok (props_loop idx vs).
Proof.
  intros Hb vs Hex. induction Hex as [v r Hv|v r _ IH]; intros idx; [apply Hb, Hv|].
  cbn [props_loop]. nkI IH.
Qed.
End Loops.

(* -- a variant whose attributes do not fold: every loop that reads them fails -- *)
Definition vfail (v : variant) : Prop := nok (vprops_of v).

Lemma fs_loop_vfail tp vs st idx : Exists vfail vs -> nok (fs_loop tp st idx vs).
Proof.
  intros H. apply fs_loop_nok with (bad := vfail); [|exact H].
  intros v st' idx' Hv. unfold fs_variant. apply nok_bind_l, Hv.
Qed.
Lemma display_arms_vfail tp vs idx : Exists vfail vs -> nok (display_arms tp idx vs).
Proof.
  intros H. apply display_arms_nok with (bad := vfail); [|exact H].
  intros v r i Hv. cbn [display_arms]. apply nok_bind_l, Hv.
Qed.
Lemma asref_arms_vfail tp vs idx : Exists vfail vs -> nok (asref_arms tp idx vs).
Proof.
  intros H. apply asref_arms_nok with (bad := vfail); [|exact H].
  intros v r i Hv. cbn [asref_arms]. apply nok_bind_l, Hv.
Qed.
Lemma tostring_arms_vfail tp vs idx : Exists vfail vs -> nok (tostring_arms tp idx vs).
Proof.
  intros H. apply tostring_arms_nok with (bad := vfail); [|exact H].
  intros v r i Hv. cbn [tostring_arms]. apply nok_bind_l, Hv.
Qed.
Lemma iter_ctors_vfail vs idx : Exists vfail vs -> nok (iter_ctors idx vs).
Proof.
  intros H. apply iter_ctors_nok with (bad := vfail); [|exact H].
  intros v r i Hv. cbn [iter_ctors]. apply nok_bind_l, Hv.
Qed.
Lemma count_enabled_vfail vs acc : Exists vfail vs -> nok (count_enabled vs acc).
Proof.
  intros H. apply count_enabled_nok with (bad := vfail); [|exact H].
  intros v r i Hv. cbn [count_enabled]. apply nok_bind_l, Hv.
Qed.
Lemma repr_arms_vfail ty vs idx prev : Exists vfail vs -> nok (repr_arms ty idx prev vs).
Proof.
  intros H. apply repr_arms_nok with (bad := vfail); [|exact H].
  intros v r i pr Hv. cbn [repr_arms]. apply nok_bind_l, Hv.
Qed.
Lemma table_loop_vfail vs idx : Exists vfail vs -> nok (table_loop idx vs).
Proof.
  intros H. apply table_loop_nok with (bad := vfail); [|exact H].
  intros v r i Hv. cbn [table_loop]. apply nok_bind_l, Hv.
Qed.
Lemma is_methods_vfail vs idx : Exists vfail vs -> nok (is_methods idx vs).
Proof.
  intros H. apply is_methods_nok with (bad := vfail); [|exact H].
  intros v r i Hv. cbn [is_methods]. apply nok_bind_l, Hv.
Qed.
Lemma tryas_methods_vfail vs idx : Exists vfail vs -> nok (tryas_methods idx vs).
Proof.
  intros H. apply tryas_methods_nok with (bad := vfail); [|exact H].
  intros v r i Hv. cbn [tryas_methods]. apply nok_bind_l, Hv.
Qed.
Lemma msg_loop_vfail tp vs idx : Exists vfail vs -> nok (msg_loop tp idx vs).
Proof.
  intros H. apply msg_loop_nok with (bad := vfail); [|exact H].
  intros v r i Hv. cbn [msg_loop]. apply nok_bind_l, Hv.
Qed.
Lemma props_loop_vfail vs idx : Exists vfail vs -> nok (props_loop idx vs).
Proof.
  intros H. apply props_loop_nok with (bad := vfail); [|exact H].
  intros v r i Hv. cbn [props_loop]. apply nok_bind_l, Hv.
Qed.
Lemma names_vfail {B} (g : vprops -> res B) vs :
  Exists vfail vs -> nok (mapM (fun v => p <- vprops_of v ;; g p) vs).
Proof.
  intros H. apply mapM_nok. revert H. apply Exists_impl. intros v Hv. apply nok_bind_l, Hv.
Qed.
#[local] Hint Resolve fs_loop_vfail display_arms_vfail asref_arms_vfail tostring_arms_vfail iter_ctors_vfail
  count_enabled_vfail repr_arms_vfail table_loop_vfail is_methods_vfail tryas_methods_vfail msg_loop_vfail
  props_loop_vfail names_vfail : nok.

Lemma enum_variants_enum it : is_enum it = true -> enum_variants it = Ok (i_variants it).
Proof. unfold is_enum, enum_variants. destruct (i_kind it); [reflexivity|discriminate|discriminate]. Qed.
Lemma enum_variants_nonenum it : is_enum it = false -> enum_variants it = Err GNonEnum.
Proof. unfold is_enum, enum_variants. destruct (i_kind it); [discriminate|reflexivity|reflexivity]. Qed.

Ltac unfold_gen :=
  unfold gen_from_str, gen_display, gen_into_static, gen_as_ref, gen_to_string, gen_variant_names,
         gen_variant_array, gen_iter, gen_count, gen_from_repr, gen_table, gen_is, gen_try_as,
         gen_message, gen_props, gen_discriminants.

(* RNonEnum *)
Lemma rej_non_enum dv it : is_enum it = false -> nok (outcome dv it).
Proof.
  intros He. apply enum_variants_nonenum in He.
  destruct dv; cbn [outcome]; apply nok_forget; unfold_gen; rewrite He; nk.
Qed.

(* RLifetime *)
Lemma rej_lifetime dv it :
  (0 <? i_lifetimes it)%nat = true ->
  match dv with DvEnumIter | DvFromRepr | DvEnumTable => true | _ => false end = true ->
  nok (outcome dv it).
Proof.
  intros Hl Hdv.
  destruct dv; try discriminate Hdv; cbn [outcome]; apply nok_forget; unfold_gen; rewrite Hl; nk.
Qed.

(* RDupVariantAttr *)
Lemma rej_vfail dv it :
  is_enum it = true -> reads_vprops dv = true -> Exists vfail (i_variants it) -> nok (outcome dv it).
Proof.
  intros He Hr Hex. apply enum_variants_enum in He.
  destruct dv; try discriminate Hr; cbn [outcome]; apply nok_forget; unfold_gen; rewrite ?He; nk.
Qed.

Lemma vmeta_dup_vfail v : vmeta_dup (v_metas v) = true -> vfail v.
Proof.
  intros H. apply (proj1 (C20_dup_variant_attr_iff_proof (v_ident v) (v_metas v))) in H.
  destruct H as [a Ha]. unfold vfail, vprops_of. rewrite Ha. apply nok_err.
Qed.

(* RDupEnumAttr / RUnknownStyle *)
Lemma rej_tfail dv it :
  is_enum it = true -> reads_tprops dv = true -> nok (tprops_of it) -> nok (outcome dv it).
Proof.
  intros He Hr Ht. apply enum_variants_enum in He.
  destruct dv; try discriminate Hr; cbn [outcome]; apply nok_forget; unfold_gen; rewrite ?He; nk.
Qed.

(* -- enum-level attributes -- *)
Inductive ekind := EKSer | EKAci | EKCrate | EKPhf | EKPrefix | EKTy | EKFn | EKConst.

Definition is_ek (k : ekind) : emeta -> bool :=
  match k with
  | EKSer => fun m => match m with ESerializeAll _ => true | _ => false end
  | EKAci => fun m => match m with EAci => true | _ => false end
  | EKCrate => fun m => match m with ECrate _ => true | _ => false end
  | EKPhf => fun m => match m with EUsePhf => true | _ => false end
  | EKPrefix => fun m => match m with EPrefix _ => true | _ => false end
  | EKTy => fun m => match m with EParseErrTy _ => true | _ => false end
  | EKFn => fun m => match m with EParseErrFn _ => true | _ => false end
  | EKConst => fun m => match m with EConstIntoStr => true | _ => false end
  end.

Definition eseen (p : tprops) (k : ekind) : bool :=
  match k with
  | EKSer => is_some (tp_style p)
  | EKAci => tp_aci p
  | EKCrate => is_some (tp_crate p)
  | EKPhf => tp_phf p
  | EKPrefix => is_some (tp_prefix p)
  | EKTy => is_some (tp_err_ty p)
  | EKFn => is_some (tp_err_fn p)
  | EKConst => tp_const_into_str p
  end.

Definition ecount (k : ekind) (l : list emeta) : nat := Reject.count_occ (is_ek k) l.

Lemma tp_step_ok p m p' k :
  tp_step p m = Ok p' ->
  (is_ek k m = true -> eseen p k = false /\ eseen p' k = true) /\
  (is_ek k m = false -> eseen p k = true -> eseen p' k = true).
Proof.
  destruct m; cbn [tp_step]; intros H;
  repeat match type of H with
         | context [if ?c then _ else _] => destruct c eqn:?
         | context [match ?c with _ => _ end] => destruct c eqn:?
         end; try discriminate H;
  inversion H; subst p'; destruct k; cbn [is_ek eseen tp_style tp_aci tp_crate tp_phf tp_prefix tp_err_ty
                                           tp_err_fn tp_const_into_str is_some];
  (split; [intros Hk; first [discriminate Hk | split; [assumption|reflexivity]] | intros Hk Hs; first [discriminate Hk | exact Hs]]).
Qed.

Lemma foldM_tp_step_nok k : forall l p,
  (eseen p k = true /\ 1 <= ecount k l) \/ 2 <= ecount k l -> nok (foldM tp_step p l).
Proof.
  induction l as [|m r IH]; intros p H.
  - unfold ecount, Reject.count_occ in H. cbn in H. lia.
  - cbn [foldM]. destruct (tp_step p m) as [p'| |] eqn:Hs; cbn [bind]; [|apply nok_err|apply nok_panic].
    apply IH. destruct (tp_step_ok _ _ _ k Hs) as [H1 H2].
    unfold ecount in H. rewrite cocc_cons in H. fold (ecount k r) in H.
    destruct (is_ek k m) eqn:Hk.
    + destruct (H1 eq_refl) as [Ha Hb]. left. split; [exact Hb|].
      destruct H as [[H _]|H]; [congruence|lia].
    + destruct H as [[Ha Hb]|H]; [left; split; [apply H2; auto|lia]|right; lia].
Qed.

Lemma emeta_dup_ex ms : emeta_dup ms = true -> exists k, 2 <= ecount k ms.
Proof.
  unfold emeta_dup. rewrite !orb_true_iff, !Nat.leb_le. intros H.
  destruct H as [[[[[[[H|H]|H]|H]|H]|H]|H]|H];
    [ exists EKSer | exists EKAci | exists EKCrate | exists EKPhf | exists EKPrefix | exists EKTy | exists EKFn | exists EKConst ];
    exact H.
Qed.

Lemma emeta_dup_tfail it : emeta_dup (i_metas it) = true -> nok (tprops_of it).
Proof.
  intros H. apply emeta_dup_ex in H. destruct H as [k Hk].
  unfold tprops_of. destruct (negb _); [apply nok_err|].
  apply nok_bind_l. apply foldM_tp_step_nok with (k := k). right. exact Hk.
Qed.

Lemma unknown_style_tfail it : negb (forallb emeta_parse_ok (i_metas it)) = true -> nok (tprops_of it).
Proof. intros H. unfold tprops_of. rewrite H. apply nok_err. Qed.

(* -- enabled variants -- *)
Lemma enabled_ok_inv v : enabled_ok v = true -> exists p, vprops_of v = Ok p /\ vp_disabled p = false.
Proof.
  unfold enabled_ok. destruct (vprops_of v) as [p| |]; try discriminate.
  intros H. exists p. split; [reflexivity|]. apply negb_true_iff in H. exact H.
Qed.
Lemma vhas_ok v p : vprops_of v = Ok p -> forall f : vprops -> bool, vhas f v = f p.
Proof. intros H f. unfold vhas. rewrite H. reflexivity. Qed.
Lemma is_some_false {A} (o : option A) : negb (is_some o) = true -> o = None.
Proof. destruct o; [discriminate|reflexivity]. Qed.

(* RNonUnit *)
Lemma array_idents_nonunit vs idx :
  Exists (fun v => is_unit (v_fields v) = false) vs -> nok (array_idents idx vs).
Proof.
  intros H. apply array_idents_nok with (bad := fun v => is_unit (v_fields v) = false); [|exact H].
  intros v r i Hv. cbn [array_idents]. rewrite Hv. apply nok_err.
Qed.
Definition bad_tbl (v : variant) : Prop :=
  exists p, vprops_of v = Ok p /\ vp_disabled p = false /\ is_unit (v_fields v) = false.
Lemma table_loop_nonunit vs idx : Exists bad_tbl vs -> nok (table_loop idx vs).
Proof.
  intros H. apply table_loop_nok with (bad := bad_tbl); [|exact H].
  intros v r i (p & Hp & Hd & Hu). cbn [table_loop]. rewrite Hp. cbn [bind]. rewrite Hd, Hu.
  cbn [negb]. apply nok_err.
Qed.
#[local] Hint Resolve array_idents_nonunit table_loop_nonunit : nok.

Lemma rej_non_unit dv it : rule_applies RNonUnit dv it = true -> nok (outcome dv it).
Proof.
  cbn [rule_applies]. intros H. apply andb_true_iff in H. destruct H as [He H].
  apply enum_variants_enum in He.
  destruct dv; try discriminate H; cbn [outcome]; apply nok_forget; unfold_gen; rewrite ?He.
  - assert (Hex : Exists (fun v => is_unit (v_fields v) = false) (i_variants it)).
    { revert H. apply existsb_Exists. intros v Hv. apply negb_true_iff in Hv. exact Hv. }
    nk.
  - assert (Hex : Exists bad_tbl (i_variants it)).
    { revert H. apply existsb_Exists. intros v Hv. apply andb_true_iff in Hv. destruct Hv as [Hen Hu].
      apply enabled_ok_inv in Hen. destruct Hen as (p & Hp & Hd). apply negb_true_iff in Hu.
      exists p. auto. }
    nk.
Qed.

(* RTwoDefaults *)
Lemma fs_add_key_seen k t st : st_default_seen (fs_add_key k t st) = st_default_seen st.
Proof. unfold fs_add_key. destruct (shadowed k st || mem_str k (st_keys st)); reflexivity. Qed.
Lemma fs_add_arm_seen a st : st_default_seen (fs_add_arm a st) = st_default_seen st.
Proof. reflexivity. Qed.
Lemma fs_serialization_seen ph ci idx ps st lit :
  st_default_seen (fs_serialization ph ci idx ps st lit) = st_default_seen st.
Proof.
  unfold fs_serialization. destruct ph, ci; rewrite ?fs_add_arm_seen; unfold fs_add_ci; cbn [st_default_seen]; rewrite ?fs_add_key_seen; reflexivity.
Qed.
Lemma fold_ser_seen ph ci idx ps : forall l st,
  st_default_seen (fold_left (fs_serialization ph ci idx ps) l st) = st_default_seen st.
Proof.
  induction l as [|x r IH]; intros st; cbn [fold_left]; [reflexivity|].
  rewrite IH. apply fs_serialization_seen.
Qed.

Definition dflt (v : variant) : bool := enabled_ok v && vhas vp_default v.

Lemma fs_variant_seen tp st idx v st' :
  fs_variant tp st idx v = Ok st' ->
  (st_default_seen st = true -> st_default_seen st' = true /\ dflt v = false) /\
  (dflt v = true -> st_default_seen st' = true).
Proof.
  unfold fs_variant, dflt, enabled_ok, vhas. destruct (vprops_of v) as [p| |]; cbn [bind]; try discriminate.
  destruct (vp_disabled p); cbn [negb andb].
  - intros H; inversion H; subst st'. split; [auto|discriminate].
  - destruct (vp_default p).
    + destruct (st_default_seen st); [discriminate|].
      destruct (single_field (v_fields v)) as [[b|n b]|]; try discriminate;
        intros H; inversion H; subst st'; cbn [st_default_seen]; (split; [discriminate|reflexivity]).
    + destruct (fs_params p (v_fields v)); cbn [bind]; try discriminate.
      intros H; inversion H; subst st'. rewrite fold_ser_seen. split; [auto|discriminate].
Qed.

Lemma fs_loop_two_defaults tp : forall vs st idx,
  (st_default_seen st = true /\ 1 <= Reject.count_occ dflt vs) \/ 2 <= Reject.count_occ dflt vs ->
  nok (fs_loop tp st idx vs).
Proof.
  induction vs as [|v r IH]; intros st idx H.
  - unfold Reject.count_occ in H. cbn in H. lia.
  - cbn [fs_loop]. destruct (fs_variant tp st idx v) as [st'| |] eqn:Hv; cbn [bind]; [|apply nok_err|apply nok_panic].
    apply IH. apply fs_variant_seen in Hv. destruct Hv as [H1 H2].
    rewrite cocc_cons in H. destruct (dflt v) eqn:Hd.
    + left. split; [apply H2; reflexivity|].
      destruct H as [[Hs _]|H]; [apply H1 in Hs; destruct Hs; discriminate|lia].
    + destruct H as [[Hs Hc]|H]; [left; split; [apply H1, Hs|lia]|right; lia].
Qed.

Lemma rej_two_defaults dv it : rule_applies RTwoDefaults dv it = true -> nok (outcome dv it).
Proof.
  cbn [rule_applies]. intros H. apply andb_true_iff in H. destruct H as [He H].
  apply enum_variants_enum in He.
  destruct dv; try discriminate H; cbn [outcome]; apply nok_forget; unfold_gen; rewrite ?He.
  apply Nat.leb_le in H.
  assert (Hl : forall tp st idx, nok (fs_loop tp st idx (i_variants it)))
    by (intros; apply fs_loop_two_defaults; right; exact H).
  nk.
Qed.

(* RDefaultArity *)
Definition bad_fs_default (v : variant) : Prop :=
  exists p, vprops_of v = Ok p /\ vp_disabled p = false /\ vp_default p = true /\
            single_field (v_fields v) = None.
Lemma fs_loop_default_arity tp vs st idx : Exists bad_fs_default vs -> nok (fs_loop tp st idx vs).
Proof.
  intros H. apply fs_loop_nok with (bad := bad_fs_default); [|exact H].
  intros v st' i (p & Hp & Hd & Hdef & Hsf). unfold fs_variant. rewrite Hp. cbn [bind].
  rewrite Hd, Hdef, Hsf. destruct (st_default_seen st'); apply nok_err.
Qed.

Definition bad_disp_default (v : variant) : Prop :=
  exists p, vprops_of v = Ok p /\ vp_disabled p = false /\ vp_default p = true /\
            vp_transparent p = false /\ vp_to_string p = None /\ single_field (v_fields v) = None.
Lemma display_arms_default_arity tp vs idx : Exists bad_disp_default vs -> nok (display_arms tp idx vs).
Proof.
  intros H. apply display_arms_nok with (bad := bad_disp_default); [|exact H].
  intros v r i (p & Hp & Hd & Hdef & Htr & Hts & Hsf). cbn [display_arms]. rewrite Hp. cbn [bind].
  rewrite Hd. unfold display_arm. rewrite Htr, Hts, Hdef, Hsf. cbn [is_some negb andb bind]. apply nok_err.
Qed.
#[local] Hint Resolve fs_loop_default_arity display_arms_default_arity : nok.

Lemma rej_default_arity dv it : rule_applies RDefaultArity dv it = true -> nok (outcome dv it).
Proof.
  cbn [rule_applies]. intros H. apply andb_true_iff in H. destruct H as [He H].
  apply enum_variants_enum in He.
  destruct dv; try discriminate H; cbn [outcome]; apply nok_forget; unfold_gen; rewrite ?He.
  - assert (Hex : Exists bad_fs_default (i_variants it)).
    { revert H. apply existsb_Exists. intros v Hv. rewrite !andb_true_iff in Hv.
      destruct Hv as [[Hen Hdef] Hsf].
      apply enabled_ok_inv in Hen. destruct Hen as (p & Hp & Hd).
      pose proof (vhas_ok _ _ Hp) as Hvh. rewrite Hvh in Hdef. apply is_some_false in Hsf.
      exists p. auto. }
    nk.
  - assert (Hex : Exists bad_disp_default (i_variants it)).
    { revert H. apply existsb_Exists. intros v Hv. rewrite !andb_true_iff in Hv.
      destruct Hv as [[[[Hen Hdef] Htr] Hts] Hsf].
      apply enabled_ok_inv in Hen. destruct Hen as (p & Hp & Hd).
      pose proof (vhas_ok _ _ Hp) as Hvh. rewrite Hvh in Hdef. rewrite Hvh in Htr. rewrite Hvh in Hts. apply negb_true_iff in Htr.
      apply is_some_false in Hsf. apply is_some_false in Hts.
      exists p. repeat split; assumption. }
    nk.
Qed.

(* RTransparentArity *)
Definition bad_transp (v : variant) : Prop :=
  exists p, vprops_of v = Ok p /\ vp_disabled p = false /\ vp_transparent p = true /\
            single_field (v_fields v) = None.
Lemma display_arms_transp tp vs idx : Exists bad_transp vs -> nok (display_arms tp idx vs).
Proof.
  intros H. apply display_arms_nok with (bad := bad_transp); [|exact H].
  intros v r i (p & Hp & Hd & Htr & Hsf). cbn [display_arms]. rewrite Hp. cbn [bind].
  rewrite Hd. unfold display_arm. rewrite Htr, Hsf. cbn [bind]. apply nok_err.
Qed.
Lemma asref_arms_transp tp vs idx : Exists bad_transp vs -> nok (asref_arms tp idx vs).
Proof.
  intros H. apply asref_arms_nok with (bad := bad_transp); [|exact H].
  intros v r i (p & Hp & Hd & Htr & Hsf). cbn [asref_arms]. rewrite Hp. cbn [bind].
  rewrite Hd, Htr, Hsf. cbn [bind]. apply nok_err.
Qed.
#[local] Hint Resolve display_arms_transp asref_arms_transp : nok.

Lemma rej_transparent_arity dv it : rule_applies RTransparentArity dv it = true -> nok (outcome dv it).
Proof.
  cbn [rule_applies]. intros H. apply andb_true_iff in H. destruct H as [He H].
  apply enum_variants_enum in He.
  destruct dv; try discriminate H; cbn [outcome]; apply nok_forget; unfold_gen; rewrite ?He;
  (assert (Hex : Exists bad_transp (i_variants it));
   [ revert H; apply existsb_Exists; intros v Hv; rewrite !andb_true_iff in Hv;
     destruct Hv as [[Hen Htr] Hsf];
     apply enabled_ok_inv in Hen; destruct Hen as (p & Hp & Hd);
     pose proof (vhas_ok _ _ Hp) as Hvh; rewrite Hvh in Htr; apply is_some_false in Hsf;
     exists p; auto
   | nk ]).
Qed.

(* RUnitPlaceholder *)
Definition bad_unit (tp : tprops) (v : variant) : Prop :=
  exists p, vprops_of v = Ok p /\ vp_disabled p = false /\ v_fields v = FUnit /\ vp_transparent p = false /\
            negb (is_some (vp_to_string p)) && vp_default p = false /\
            (forall l, capture (preferred_name (tp_style tp) (tp_prefix tp) p) = Ok l -> l <> []).
Lemma display_arms_unit tp vs idx : Exists (bad_unit tp) vs -> nok (display_arms tp idx vs).
Proof.
  intros H. apply display_arms_nok with (bad := bad_unit tp); [|exact H].
  intros v r i (p & Hp & Hd & Hu & Htr & Hdef & Hcap). cbn [display_arms]. rewrite Hp. cbn [bind].
  rewrite Hd. unfold display_arm. rewrite Htr, Hdef, Hu.
  destruct (capture _) as [l| |] eqn:Hc; cbn [bind]; [|apply nok_err|apply nok_panic].
  destruct l as [|x l]; [elim (Hcap _ eq_refl); reflexivity|]. cbn [bind]. apply nok_err.
Qed.
#[local] Hint Resolve display_arms_unit : nok.

Lemma rej_unit_placeholder dv it : rule_applies RUnitPlaceholder dv it = true -> nok (outcome dv it).
Proof.
  cbn [rule_applies]. intros H. apply andb_true_iff in H. destruct H as [He H].
  apply enum_variants_enum in He.
  destruct dv; try discriminate H; try (destruct (tprops_of it); discriminate H).
  destruct (tprops_of it) as [tp| |] eqn:Htp; try discriminate H.
  cbn [outcome]; apply nok_forget; unfold_gen; rewrite ?He.
  assert (Hex : Exists (bad_unit tp) (i_variants it)).
  { revert H. apply existsb_Exists. intros v Hv. rewrite !andb_true_iff in Hv.
    destruct Hv as [[[[Hen Hu] Htr] Hdef] Hcap].
    apply enabled_ok_inv in Hen. destruct Hen as (p & Hp & Hd).
    pose proof (vhas_ok _ _ Hp) as Hvh. rewrite Hvh in Htr. rewrite !Hvh in Hdef. rewrite Hvh in Hcap. apply negb_true_iff in Htr. apply negb_true_iff in Hdef.
    exists p. repeat split; try assumption.
    - destruct (v_fields v); [reflexivity|discriminate|discriminate].
    - rewrite andb_comm. exact Hdef.
    - intros l Hl. rewrite Hl in Hcap. destruct l; [discriminate|discriminate]. }
  nk.
Qed.

(* ROneParseErr *)
Lemma rej_one_parse_err dv it : rule_applies ROneParseErr dv it = true -> nok (outcome dv it).
Proof.
  cbn [rule_applies]. intros H. apply andb_true_iff in H. destruct H as [He H].
  apply enum_variants_enum in He.
  destruct dv; try discriminate H; try (destruct (tprops_of it); discriminate H).
  destruct (tprops_of it) as [tp| |] eqn:Htp; try discriminate H.
  cbn [outcome]; apply nok_forget; unfold_gen; rewrite ?He. cbn [bind]. rewrite Htp. cbn [bind].
  destruct (tp_err_ty tp), (tp_err_fn tp); try discriminate H; cbn [bind]; apply nok_err.
Qed.

(* RBadPropLiteral *)
Lemma bucket_nok : forall kvs,
  existsb (fun kv : str * lit => match snd kv with LOther => true | _ => false end) kvs = true -> nok (bucket kvs).
Proof.
  induction kvs as [|[k l] r IH]; cbn [existsb snd]; [discriminate|].
  intros H. cbn [bucket]. destruct l; cbn [orb] in H; try apply nok_err; apply nok_bind_l, IH, H.
Qed.
Definition bad_prop (v : variant) : Prop :=
  exists p, vprops_of v = Ok p /\ vp_disabled p = false /\ nok (bucket (vp_props p)).
Lemma props_loop_bad vs idx : Exists bad_prop vs -> nok (props_loop idx vs).
Proof.
  intros H. apply props_loop_nok with (bad := bad_prop); [|exact H].
  intros v r i (p & Hp & Hd & Hb). cbn [props_loop]. rewrite Hp. cbn [bind]. rewrite Hd.
  apply nok_bind_l, Hb.
Qed.
#[local] Hint Resolve props_loop_bad : nok.

Lemma rej_bad_prop dv it : rule_applies RBadPropLiteral dv it = true -> nok (outcome dv it).
Proof.
  cbn [rule_applies]. intros H. apply andb_true_iff in H. destruct H as [He H].
  apply enum_variants_enum in He.
  destruct dv; try discriminate H; cbn [outcome]; apply nok_forget; unfold_gen; rewrite ?He.
  assert (Hex : Exists bad_prop (i_variants it)).
  { revert H. apply existsb_Exists. intros v Hv. rewrite !andb_true_iff in Hv.
    destruct Hv as [Hen Hb].
    apply enabled_ok_inv in Hen. destruct Hen as (p & Hp & Hd).
    rewrite (vhas_ok _ _ Hp) in Hb. exists p. repeat split; try assumption. apply bucket_nok, Hb. }
  nk.
Qed.

(* -- assembly -- *)
Lemma rejects_nok r dv it : rule_applies r dv it = true -> nok (outcome dv it).
Proof.
  destruct r.
  - cbn [rule_applies]. intros H. apply negb_true_iff in H. apply rej_non_enum, H.
  - apply rej_non_unit.
  - cbn [rule_applies]. intros H. apply andb_true_iff in H. destruct H as [Hl Hdv].
    apply rej_lifetime; assumption.
  - cbn [rule_applies]. intros H. rewrite !andb_true_iff in H. destruct H as [[He Hr] Hex].
    apply rej_vfail; try assumption.
    revert Hex. apply existsb_Exists. intros v. apply vmeta_dup_vfail.
  - cbn [rule_applies]. intros H. rewrite !andb_true_iff in H. destruct H as [[He Hr] Hd].
    apply rej_tfail; try assumption. apply emeta_dup_tfail, Hd.
  - apply rej_two_defaults.
  - apply rej_default_arity.
  - apply rej_transparent_arity.
  - apply rej_unit_placeholder.
  - cbn [rule_applies]. intros H. rewrite !andb_true_iff in H. destruct H as [[He Hr] Hd].
    apply rej_tfail; try assumption. apply unknown_style_tfail, Hd.
  - apply rej_one_parse_err.
  - apply rej_bad_prop.
Qed.

Lemma C20_rejects_proof : stmt_C20_rejects.
Proof.
  unfold stmt_C20_rejects. intros r dv it H.
  apply nok_np_err; [apply (rejects_nok r), H|apply np_outcome].
Qed.

Print Assumptions C20_rejects_proof.
Print Assumptions C20_no_panic_proof.
Print Assumptions C20_dup_variant_attr_iff_proof.
